/-
  Lemmas for the recurrence-rule model (C19).  Built on, not duplicating:
    * C03 (ICal.Props.C03): `int_rt`, `month_rt`, `decode_grammar_weekday`, `frequency_rt`, `date_grammar`,
      `datetime_grammar`, `ddd_dispatch_date`, `ddd_dispatch_datetime`, and the value grammars;
    * C07 (ICal.Props.C07): `escape_tokens`, `text_roundtrip` for text-typed parts;
    * C17 (ICal.Lemmas.CDict): `canonsort_spec'`, `canonsort_perm'`, `canonsort_perm_keys`, `cdInit_self`,
      `odSetAll_nodup`, `upper_idem'`;
    * `splitOnChar_append`, `splitOnChar_nosep` (ICal.Lemmas.Codec).
  Definitions used in the statements of Props/C19.lean live here: `valText`, `partOk`, `ItemOk`,
  `RecurDomain`, `pairText`, `encode`, `rfcValOk`, `GrammarDomain`.
-/
import ICal.Model.Recur
import ICal.Lemmas.CDict
import ICal.Props.C03
import ICal.Props.C07
set_option linter.unusedSimpArgs false
set_option linter.unusedVariables false
namespace ICal.Recur
open ICal.Codec ICal.CDict

/-! ## tables (regenerated from prop.py on every run): small `decide` bridges -/

theorem types_table : recurTypesTable = Gen.recurTypes := by decide

theorem order_nodup : Gen.recurCanonicalOrder.Nodup := by decide

/-- RSCALE, then FREQ, head the canonical order of the class -/
theorem order_head :
    Gen.recurCanonicalOrder =
      ['R', 'S', 'C', 'A', 'L', 'E'] :: ['F', 'R', 'E', 'Q'] :: Gen.recurCanonicalOrder.drop 2 := by decide

theorem order_tail_no_freq :
    ['F', 'R', 'E', 'Q'] ∉ Gen.recurCanonicalOrder.drop 2 ∧ ['R', 'S', 'C', 'A', 'L', 'E'] ∉ Gen.recurCanonicalOrder.drop 2 := by
  decide

/-! ## the characters that structure a RECUR text -/

def cleanC (c : Char) : Bool := c != ',' && c != ';' && c != '='

/-- no `,` `;` `=` -/
def Clean (t : Str) : Prop := ∀ c ∈ t, cleanC c = true

theorem Clean.no_comma {t : Str} (h : Clean t) : ',' ∉ t := fun hm => by
  have := h _ hm; revert this; decide
theorem Clean.no_semi {t : Str} (h : Clean t) : ';' ∉ t := fun hm => by
  have := h _ hm; revert this; decide
theorem Clean.no_eq {t : Str} (h : Clean t) : '=' ∉ t := fun hm => by
  have := h _ hm; revert this; decide

theorem Clean.append {a b : Str} (ha : Clean a) (hb : Clean b) : Clean (a ++ b) := by
  intro c hc
  rcases List.mem_append.1 hc with h | h
  · exact ha c h
  · exact hb c h

theorem Clean.cons {c : Char} {t : Str} (hc : cleanC c = true) (ht : Clean t) : Clean (c :: t) := by
  intro x hx
  rcases List.mem_cons.1 hx with rfl | h
  · exact hc
  · exact ht x h

theorem Clean.nil : Clean [] := by intro c hc; cases hc

theorem cleanC_digit (c : Char) (h : isDigit c = true) : cleanC c = true := by
  have h1 := isDigit_ne c ',' h
  have h2 := isDigit_ne c ';' h
  have h3 := isDigit_ne c '=' h
  simp [cleanC, h1, h2, h3]

theorem clean_digits (s : Str) (h : ∀ c ∈ s, isDigit c = true) : Clean s :=
  fun c hc => cleanC_digit c (h c hc)

theorem clean_natToStr (n : Nat) : Clean (natToStr n) := clean_digits _ (natToStr_digits n)

theorem clean_intToStr (z : Int) : Clean (intToStr z) := by
  unfold intToStr
  split
  · exact Clean.cons (by decide) (clean_natToStr _)
  · exact clean_natToStr _

theorem cleanC_dtChar (c : Char) (h : dtChar c = true) : cleanC c = true := by
  unfold dtChar at h
  simp only [Bool.or_eq_true, beq_iff_eq] at h
  rcases h with (h | rfl) | rfl
  · exact cleanC_digit c h
  · decide
  · decide

theorem clean_of_all {t : Str} (h : t.all cleanC = true) : Clean t := fun c hc => List.all_eq_true.1 h c hc

/-! ## `split` undoes `join` -/

theorem split_join (sep : Char) (xs : List Str) (hne : xs ≠ []) (h : ∀ x ∈ xs, sep ∉ x) :
    splitOnChar sep (joinWith [sep] xs) = xs := by
  induction xs with
  | nil => exact absurd rfl hne
  | cons x rest ih =>
    cases rest with
    | nil =>
      simp only [joinWith]
      exact splitOnChar_nosep sep x (h x (by simp))
    | cons y ys =>
      have e : joinWith [sep] (x :: y :: ys) = x ++ sep :: joinWith [sep] (y :: ys) := by
        simp [joinWith]
      rw [e, splitOnChar_append sep x _ (h x (by simp)), ih (by simp) (fun z hz => h z (by simp [hz]))]

theorem mem_joinWith (sep c : Char) (xs : List Str) (h : c ∈ joinWith [sep] xs) :
    c = sep ∨ ∃ x ∈ xs, c ∈ x := by
  induction xs with
  | nil => simp [joinWith] at h
  | cons x rest ih =>
    cases rest with
    | nil => simp only [joinWith] at h; exact Or.inr ⟨x, by simp, h⟩
    | cons y ys =>
      have e : joinWith [sep] (x :: y :: ys) = x ++ sep :: joinWith [sep] (y :: ys) := by
        simp [joinWith]
      rw [e] at h
      rcases List.mem_append.1 h with h1 | h1
      · exact Or.inr ⟨x, by simp, h1⟩
      · rcases List.mem_cons.1 h1 with h2 | h2
        · exact Or.inl h2
        · rcases ih h2 with h3 | ⟨z, hz, hc⟩
          · exact Or.inl h3
          · exact Or.inr ⟨z, by simp [hz], hc⟩

/-! ## `mapRes`, `mapOpt` -/

theorem mapRes_ok {α β : Type} (f : α → CRes β) (g : α → β) (l : List α) (h : ∀ a ∈ l, f a = .ok (g a)) :
    mapRes f l = .ok (l.map g) := by
  induction l with
  | nil => rfl
  | cons a as ih =>
    simp only [mapRes, h a (by simp), ih (fun b hb => h b (by simp [hb])), List.map_cons]

theorem mapRes_map {α β γ : Type} (f : β → CRes γ) (h : α → β) (l : List α) :
    mapRes f (l.map h) = mapRes (fun a => f (h a)) l := by
  induction l with
  | nil => rfl
  | cons a as ih => simp only [List.map_cons, mapRes, ih]

theorem mapOpt_ok {α β : Type} (f : α → Option β) (g : α → β) (l : List α) (h : ∀ a ∈ l, f a = some (g a)) :
    mapOpt f l = some (l.map g) := by
  induction l with
  | nil => rfl
  | cons a as ih =>
    simp only [mapOpt, h a (by simp), ih (fun b hb => h b (by simp [hb])), List.map_cons]

/-! ## one part value -/

/-- the text of a value (it does not depend on the key once the kinds match) -/
def valText : PartVal → Str
  | .int z => intTo z
  | .month n l => vMonthTo n l
  | .weekday t => upper t
  | .freq t => upper t
  | .until d => dddTo d
  | .skip t => escapeChar t
  | .text s => escapeChar s

/-- UNTIL values of the property: a date, a floating or a UTC date-time -/
def untilOk : DDD → Bool
  | .atom (.date d) => d.valid
  | .atom (.dt t) => t.valid
  | _ => false

/-- the exact round-trip domain of a text-typed value inside a RECUR text: none of `,` `;` `=` (the
    decoder splits on them before it unescapes) and already normalised (no CRLF, no backslash-N) -/
def textOk (s : Str) : Bool := s.all cleanC && decide (norm s = s)

def ctorOk (t : Str) : Bool :=
  match vWeekdayNew t with
  | .ok _ => true
  | .error _ => false

/-- the value is in the domain of the part class `ty`:
    vInt any integer; vMonth any month number >= 0, leap or not; vWeekday a string the constructor
    accepts whose upper-case form is an RFC `weekdaynum`; vFrequency one of the seven, in any case;
    UNTIL a valid date / date-time; vSkip a member; vText see `textOk` -/
def partOk : PType → PartVal → Bool
  | .int, .int _ => true
  | .month, .month n _ => decide (0 ≤ n)
  | .weekday, .weekday t => ctorOk t && weekdayText (upper t)
  | .freq, .freq t => frequencies.contains (upper t)
  | .ddd, .until d => untilOk d
  | .skip, .skip t => skipValues.contains t
  | .text, .text s => textOk s
  | _, _ => false

theorem vWeekdayNew_cases (s : Str) :
    (∃ wd rel, vWeekdayNew s = .ok ⟨s, wd, rel⟩) ∨ vWeekdayNew s = .error .valueError := by
  unfold vWeekdayNew
  extract_lets sr body
  split
  · split
    · split
      · exact Or.inl ⟨_, _, rfl⟩
      · exact Or.inr rfl
    · exact Or.inr rfl
  · exact Or.inr rfl

theorem vWeekdayNew_text {s : Str} {w : WeekdayV} (h : vWeekdayNew s = .ok w) : w.text = s := by
  rcases vWeekdayNew_cases s with ⟨wd, rel, e⟩ | e
  · rw [e] at h; cases h; rfl
  · rw [e] at h; cases h

theorem skip_table :
    skipValues.all (fun t => escapeChar t == t && unescapeChar t == t && t.all cleanC) = true := by decide

theorem skip_facts {t : Str} (h : skipValues.contains t = true) :
    escapeChar t = t ∧ unescapeChar t = t ∧ Clean t := by
  have hm : t ∈ skipValues := by simpa using h
  have := List.all_eq_true.1 skip_table t hm
  simp only [Bool.and_eq_true, beq_iff_eq] at this
  exact ⟨this.1.1, this.1.2, clean_of_all this.2⟩

theorem freq_table : frequencies.all (fun s => s.all cleanC) = true := by decide

theorem escapeChar_of_norm {s : Str} (h : norm s = s) : escapeChar s = s.flatMap escC := by
  rw [ICal.C07.escape_tokens, h]

theorem clean_escC (d : Char) (h : cleanC d = true) : Clean (escC d) := by
  have h2 : d ≠ ';' := by intro e; subst e; revert h; decide
  have h3 : d ≠ ',' := by intro e; subst e; revert h; decide
  unfold escC
  split
  · exact Clean.cons (by decide) (Clean.cons (by decide) Clean.nil)
  · split
    · exact Clean.cons (by decide) (Clean.cons (by decide) Clean.nil)
    · exact Clean.cons h Clean.nil

theorem clean_text {s : Str} (h : textOk s = true) : Clean (escapeChar s) := by
  simp only [textOk, Bool.and_eq_true, decide_eq_true_eq] at h
  rw [escapeChar_of_norm h.2]
  intro c hc
  obtain ⟨d, hd, hcd⟩ := List.mem_flatMap.1 hc
  exact clean_escC d (List.all_eq_true.1 h.1 d hd) c hcd

theorem weekdayText_some {t : Str} (h : weekdayText t = true) : ∃ i r, rfcWeekdayNum t = some (i, r) := by
  unfold weekdayText at h
  obtain ⟨⟨i, r⟩, hv⟩ := Option.isSome_iff_exists.1 h
  exact ⟨i, r, hv⟩

theorem clean_weekday {t : Str} (h : weekdayText t = true) : Clean t := by
  obtain ⟨i, r, hv⟩ := weekdayText_some h
  obtain ⟨sgn, rel, wd, rfl, hs, _, hd, hw, _, _⟩ := rfcWeekdayNum_inv hv
  refine Clean.append (Clean.append ?_ (clean_digits rel hd)) ?_
  · rcases hs with rfl | rfl | rfl
    · exact Clean.nil
    · exact Clean.cons (by decide) Clean.nil
    · exact Clean.cons (by decide) Clean.nil
  · rcases mem_weekDays hw with rfl | rfl | rfl | rfl | rfl | rfl | rfl <;>
      exact Clean.cons (by decide) (Clean.cons (by decide) Clean.nil)

theorem clean_date (d : PDate) (h : d.valid = true) : Clean (vDateTo d) := by
  obtain ⟨y, m, dd⟩ := d
  have hv : validDate y m dd = true := h
  obtain ⟨hy, hm, hd⟩ := validDate_bounds hv
  rw [vDateTo_eq y m dd hy hm hd]
  exact fun c hc => cleanC_dtChar c (dtChars_dateChars y m dd hy hm hd c hc)

theorem clean_datetime (v : PDateTime) (hv : v.valid = true) : Clean (vDatetimeTo v) := by
  rw [vDatetimeTo_eq v hv]
  obtain ⟨⟨y, m, d⟩, h, mi, s, z⟩ := v
  simp only [PDateTime.valid, PDate.valid, Bool.and_eq_true] at hv
  obtain ⟨hy, hm, hd⟩ := validDate_bounds hv.1
  obtain ⟨hh, hmi, hs⟩ := validTime_bounds hv.2
  refine Clean.append (fun c hc => cleanC_dtChar c (dtChars_dateChars y m d hy hm hd c hc)) ?_
  refine Clean.cons (by decide) (Clean.append ?_ ?_)
  · exact fun c hc => cleanC_dtChar c (dtChars_hmsChars h mi s (by omega) (by omega) (by omega) c hc)
  · cases z
    · exact Clean.nil
    · exact Clean.cons (by decide) Clean.nil

/-- an encoded value never contains `,` `;` `=` -/
theorem clean_valText (ty : PType) (v : PartVal) (h : partOk ty v = true) : Clean (valText v) := by
  cases ty <;> cases v <;> simp only [partOk, Bool.false_eq_true] at h
  case int.int z => exact clean_intToStr z
  case month.month n l =>
    unfold valText vMonthTo
    refine Clean.append (clean_intToStr n) ?_
    cases l
    · exact Clean.nil
    · exact Clean.cons (by decide) Clean.nil
  case weekday.weekday t =>
    simp only [Bool.and_eq_true] at h
    exact clean_weekday h.2
  case freq.freq t =>
    have hm : upper t ∈ frequencies := by simpa using h
    exact clean_of_all (List.all_eq_true.1 freq_table _ hm)
  case ddd.until d =>
    unfold untilOk at h
    split at h
    · exact clean_date _ h
    · exact clean_datetime _ h
    · cases h
  case skip.skip t =>
    obtain ⟨h1, _, h3⟩ := skip_facts h
    show Clean (escapeChar t)
    rw [h1]; exact h3
  case text.text s => exact clean_text h

/-- `typ(val).to_ical()` succeeds with `valText` on the domain -/
theorem partTo_ok (ty : PType) (v : PartVal) (h : partOk ty v = true) : partTo ty v = .ok (valText v) := by
  cases ty <;> cases v <;> simp only [partOk, Bool.false_eq_true] at h
  case int.int z => rfl
  case month.month n l => rfl
  case weekday.weekday t =>
    simp only [Bool.and_eq_true] at h
    have hc := h.1
    unfold ctorOk at hc
    show Except.map vWeekdayTo (vWeekdayNew t) = _
    split at hc
    · next w hw =>
      rw [hw]
      show Except.ok (vWeekdayTo w) = _
      unfold vWeekdayTo
      rw [vWeekdayNew_text hw]; rfl
    · cases hc
  case freq.freq t => simp only [partTo, h, if_true]; rfl
  case ddd.until d => rfl
  case skip.skip t => simp only [partTo, h, if_true]; rfl
  case text.text s => rfl

/-- decoding the text of a value gives the value as its class normalises it -/
theorem partFrom_valText (ty : PType) (v : PartVal) (h : partOk ty v = true) :
    partFrom ty (valText v) = .ok (normVal v) := by
  cases ty <;> cases v <;> simp only [partOk, Bool.false_eq_true] at h
  case int.int z =>
    show (intFrom (intTo z)).map PartVal.int = _
    rw [ICal.C03.int_rt]; rfl
  case month.month n l =>
    have hn : 0 ≤ n := by simpa using h
    obtain ⟨k, rfl⟩ := Int.eq_ofNat_of_zero_le hn
    show (vMonthFrom (vMonthTo (k : Int) l)).map (fun p => PartVal.month p.1 p.2) = _
    rw [ICal.C03.month_rt]; rfl
  case weekday.weekday t =>
    simp only [Bool.and_eq_true] at h
    obtain ⟨i, r, hv⟩ := weekdayText_some h.2
    obtain ⟨wd, _, hdec⟩ := ICal.C03.decode_grammar_weekday _ i r hv
    show (vWeekdayFrom (upper t)).map (fun w => PartVal.weekday w.text) = _
    rw [hdec]; rfl
  case freq.freq t =>
    have hm : upper t ∈ frequencies := by simpa using h
    have := ICal.C03.frequency_rt (upper t) hm
    unfold freqTo at this
    rw [upper_idem'] at this
    show (freqFrom (upper t)).map PartVal.freq = _
    rw [this]; rfl
  case ddd.until d =>
    unfold untilOk at h
    split at h
    · next pd =>
      have := (ICal.C03.ddd_dispatch_date _ pd (ICal.C03.date_grammar pd h)).2
      show (dddFrom (vDateTo pd)).map PartVal.until = _
      rw [this]; rfl
    · next pt =>
      have := (ICal.C03.ddd_dispatch_datetime _ pt (ICal.C03.datetime_grammar pt h)).2
      show (dddFrom (vDatetimeTo pt)).map PartVal.until = _
      rw [this]; rfl
    · cases h
  case skip.skip t =>
    obtain ⟨h1, h2, _⟩ := skip_facts h
    show partFrom PType.skip (escapeChar t) = _
    unfold partFrom
    simp only [h1, h2, h, if_true]
    rfl
  case text.text s =>
    simp only [textOk, Bool.and_eq_true, decide_eq_true_eq] at h
    have := ICal.C07.text_roundtrip s
    unfold vTextFromIcal vTextToIcal at this
    show Except.ok (PartVal.text (unescapeChar (escapeChar s))) = _
    rw [this, h.2]; rfl

theorem valText_normVal (v : PartVal) : valText (normVal v) = valText v := by
  cases v <;> simp [normVal, valText, upper_idem']

/-! ## one rule part `KEY=v1,v2,...` -/

/-- a key with its value list is in the domain: the key holds no `=` `;` and is stored upper-cased,
    the list is not empty, every value is in the domain of the class the key selects -/
def ItemOk (kv : Str × List PartVal) : Prop :=
  '=' ∉ kv.1 ∧ ';' ∉ kv.1 ∧ upper kv.1 = kv.1 ∧ kv.2 ≠ [] ∧ ∀ v ∈ kv.2, partOk (recurTypeOf kv.1) v = true

/-- the text of one part -/
def pairText (kv : Str × List PartVal) : Str := kv.1 ++ '=' :: joinWith [','] (kv.2.map valText)

def normItem (kv : Str × List PartVal) : Str × List PartVal := (kv.1, kv.2.map normVal)

theorem pairTo_ok (kv : Str × List PartVal) (h : ItemOk kv) : pairTo kv.1 kv.2 = .ok (pairText kv) := by
  unfold pairTo
  rw [mapRes_ok _ valText kv.2 (fun v hv => partTo_ok _ v (h.2.2.2.2 v hv))]
  rfl

theorem valTexts_clean (kv : Str × List PartVal) (h : ItemOk kv) : ∀ x ∈ kv.2.map valText, Clean x := by
  intro x hx
  obtain ⟨v, hv, rfl⟩ := List.mem_map.1 hx
  exact clean_valText _ v (h.2.2.2.2 v hv)

theorem split_pairText (kv : Str × List PartVal) (h : ItemOk kv) :
    splitOnChar '=' (pairText kv) = [kv.1, joinWith [','] (kv.2.map valText)] := by
  unfold pairText
  rw [splitOnChar_append '=' kv.1 _ h.1, splitOnChar_nosep]
  intro hm
  rcases mem_joinWith ',' '=' _ hm with e | ⟨x, hx, hc⟩
  · revert e; decide
  · exact (valTexts_clean kv h x hx).no_eq hc

theorem pairText_no_semi (kv : Str × List PartVal) (h : ItemOk kv) : ';' ∉ pairText kv := by
  unfold pairText
  intro hm
  rcases List.mem_append.1 hm with h1 | h1
  · exact h.2.1 h1
  · rcases List.mem_cons.1 h1 with e | h2
    · revert e; decide
    · rcases mem_joinWith ',' ';' _ h2 with e | ⟨x, hx, hc⟩
      · revert e; decide
      · exact (valTexts_clean kv h x hx).no_semi hc

theorem parseType_join (kv : Str × List PartVal) (h : ItemOk kv) :
    parseType kv.1 (joinWith [','] (kv.2.map valText)) = .ok (kv.2.map normVal) := by
  unfold parseType
  rw [split_join ',' _ (by simpa using h.2.2.2.1) (fun x hx => (valTexts_clean kv h x hx).no_comma), mapRes_map]
  exact mapRes_ok _ normVal kv.2 (fun v hv => partFrom_valText _ v (h.2.2.2.2 v hv))

/-- the decoder loop on the texts of in-domain parts: one assignment per part -/
theorem recurFromGo_pairs (items : List (Str × List PartVal)) (h : ∀ kv ∈ items, ItemOk kv) (m : Rule) :
    recurFromGo (items.map pairText) m = .ok (odSetAll m (items.map normItem)) := by
  induction items generalizing m with
  | nil => rfl
  | cons kv rest ih =>
    have hk := h kv (by simp)
    simp only [List.map_cons, recurFromGo, split_pairText kv hk, parseType_join kv hk]
    rw [ih (fun x hx => h x (by simp [hx]))]
    simp only [odSetAll, List.foldl_cons, cdSetitem, normItem, hk.2.2.1]

/-! ## `sorted_items` of a well-formed dictionary -/

theorem mem_sortedItems {V : Type} {s : Store V} {order : List Str} (hinv : Inv upper s) {kv : Str × V}
    (h : kv ∈ cdSortedItems upper s order) : kv ∈ s := by
  unfold cdSortedItems at h
  obtain ⟨k, hk, hv⟩ := List.mem_filterMap.1 h
  have hks : k ∈ odKeys s := (mem_canonsort _ _ k).1 hk
  rw [hinv.2 k hks] at hv
  cases hg : odGet s k with
  | none => rw [hg] at hv; cases hv
  | some v =>
    rw [hg] at hv
    cases hv
    exact mem_of_odGet s k v hg

theorem keys_filterMap {V : Type} (s : Store V) (l : List Str) (h : ∀ k ∈ l, k ∈ odKeys s) :
    odKeys (l.filterMap (fun k => (odGet s k).map (fun v => (k, v)))) = l := by
  induction l with
  | nil => rfl
  | cons k rest ih =>
    have hk := h k (by simp)
    cases hg : odGet s k with
    | none => exact absurd hk ((odGet_none s k).1 hg)
    | some v =>
      simp only [List.filterMap_cons, hg, Option.map_some, odKeys_cons]
      rw [ih (fun x hx => h x (by simp [hx]))]

theorem sortedItems_eq {V : Type} {s : Store V} (order : List Str) (hinv : Inv upper s) :
    cdSortedItems upper s order =
      (canonsort (odKeys s) order).filterMap (fun k => (odGet s k).map (fun v => (k, v))) := by
  unfold cdSortedItems
  apply filterMap_congr'
  intro k hk
  rw [hinv.2 k ((mem_canonsort _ _ k).1 hk)]

theorem keys_sortedItems {V : Type} {s : Store V} (order : List Str) (hinv : Inv upper s) :
    odKeys (cdSortedItems upper s order) = canonsort (odKeys s) order := by
  rw [sortedItems_eq order hinv]
  exact keys_filterMap s _ (fun k hk => (mem_canonsort _ _ k).1 hk)

theorem inv_sortedItems {V : Type} {s : Store V} (order : List Str) (hinv : Inv upper s) :
    Inv upper (cdSortedItems upper s order) := by
  constructor
  · rw [keys_sortedItems order hinv]
    exact (canonsort_perm_keys _ _).nodup_iff.2 hinv.1
  · intro k hk
    rw [keys_sortedItems order hinv] at hk
    exact hinv.2 k ((mem_canonsort _ _ k).1 hk)

theorem odGet_mapVals {V W : Type} (f : V → W) (s : Store V) (k : Str) :
    odGet (s.map (fun kv => (kv.1, f kv.2))) k = (odGet s k).map f := by
  induction s with
  | nil => rfl
  | cons p r ih =>
    obtain ⟨k', v⟩ := p
    by_cases e : k' = k
    · simp [odGet, e]
    · simp [odGet, e, ih]

theorem odKeys_mapVals {V W : Type} (f : V → W) (s : Store V) :
    odKeys (s.map (fun kv => (kv.1, f kv.2))) = odKeys s := by
  simp [odKeys, List.map_map, Function.comp_def]

/-- sorting commutes with a map on the values -/
theorem sortedItems_mapVals {V W : Type} (f : V → W) (s : Store V) (order : List Str) :
    cdSortedItems upper (s.map (fun kv => (kv.1, f kv.2))) order =
      (cdSortedItems upper s order).map (fun kv => (kv.1, f kv.2)) := by
  unfold cdSortedItems
  rw [odKeys_mapVals, List.map_filterMap]
  apply filterMap_congr'
  intro k _
  rw [odGet_mapVals]
  cases odGet s (upper k) <;> rfl

/-- sorting twice is sorting once -/
theorem sortedItems_idem {V : Type} {s : Store V} (order : List Str) (hinv : Inv upper s) :
    cdSortedItems upper (cdSortedItems upper s order) order = cdSortedItems upper s order := by
  have hinv' := inv_sortedItems order hinv
  rw [sortedItems_eq order hinv', keys_sortedItems order hinv,
    canonsort_perm' order _ _ (canonsort_perm_keys (odKeys s) order), sortedItems_eq order hinv]
  apply filterMap_congr'
  intro k hk
  have hks : k ∈ odKeys s := (mem_canonsort _ _ k).1 hk
  cases hg : odGet s k with
  | none => exact absurd hks ((odGet_none s k).1 hg)
  | some v =>
    have hm : (k, v) ∈ (canonsort (odKeys s) order).filterMap (fun k => (odGet s k).map (fun v => (k, v))) :=
      List.mem_filterMap.2 ⟨k, hk, by simp [hg]⟩
    rw [← sortedItems_eq order hinv] at hm ⊢
    rw [odGet_of_mem _ hinv'.1 k v hm]

/-! ## whole rules -/

/-- the domain of the round trip: the dictionary invariant (keys distinct and upper-cased - what
    `CaselessDict` maintains) and every part in its domain -/
def RecurDomain (r : Rule) : Prop := Inv upper r ∧ ∀ kv ∈ r, ItemOk kv

/-- the text `to_ical` writes for an in-domain rule -/
def encode (r : Rule) : Str := joinWith [';'] ((recurCanon r).map pairText)

theorem canon_items_ok {r : Rule} (h : RecurDomain r) : ∀ kv ∈ recurCanon r, ItemOk kv :=
  fun kv hkv => h.2 kv (mem_sortedItems h.1 hkv)

theorem recurTo_eq {r : Rule} (h : RecurDomain r) : recurTo r = .ok (encode r) := by
  unfold recurTo encode recurCanon
  rw [mapRes_ok (fun kv => pairTo kv.1 kv.2) pairText (recurItems r)
    (fun kv hkv => pairTo_ok kv (canon_items_ok h kv hkv))]
  rfl

theorem canon_normRule (r : Rule) : recurCanon (normRule r) = (recurCanon r).map normItem :=
  sortedItems_mapVals (fun vs : List PartVal => vs.map normVal) r Gen.recurCanonicalOrder

theorem canon_ne_nil {r : Rule} (hinv : Inv upper r) (hne : r ≠ []) : recurCanon r ≠ [] := by
  intro e
  have hk := keys_sortedItems Gen.recurCanonicalOrder hinv
  have hp := (canonsort_perm_keys (odKeys r) Gen.recurCanonicalOrder).length_eq
  unfold recurCanon recurItems at e
  rw [e] at hk
  rw [← hk] at hp
  cases r with
  | nil => exact hne rfl
  | cons a as => simp at hp

theorem split_encode {r : Rule} (h : RecurDomain r) (hne : r ≠ []) :
    splitOnChar ';' (encode r) = (recurCanon r).map pairText := by
  unfold encode
  apply split_join
  · simpa using canon_ne_nil h.1 hne
  · intro x hx
    obtain ⟨kv, hkv, rfl⟩ := List.mem_map.1 hx
    exact pairText_no_semi kv (canon_items_ok h kv hkv)

/-- `from_ical` on the text of an in-domain rule -/
theorem recurFrom_encode {r : Rule} (h : RecurDomain r) :
    recurFrom (encode r) = .ok (recurCanon (normRule r)) := by
  by_cases hne : r = []
  · subst hne
    have e : recurCanon ([] : Rule) = [] := by
      simp [recurCanon, recurItems, cdSortedItems, canonsort, odKeys]
    have e2 : normRule ([] : Rule) = [] := rfl
    rw [e2, e]
    unfold encode
    rw [e]
    decide
  · unfold recurFrom
    rw [split_encode h hne, recurFromGo_pairs _ (canon_items_ok h), canon_normRule]
    have hinv : Inv upper ((recurCanon r).map normItem) := by
      have := inv_sortedItems Gen.recurCanonicalOrder h.1
      have hk : odKeys ((recurCanon r).map normItem) = odKeys (recurCanon r) :=
        odKeys_mapVals (fun vs : List PartVal => vs.map normVal) (recurCanon r)
      exact ⟨by rw [hk]; exact this.1, by rw [hk]; exact this.2⟩
    rw [odSetAll_nodup _ hinv.1]
    show Except.ok (cdInit upper _) = _
    rw [cdInit_self upper_idem' hinv]

/-! ## normalised values stay in the domain -/

theorem ctorOk_of_weekdayText {t : Str} (h : weekdayText t = true) : ctorOk t = true := by
  obtain ⟨i, r, hv⟩ := weekdayText_some h
  obtain ⟨wd, _, hdec⟩ := ICal.C03.decode_grammar_weekday t i r hv
  have hu : upper t = t := rfcWeekdayNum_upper hv
  unfold vWeekdayFrom at hdec
  rw [hu] at hdec
  unfold ctorOk
  rw [hdec]

theorem partOk_normVal (ty : PType) (v : PartVal) (h : partOk ty v = true) : partOk ty (normVal v) = true := by
  cases ty <;> cases v <;> simp only [partOk, Bool.false_eq_true] at h <;> first | exact h | rfl | skip
  case weekday.weekday t =>
    simp only [Bool.and_eq_true] at h
    simp only [normVal, partOk, upper_idem', Bool.and_eq_true]
    exact ⟨ctorOk_of_weekdayText h.2, h.2⟩
  case freq.freq t =>
    simp only [normVal, partOk, upper_idem']
    exact h

theorem itemOk_normItem (kv : Str × List PartVal) (h : ItemOk kv) : ItemOk (normItem kv) := by
  refine ⟨h.1, h.2.1, h.2.2.1, ?_, ?_⟩
  · simpa [normItem] using h.2.2.2.1
  · intro v hv
    obtain ⟨w, hw, rfl⟩ := List.mem_map.1 hv
    exact partOk_normVal _ w (h.2.2.2.2 w hw)

theorem pairText_normItem (kv : Str × List PartVal) : pairText (normItem kv) = pairText kv := by
  simp [pairText, normItem, List.map_map, Function.comp_def, valText_normVal]

/-- the decoded rule is again in the domain -/
theorem domain_decoded {r : Rule} (h : RecurDomain r) : RecurDomain (recurCanon (normRule r)) := by
  rw [canon_normRule]
  have hinv := inv_sortedItems Gen.recurCanonicalOrder h.1
  have hk : odKeys ((recurCanon r).map normItem) = odKeys (recurCanon r) :=
    odKeys_mapVals (fun vs : List PartVal => vs.map normVal) (recurCanon r)
  refine ⟨⟨by rw [hk]; exact hinv.1, by rw [hk]; exact hinv.2⟩, ?_⟩
  intro kv hkv
  obtain ⟨x, hx, rfl⟩ := List.mem_map.1 hkv
  exact itemOk_normItem x (canon_items_ok h x hx)

theorem encode_decoded {r : Rule} (h : RecurDomain r) : encode (recurCanon (normRule r)) = encode r := by
  unfold encode
  have e : recurCanon (recurCanon (normRule r)) = recurCanon (normRule r) := by
    have hn : Inv upper (normRule r) := by
      have hk : odKeys (normRule r) = odKeys r := odKeys_mapVals (fun vs : List PartVal => vs.map normVal) r
      exact ⟨by rw [hk]; exact h.1.1, by rw [hk]; exact h.1.2⟩
    exact sortedItems_idem Gen.recurCanonicalOrder hn
  rw [e, canon_normRule, List.map_map]
  congr 1
  apply List.map_congr_left
  intro kv _
  exact pairText_normItem kv

/-! ## FREQ first -/

def FREQ : Str := ['F', 'R', 'E', 'Q']
def RSCALE : Str := ['R', 'S', 'C', 'A', 'L', 'E']

theorem partNames_encode {r : Rule} (h : RecurDomain r) (hne : r ≠ []) :
    partNames (encode r) = odKeys (recurCanon r) := by
  unfold partNames
  rw [split_encode h hne, List.map_map]
  unfold odKeys
  apply List.map_congr_left
  intro kv hkv
  simp only [Function.comp_def, split_pairText kv (canon_items_ok h kv hkv), List.headD_cons]

/-- `canonsort_keys` with the order of the class puts FREQ first, or RSCALE first and FREQ second -/
theorem freqFirst_canonsort (keys : List Str) (hk : keys.Nodup) (hf : FREQ ∈ keys) :
    freqFirstNames (canonsort keys Gen.recurCanonicalOrder) = true := by
  rw [canonsort_spec' keys _ hk, dedupLast_of_nodup _ order_nodup]
  obtain ⟨tl, htl⟩ : ∃ tl, Gen.recurCanonicalOrder = RSCALE :: FREQ :: tl := ⟨_, order_head⟩
  rw [htl]
  have hf' : (['F', 'R', 'E', 'Q'] : Str) ∈ keys := hf
  by_cases hr : (['R', 'S', 'C', 'A', 'L', 'E'] : Str) ∈ keys
  · simp [List.filter_cons, hf', hr, freqFirstNames, FREQ, RSCALE]
  · simp [List.filter_cons, hf', hr, freqFirstNames, FREQ, RSCALE]

theorem freqFirst_encode {r : Rule} (h : RecurDomain r) (hf : FREQ ∈ odKeys r) :
    freqFirstNames (partNames (encode r)) = true := by
  have hne : r ≠ [] := by intro e; subst e; simp at hf
  rw [partNames_encode h hne]
  show freqFirstNames (odKeys (cdSortedItems upper r Gen.recurCanonicalOrder)) = true
  rw [keys_sortedItems _ h.1]
  exact freqFirst_canonsort _ h.1.1 hf

/-! ## the RECUR grammar -/

def intRange (signed : Bool) (lo hi : Nat) : PartVal → Bool
  | .int z => (signed || decide (0 ≤ z)) && decide (lo ≤ z.natAbs) && decide (z.natAbs ≤ hi)
  | _ => false

/-- the typed value is one RFC 5545 / RFC 7529 allows for the rule part named `k` (ranges of the
    ABNF comments: seconds 0-60, minutes 0-59, hours 0-23, month days and week numbers signed,
    year days and set positions 1-366 signed, months 1-12 with optional leap suffix) -/
def rfcValOk (k : Str) (v : PartVal) : Bool :=
  if k = ['F', 'R', 'E', 'Q'] then (match v with | .freq t => frequencies.contains (upper t) | _ => false)
  else if k = ['U', 'N', 'T', 'I', 'L'] then (match v with | .until d => untilOk d | _ => false)
  else if k = ['C', 'O', 'U', 'N', 'T'] then (match v with | .int z => decide (0 ≤ z) | _ => false)
  else if k = ['I', 'N', 'T', 'E', 'R', 'V', 'A', 'L'] then (match v with | .int z => decide (0 ≤ z) | _ => false)
  else if k = ['B', 'Y', 'S', 'E', 'C', 'O', 'N', 'D'] then intRange false 0 60 v
  else if k = ['B', 'Y', 'M', 'I', 'N', 'U', 'T', 'E'] then intRange false 0 59 v
  else if k = ['B', 'Y', 'H', 'O', 'U', 'R'] then intRange false 0 23 v
  else if k = ['B', 'Y', 'D', 'A', 'Y'] then (match v with | .weekday t => weekdayText (upper t) | _ => false)
  else if k = ['B', 'Y', 'M', 'O', 'N', 'T', 'H', 'D', 'A', 'Y'] then intRange true 1 31 v
  else if k = ['B', 'Y', 'Y', 'E', 'A', 'R', 'D', 'A', 'Y'] then intRange true 1 366 v
  else if k = ['B', 'Y', 'W', 'E', 'E', 'K', 'N', 'O'] then intRange true 1 53 v
  else if k = ['B', 'Y', 'M', 'O', 'N', 'T', 'H'] then (match v with | .month n _ => decide (1 ≤ n ∧ n ≤ 12) | _ => false)
  else if k = ['B', 'Y', 'S', 'E', 'T', 'P', 'O', 'S'] then intRange true 1 366 v
  else if k = ['W', 'K', 'S', 'T'] then (match v with | .weekday t => weekDays.contains (upper t) | _ => false)
  else if k = ['R', 'S', 'C', 'A', 'L', 'E'] then (match v with | .text s => rfcIanaToken s | _ => false)
  else if k = ['S', 'K', 'I', 'P'] then (match v with | .skip t => skipValues.contains t | _ => false)
  else false

theorem natToStr_length (n : Nat) :
    (n < 10 → (natToStr n).length = 1) ∧ (n < 100 → (natToStr n).length ≤ 2) ∧ (n < 1000 → (natToStr n).length ≤ 3) := by
  refine ⟨fun h => by rw [natToStr_lt10 n h]; rfl, fun h => ?_, fun h => ?_⟩
  · by_cases h1 : n < 10
    · rw [natToStr_lt10 n h1]; simp
    · rw [natToStr_2 n (by omega) h]; simp
  · by_cases h1 : n < 10
    · rw [natToStr_lt10 n h1]; simp
    · by_cases h2 : n < 100
      · rw [natToStr_2 n (by omega) h2]; simp
      · rw [natToStr_3 n (by omega) h]; simp

theorem natToStr_head (n : Nat) : ∃ c cs, natToStr n = c :: cs ∧ isDigit c = true := by
  cases hs : natToStr n with
  | nil => exact absurd hs (natToStr_ne_nil n)
  | cons c cs => exact ⟨c, cs, rfl, natToStr_digits n c (by rw [hs]; simp)⟩

theorem rfcOrd_natToStr (signed : Bool) (md lo hi n : Nat) (hl : (natToStr n).length ≤ md) (h1 : lo ≤ n) (h2 : n ≤ hi) :
    rfcOrd signed md lo hi (natToStr n) = true := by
  obtain ⟨c, cs, hs, hc⟩ := natToStr_head n
  have hp : c ≠ '+' := isDigit_ne c '+' hc
  have hm : c ≠ '-' := isDigit_ne c '-' hc
  unfold rfcOrd
  have hh : ((natToStr n).head? == some '+' || (natToStr n).head? == some '-') = false := by
    rw [hs]; simp [hp, hm]
  simp only [hh, Bool.and_false, Bool.false_eq_true, if_false, isDigitStr_natToStr, ofDigits_natToStr,
    Bool.true_and, Bool.and_eq_true, decide_eq_true_eq]
  exact ⟨⟨hl, h1⟩, h2⟩

theorem rfcOrd_neg (md lo hi n : Nat) (hl : (natToStr n).length ≤ md) (h1 : lo ≤ n) (h2 : n ≤ hi) :
    rfcOrd true md lo hi ('-' :: natToStr n) = true := by
  unfold rfcOrd
  simp only [List.head?_cons, List.tail_cons, Bool.true_and, beq_self_eq_true, Bool.or_true, if_true,
    isDigitStr_natToStr, ofDigits_natToStr, Bool.and_eq_true, decide_eq_true_eq]
  exact ⟨⟨hl, h1⟩, h2⟩

theorem rfcOrd_intTo (signed : Bool) (md lo hi : Nat) (z : Int)
    (hmd : ∀ n, n ≤ hi → (natToStr n).length ≤ md) (h : intRange signed lo hi (.int z) = true) :
    rfcOrd signed md lo hi (intTo z) = true := by
  simp only [intRange, Bool.and_eq_true, Bool.or_eq_true, decide_eq_true_eq] at h
  obtain ⟨⟨hs, h1⟩, h2⟩ := h
  unfold intTo intToStr
  split
  · next hneg =>
    have : signed = true := by
      rcases hs with hs | hs
      · exact hs
      · omega
    subst this
    exact rfcOrd_neg md lo hi _ (hmd _ h2) h1 h2
  · exact rfcOrd_natToStr signed md lo hi _ (hmd _ h2) h1 h2

theorem len2 (hi : Nat) (h : hi < 100) : ∀ n, n ≤ hi → (natToStr n).length ≤ 2 :=
  fun n hn => (natToStr_length n).2.1 (by omega)
theorem len3 (hi : Nat) (h : hi < 1000) : ∀ n, n ≤ hi → (natToStr n).length ≤ 3 :=
  fun n hn => (natToStr_length n).2.2 (by omega)

theorem digits_nonneg (z : Int) (h : 0 ≤ z) : isDigitStr (intTo z) = true := by
  obtain ⟨n, rfl⟩ := Int.eq_ofNat_of_zero_le h
  unfold intTo
  rw [intToStr_nat]
  exact isDigitStr_natToStr n

theorem rep2_noop (a b : Char) (r : Str) (s : Str) (h : a ∉ s) : rep2 a b r s = s := by
  induction s with
  | nil => rfl
  | cons c cs ih =>
    have hc : c ≠ a := fun e => h (by simp [e])
    have hcs : a ∉ cs := fun hm => h (by simp [hm])
    cases cs with
    | nil => rfl
    | cons d ds =>
      simp only [rep2, hc, false_and, if_false]
      rw [ih hcs]

def tokenC (c : Char) : Bool := isDigit c || ('a' ≤ c && c ≤ 'z') || ('A' ≤ c && c ≤ 'Z') || c == '-'

theorem tokenC_ne (c d : Char) (h : tokenC c = true) (hd : tokenC d = false := by decide) : c ≠ d := by
  intro e; subst e; rw [h] at hd; cases hd

/-- an `iana-token` is written as itself -/
theorem escapeChar_token (s : Str) (h : ∀ c ∈ s, tokenC c = true) : escapeChar s = s := by
  have hbs : BS ∉ s := fun hm => tokenC_ne BS BS (h _ hm) (by decide) rfl
  have hcr : CR ∉ s := fun hm => tokenC_ne CR CR (h _ hm) (by decide) rfl
  have hn : norm s = s := by
    unfold norm
    rw [rep2_noop BS 'N' _ s hbs, rep2_noop CR LF _ s hcr]
  rw [escapeChar_of_norm hn]
  clear hbs hcr hn
  induction s with
  | nil => rfl
  | cons c cs ih =>
    have hc := h c (by simp)
    have e : escC c = [c] := by
      have h1 : c ≠ BS := tokenC_ne c BS hc (by decide)
      have h2 : c ≠ ';' := tokenC_ne c ';' hc
      have h3 : c ≠ ',' := tokenC_ne c ',' hc
      have h4 : c ≠ LF := tokenC_ne c LF hc (by decide)
      unfold escC
      rw [if_neg h1, if_neg h2, if_neg h3, if_neg h4]
    simp only [List.flatMap_cons, e, List.singleton_append]
    rw [ih (fun x hx => h x (by simp [hx]))]

theorem skip_grammar : skipValues.all (fun t => rfcSkip (escapeChar t)) = true := by decide


/-- the rule-part names of RFC 5545 section 3.3.10 and RFC 7529 -/
def rfcNames : List Str :=
  [['F', 'R', 'E', 'Q'],
   ['U', 'N', 'T', 'I', 'L'],
   ['C', 'O', 'U', 'N', 'T'],
   ['I', 'N', 'T', 'E', 'R', 'V', 'A', 'L'],
   ['B', 'Y', 'S', 'E', 'C', 'O', 'N', 'D'],
   ['B', 'Y', 'M', 'I', 'N', 'U', 'T', 'E'],
   ['B', 'Y', 'H', 'O', 'U', 'R'],
   ['B', 'Y', 'D', 'A', 'Y'],
   ['B', 'Y', 'M', 'O', 'N', 'T', 'H', 'D', 'A', 'Y'],
   ['B', 'Y', 'Y', 'E', 'A', 'R', 'D', 'A', 'Y'],
   ['B', 'Y', 'W', 'E', 'E', 'K', 'N', 'O'],
   ['B', 'Y', 'M', 'O', 'N', 'T', 'H'],
   ['B', 'Y', 'S', 'E', 'T', 'P', 'O', 'S'],
   ['W', 'K', 'S', 'T'],
   ['R', 'S', 'C', 'A', 'L', 'E'],
   ['S', 'K', 'I', 'P']]

theorem spec_none (k : Str) (h : k ∉ rfcNames) : rfcPartSpec k = none := by
  simp only [rfcNames, List.mem_cons, List.not_mem_nil, or_false, not_or] at h
  obtain ⟨h1, h2, h3, h4, h5, h6, h7, h8, h9, h10, h11, h12, h13, h14, h15, h16⟩ := h
  unfold rfcPartSpec
  rw [if_neg h1, if_neg h2, if_neg h3, if_neg h4, if_neg h5, if_neg h6, if_neg h7, if_neg h8, if_neg h9, if_neg h10, if_neg h11, if_neg h12, if_neg h13, if_neg h14, if_neg h15, if_neg h16]

theorem spec_FREQ : rfcPartSpec ['F', 'R', 'E', 'Q'] = some (false, freqText) := rfl
theorem valOk_FREQ (v : PartVal) : rfcValOk ['F', 'R', 'E', 'Q'] v = (match v with | .freq t => frequencies.contains (upper t) | _ => false) := rfl
theorem grammar_FREQ (v : PartVal) (hv : rfcValOk ['F', 'R', 'E', 'Q'] v = true) : (freqText) (valText v) = true := by
  rw [valOk_FREQ] at hv
  cases v <;> simp only [intRange, Bool.false_eq_true] at hv
  next t =>
      have hm : upper t ∈ frequencies := by simpa using hv
      have := ICal.C03.frequency_grammar (upper t) hm
      unfold freqTo at this
      rw [upper_idem'] at this
      show freqText (upper t) = true
      simp [freqText, this]

theorem spec_UNTIL : rfcPartSpec ['U', 'N', 'T', 'I', 'L'] = some (false, rfcEnddate) := rfl
theorem valOk_UNTIL (v : PartVal) : rfcValOk ['U', 'N', 'T', 'I', 'L'] v = (match v with | .until d => untilOk d | _ => false) := rfl
theorem grammar_UNTIL (v : PartVal) (hv : rfcValOk ['U', 'N', 'T', 'I', 'L'] v = true) : (rfcEnddate) (valText v) = true := by
  rw [valOk_UNTIL] at hv
  cases v <;> simp only [intRange, Bool.false_eq_true] at hv
  next d =>
      unfold untilOk at hv
      show rfcEnddate (dddTo d) = true
      unfold rfcEnddate
      split at hv
      · next pd =>
        have := ICal.C03.date_grammar_text pd hv
        simp only [dddTo, atomTo, this, Bool.true_or]
      · next pt =>
        have := ICal.C03.datetime_grammar pt hv
        simp only [dddTo, atomTo, dateTimeText, this, Option.isSome_some, Bool.or_true]
      · cases hv

theorem spec_COUNT : rfcPartSpec ['C', 'O', 'U', 'N', 'T'] = some (false, isDigitStr) := rfl
theorem valOk_COUNT (v : PartVal) : rfcValOk ['C', 'O', 'U', 'N', 'T'] v = (match v with | .int z => decide (0 ≤ z) | _ => false) := rfl
theorem grammar_COUNT (v : PartVal) (hv : rfcValOk ['C', 'O', 'U', 'N', 'T'] v = true) : (isDigitStr) (valText v) = true := by
  rw [valOk_COUNT] at hv
  cases v <;> simp only [intRange, Bool.false_eq_true] at hv
  next z => exact digits_nonneg z (by simpa using hv)

theorem spec_INTERVAL : rfcPartSpec ['I', 'N', 'T', 'E', 'R', 'V', 'A', 'L'] = some (false, isDigitStr) := rfl
theorem valOk_INTERVAL (v : PartVal) : rfcValOk ['I', 'N', 'T', 'E', 'R', 'V', 'A', 'L'] v = (match v with | .int z => decide (0 ≤ z) | _ => false) := rfl
theorem grammar_INTERVAL (v : PartVal) (hv : rfcValOk ['I', 'N', 'T', 'E', 'R', 'V', 'A', 'L'] v = true) : (isDigitStr) (valText v) = true := by
  rw [valOk_INTERVAL] at hv
  cases v <;> simp only [intRange, Bool.false_eq_true] at hv
  next z => exact digits_nonneg z (by simpa using hv)

theorem spec_BYSECOND : rfcPartSpec ['B', 'Y', 'S', 'E', 'C', 'O', 'N', 'D'] = some (true, rfcOrd false 2 0 60) := rfl
theorem valOk_BYSECOND (v : PartVal) : rfcValOk ['B', 'Y', 'S', 'E', 'C', 'O', 'N', 'D'] v = intRange false 0 60 v := rfl
theorem grammar_BYSECOND (v : PartVal) (hv : rfcValOk ['B', 'Y', 'S', 'E', 'C', 'O', 'N', 'D'] v = true) : (rfcOrd false 2 0 60) (valText v) = true := by
  rw [valOk_BYSECOND] at hv
  cases v <;> simp only [intRange, Bool.false_eq_true] at hv
  next z => exact rfcOrd_intTo false 2 0 60 z (len2 60 (by decide)) (by simpa [intRange] using hv)

theorem spec_BYMINUTE : rfcPartSpec ['B', 'Y', 'M', 'I', 'N', 'U', 'T', 'E'] = some (true, rfcOrd false 2 0 59) := rfl
theorem valOk_BYMINUTE (v : PartVal) : rfcValOk ['B', 'Y', 'M', 'I', 'N', 'U', 'T', 'E'] v = intRange false 0 59 v := rfl
theorem grammar_BYMINUTE (v : PartVal) (hv : rfcValOk ['B', 'Y', 'M', 'I', 'N', 'U', 'T', 'E'] v = true) : (rfcOrd false 2 0 59) (valText v) = true := by
  rw [valOk_BYMINUTE] at hv
  cases v <;> simp only [intRange, Bool.false_eq_true] at hv
  next z => exact rfcOrd_intTo false 2 0 59 z (len2 59 (by decide)) (by simpa [intRange] using hv)

theorem spec_BYHOUR : rfcPartSpec ['B', 'Y', 'H', 'O', 'U', 'R'] = some (true, rfcOrd false 2 0 23) := rfl
theorem valOk_BYHOUR (v : PartVal) : rfcValOk ['B', 'Y', 'H', 'O', 'U', 'R'] v = intRange false 0 23 v := rfl
theorem grammar_BYHOUR (v : PartVal) (hv : rfcValOk ['B', 'Y', 'H', 'O', 'U', 'R'] v = true) : (rfcOrd false 2 0 23) (valText v) = true := by
  rw [valOk_BYHOUR] at hv
  cases v <;> simp only [intRange, Bool.false_eq_true] at hv
  next z => exact rfcOrd_intTo false 2 0 23 z (len2 23 (by decide)) (by simpa [intRange] using hv)

theorem spec_BYDAY : rfcPartSpec ['B', 'Y', 'D', 'A', 'Y'] = some (true, weekdayText) := rfl
theorem valOk_BYDAY (v : PartVal) : rfcValOk ['B', 'Y', 'D', 'A', 'Y'] v = (match v with | .weekday t => weekdayText (upper t) | _ => false) := rfl
theorem grammar_BYDAY (v : PartVal) (hv : rfcValOk ['B', 'Y', 'D', 'A', 'Y'] v = true) : (weekdayText) (valText v) = true := by
  rw [valOk_BYDAY] at hv
  cases v <;> simp only [intRange, Bool.false_eq_true] at hv
  next t => exact hv

theorem spec_BYMONTHDAY : rfcPartSpec ['B', 'Y', 'M', 'O', 'N', 'T', 'H', 'D', 'A', 'Y'] = some (true, rfcOrd true 2 1 31) := rfl
theorem valOk_BYMONTHDAY (v : PartVal) : rfcValOk ['B', 'Y', 'M', 'O', 'N', 'T', 'H', 'D', 'A', 'Y'] v = intRange true 1 31 v := rfl
theorem grammar_BYMONTHDAY (v : PartVal) (hv : rfcValOk ['B', 'Y', 'M', 'O', 'N', 'T', 'H', 'D', 'A', 'Y'] v = true) : (rfcOrd true 2 1 31) (valText v) = true := by
  rw [valOk_BYMONTHDAY] at hv
  cases v <;> simp only [intRange, Bool.false_eq_true] at hv
  next z => exact rfcOrd_intTo true 2 1 31 z (len2 31 (by decide)) (by simpa [intRange] using hv)

theorem spec_BYYEARDAY : rfcPartSpec ['B', 'Y', 'Y', 'E', 'A', 'R', 'D', 'A', 'Y'] = some (true, rfcOrd true 3 1 366) := rfl
theorem valOk_BYYEARDAY (v : PartVal) : rfcValOk ['B', 'Y', 'Y', 'E', 'A', 'R', 'D', 'A', 'Y'] v = intRange true 1 366 v := rfl
theorem grammar_BYYEARDAY (v : PartVal) (hv : rfcValOk ['B', 'Y', 'Y', 'E', 'A', 'R', 'D', 'A', 'Y'] v = true) : (rfcOrd true 3 1 366) (valText v) = true := by
  rw [valOk_BYYEARDAY] at hv
  cases v <;> simp only [intRange, Bool.false_eq_true] at hv
  next z => exact rfcOrd_intTo true 3 1 366 z (len3 366 (by decide)) (by simpa [intRange] using hv)

theorem spec_BYWEEKNO : rfcPartSpec ['B', 'Y', 'W', 'E', 'E', 'K', 'N', 'O'] = some (true, rfcOrd true 2 1 53) := rfl
theorem valOk_BYWEEKNO (v : PartVal) : rfcValOk ['B', 'Y', 'W', 'E', 'E', 'K', 'N', 'O'] v = intRange true 1 53 v := rfl
theorem grammar_BYWEEKNO (v : PartVal) (hv : rfcValOk ['B', 'Y', 'W', 'E', 'E', 'K', 'N', 'O'] v = true) : (rfcOrd true 2 1 53) (valText v) = true := by
  rw [valOk_BYWEEKNO] at hv
  cases v <;> simp only [intRange, Bool.false_eq_true] at hv
  next z => exact rfcOrd_intTo true 2 1 53 z (len2 53 (by decide)) (by simpa [intRange] using hv)

theorem spec_BYMONTH : rfcPartSpec ['B', 'Y', 'M', 'O', 'N', 'T', 'H'] = some (true, monthText) := rfl
theorem valOk_BYMONTH (v : PartVal) : rfcValOk ['B', 'Y', 'M', 'O', 'N', 'T', 'H'] v = (match v with | .month n _ => decide (1 ≤ n ∧ n ≤ 12) | _ => false) := rfl
theorem grammar_BYMONTH (v : PartVal) (hv : rfcValOk ['B', 'Y', 'M', 'O', 'N', 'T', 'H'] v = true) : (monthText) (valText v) = true := by
  rw [valOk_BYMONTH] at hv
  cases v <;> simp only [intRange, Bool.false_eq_true] at hv
  next n l =>
      have hb : 1 ≤ n ∧ n ≤ 12 := by simpa using hv
      obtain ⟨m, rfl⟩ := Int.eq_ofNat_of_zero_le (by omega : 0 ≤ n)
      have := ICal.C03.month_grammar m l (by omega) (by omega)
      show monthText (vMonthTo (m : Int) l) = true
      simp [monthText, this]

theorem spec_BYSETPOS : rfcPartSpec ['B', 'Y', 'S', 'E', 'T', 'P', 'O', 'S'] = some (true, rfcOrd true 3 1 366) := rfl
theorem valOk_BYSETPOS (v : PartVal) : rfcValOk ['B', 'Y', 'S', 'E', 'T', 'P', 'O', 'S'] v = intRange true 1 366 v := rfl
theorem grammar_BYSETPOS (v : PartVal) (hv : rfcValOk ['B', 'Y', 'S', 'E', 'T', 'P', 'O', 'S'] v = true) : (rfcOrd true 3 1 366) (valText v) = true := by
  rw [valOk_BYSETPOS] at hv
  cases v <;> simp only [intRange, Bool.false_eq_true] at hv
  next z => exact rfcOrd_intTo true 3 1 366 z (len3 366 (by decide)) (by simpa [intRange] using hv)

theorem spec_WKST : rfcPartSpec ['W', 'K', 'S', 'T'] = some (false, rfcWeekdayOnly) := rfl
theorem valOk_WKST (v : PartVal) : rfcValOk ['W', 'K', 'S', 'T'] v = (match v with | .weekday t => weekDays.contains (upper t) | _ => false) := rfl
theorem grammar_WKST (v : PartVal) (hv : rfcValOk ['W', 'K', 'S', 'T'] v = true) : (rfcWeekdayOnly) (valText v) = true := by
  rw [valOk_WKST] at hv
  cases v <;> simp only [intRange, Bool.false_eq_true] at hv
  next t => exact hv

theorem spec_RSCALE : rfcPartSpec ['R', 'S', 'C', 'A', 'L', 'E'] = some (false, rfcIanaToken) := rfl
theorem valOk_RSCALE (v : PartVal) : rfcValOk ['R', 'S', 'C', 'A', 'L', 'E'] v = (match v with | .text s => rfcIanaToken s | _ => false) := rfl
theorem grammar_RSCALE (v : PartVal) (hv : rfcValOk ['R', 'S', 'C', 'A', 'L', 'E'] v = true) : (rfcIanaToken) (valText v) = true := by
  rw [valOk_RSCALE] at hv
  cases v <;> simp only [intRange, Bool.false_eq_true] at hv
  next s =>
      have ht : ∀ c ∈ s, tokenC c = true := by
        simp only [rfcIanaToken, Bool.and_eq_true] at hv
        exact fun c hc => List.all_eq_true.1 hv.2 c hc
      show rfcIanaToken (escapeChar s) = true
      rw [escapeChar_token s ht]; exact hv

theorem spec_SKIP : rfcPartSpec ['S', 'K', 'I', 'P'] = some (false, rfcSkip) := rfl
theorem valOk_SKIP (v : PartVal) : rfcValOk ['S', 'K', 'I', 'P'] v = (match v with | .skip t => skipValues.contains t | _ => false) := rfl
theorem grammar_SKIP (v : PartVal) (hv : rfcValOk ['S', 'K', 'I', 'P'] v = true) : (rfcSkip) (valText v) = true := by
  rw [valOk_SKIP] at hv
  cases v <;> simp only [intRange, Bool.false_eq_true] at hv
  next t =>
      have hm : t ∈ skipValues := by simpa using hv
      exact List.all_eq_true.1 skip_grammar t hm

/-- the text of an RFC-admissible value is in the value grammar of its rule part -/
theorem val_grammar (k : Str) (v : PartVal) (isList : Bool) (g : Str → Bool)
    (hs : rfcPartSpec k = some (isList, g)) (hv : rfcValOk k v = true) : g (valText v) = true := by
  by_cases hmem : k ∈ rfcNames
  · simp only [rfcNames, List.mem_cons, List.not_mem_nil, or_false] at hmem
    rcases hmem with rfl | rfl | rfl | rfl | rfl | rfl | rfl | rfl | rfl | rfl | rfl | rfl | rfl | rfl | rfl | rfl
    · rw [spec_FREQ] at hs; cases hs; exact grammar_FREQ v hv
    · rw [spec_UNTIL] at hs; cases hs; exact grammar_UNTIL v hv
    · rw [spec_COUNT] at hs; cases hs; exact grammar_COUNT v hv
    · rw [spec_INTERVAL] at hs; cases hs; exact grammar_INTERVAL v hv
    · rw [spec_BYSECOND] at hs; cases hs; exact grammar_BYSECOND v hv
    · rw [spec_BYMINUTE] at hs; cases hs; exact grammar_BYMINUTE v hv
    · rw [spec_BYHOUR] at hs; cases hs; exact grammar_BYHOUR v hv
    · rw [spec_BYDAY] at hs; cases hs; exact grammar_BYDAY v hv
    · rw [spec_BYMONTHDAY] at hs; cases hs; exact grammar_BYMONTHDAY v hv
    · rw [spec_BYYEARDAY] at hs; cases hs; exact grammar_BYYEARDAY v hv
    · rw [spec_BYWEEKNO] at hs; cases hs; exact grammar_BYWEEKNO v hv
    · rw [spec_BYMONTH] at hs; cases hs; exact grammar_BYMONTH v hv
    · rw [spec_BYSETPOS] at hs; cases hs; exact grammar_BYSETPOS v hv
    · rw [spec_WKST] at hs; cases hs; exact grammar_WKST v hv
    · rw [spec_RSCALE] at hs; cases hs; exact grammar_RSCALE v hv
    · rw [spec_SKIP] at hs; cases hs; exact grammar_SKIP v hv
  · rw [spec_none k hmem] at hs; cases hs

/-- a part whose name is an RFC rule part, with one value unless the part takes a list, every value
    admissible -/
def ItemRfc (kv : Str × List PartVal) : Prop :=
  ∃ isList g, rfcPartSpec kv.1 = some (isList, g) ∧ (isList = true ∨ kv.2.length = 1) ∧
    ∀ v ∈ kv.2, rfcValOk kv.1 v = true

/-- rules of the RECUR grammar: in the codec domain, every part an RFC part with admissible values,
    and the names satisfy the side conditions (FREQ present, UNTIL and COUNT not both, SKIP only with
    RSCALE; "at most once" is the dictionary invariant) -/
def GrammarDomain (r : Rule) : Prop :=
  RecurDomain r ∧ (∀ kv ∈ r, ItemRfc kv) ∧ rfcNamesOk (odKeys r) = true

theorem mapOpt_map {α β γ : Type} (f : β → Option γ) (h : α → β) (l : List α) :
    mapOpt f (l.map h) = mapOpt (fun a => f (h a)) l := by
  induction l with
  | nil => rfl
  | cons a as ih => simp only [List.map_cons, mapOpt, ih]

theorem rfcRecurPart_pairText (kv : Str × List PartVal) (h : ItemOk kv) (hr : ItemRfc kv) :
    rfcRecurPart (pairText kv) = some kv.1 := by
  obtain ⟨isList, g, hs, hl, hv⟩ := hr
  unfold rfcRecurPart
  rw [split_pairText kv h]
  simp only [hs]
  rw [split_join ',' _ (by simpa using h.2.2.2.1) (fun x hx => (valTexts_clean kv h x hx).no_comma)]
  have h1 : (isList || (kv.2.map valText).length == 1) = true := by
    rcases hl with hl | hl
    · simp [hl]
    · simp [hl]
  have h2 : (kv.2.map valText).all g = true := by
    rw [List.all_eq_true]
    intro x hx
    obtain ⟨v, hv', rfl⟩ := List.mem_map.1 hx
    exact val_grammar kv.1 v isList g hs (hv v hv')
  simp only [h1, h2, Bool.and_self, if_true]

theorem rfcRecurNames_encode {r : Rule} (h : RecurDomain r) (hne : r ≠ []) (hr : ∀ kv ∈ r, ItemRfc kv) :
    rfcRecurNames (encode r) = some (odKeys (recurCanon r)) := by
  unfold rfcRecurNames
  rw [split_encode h hne, mapOpt_map]
  exact mapOpt_ok _ Prod.fst _ (fun kv hkv =>
    rfcRecurPart_pairText kv (canon_items_ok h kv hkv) (hr kv (mem_sortedItems h.1 hkv)))

theorem nodupB_iff (l : List Str) : nodupB l = true ↔ l.Nodup := by
  induction l with
  | nil => simp [nodupB]
  | cons a as ih => simp [nodupB, ih]

theorem rfcNamesOk_perm {l l' : List Str} (hp : l.Perm l') : rfcNamesOk l = rfcNamesOk l' := by
  have hc : ∀ a, l.contains a = l'.contains a := by
    intro a
    rw [Bool.eq_iff_iff]
    simp [hp.mem_iff]
  have hn : nodupB l = nodupB l' := by
    rw [Bool.eq_iff_iff, nodupB_iff, nodupB_iff]
    exact hp.nodup_iff
  unfold rfcNamesOk
  rw [hn, hc, hc, hc, hc, hc]

theorem namesOk_freq {l : List Str} (h : rfcNamesOk l = true) : FREQ ∈ l := by
  unfold rfcNamesOk at h
  simp only [Bool.and_eq_true] at h
  simpa [FREQ] using h.1.1.2

/-- the text of a rule of the grammar domain is a RECUR value with FREQ first (after RSCALE) -/
theorem grammar_encode {r : Rule} (h : GrammarDomain r) : rfcRecurFreqFirst (encode r) = true := by
  obtain ⟨hd, hr, hn⟩ := h
  have hf : FREQ ∈ odKeys r := namesOk_freq hn
  have hne : r ≠ [] := by intro e; subst e; simp at hf
  unfold rfcRecurFreqFirst
  rw [rfcRecurNames_encode hd hne hr]
  have hk : odKeys (recurCanon r) = canonsort (odKeys r) Gen.recurCanonicalOrder :=
    keys_sortedItems _ hd.1
  simp only [hk, Bool.and_eq_true]
  exact ⟨by rw [rfcNamesOk_perm (canonsort_perm_keys _ _)]; exact hn, freqFirst_canonsort _ hd.1.1 hf⟩

theorem freqFirst_imp_grammar (t : Str) (h : rfcRecurFreqFirst t = true) : rfcRecur t = true := by
  unfold rfcRecurFreqFirst at h
  unfold rfcRecur
  split at h
  · next ns hns => simp only [Bool.and_eq_true] at h; exact h.1
  · cases h

/-! ## the sorted rule is a rearrangement; decidable checkers for concrete rules -/

theorem mem_canon_iff {r : Rule} (hinv : Inv upper r) (kv : Str × List PartVal) : kv ∈ recurCanon r ↔ kv ∈ r := by
  constructor
  · exact mem_sortedItems hinv
  · intro h
    obtain ⟨k, v⟩ := kv
    have hk : k ∈ odKeys r := List.mem_map.2 ⟨(k, v), h, rfl⟩
    show (k, v) ∈ cdSortedItems upper r Gen.recurCanonicalOrder
    rw [sortedItems_eq _ hinv]
    exact List.mem_filterMap.2 ⟨k, (mem_canonsort _ _ k).2 hk, by rw [odGet_of_mem r hinv.1 k v h]; rfl⟩

theorem nodup_of_keys {V : Type} {s : Store V} (h : (odKeys s).Nodup) : s.Nodup := by
  induction s with
  | nil => simp
  | cons p r ih =>
    simp only [odKeys_cons, List.nodup_cons] at h ⊢
    exact ⟨fun hm => h.1 (List.mem_map.2 ⟨p, hm, rfl⟩), ih h.2⟩

/-- `sorted_items` only rearranges the parts -/
theorem canon_perm {r : Rule} (hinv : Inv upper r) : (recurCanon r).Perm r := by
  show (cdSortedItems upper r Gen.recurCanonicalOrder).Perm r
  rw [List.perm_ext_iff_of_nodup (nodup_of_keys (inv_sortedItems Gen.recurCanonicalOrder hinv).1) (nodup_of_keys hinv.1)]
  exact mem_canon_iff hinv

theorem canon_get {r : Rule} (hinv : Inv upper r) (k : Str) : odGet (recurCanon r) k = odGet r k := by
  cases hg : odGet r k with
  | none =>
    rw [odGet_none] at hg ⊢
    intro hm
    have : k ∈ canonsort (odKeys r) Gen.recurCanonicalOrder := by
      rw [← keys_sortedItems _ hinv]; exact hm
    exact hg ((mem_canonsort _ _ k).1 this)
  | some v =>
    exact odGet_of_mem _ (inv_sortedItems Gen.recurCanonicalOrder hinv).1 k v
      ((mem_canon_iff hinv (k, v)).2 (mem_of_odGet r k v hg))

/-- for a rule whose keys are all named in the canonical order, the sorted items are computed by a
    filter of that order (no sorting left to evaluate) -/
theorem canon_known {r : Rule} (hinv : Inv upper r) (hall : ∀ k ∈ odKeys r, k ∈ Gen.recurCanonicalOrder) :
    recurCanon r = (Gen.recurCanonicalOrder.filter (fun k => decide (k ∈ odKeys r))).filterMap
      (fun k => (odGet r k).map (fun v => (k, v))) := by
  show cdSortedItems upper r Gen.recurCanonicalOrder = _
  rw [sortedItems_eq _ hinv, canonsort_spec' _ _ hinv.1, dedupLast_of_nodup _ order_nodup]
  have : (odKeys r).filter (fun k => decide (k ∉ Gen.recurCanonicalOrder)) = [] := by
    rw [List.filter_eq_nil_iff]
    intro k hk
    simp [hall k hk]
  rw [this]
  simp

theorem canon_single (k : Str) (vs : List PartVal) (hk : upper k = k) : recurCanon [(k, vs)] = [(k, vs)] := by
  have hinv : Inv upper ([(k, vs)] : Rule) := ⟨by simp [odKeys], by intro x hx; simp [odKeys] at hx; rw [hx]; exact hk⟩
  have hp := canon_perm hinv
  exact List.perm_singleton.1 hp

/-- `to_ical` of a one-part rule is the text of that part -/
theorem recurTo_single (k : Str) (vs : List PartVal) (hk : upper k = k) :
    recurTo [(k, vs)] = (pairTo k vs).map (fun t => t) := by
  unfold recurTo
  have : recurItems [(k, vs)] = [(k, vs)] := canon_single k vs hk
  rw [this]
  simp only [mapRes]
  cases pairTo k vs <;> rfl

def itemOkB (kv : Str × List PartVal) : Bool :=
  !kv.1.contains '=' && !kv.1.contains ';' && upper kv.1 == kv.1 && !kv.2.isEmpty &&
    kv.2.all (partOk (recurTypeOf kv.1))

/-- Bool form of `RecurDomain`, so that concrete rules are checked by `decide` -/
def domainB (r : Rule) : Bool :=
  decide ((odKeys r).Nodup) && (odKeys r).all (fun k => upper k == k) && r.all itemOkB

theorem itemOk_of_check {kv : Str × List PartVal} (h : itemOkB kv = true) : ItemOk kv := by
  simp only [itemOkB, Bool.and_eq_true, Bool.not_eq_true', beq_iff_eq, List.all_eq_true] at h
  obtain ⟨⟨⟨⟨h1, h2⟩, h3⟩, h4⟩, h5⟩ := h
  refine ⟨?_, ?_, h3, ?_, h5⟩
  · intro hm; have := List.contains_iff_mem.2 hm; rw [this] at h1; cases h1
  · intro hm; have := List.contains_iff_mem.2 hm; rw [this] at h2; cases h2
  · intro e; rw [e] at h4; simp at h4

theorem domain_of_check {r : Rule} (h : domainB r = true) : RecurDomain r := by
  simp only [domainB, Bool.and_eq_true, decide_eq_true_eq, List.all_eq_true, beq_iff_eq] at h
  exact ⟨⟨h.1.1, h.1.2⟩, fun kv hkv => itemOk_of_check (h.2 kv hkv)⟩

def itemRfcB (kv : Str × List PartVal) : Bool :=
  match rfcPartSpec kv.1 with
  | some (isList, _) => (isList || kv.2.length == 1) && kv.2.all (rfcValOk kv.1)
  | none => false

def grammarB (r : Rule) : Bool := domainB r && r.all itemRfcB && rfcNamesOk (odKeys r)

theorem itemRfc_of_check {kv : Str × List PartVal} (h : itemRfcB kv = true) : ItemRfc kv := by
  unfold itemRfcB at h
  split at h
  · next isList g hs =>
    simp only [Bool.and_eq_true, Bool.or_eq_true, beq_iff_eq, List.all_eq_true] at h
    exact ⟨isList, g, hs, h.1, h.2⟩
  · cases h

theorem grammar_of_check {r : Rule} (h : grammarB r = true) : GrammarDomain r := by
  simp only [grammarB, Bool.and_eq_true, List.all_eq_true] at h
  exact ⟨domain_of_check h.1.1, fun kv hkv => itemRfc_of_check (h.1.2 kv hkv), h.2⟩

end ICal.Recur
