/-
  Equality of the REGENERATED decoder bodies (ICal/Gen/BodiesDec.lean, written by tools/py2lean.py
  from the current source text of the `from_ical` methods on every run) with the hand-written
  decoders of ICal/Model/Codec.lean.

  Results: the translated code answers `Py T = Except Exc T`, the hand model `CRes V`; `liftRes f`
  carries a model result over (`ok v` to `ok (f v)`, ValueError to ValueError).  Values: a `date` is
  `dateOf d`, a `time` is `timeOf t`, a `datetime` is `dateTimeOf p`, a `timedelta` is
  `TD.ofSeconds s` for the model's `Int` seconds.
  External code is a parameter on both sides:
    * `vDatetime.from_ical` (specialised to `timezone=None`): the function `tzp.localize_utc`; the
      model's `utc` flag says that it was applied to the naive datetime;
    * `vDuration.from_ical`: the match object of `DURATION_REGEX.match(t)`; `durGroups`
      (ICal/Model/PyRTDec.lean) is the hand model of the regex returning the group texts, and
      `vDuration_from_ical_eq` composes the two.
-/
import ICal.Gen.BodiesDec
import ICal.Lemmas.Bodies
import ICal.Lemmas.Codec
set_option linter.unusedSimpArgs false
namespace ICal.Bodies
open ICal ICal.PyRT ICal.Gen.BodiesDec

/-- a result of the hand model as a result of translated code -/
def liftRes {α β : Type} (f : α → β) : CRes α → Py β
  | .ok v => .ok (f v)
  | .error .valueError => .error .valueError
  | .error .indexError => .error .indexError

def timeOf (t : PTime) : PyTime := ⟨t.h, t.mi, t.s⟩

theorem pySliceTo_eq (s : Str) (b : Nat) : pySliceTo s b = slice s 0 b := by simp [pySliceTo, slice]
theorem pySlice_eq (s : Str) (a b : Nat) : pySlice s a b = slice s a b := rfl

theorem intOfStr_eq (s : Str) : intOfStr s = liftRes id (pyIntE s) := by
  unfold intOfStr pyIntE; cases pyInt s <;> rfl

theorem mkPyDate_eq (y m d : Int) : mkPyDate y m d = liftRes dateOf (mkDate y m d) := by
  unfold mkPyDate mkDate
  split
  · rename_i h
    obtain ⟨h1, h2, h3, _⟩ := h
    simp only [liftRes, dateOf]
    congr 2 <;> omega
  · rfl

theorem mkDate_not_index (y m d : Int) : mkDate y m d ≠ .error .indexError := by
  unfold mkDate; split <;> simp

theorem vDate_from_ical_eq (t : Str) : vDate_from_ical t = liftRes dateOf (vDateFrom t) := by
  simp only [vDate_from_ical, vDateFrom, pySliceTo_eq, pySlice_eq, intOfStr, pyIntE, mkPyDate_eq]
  cases pyInt (slice t 0 4) <;> cases pyInt (slice t 4 6) <;> cases pyInt (slice t 6 8) <;>
    simp [remapAll, liftRes, bind, Except.bind]
  rename_i y m d
  cases h : mkDate y m d with
  | ok v => simp
  | error e => cases e <;> simp_all [mkDate_not_index]

theorem throw_eq {α : Type} (e : Exc) : (throw e : Py α) = Except.error e := rfl

theorem mkPyTime_eq (h m s : Int) :
    mkPyTime h m s = if okTime h m s then .ok (timeOf ⟨h.toNat, m.toNat, s.toNat, false⟩) else .error .valueError := by
  unfold mkPyTime
  split
  · rename_i hk
    simp only [okTime, Bool.and_eq_true, decide_eq_true_eq] at hk
    obtain ⟨⟨⟨h1, h2⟩, h3⟩, _⟩ := hk
    simp only [timeOf]
    congr 2 <;> omega
  · rfl

theorem vTime_from_ical_eq (t : Str) : vTime_from_ical t = liftRes timeOf (vTimeFrom t) := by
  simp only [vTime_from_ical, vTimeFrom, pySliceTo_eq, pySlice_eq, intOfStr, pyIntE, mkPyTime_eq]
  cases pyInt (slice t 0 2) <;> cases pyInt (slice t 2 4) <;> cases pyInt (slice t 4 6) <;>
    simp [remapAll, liftRes, bind, Except.bind]
  rename_i h m s
  cases okTime h m s <;> simp

theorem mkPyDateTime_eq (y m d h mi s : Int) :
    mkPyDateTime y m d h mi s =
      (match mkDate y m d with
       | .ok date => if okTime h mi s then .ok (dateTimeOf ⟨date, h.toNat, mi.toNat, s.toNat, false⟩)
                     else .error .valueError
       | .error _ => .error .valueError) := by
  unfold mkPyDateTime mkDate
  split
  · rename_i hv
    obtain ⟨h1, h2, h3, _⟩ := hv
    simp only []
    split
    · rename_i hk
      simp only [okTime, Bool.and_eq_true, decide_eq_true_eq] at hk
      obtain ⟨⟨⟨k1, k2⟩, k3⟩, _⟩ := hk
      simp only [dateTimeOf]
      congr 2 <;> omega
    · rfl
  · rfl

/-- `vDatetime.from_ical(t)` (timezone=None): the model's `utc` flag says that `tzp.localize_utc`
    (a parameter) was applied to the naive datetime -/
theorem vDatetime_from_ical_eq (t : Str) (lu : PyDateTime → PyDateTime) :
    vDatetime_from_ical t lu =
      liftRes (fun p => if p.utc then lu (dateTimeOf { p with utc := false }) else dateTimeOf p) (vDatetimeFrom t) := by
  have s15 : pySliceFrom t 15 = t.drop 15 := rfl
  simp only [vDatetime_from_ical, vDatetimeFrom, pySliceTo_eq, pySlice_eq, s15, intOfStr, pyIntE, mkPyDateTime_eq,
    truthy]
  cases pyInt (slice t 0 4) <;> cases pyInt (slice t 4 6) <;> cases pyInt (slice t 6 8) <;>
    cases pyInt (slice t 9 11) <;> cases pyInt (slice t 11 13) <;> cases pyInt (slice t 13 15) <;>
    simp only [remapAll, liftRes, bind, Except.bind]
  rename_i y m d h mi s
  have hni := mkDate_not_index y m d
  have eE : (List.drop 15 t).isEmpty = decide (t.length ≤ 15) := by
    by_cases hE : t.length ≤ 15 <;> simp [hE]
  cases hd : mkDate y m d with
  | error e =>
    cases e with
    | indexError => exact absurd hd hni
    | valueError =>
      by_cases hE : t.length ≤ 15 <;> by_cases hZ : slice t 15 16 = ['Z'] <;>
        simp [eE, hE, hZ, remapAll, liftRes, throw_eq, Truthy.truthy]
  | ok date =>
    cases hk : okTime h mi s <;> by_cases hE : t.length ≤ 15 <;> by_cases hZ : slice t 15 16 = ['Z'] <;>
      simp [eE, hE, hZ, remapAll, liftRes, pure, Except.pure, throw_eq, Truthy.truthy, dateTimeOf]

/-! ## UTC-OFFSET decoder -/

theorem intOfStrOr_zero (s : Str) :
    intOfStrOr s 0 = liftRes id (if s.isEmpty then (pure 0 : CRes Int) else pyIntE s) := by
  unfold intOfStrOr
  cases hs : s.isEmpty <;> simp [Truthy.truthy, hs, intOfStr_eq, liftRes, pure, Except.pure]

theorem ofUnits_hms (h m s : Int) : TD.ofUnits 0 0 h m s = TD.ofSeconds (h * 3600 + m * 60 + s) := by
  simp [TD.ofUnits, TD.ofSeconds]

theorem le_iff (a b : TD) (ha : a.wf) (hb : b.wf) : TD.le a b = true ↔ a.toSeconds ≤ b.toSeconds := by
  simp only [TD.wf] at ha hb
  simp only [TD.le, TD.toSeconds, Bool.or_eq_true, Bool.and_eq_true, decide_eq_true_eq]
  omega

theorem day_le_ofSeconds (x : Int) : TD.le (TD.ofSeconds 86400) (TD.ofSeconds x) = decide (x ≥ 86400) := by
  have := le_iff (TD.ofSeconds 86400) (TD.ofSeconds x) (ofSeconds_wf _) (ofSeconds_wf _)
  rw [toSeconds_ofSeconds, toSeconds_ofSeconds] at this
  by_cases hx : x ≥ 86400
  · simp only [hx, decide_true]; exact this.2 hx
  · simp only [hx, decide_false]
    cases hb : TD.le (TD.ofSeconds 86400) (TD.ofSeconds x)
    · rfl
    · exact absurd (this.1 hb) hx

theorem neg_ofSeconds (x : Int) : TD.neg (TD.ofSeconds x) = TD.ofSeconds (-x) := by
  have h := ofSeconds_toSeconds (TD.neg (TD.ofSeconds x)) (neg_wf _)
  rw [toSeconds_neg, toSeconds_ofSeconds] at h
  exact h.symm

theorem vUTCOffset_from_ical_eq (t : Str) : vUTCOffset_from_ical t = liftRes TD.ofSeconds (offFrom t) := by
  have e24 : (0 : Int) * 3600 + 0 * 60 + 0 = 0 := by decide
  simp only [vUTCOffset_from_ical, offFrom, pySlice_eq, intOfStr, pyIntE, intOfStrOr_zero, ofUnits_hms,
    show ((24 : Int) * 3600 + 0 * 60 + 0) = 86400 by decide, day_le_ofSeconds]
  cases pyInt (slice t 1 3) <;> cases pyInt (slice t 3 5) <;>
    simp only [remapAll, liftRes, bind, Except.bind]
  rename_i h m
  have fin : ∀ sec : Int,
      (if decide (h * 3600 + m * 60 + sec ≥ 86400) = true then (throw Exc.valueError : Py TD)
        else if (slice t 0 1 == ['-']) = true then pure (TD.neg (TD.ofSeconds (h * 3600 + m * 60 + sec)))
        else pure (TD.ofSeconds (h * 3600 + m * 60 + sec))) =
      liftRes TD.ofSeconds (if h * 3600 + m * 60 + sec ≥ 86400 then .error .valueError
        else if slice t 0 1 = ['-'] then .ok (-(h * 3600 + m * 60 + sec)) else .ok (h * 3600 + m * 60 + sec)) := by
    intro sec
    by_cases hx : h * 3600 + m * 60 + sec ≥ 86400 <;> by_cases hg : slice t 0 1 = ['-'] <;>
      simp [liftRes, hx, hg, throw_eq, pure, Except.pure, neg_ofSeconds]
  by_cases hs : (slice t 5 7).isEmpty = true
  · simp only [hs, if_true, pure, Except.pure, liftRes, id]
    simpa [liftRes, pure, Except.pure, throw_eq, day_le_ofSeconds] using fin 0
  · cases hp : pyInt (slice t 5 7) with
    | none => simp [hs, hp, liftRes]
    | some sec =>
      simp only [hs, hp, liftRes, id]
      simpa [liftRes, pure, Except.pure, throw_eq, day_le_ofSeconds] using fin sec

/-! ## INTEGER decoder -/

theorem vInt_from_ical_eq (t : Str) : vInt_from_ical t = liftRes id (intFrom t) := by
  simp only [vInt_from_ical, intFrom, intOfStr, pyIntE]
  cases pyInt t <;> simp [remapAll, liftRes, bind, Except.bind, pure, Except.pure]

/-! ## DURATION decoder: the regex groups (`durGroups`) composed with the translated body -/

theorem spanDigits_fst_digits (l : Str) : ∀ c ∈ (spanDigits l).1, isDigit c = true := by
  induction l with
  | nil => simp [spanDigits]
  | cons a as ih =>
    unfold spanDigits
    by_cases ha : isDigit a = true
    · simp only [ha, if_true]
      intro c hc
      simp only [List.mem_cons] at hc
      rcases hc with rfl | hc
      · exact ha
      · exact ih c hc
    · simp [ha]

theorem optUnitS_spec (u : Char) (l : Str) :
    (optUnitS u l).2 = (optUnit u l).2 ∧ intOfOptStrOr (optUnitS u l).1 0 = .ok ((optUnit u l).1 : Int) := by
  have hd := spanDigits_fst_digits l
  unfold optUnitS optUnit
  generalize spanDigits l = r at hd
  obtain ⟨ds, rest⟩ := r
  cases ds with
  | nil => simp [intOfOptStrOr]
  | cons c cs =>
    cases rest with
    | nil => simp [intOfOptStrOr]
    | cons x xs =>
      by_cases hx : x = u
      · have hp := Codec.pyInt_digits (c :: cs) hd (by simp)
        simp [hx, intOfOptStrOr, intOfStrOr, Truthy.truthy, intOfStr, hp]
      · simp [hx, intOfOptStrOr]

theorem intOfOptStrOr_none (k : Int) : intOfOptStrOr none k = .ok k := rfl

theorem ofUnits_eq (w d h m s : Int) :
    TD.ofUnits w d h m s = TD.ofSeconds (w * 604800 + d * 86400 + h * 3600 + m * 60 + s) := by
  simp only [TD.ofUnits, TD.ofSeconds, TD.norm, TD.mk.injEq]
  constructor <;> omega

theorem durBody_spec (r : Str) :
    (durBodyGroups r).isSome = (parseDurBody r).isSome ∧
    ∀ g v, durBodyGroups r = some g → parseDurBody r = some v →
      (do let a ← intOfOptStrOr g.1 0
          let b ← intOfOptStrOr g.2.1 0
          let c ← intOfOptStrOr g.2.2.1 0
          let d ← intOfOptStrOr g.2.2.2.1 0
          let e ← intOfOptStrOr g.2.2.2.2 0
          pure (TD.ofUnits a b c d e) : Py TD) = .ok (TD.ofSeconds (v : Int)) := by
  cases r with
  | nil => simp [durBodyGroups, parseDurBody]
  | cons p l =>
    by_cases hp : p = 'P'
    · subst hp
      obtain ⟨w2, wv⟩ := optUnitS_spec 'W' l
      obtain ⟨d2, dv⟩ := optUnitS_spec 'D' (optUnit 'W' l).2
      simp only [durBodyGroups, parseDurBody, w2, d2]
      generalize hrest : (optUnit 'D' (optUnit 'W' l).2).2 = rest
      cases rest with
      | nil =>
        simp only [parseTS, parseT]
        simp [wv, dv, intOfOptStrOr_none, bind, Except.bind, pure, Except.pure, ofUnits_eq]
      | cons tc tl =>
        by_cases ht : tc = 'T'
        · subst ht
          obtain ⟨h2, hv⟩ := optUnitS_spec 'H' tl
          obtain ⟨m2, mv⟩ := optUnitS_spec 'M' (optUnit 'H' tl).2
          obtain ⟨s2, sv⟩ := optUnitS_spec 'S' (optUnit 'M' (optUnit 'H' tl).2).2
          simp only [parseTS, parseT, h2, m2, s2]
          split <;> simp [wv, dv, hv, mv, sv, bind, Except.bind, pure, Except.pure, ofUnits_eq]
        · have e1 : parseTS (tc :: tl) = (none, none, none, tc :: tl) := by
            unfold parseTS; split
            · rename_i h; simp at h; exact absurd h.1 ht
            · rfl
          have e2 : parseT (tc :: tl) = (0, 0, 0, tc :: tl) := by
            unfold parseT; split
            · rename_i h; simp at h; exact absurd h.1 ht
            · rfl
          simp only [e1, e2]
          split <;> simp [wv, dv, intOfOptStrOr_none, bind, Except.bind, pure, Except.pure, ofUnits_eq]
    · have e1 : durBodyGroups (p :: l) = none := by
        unfold durBodyGroups; split
        · rename_i h; simp at h; exact absurd h.1 hp
        · rfl
      have e2 : parseDurBody (p :: l) = none := by
        unfold parseDurBody; split
        · rename_i h; simp at h; exact absurd h.1 hp
        · rfl
      simp [e1, e2]

theorem vDuration_none (t : Str) : vDuration_from_ical t none = .error .valueError := by
  simp [vDuration_from_ical, throw_eq]

theorem vDuration_some (t : Str) (sg : Option Str)
    (g : Option Str × Option Str × Option Str × Option Str × Option Str) (x : TD)
    (h : (do let a ← intOfOptStrOr g.1 0
             let b ← intOfOptStrOr g.2.1 0
             let c ← intOfOptStrOr g.2.2.1 0
             let d ← intOfOptStrOr g.2.2.2.1 0
             let e ← intOfOptStrOr g.2.2.2.2 0
             pure (TD.ofUnits a b c d e) : Py TD) = .ok x) :
    vDuration_from_ical t (some (sg, g)) = .ok (if sg == some ['-'] then TD.neg x else x) := by
  obtain ⟨g1, g2, g3, g4, g5⟩ := g
  simp only [vDuration_from_ical, Option.isSome_some, Bool.not_true, Bool.false_eq_true, if_false, groupsOf]
  simp only [bind, Except.bind, pure, Except.pure] at h ⊢
  -- every `int(x or 0)` succeeded (their chain did); holds wherever the source places the negation
  cases h1 : intOfOptStrOr g1 0 with
  | error e => simp [h1] at h
  | ok a =>
    cases h2 : intOfOptStrOr g2 0 with
    | error e => simp [h1, h2] at h
    | ok b =>
      cases h3 : intOfOptStrOr g3 0 with
      | error e => simp [h1, h2, h3] at h
      | ok c =>
        cases h4 : intOfOptStrOr g4 0 with
        | error e => simp [h1, h2, h3, h4] at h
        | ok d =>
          cases h5 : intOfOptStrOr g5 0 with
          | error e => simp [h1, h2, h3, h4, h5] at h
          | ok e =>
            simp only [h1, h2, h3, h4, h5, Except.ok.injEq] at h
            subst h
            cases hs : (sg == some ['-']) <;> simp [remap, hs]

/-- the sign character, the body groups and the body value fit together -/
theorem dur_sign_cases (t : Str) :
    ∃ (sg : Str) (r : Str) (neg : Bool), (neg = true ↔ sg = ['-']) ∧
      durGroups t = (durBodyGroups r).map (fun g => (some sg, g)) ∧
      durFrom t = (parseDurBody r).map (fun (v : Nat) => if neg then -(Int.ofNat v) else Int.ofNat v) := by
  cases t with
  | nil => exact ⟨[], [], false, by simp, rfl, by simp [durFrom]⟩
  | cons c r =>
    by_cases h1 : c = '-'
    · subst h1; exact ⟨['-'], r, true, by simp, rfl, by simp [durFrom]⟩
    · by_cases h2 : c = '+'
      · subst h2; exact ⟨['+'], r, false, by simp, rfl, by simp [durFrom]⟩
      · refine ⟨[], c :: r, false, by simp, ?_, ?_⟩
        · unfold durGroups; split
          · rename_i h; simp at h; exact absurd h.1 h1
          · rename_i h; simp at h; exact absurd h.1 h2
          · rfl
        · unfold durFrom; split
          · rename_i h; simp at h; exact absurd h.1 h1
          · rename_i h; simp at h; exact absurd h.1 h2
          · simp

/-- `vDuration.from_ical(t)` with the match object that `DURATION_REGEX.match(t)` gives (`durGroups`) -/
theorem vDuration_from_ical_eq (t : Str) :
    vDuration_from_ical t (durGroups t) = liftRes TD.ofSeconds (durFromE t) := by
  obtain ⟨sg, r, neg, hneg, hg, hf⟩ := dur_sign_cases t
  obtain ⟨hsome, hval⟩ := durBody_spec r
  unfold durFromE
  rw [hg, hf]
  cases hb : durBodyGroups r with
  | none =>
    have : parseDurBody r = none := by
      rw [hb] at hsome; cases hp : parseDurBody r <;> simp_all
    simp [this, vDuration_none, liftRes]
  | some g =>
    have : ∃ v, parseDurBody r = some v := by
      rw [hb] at hsome; cases hp : parseDurBody r <;> simp_all
    obtain ⟨v, hv⟩ := this
    simp only [Option.map_some, hv]
    rw [vDuration_some t (some sg) g _ (hval g v hb hv)]
    cases neg
    · have : sg ≠ ['-'] := fun e => by simpa using hneg.2 e
      simp [liftRes, this]
    · have : sg = ['-'] := hneg.1 rfl
      simp [liftRes, this, neg_ofSeconds]

end ICal.Bodies
