/-
  Equality of the regenerated `Component.from_ical` (ICal/Gen/BodiesParse.lean, tools/py2lean.py: the loop over the
  content lines with its `continue` / `break`, the two `try` blocks with their handlers and `else`, the stack of open
  components as a Python list with `append` / `pop()` / `stack[-1]`, the alias `component = stack[-1] if stack else
  None`, the inner loop over the parsed values, the `multiple` / exactly-one ending) with the hand model of
  ICal/Model/Parse.lean: one iteration is `pstep` (`loop_cons`), the loop is `prun` (`loop_prun`), the function is
  `parseLinesP` on `linesFromIcal st` (`fromIcal_parseLinesP`).  The external pieces are parameters, instantiated in
  ICal/Model/ParsePieces.lean with what the hand model says of them.  The Python list has its top at the end, the
  model's stack at the head: the states correspond through `List.reverse`.  After `break` (an X-COMMENT outside any
  component) the translated loop returns at once; the model's `stopped` flag makes it skip the remaining lines.
-/
import ICal.Model.ParsePieces
set_option linter.unusedSimpArgs false
namespace ICal.Bodies
open ICal ICal.PyRT ICal.Gen.BodiesParse

@[simp] theorem listPop_snoc {α : Type} (c : α) (r : List α) : listPop (r ++ [c]) = .ok (c, r) := by
  simp [listPop]
@[simp] theorem modLast_snoc {α : Type} (c : α) (r : List α) (f : α → α) : modLast (r ++ [c]) f = .ok (r ++ [f c]) := by
  simp [modLast]
@[simp] theorem listPop_single {α : Type} (c : α) : listPop [c] = .ok (c, []) := by
  simp [listPop]
@[simp] theorem modLast_single {α : Type} (c : α) (f : α → α) : modLast [c] f = .ok [f c] := by
  simp [modLast]
theorem ok_bind {α β : Type} (a : α) (f : α → Py β) : ((Except.ok a : Py α) >>= f) = f a := rfl
theorem error_bind {α β : Type} (e : Exc) (f : α → Py β) : ((Except.error e : Py α) >>= f) = .error e := rfl
theorem pure_ok {α : Type} (a : α) : (pure a : Py α) = .ok a := rfl
theorem throw_err {α : Type} (e : Exc) : (throw e : Py α) = .error e := rfl

def optPy {α : Type} : Option α → Py α
  | some x => .ok x
  | none => .error .valueError

theorem bind_ok {α : Type} (x : Py α) : (x >>= fun t => Except.ok t) = x := by cases x <;> rfl

theorem mapM_tz (dec : Dec) (k : Str) (params : Params) (vs : List Str) :
    List.mapM (fun val => (decodeTzP dec k val params) >>= fun (t : Val) => Except.ok t) vs =
      optPy ((vs.mapM (fun v => dec k v (Params.get? params TZIDs))).map (List.map (fun t => (⟨k, t, []⟩ : Val)))) := by
  induction vs with
  | nil => simp [optPy, pure_ok]
  | cons v vs ih =>
    rw [List.mapM_cons, ih]
    simp only [decodeTzP]
    cases hd : dec k v (Params.get? params TZIDs) with
    | none => simp [optPy, error_bind, hd]
    | some t =>
      simp only [ok_bind, pure_ok]
      cases hm : List.mapM (fun v => dec k v (Params.get? params TZIDs)) vs <;> simp [optPy, ok_bind, error_bind, pure_ok, hd, hm]

theorem mapM_no (dec : Dec) (k : Str) (vs : List Str) :
    List.mapM (fun val => (decodeP dec k val) >>= fun (t : Val) => Except.ok t) vs =
      optPy ((vs.mapM (fun v => dec k v none)).map (List.map (fun t => (⟨k, t, []⟩ : Val)))) := by
  induction vs with
  | nil => simp [optPy, pure_ok]
  | cons v vs ih =>
    rw [List.mapM_cons, ih]
    simp only [decodeP]
    cases hd : dec k v none with
    | none => simp [optPy, error_bind, hd]
    | some t =>
      simp only [ok_bind, pure_ok]
      cases hm : List.mapM (fun v => dec k v none) vs <;> simp [optPy, ok_bind, error_bind, pure_ok, hd, hm]
theorem loop2P (name : Str) (params : Params) (rest : List PComp) : ∀ (vs : List Val) (c : PComp),
    Component_from_ical_loop2 setParamsP addP name params (rest ++ [c]) vs =
      .ok (rest ++ [vs.foldl (fun c v => addP c name (setParamsP v params)) c]) := by
  intro vs
  induction vs with
  | nil => intro c; simp [Component_from_ical_loop2, pure_ok]
  | cons v vs ih =>
    intro c
    simp only [Component_from_ical_loop2, modLast_snoc, ok_bind, List.foldl_cons]
    exact ih _

theorem foldl_addP (k name : Str) (params : Params) (n : Str) (s : List PComp) (e : List Str) : ∀ (texts : List Str) (p : List Entry),
    (texts.map (fun t => (⟨k, t, []⟩ : Val))).foldl (fun c v => addP c name (setParamsP v params)) (PComp.mk n p s e) =
      PComp.mk n ((texts.map (fun t => (⟨k, t, params⟩ : Val))).foldl (fun p v => addEntry p (upper name) v) p) s e := by
  intro texts
  induction texts with
  | nil => intro p; rfl
  | cons t ts ih => intro p; simp only [List.map_cons, List.foldl_cons, addP, setParamsP]; exact ih _

def liftStep (tzok : Comp → Bool) (dec : Dec) (rest : List Str) : Option PState → Py (List PComp × List PComp)
  | none => .error .valueError
  | some st' => if st'.stopped then .ok (st'.stack.reverse, st'.comps) else loopP tzok dec st'.stack.reverse st'.comps rest

theorem truthy_str (l : Str) : truthy l = !l.isEmpty := rfl

theorem loop_cons (tzok : Comp → Bool) (dec : Dec) (st : PState) (hst : st.stopped = false) (line : Str) (rest : List Str) :
    loopP tzok dec st.stack.reverse st.comps (line :: rest) = liftStep tzok dec rest (pstep tzok dec st line) := by
  obtain ⟨stack, comps, stopped⟩ := st
  simp only at hst
  subst hst
  unfold loopP
  rw [Component_from_ical_loop1]
  simp only [truthy_str, Bool.not_not]
  by_cases hl : line.isEmpty = true
  · simp [hl, pstep, liftStep, loopP]
  · simp only [hl, pstep, Bool.false_or]
    simp only [partsP]
    cases hp : ICal.parts line with
    | none =>
      cases stack with
      | nil => simp [bind, Except.bind, caught, valueErrors, liftStep, throw, throwThe, MonadExceptOf.throw]
      | cons c r =>
        obtain ⟨n, p, s, e⟩ := c
        simp [bind, Except.bind, caught, valueErrors, liftStep, throw, throwThe, MonadExceptOf.throw, ignoreP, logToTop]
        cases lenientName n <;> simp [loopP, errorsAppendP]
    | some r =>
      obtain ⟨name, params, vals⟩ := r
      simp only [ok_bind, pure_ok]
      cases hb : (upper name == ['B','E','G','I','N']) <;> simp only [hb, if_true, if_false, Bool.false_eq_true]
      rotate_left
      · simp [hb, liftStep, loopP, instantiateP, nameOfP, setNameP, truthy_str, bind, Except.bind]
      · cases he : (upper name == ['E','N','D']) <;> simp only [he, if_true, if_false, Bool.false_eq_true]
        rotate_left
        · cases stack with
          | nil => simp [liftStep, throw, throwThe, MonadExceptOf.throw]
          | cons c r =>
            obtain ⟨n, p, s, e⟩ := c
            simp only [bind, Except.bind]
            cases r with
            | nil =>
              simp only [listPop_single, List.reverse_cons, List.reverse_nil, List.nil_append, List.isEmpty_nil, List.isEmpty_cons,
                Bool.not_true, Bool.not_false, if_true, if_false, Bool.false_eq_true, pure, Except.pure, tzFails, isTimezoneP, hasPropertyP, VTZ, TZIDs, cacheP, PComp.toComp]
              by_cases h1 : (upper vals == ['V','T','I','M','E','Z','O','N','E']) = true <;>
              by_cases h2 : (n == ['V','T','I','M','E','Z','O','N','E']) = true <;>
              by_cases h3 : p.any (fun e => e.name == ['T','Z','I','D']) = true <;>
              by_cases h4 : tzok (Comp.mk n p (PComp.toComps s)) = true <;>
              simp [h1, h2, h3, h4, liftStep, loopP, caught, valueErrors, throw, throwThe, MonadExceptOf.throw]
            | cons c2 r2 =>
              obtain ⟨n2, p2, s2, e2⟩ := c2
              simp only [List.reverse_cons, List.append_assoc, List.cons_append, List.nil_append]
              rw [show r2.reverse ++ [PComp.mk n2 p2 s2 e2, PComp.mk n p s e] = (r2.reverse ++ [PComp.mk n2 p2 s2 e2]) ++ [PComp.mk n p s e] by simp]
              simp only [listPop_snoc, modLast_snoc, List.isEmpty_cons, Bool.and_false,
                Bool.not_true, Bool.not_false, if_true, if_false, Bool.false_eq_true, pure, Except.pure, tzFails, isTimezoneP, hasPropertyP, VTZ, TZIDs, cacheP, PComp.toComp]
              by_cases h1 : (upper vals == ['V','T','I','M','E','Z','O','N','E']) = true <;>
              by_cases h2 : (n == ['V','T','I','M','E','Z','O','N','E']) = true <;>
              by_cases h3 : p.any (fun e => e.name == ['T','Z','I','D']) = true <;>
              by_cases h4 : tzok (Comp.mk n p (PComp.toComps s)) = true <;>
              simp [h1, h2, h3, h4, liftStep, loopP, caught, valueErrors, throw, throwThe, MonadExceptOf.throw, addComponentP]
        · cases stack with
          | nil =>
            by_cases hx : (upper name == ['X','-','C','O','M','M','E','N','T']) = true <;>
              simp [hx, liftStep, throw, throwThe, MonadExceptOf.throw]
          | cons c r =>
            obtain ⟨n, p, s, e⟩ := c
            simp only [List.reverse_cons, List.getLast?_append, List.getLast?_singleton, Option.some_or, mapM_tz, mapM_no, throw_err]
            simp only [bind_ok, Gen.fromIcalFreebusyOnUname, Gen.fromIcalDatetimeOnUname, Gen.fromIcalTextRaw, Gen.datetimeNames,
              if_true, Bool.true_and, isTextClassP, paramsHasP, TZIDs]
            generalize hv : (if textKinds.contains (forProperty name) = true then rawValue line else vals) = vals'
            by_cases hf : (upper name == ['F','R','E','E','B','U','S','Y']) = true
            · simp only [hf, if_true]
              cases htz : Params.get? params ['T','Z','I','D'] with
              | none =>
                simp only [Option.isSome_none, Bool.false_eq_true, if_false]
                generalize List.mapM (fun v => dec (forProperty name) v none) (splitOnChar ',' vals') = o
                cases o with
                | none =>
                  cases hlen : lenientName n <;>
                    simp [optPy, caught, valueErrors, ignoreP, hlen, liftStep, logToTop, errorsAppendP, loopP, ok_bind, error_bind]
                | some texts =>
                  simp [optPy, loop2P, foldl_addP, liftStep, addToTop, loopP, ok_bind]
              | some z =>
                simp only [Option.isSome_some, if_true, htz]
                generalize List.mapM (fun v => dec (forProperty name) v (some z)) (splitOnChar ',' vals') = o
                cases o with
                | none =>
                  cases hlen : lenientName n <;>
                    simp [optPy, caught, valueErrors, ignoreP, hlen, liftStep, logToTop, errorsAppendP, loopP, ok_bind, error_bind]
                | some texts =>
                  simp [optPy, loop2P, foldl_addP, liftStep, addToTop, loopP, ok_bind]
            · simp only [hf, if_false, Bool.false_eq_true]
              by_cases hd : ([['D', 'T', 'S', 'T', 'A', 'R', 'T'], ['D', 'T', 'E', 'N', 'D'],
                      ['R', 'E', 'C', 'U', 'R', 'R', 'E', 'N', 'C', 'E', '-', 'I', 'D'], ['D', 'U', 'E'],
                      ['R', 'D', 'A', 'T', 'E'], ['E', 'X', 'D', 'A', 'T', 'E']].contains (upper name) &&
                (Params.get? params ['T', 'Z', 'I', 'D']).isSome) = true
              · simp only [hd, if_true, decodeTzP, TZIDs]
                cases hd1 : dec (forProperty name) vals' (Params.get? params ['T', 'Z', 'I', 'D']) with
                | none =>
                  cases hlen : lenientName n <;>
                    simp [optPy, caught, valueErrors, ignoreP, hlen, liftStep, logToTop, errorsAppendP, loopP, ok_bind, error_bind]
                | some t =>
                  simp [optPy, loop2P, liftStep, addToTop, loopP, ok_bind, addP, setParamsP]
              · simp only [hd, if_false, decodeP]
                cases hd1 : dec (forProperty name) vals' none with
                | none =>
                  cases hlen : lenientName n <;>
                    simp [optPy, caught, valueErrors, ignoreP, hlen, liftStep, logToTop, errorsAppendP, loopP, ok_bind, error_bind]
                | some t =>
                  simp [optPy, loop2P, liftStep, addToTop, loopP, ok_bind, addP, setParamsP]

theorem prun_stopped (tzok : Comp → Bool) (dec : Dec) (lines : List Str) (st : PState) (h : st.stopped = true) :
    prun tzok dec st lines = some st := by
  induction lines with
  | nil => rfl
  | cons l ls ih => simp [prun, pstep, h, ih]

/-- the translated loop is `prun`: the Python list `stack` has its top at the end, the model's at the head -/
theorem loop_prun (tzok : Comp → Bool) (dec : Dec) (lines : List Str) : ∀ (st : PState), st.stopped = false →
    loopP tzok dec st.stack.reverse st.comps lines =
      match prun tzok dec st lines with
      | none => .error .valueError
      | some st' => .ok (st'.stack.reverse, st'.comps) := by
  induction lines with
  | nil => intro st _; simp [loopP, Component_from_ical_loop1, prun, pure_ok]
  | cons l ls ih =>
    intro st hst
    rw [loop_cons tzok dec st hst, prun]
    cases hp : pstep tzok dec st l with
    | none => rfl
    | some st' =>
      simp only [liftStep]
      cases hs : st'.stopped with
      | true => simp [prun_stopped tzok dec ls st' hs]
      | false => simp [ih st' hs]

theorem fromIcal_parseLinesP (tzok : Comp → Bool) (dec : Dec) (st : Str) (multiple : Bool) :
    fromIcalP tzok dec st multiple =
      match parseLinesP tzok dec multiple (linesFromIcal st) with
      | none => .error .valueError
      | some cs => if multiple then .ok (.many cs) else match cs with
        | c :: _ => .ok (.one c)
        | [] => .error .indexError := by
  unfold fromIcalP Component_from_ical parseLinesP
  have h := loop_prun tzok dec (linesFromIcal st) PState.init rfl
  simp only [PState.init, List.reverse_nil] at h
  unfold loopP at h
  simp only [PState.init]
  rw [h]
  cases hp : prun tzok dec ⟨[], [], false⟩ (linesFromIcal st) with
  | none => rfl
  | some st' =>
    simp only [ok_bind]
    cases multiple with
    | true => simp [pure_ok]
    | false =>
      obtain ⟨stack, comps, stopped⟩ := st'
      cases comps with
      | nil => simp [throw_err]
      | cons c cs =>
        cases cs with
        | nil => simp [listHead, ok_bind, pure_ok]
        | cons c2 cs2 =>
          simp [throw_err]
          intro h1; omega

/-- the only exception that leaves the translated `from_ical` is ValueError -/
theorem fromIcal_raises_only_valueError (tzok : Comp → Bool) (dec : Dec) (st : Str) (multiple : Bool) (e : Exc)
    (h : fromIcalP tzok dec st multiple = .error e) : e = .valueError := by
  rw [fromIcal_parseLinesP] at h
  cases hp : parseLinesP tzok dec multiple (linesFromIcal st) with
  | none => rw [hp] at h; injection h with h; exact h.symm
  | some cs =>
    rw [hp] at h
    cases multiple with
    | true => simp at h
    | false =>
      cases cs with
      | nil =>
        exfalso
        unfold parseLinesP at hp
        cases hr : prun tzok dec PState.init (linesFromIcal st) with
        | none => rw [hr] at hp; simp at hp
        | some s' =>
          rw [hr] at hp
          simp only [Bool.false_eq_true, if_false] at hp
          by_cases hl : s'.comps.length = 1
          · simp [hl] at hp; rw [hp] at hl; simp at hl
          · simp [hl] at hp
      | cons c cs => simp at h

/-- the caller's view of the translated `from_ical` is the model's `parseText` -/
theorem fromIcalTrees_parseText (tzok : Comp → Bool) (dec : Dec) (multiple : Bool) (st : Str) :
    fromIcalTrees tzok dec multiple st = parseText tzok dec multiple st := by
  unfold fromIcalTrees parseText parseLines
  rw [fromIcal_parseLinesP]
  cases hp : parseLinesP tzok dec multiple (linesFromIcal st) with
  | none => rfl
  | some cs =>
    cases multiple with
    | true => rfl
    | false =>
      unfold parseLinesP at hp
      cases hr : prun tzok dec PState.init (linesFromIcal st) with
      | none => rw [hr] at hp; simp at hp
      | some s' =>
        rw [hr] at hp
        simp only [Bool.false_eq_true, if_false] at hp
        by_cases hl : s'.comps.length = 1
        · simp [hl] at hp
          subst hp
          match hc : s'.comps, hl with
          | [c], _ => rfl
        · simp [hl] at hp

end ICal.Bodies
