/-
  The regenerated `vPeriod.__init__` (ICal/Gen/BodiesAdd.lean, tools/py2lean.py) against the hand model of
  ICal/Model/Encode.lean (`periodText`: is the pair accepted; `periodParamsV`: the parameters): the two type checks, the
  `try` - a timedelta as second member gives `end = start + duration`, otherwise `duration = end - start`, then
  `if start > end: raise ValueError` (STRICTLY greater) -, TypeError and OverflowError turned into ValueError, VALUE=PERIOD,
  and the TZID of a datetime start when it is true and not UTC.  The members are opaque in the translation; `+`, `-`, `>`
  are declared by their source text, so another comparison is refused.  Pieces: ICal/Model/AddPieces.lean (`PerObj`).
-/
import ICal.Model.AddPieces
set_option linter.unusedSimpArgs false
namespace ICal.Bodies
open ICal ICal.PyRT ICal.Enc ICal.Gen.BodiesAdd

/-- the constructor accepts the pair exactly when the model's `periodText` does, derives the model's `periodParamsV`, and
    raises nothing but ValueError -/
theorem period_init_eq (a b : PyAtom) :
    periodInitParamsP a b =
      (match Enc.periodText a b with
       | some _ => .ok (periodParamsV a)
       | none => .error .valueError) := by
  unfold periodInitParamsP vPeriod_init
  cases a with
  | date x =>
    cases b with
    | date y =>
      by_cases h : keyLt (PDate.key y) (PDate.key x) = true <;>
        simp [h, perIsDatetime, perIsDate, perIsTimedelta, perAdd, perSub, perGt, perTzid, Enc.periodText, periodParamsV,
          bind, Except.bind, pure, Except.pure, throw, throwThe, MonadExceptOf.throw, caught, Except.map, kVALUE]
    | dur s =>
      by_cases h : s < 0 <;>
        simp [h, perIsDatetime, perIsDate, perIsTimedelta, perAdd, perSub, perGt, perTzid, Enc.periodText, periodParamsV,
          bind, Except.bind, pure, Except.pure, throw, throwThe, MonadExceptOf.throw, caught, Except.map, kVALUE]
    | dt y => simp [perIsDatetime, perIsDate, perIsTimedelta, perAdd, perSub, perGt, perTzid, Enc.periodText, periodParamsV,
          bind, Except.bind, pure, Except.pure, throw, throwThe, MonadExceptOf.throw, caught, Except.map, kVALUE]
    | time y => simp [perIsDatetime, perIsDate, perIsTimedelta, perAdd, perSub, perGt, perTzid, Enc.periodText, periodParamsV,
          bind, Except.bind, pure, Except.pure, throw, throwThe, MonadExceptOf.throw, caught, Except.map, kVALUE]
  | dt x =>
    cases b with
    | dt y =>
      cases hx : x.tzid with
      | none =>
        cases hy : y.tzid with
        | none =>
          cases hk : keyLt y.wall.key x.wall.key <;>
            simp [hx, hy, hk, dtGt, perIsDatetime, perIsDate, perIsTimedelta, perAdd, perSub, perGt, perTzid, Enc.periodText, periodParamsV,
            tzParamTruthy, bind, Except.bind, pure, Except.pure, throw, throwThe, MonadExceptOf.throw, caught, Except.map, kVALUE, kTZID, UTC]
        | some zy => simp [hx, hy, dtGt, perIsDatetime, perIsDate, perIsTimedelta, perAdd, perSub, perGt, perTzid, Enc.periodText, periodParamsV,
            tzParamTruthy, bind, Except.bind, pure, Except.pure, throw, throwThe, MonadExceptOf.throw, caught, Except.map, kVALUE, kTZID, UTC]
      | some zx =>
        cases hy : y.tzid with
        | none => simp [hx, hy, dtGt, perIsDatetime, perIsDate, perIsTimedelta, perAdd, perSub, perGt, perTzid, Enc.periodText, periodParamsV,
            tzParamTruthy, bind, Except.bind, pure, Except.pure, throw, throwThe, MonadExceptOf.throw, caught, Except.map, kVALUE, kTZID, UTC]
        | some zy =>
          cases hk : keyLt y.utcWall.key x.utcWall.key <;>
            simp [hx, hy, hk, dtGt, perIsDatetime, perIsDate, perIsTimedelta, perAdd, perSub, perGt, perTzid, Enc.periodText, periodParamsV,
            tzParamTruthy, bind, Except.bind, pure, Except.pure, throw, throwThe, MonadExceptOf.throw, caught, Except.map, kVALUE, kTZID, UTC] <;>
            (try (split <;> (try simp_all) <;> (try (split <;> (try simp_all)))))
    | dur s =>
      by_cases h : s < 0 <;> cases hx : x.tzid <;>
        simp [h, hx, perIsDatetime, perIsDate, perIsTimedelta, perAdd, perSub, perGt, perTzid, Enc.periodText, periodParamsV,
          tzParamTruthy, bind, Except.bind, pure, Except.pure, throw, throwThe, MonadExceptOf.throw, caught, Except.map, kVALUE, kTZID, UTC] <;>
        (try (split <;> (try simp_all) <;> (try (split <;> simp_all))))
    | date y => simp [perIsDatetime, perIsDate, perIsTimedelta, perAdd, perSub, perGt, perTzid, Enc.periodText, periodParamsV,
          bind, Except.bind, pure, Except.pure, throw, throwThe, MonadExceptOf.throw, caught, Except.map, kVALUE]
    | time y => simp [perIsDatetime, perIsDate, perIsTimedelta, perAdd, perSub, perGt, perTzid, Enc.periodText, periodParamsV,
          bind, Except.bind, pure, Except.pure, throw, throwThe, MonadExceptOf.throw, caught, Except.map, kVALUE]
  | dur x => cases b <;> simp [perIsDatetime, perIsDate, perIsTimedelta, Enc.periodText, throw, throwThe, MonadExceptOf.throw, Except.map]
  | time x => cases b <;> simp [perIsDatetime, perIsDate, perIsTimedelta, Enc.periodText, throw, throwThe, MonadExceptOf.throw, Except.map]

end ICal.Bodies
