/-
  More lemmas for C13 (Model/TzGen): the outer loop without any assumption on the zone (starts
  ascending, TZOFFSETFROM of the first and of the later segments), the `offsets` dict as a function
  of the segment list (`group_spec`), the emission of a sorted group, and the dependence of
  `from_tzinfo` on the zone only through the clock values it reads (`fromInfo_congr`).
-/
import ICal.Lemmas.TzGen
set_option linter.unusedSimpArgs false
namespace ICal.TzGen

/-! ## the search never goes left and reads the zone only on `[e, H]` -/

theorem loop_ge' (off : Int → Int) (o d H : Int) (hd : 0 < d) :
    ∀ (n : Nat) (e p : Int), e ≤ p → ∀ r, (loop off o d H n e p = .ok r ∨ loop off o d H n e p = .brk r) → e ≤ r := by
  intro n
  induction n with
  | zero => intro e p _ r h; simp [loop] at h; omega
  | succ k ih =>
    intro e p hep r h
    unfold loop at h
    split at h
    · split at h
      · simp at h; omega
      · have := ih p (p + d) (by omega) r h; omega
    · simp at h; omega

theorem pass_ge' (off : Int → Int) (o d H e : Int) (hd : 0 < d) :
    ∀ r, (pass off o d H e = .ok r ∨ pass off o d H e = .brk r) → e ≤ r := by
  intro r h
  unfold pass at h
  split at h
  · simp at h
  · exact loop_ge' off o d H hd _ e (e + d) (by omega) r h

theorem search_ge' (off : Int → Int) (o H : Int) :
    ∀ (ds : List Int), (∀ d ∈ ds, 0 < d) → ∀ (e r : Int),
      (search off o H ds e = .ok r ∨ search off o H ds e = .brk r) → e ≤ r := by
  intro ds
  induction ds with
  | nil => intro _ e r h; simp [search] at h; omega
  | cons d ds ih =>
    intro hds e r h
    have hd := hds d (by simp)
    simp only [search] at h
    cases hp : pass off o d H e with
    | raise => rw [hp] at h; simp at h
    | ok e1 =>
      rw [hp] at h
      have h1 := pass_ge' off o d H e hd e1 (Or.inl hp)
      have := ih (fun x hx => hds x (by simp [hx])) e1 r h
      omega
    | brk e1 =>
      rw [hp] at h
      have h1 := pass_ge' off o d H e hd e1 (Or.inr hp)
      rcases h with h | h
      · cases h
      · cases h; exact h1

theorem loop_congr (off off' : Int → Int) (o d H lo : Int) (hd : 0 < d)
    (hag : ∀ x, lo ≤ x → x ≤ H → off x = off' x) :
    ∀ (n : Nat) (e p : Int), lo ≤ p → p ≤ H → loop off o d H n e p = loop off' o d H n e p := by
  intro n
  induction n with
  | zero => intro e p _ _; rfl
  | succ k ih =>
    intro e p h1 h2
    unfold loop
    rw [hag p h1 h2]
    split
    · split
      · rfl
      · exact ih p (p + d) (by omega) (by omega)
    · rfl

theorem pass_congr (off off' : Int → Int) (o d H lo e : Int) (hd : 0 < d)
    (hag : ∀ x, lo ≤ x → x ≤ H → off x = off' x) (he : lo ≤ e) :
    pass off o d H e = pass off' o d H e := by
  unfold pass
  split
  · rfl
  · exact loop_congr off off' o d H lo hd hag _ e (e + d) (by omega) (by omega)

theorem search_congr (off off' : Int → Int) (o H lo : Int)
    (hag : ∀ x, lo ≤ x → x ≤ H → off x = off' x) :
    ∀ (ds : List Int), (∀ d ∈ ds, 0 < d) → ∀ e, lo ≤ e → search off o H ds e = search off' o H ds e := by
  intro ds
  induction ds with
  | nil => intro _ e _; rfl
  | cons d ds ih =>
    intro hds e he
    have hd := hds d (by simp)
    simp only [search]
    rw [← pass_congr off off' o d H lo e hd hag he]
    cases hp : pass off o d H e with
    | raise => rfl
    | brk e1 => rfl
    | ok e1 =>
      have h1 := pass_ge' off o d H e hd e1 (Or.inl hp)
      exact ih (fun x hx => hds x (by simp [hx])) e1 (by omega)

/-! ## one iteration of the outer loop -/

theorem outer_succ (info : Int → Info) (wallOf : Int → Int) (H last : Int) (n : Nat) (start : Int)
    (prev : Option Int) (segs : List Seg)
    (h : outer info wallOf skipSearch H last (n + 1) start prev = some segs) :
    (¬ start < last ∧ segs = []) ∨
    (start < last ∧ ∃ e tl, start ≤ e ∧
      (search (fun x => (info x).off) (info start).off H skipSearch start = .ok e ∨
       search (fun x => (info x).off) (info start).off H skipSearch start = .brk e) ∧
      outer info wallOf skipSearch H last n (e + 1) (some (info start).off) = some tl ∧
      segs = ⟨prev, (info start).off, (info start).name, (info start).isStd, start, wallOf start⟩ :: tl) := by
  have hpos : ∀ d ∈ skipSearch, 0 < d := fun d hd => (skipSearch_steps d hd).1
  unfold outer at h
  split at h
  · next hs =>
    right
    simp only at h
    split at h
    · simp at h
    · next e he =>
      cases hr : outer info wallOf skipSearch H last n (e + 1) (some (info start).off) with
      | none => rw [hr] at h; simp at h
      | some tl =>
        rw [hr] at h; simp at h
        exact ⟨hs, e, tl, search_ge' _ _ H skipSearch hpos start e (Or.inl he), Or.inl he, hr, h.symm⟩
    · next e he =>
      cases hr : outer info wallOf skipSearch H last n (e + 1) (some (info start).off) with
      | none => rw [hr] at h; simp at h
      | some tl =>
        rw [hr] at h; simp at h
        exact ⟨hs, e, tl, search_ge' _ _ H skipSearch hpos start e (Or.inr he), Or.inr he, hr, h.symm⟩
  · next hs =>
    left
    simp at h
    exact ⟨hs, h⟩

/-- the segment list of any zone: starts inside the window and strictly ascending, data of the zone
    at the start, TZOFFSETFROM `prev` for the first and some offset for all later ones -/
theorem outer_inv (info : Int → Info) (wallOf : Int → Int) (H last : Int) :
    ∀ (n : Nat) (start : Int) (prev : Option Int) (segs : List Seg),
      outer info wallOf skipSearch H last n start prev = some segs →
      (∀ g ∈ segs, start ≤ g.start ∧ g.start < last ∧ SegOK info wallOf g) ∧
      segs.Pairwise (fun a b => a.start < b.start) ∧
      (∀ s tl, segs = s :: tl → s.offFrom = prev ∧ s.start = start ∧ ∀ g ∈ tl, g.offFrom.isSome = true) := by
  intro n
  induction n with
  | zero =>
    intro start prev segs h
    simp [outer] at h; subst h
    exact ⟨by simp, List.Pairwise.nil, by intro s tl h; cases h⟩
  | succ n ih =>
    intro start prev segs h
    rcases outer_succ info wallOf H last n start prev segs h with ⟨_, rfl⟩ | ⟨hs, e, tl, hse, _, hr, rfl⟩
    · exact ⟨by simp, List.Pairwise.nil, by intro s tl h; cases h⟩
    · obtain ⟨i1, i2, i3⟩ := ih (e + 1) _ tl hr
      refine ⟨?_, ?_, ?_⟩
      · intro g hg
        rcases List.mem_cons.mp hg with rfl | hg
        · exact ⟨Int.le_refl _, hs, rfl, rfl, rfl, rfl⟩
        · have := i1 g hg
          exact ⟨by omega, this.2.1, this.2.2⟩
      · refine List.Pairwise.cons ?_ i2
        intro g hg
        have := (i1 g hg).1
        simp only; omega
      · intro s tl' heq
        simp only [List.cons.injEq] at heq
        obtain ⟨rfl, rfl⟩ := heq
        refine ⟨rfl, rfl, ?_⟩
        intro g hg
        cases tl with
        | nil => cases hg
        | cons s' tl'' =>
          obtain ⟨j1, _, j3⟩ := i3 s' tl'' rfl
          rcases List.mem_cons.mp hg with rfl | hg
          · rw [j1]; rfl
          · exact j3 g hg

/-- `from_tzinfo` reads the zone only at clock values of `[start, H]` -/
theorem outer_congr (info info' : Int → Info) (wallOf wallOf' : Int → Int) (H last lo : Int)
    (hag : ∀ x, lo ≤ x → x ≤ H → info x = info' x) (hw : ∀ x, lo ≤ x → x < last → wallOf x = wallOf' x)
    (hlast : last ≤ H + 1) :
    ∀ (n : Nat) (start : Int) (prev : Option Int), lo ≤ start →
      outer info wallOf skipSearch H last n start prev = outer info' wallOf' skipSearch H last n start prev := by
  have hpos : ∀ d ∈ skipSearch, 0 < d := fun d hd => (skipSearch_steps d hd).1
  intro n
  induction n with
  | zero => intro start prev _; rfl
  | succ n ih =>
    intro start prev hlo
    unfold outer
    split
    · next hs =>
      have hi : info start = info' start := hag start hlo (by omega)
      have hsearch : search (fun x => (info x).off) (info start).off H skipSearch start =
          search (fun x => (info' x).off) (info' start).off H skipSearch start := by
        rw [← hi]
        exact search_congr _ _ _ H lo (fun x h1 h2 => by show (info x).off = (info' x).off; rw [hag x h1 h2])
          skipSearch hpos start hlo
      simp only
      rw [← hsearch, ← hi, ← hw start hlo hs]
      cases hse : search (fun x => (info x).off) (info start).off H skipSearch start with
      | raise => rfl
      | ok e =>
        have := search_ge' _ _ H skipSearch hpos start e (Or.inl hse)
        simp only
        rw [ih (e + 1) _ (by omega)]
      | brk e =>
        have := search_ge' _ _ H skipSearch hpos start e (Or.inr hse)
        simp only
        rw [ih (e + 1) _ (by omega)]
    · rfl

theorem fromInfo_congr (info info' : Int → Info) (wallOf wallOf' : Int → Int) (H first last lastWall : Int)
    (hag : ∀ x, first ≤ x → x ≤ H → info x = info' x) (hw : ∀ x, first ≤ x → x < last → wallOf x = wallOf' x)
    (hlast : last ≤ H + 1) :
    fromInfo info wallOf H first last lastWall = fromInfo info' wallOf' H first last lastWall := by
  unfold fromInfo
  rw [outer_congr info info' wallOf wallOf' H last first hag hw hlast _ first none (Int.le_refl _)]

/-! ## the `offsets` dict as a function of the segment list -/

def lookupK : List (Key × List Int) → Key → Option (List Int)
  | [], _ => none
  | (k', ws) :: r, k => if k' = k then some ws else lookupK r k

/-- the wall times of the segments with key `k`, in the order of the loop -/
def walls (segs : List Seg) (k : Key) : List Int := (segs.filter fun s => decide (s.key = k)).map (·.wall)

theorem lookupK_addSeg : ∀ (g : List (Key × List Int)) (k : Key) (w : Int) (k' : Key),
    lookupK (addSeg g k w) k' = if k = k' then some ((lookupK g k).getD [] ++ [w]) else lookupK g k' := by
  intro g
  induction g with
  | nil => intro k w k'; by_cases h : k = k' <;> simp [addSeg, lookupK, h]
  | cons a r ih =>
    intro k w k'
    obtain ⟨k0, ws0⟩ := a
    by_cases h0 : k0 = k
    · subst h0
      by_cases h : k0 = k' <;> simp [addSeg, lookupK, h]
    · by_cases h : k = k'
      · subst h
        simp [addSeg, lookupK, h0, ih]
      · by_cases h1 : k0 = k'
        · subst h1; simp [addSeg, lookupK, h0, h, ih]
        · simp [addSeg, lookupK, h0, h, h1, ih]

theorem walls_cons (s : Seg) (r : List Seg) (k : Key) :
    walls (s :: r) k = if s.key = k then s.wall :: walls r k else walls r k := by
  unfold walls
  by_cases h : s.key = k <;> simp [List.filter_cons, h]

theorem group_lookup : ∀ (segs : List Seg) (g : List (Key × List Int)) (k : Key),
    lookupK (segs.foldl (fun g s => addSeg g s.key s.wall) g) k =
      if walls segs k = [] then lookupK g k else some ((lookupK g k).getD [] ++ walls segs k) := by
  intro segs
  induction segs with
  | nil => intro g k; simp [walls]
  | cons s r ih =>
    intro g k
    simp only [List.foldl_cons]
    rw [ih, lookupK_addSeg, walls_cons]
    by_cases h : s.key = k
    · subst h
      by_cases h2 : walls r s.key = [] <;> simp [h2]
    · simp [h]

theorem mem_of_lookupK : ∀ (g : List (Key × List Int)) (k : Key) (ws : List Int),
    lookupK g k = some ws → (k, ws) ∈ g := by
  intro g
  induction g with
  | nil => intro k ws h; cases h
  | cons a r ih =>
    intro k ws h
    obtain ⟨k0, ws0⟩ := a
    unfold lookupK at h
    split at h
    · next hk => simp only [Option.some.injEq] at h; subst hk; subst h; simp
    · exact List.mem_cons_of_mem _ (ih k ws h)

theorem lookupK_of_mem : ∀ (g : List (Key × List Int)), (g.map (·.1)).Nodup → ∀ (k : Key) (ws : List Int),
    (k, ws) ∈ g → lookupK g k = some ws := by
  intro g
  induction g with
  | nil => intro _ k ws h; cases h
  | cons a r ih =>
    intro hnd k ws h
    obtain ⟨k0, ws0⟩ := a
    simp only [List.map_cons, List.nodup_cons] at hnd
    rcases List.mem_cons.mp h with heq | h
    · simp only [Prod.mk.injEq] at heq
      obtain ⟨rfl, rfl⟩ := heq
      simp [lookupK]
    · have hne : k0 ≠ k := by
        intro e; subst e
        exact hnd.1 (List.mem_map.mpr ⟨(k0, ws), h, rfl⟩)
      simp only [lookupK, hne, if_false]
      exact ih hnd.2 k ws h

theorem keys_addSeg : ∀ (g : List (Key × List Int)) (k : Key) (w : Int),
    (addSeg g k w).map (·.1) = if k ∈ g.map (·.1) then g.map (·.1) else g.map (·.1) ++ [k] := by
  intro g
  induction g with
  | nil => intro k w; simp [addSeg]
  | cons a r ih =>
    intro k w
    obtain ⟨k0, ws0⟩ := a
    by_cases h0 : k0 = k
    · subst h0; simp [addSeg]
    · have h0' : ¬ k = k0 := fun e => h0 e.symm
      simp only [addSeg, h0, if_false, List.map_cons, ih, List.mem_cons, h0', false_or]
      split <;> simp

theorem nodup_keys_addSeg (g : List (Key × List Int)) (k : Key) (w : Int) (h : (g.map (·.1)).Nodup) :
    ((addSeg g k w).map (·.1)).Nodup := by
  rw [keys_addSeg]
  split
  · exact h
  · next hk =>
    rw [List.nodup_append]
    refine ⟨h, by simp, ?_⟩
    intro a ha b hb
    simp only [List.mem_singleton] at hb
    subst hb
    intro e; subst e; exact hk ha

theorem nodup_keys_foldl : ∀ (segs : List Seg) (g : List (Key × List Int)), (g.map (·.1)).Nodup →
    ((segs.foldl (fun g s => addSeg g s.key s.wall) g).map (·.1)).Nodup := by
  intro segs
  induction segs with
  | nil => intro g h; exact h
  | cons s r ih => intro g h; exact ih _ (nodup_keys_addSeg g s.key s.wall h)

/-- the dict after the loop: keys pairwise different; the value of a key is the list of wall times
    of the segments with that key, in loop order, and is not empty; every segment's key is there -/
theorem group_spec (segs : List Seg) :
    ((group segs).map (·.1)).Nodup ∧
    (∀ q ∈ group segs, q.2 = walls segs q.1 ∧ q.2 ≠ []) ∧
    (∀ s ∈ segs, (s.key, walls segs s.key) ∈ group segs) := by
  have hnd : ((group segs).map (·.1)).Nodup := nodup_keys_foldl segs [] (by simp)
  have hl : ∀ k, lookupK (group segs) k = if walls segs k = [] then none else some (walls segs k) := by
    intro k
    have := group_lookup segs [] k
    simpa [lookupK, group] using this
  refine ⟨hnd, ?_, ?_⟩
  · intro q hq
    have h1 := lookupK_of_mem (group segs) hnd q.1 q.2 hq
    rw [hl] at h1
    split at h1
    · cases h1
    · next hne => simp only [Option.some.injEq] at h1; rw [← h1]; exact ⟨rfl, hne⟩
  · intro s hs
    apply mem_of_lookupK
    rw [hl]
    have hne : walls segs s.key ≠ [] := by
      intro h
      have : s.wall ∈ walls segs s.key := by
        unfold walls
        exact List.mem_map.mpr ⟨s, List.mem_filter.mpr ⟨hs, by simp⟩, rfl⟩
      rw [h] at this; cases this
    simp [hne]

theorem sumLen_addSeg : ∀ (g : List (Key × List Int)) (k : Key) (w : Int),
    ((addSeg g k w).map (·.2.length)).sum = (g.map (·.2.length)).sum + 1 := by
  intro g
  induction g with
  | nil => intro k w; simp [addSeg]
  | cons a r ih =>
    intro k w
    obtain ⟨k0, ws0⟩ := a
    by_cases h0 : k0 = k
    · simp [addSeg, h0]; omega
    · simp [addSeg, h0, ih]; omega

/-- one wall time per iteration: the sizes of the groups add up to the number of segments -/
theorem sumLen_group : ∀ (segs : List Seg) (g : List (Key × List Int)),
    ((segs.foldl (fun g s => addSeg g s.key s.wall) g).map (·.2.length)).sum =
      (g.map (·.2.length)).sum + segs.length := by
  intro segs
  induction segs with
  | nil => intro g; simp
  | cons s r ih =>
    intro g
    simp only [List.foldl_cons, List.length_cons]
    rw [ih, sumLen_addSeg]; omega

/-! ## emission of an ascending group -/

theorem listMin_of_lt : ∀ (ws : List Int) (m : Int), (∀ x ∈ ws, m < x) → listMin m ws = m := by
  intro ws
  induction ws with
  | nil => intro m _; rfl
  | cons x xs ih =>
    intro m h
    have hx := h x (by simp)
    have : ¬ x < m := by omega
    simp only [listMin, this, if_false]
    exact ih m (fun y hy => h y (List.mem_cons_of_mem _ hy))

theorem emit_sorted (lastWall : Int) (k : Key) (w : Int) (ws : List Int) (h : (w :: ws).Pairwise (· < ·)) :
    (emit lastWall (k, w :: ws)).rdates = ws ∧
    ((emit lastWall (k, w :: ws)).dtstart = w ∨
      ((emit lastWall (k, w :: ws)).dtstart = lastWall ∧ lastWall ≤ w ∧ w < lastWall + 86400)) ∧
    ((emit lastWall (k, w :: ws)).dtstart :: (emit lastWall (k, w :: ws)).rdates).Pairwise (· < ·) := by
  rw [List.pairwise_cons] at h
  have hm : listMin w ws = w := listMin_of_lt ws w h.1
  simp only [emit, hm, List.erase_cons_head]
  refine ⟨trivial, ?_, ?_⟩
  · by_cases hc : lastWall ≤ w ∧ w < lastWall + 86400
    · right; simp [hc]
    · left; simp [hc]
  · refine List.Pairwise.cons ?_ h.2
    intro x hx
    have := h.1 x hx
    split <;> omega

theorem emit_count (lastWall : Int) (q : Key × List Int) (hne : q.2 ≠ []) :
    1 + (emit lastWall q).rdates.length = q.2.length := by
  obtain ⟨k, ws⟩ := q
  cases ws with
  | nil => exact absurd rfl hne
  | cons w r =>
    have hm : listMin w r ∈ w :: r := by
      rcases listMin_mem r w with h | h
      · rw [h]; simp
      · exact List.mem_cons_of_mem _ h
    simp only [emit, List.length_erase_of_mem hm, List.length_cons]
    omega

/-- the number of segments along a chain: one, plus one per chain point before `last` -/
theorem chain_asc (info : Int → Info) (H last : Int) : ∀ (Ts : List Int) (s : Int), Chain info H last s Ts →
    (∀ T ∈ Ts, s < T) ∧ Ts.Pairwise (· < ·) := by
  intro Ts
  induction Ts with
  | nil => intro s _; exact ⟨by simp, List.Pairwise.nil⟩
  | cons T rest ih =>
    intro s hc
    cases hc with
    | step hsT _ _ _ hrest =>
      obtain ⟨h1, h2⟩ := ih T hrest
      refine ⟨?_, List.Pairwise.cons h1 h2⟩
      intro x hx
      rcases List.mem_cons.mp hx with rfl | hx
      · exact hsT
      · have := h1 x hx; omega

theorem segsOf_length (info : Int → Info) (wallOf : Int → Int) (H last : Int) :
    ∀ (Ts : List Int) (s : Int) (prev : Option Int), Chain info H last s Ts → s < last →
      (segsOf info wallOf last prev s Ts).length = 1 + (Ts.filter fun T => decide (T < last)).length := by
  intro Ts
  induction Ts with
  | nil => intro s prev _ hs; simp [segsOf, hs]
  | cons T rest ih =>
    intro s prev hc hs
    cases hc with
    | step hsT hB hA hTH hrest =>
      simp only [segsOf, hs, if_true, List.length_cons]
      by_cases hT : T < last
      · rw [ih T _ hrest hT]
        simp [List.filter_cons, hT]; omega
      · have hall : ∀ x ∈ rest, ¬ x < last := by
          intro x hx
          have := (chain_asc info H last rest T hrest).1 x hx
          omega
        have hf : (List.filter (fun T => decide (T < last)) (T :: rest)) = [] := by
          rw [List.filter_eq_nil_iff]
          intro x hx
          rcases List.mem_cons.mp hx with rfl | hx
          · simpa using hT
          · simpa using hall x hx
        rw [hf]
        cases rest with
        | nil => simp [segsOf, hT]
        | cons T' r' => simp [segsOf, hT]

end ICal.TzGen
