/-
  More lemmas for parameters (C08, clause pass round 10): no colon outside double quotes in the
  whole parameter text; the unsorted round trip; letter case of names.
-/
import ICal.Lemmas.Params
namespace ICal

theorem tokChar_ne_colon (c : Char) (h : (isAsciiWord c || Gen.nameExtra.contains c) = true) : c ≠ ':' := by
  rintro rfl; revert h; decide

theorem validToken_noColon (k : Str) (hk : validToken k = true) : ':' ∉ k := by
  unfold validToken at hk
  simp only [Bool.and_eq_true, Bool.not_eq_true', List.all_eq_true] at hk
  intro h; exact tokChar_ne_colon ':' (hk.2 ':' h) rfl

/-- the whole text of `Parameters.to_ical`, for EVERY value (inside the domain or not), shows no
    colon outside double quotes -/
theorem paramsToIcal_balanced_colon (m : Params) (sorted : Bool)
    (hk : ∀ kv ∈ m, validToken (upper kv.1) = true) : Balanced ':' (paramsToIcal m sorted) := by
  unfold paramsToIcal
  refine balanced_joinWith ':' ';' (by decide) _ ?_
  intro t ht
  obtain ⟨kv, hkv, rfl⟩ := List.mem_map.mp ht
  have hm : kv ∈ m := by
    cases sorted with
    | true => exact (sortByKey_perm m).mem_iff.mp (by simpa using hkv)
    | false => simpa using hkv
  have hv := hk kv hm
  refine ((balanced_plain ':' _ (validToken_noDQ _ hv) (validToken_noColon _ hv)).append
    (by decide)).append ?_
  exact paramValue_balanced ':' quotable_colon (by decide) (by decide) kv.2

/-- round trip in insertion order (`sorted=False`) -/
theorem fromIcal_toIcal_unsorted (m : Params) (hd : ParamDomain m) :
    paramsFromIcal (paramsToIcal m false) false = some (m.map (fun kv => (kv.1, canonVal kv.2))) := by
  unfold paramsFromIcal paramsToIcal
  simp only [Bool.false_eq_true, if_false]
  have ht : (m.map fun kv => upper kv.1 ++ ['='] ++ paramValue kv.2) = m.map itemText := rfl
  rw [ht]
  cases m with
  | nil => simp [joinWith, qSplit, qSplitGo]
  | cons kv r =>
    rw [qSplit_join ';' (by decide) _ (by
        rw [List.map_cons]; exact joinWith_ne_nil _ _ _ (item_ne_nil kv)) (by
        intro t ht
        obtain ⟨x, hx, rfl⟩ := List.mem_map.mp ht
        exact item_balanced x (hd.2 x hx).1.1 (hd.2 x hx).1.2)]
    rw [fold_items _ (by intro ps param k v h; simp only [h]) (kv :: r) [] hd (by simp)]
    simp

/-- reading an item: only the upper-cased name is used -/
theorem parseParam_name_case (strict : Bool) (k k' v : Str) (hk : validToken k = true)
    (hk' : validToken k' = true) (hu : upper k = upper k') :
    parseParam strict (k ++ '=' :: v) = parseParam strict (k' ++ '=' :: v) := by
  unfold parseParam
  rw [qSplit_key_val k v hk, qSplit_key_val k' v hk']
  simp only [hk, hk', hu]

end ICal
