/-
  Lemmas for C11 (model: ICal/Model/Zoned.lean).  The DATE-TIME text codec is reused from C03
  (`C03.datetime_rt`, `C03.duration_rt`) and from Lemmas/Codec (shape of the encoder output, dispatch of
  `vDDDTypes.from_ical`, `str.split`).  Here: the provider laws (hypotheses, never axioms), what
  `TZP.timezone` answers under them, the decoders on encoder output for any resolved zone, lists, periods,
  and `localize_utc`.
-/
import ICal.Model.Zoned
import ICal.Lemmas.Codec
import ICal.Props.C03
namespace ICal.Zoned
open ICal ICal.Codec

/-! ## provider laws -/

/-- What C11 assumes of the time zone library, for the ids `ids` it lists (not provable: it is the tz
    database; checked for every id of zoneinfo and pytz by harness/props/C11.py):
    asking for a listed id gives a zone whose id is that id; listed ids need no cleaning and are not
    empty (`if tzid:` in vDatetime / vPeriod / vDDDLists drops an empty id); the zone
    `localize_utc` attaches is called `UTC` and has offset 0. -/
structure ProviderLaws {Z : Type} (P : Provider Z) (ids : Str → Prop) : Prop where
  ids_zone : ∀ k, ids k → ∃ z, P.zone k = some z ∧ P.key z = k
  ids_clean : ∀ k, ids k → cleanTzid k = k
  ids_nonempty : ∀ k, ids k → k ≠ []
  utc_key : P.key P.utc = UTC
  utc_off : ∀ w, P.off P.utc w = 0

/-- `z` is the provider's own zone object for its id (not one of another library with the same id) -/
def Own {Z : Type} (P : Provider Z) (z : Z) : Prop := P.zone (P.key z) = some z

theorem tzpTimezone_clean {Z : Type} (P : Provider Z) (id : Str) (z : Z)
    (h : P.zone (cleanTzid id) = some z) : tzpTimezone P id = some z := by
  unfold tzpTimezone
  simp only [h]

/-- a listed id resolves to the provider's zone of that id -/
theorem tzpTimezone_ids {Z : Type} {P : Provider Z} {ids : Str → Prop} (hl : ProviderLaws P ids)
    (k : Str) (hk : ids k) : ∃ z, P.zone k = some z ∧ P.key z = k ∧ tzpTimezone P k = some z := by
  obtain ⟨z, hz, hkey⟩ := hl.ids_zone k hk
  exact ⟨z, hz, hkey, tzpTimezone_clean P k z (by rw [hl.ids_clean k hk]; exact hz)⟩

/-- an id wrapped in slashes resolves like the clean id (when the library knows the clean id) -/
theorem tzpTimezone_unclean {Z : Type} (P : Provider Z) (id : Str) (z : Z)
    (h : P.zone (cleanTzid id) = some z) : tzpTimezone P id = tzpTimezone P (cleanTzid id) ∨
      tzpTimezone P id = some z := Or.inr (tzpTimezone_clean P id z h)

/-! ## the encoder output -/

theorem Wall.valid_toP (w : Wall) (b : Bool) (h : w.valid = true) : (w.toP b).valid = true := by
  simpa [Wall.valid, Wall.toP, PDateTime.valid] using h

theorem Wall.ofP_toP (w : Wall) (b : Bool) : Wall.ofP (w.toP b) = w := rfl

/-- the sixteen (fifteen) characters -/
theorem dtText_chars (w : Wall) (b : Bool) (h : w.valid = true) :
    vDatetimeTo (w.toP b) =
      dateChars w.date.y w.date.m w.date.d ++ 'T' :: (hmsChars w.h w.mi w.s ++ (if b then ['Z'] else [])) :=
  vDatetimeTo_eq (w.toP b) (Wall.valid_toP w b h)

theorem dtText_Z (w : Wall) (h : w.valid = true) :
    vDatetimeTo (w.toP true) = vDatetimeTo (w.toP false) ++ ['Z'] := by
  rw [dtText_chars w true h, dtText_chars w false h]
  simp [dateChars, hmsChars]

theorem dtText_length (w : Wall) (b : Bool) (h : w.valid = true) :
    (vDatetimeTo (w.toP b)).length = if b then 16 else 15 := by
  rw [dtText_chars w b h]
  cases b <;> simp [dateChars, hmsChars]

/-- the first fifteen characters are the floating form -/
theorem dtText_take15 (w : Wall) (b : Bool) (h : w.valid = true) :
    (vDatetimeTo (w.toP b)).take 15 = vDatetimeTo (w.toP false) := by
  rw [dtText_chars w b h, dtText_chars w false h]
  cases b <;> simp [dateChars, hmsChars]

theorem dtText_dtChars (w : Wall) (b : Bool) (h : w.valid = true) :
    ∀ c ∈ vDatetimeTo (w.toP b), dtChar c = true := by
  have hv := Wall.valid_toP w false h
  simp only [PDateTime.valid, PDate.valid, Bool.and_eq_true, Wall.toP] at hv
  obtain ⟨hy, hm, hd⟩ := validDate_bounds hv.1
  obtain ⟨hh, hmi, hs⟩ := validTime_bounds hv.2
  rw [dtText_chars w b h]
  intro c hc
  simp only [List.mem_append, List.mem_cons] at hc
  rcases hc with h1 | h2 | h3 | h4
  · exact dtChars_dateChars _ _ _ hy hm hd c h1
  · subst h2; decide
  · exact dtChars_hmsChars _ _ _ (by omega) (by omega) (by omega) c h3
  · cases b <;> simp at h4
    subst h4; decide

theorem dtText_head (w : Wall) (b : Bool) (h : w.valid = true) :
    ∃ c cs, vDatetimeTo (w.toP b) = c :: cs ∧ isDigit c = true := by
  have hv := Wall.valid_toP w false h
  simp only [PDateTime.valid, PDate.valid, Bool.and_eq_true, Wall.toP] at hv
  obtain ⟨hy, _, _⟩ := validDate_bounds hv.1
  rw [dtText_chars w b h]
  exact ⟨_, _, rfl, isDigit_dig _ (by omega)⟩

theorem dtChar_ne_comma (c : Char) (h : dtChar c = true) : c ≠ ',' := by
  intro e; subst e; revert h; decide

theorem nocomma_dtText (w : Wall) (b : Bool) (h : w.valid = true) : ',' ∉ vDatetimeTo (w.toP b) :=
  fun hm => dtChar_ne_comma _ (dtText_dtChars w b h _ hm) rfl

theorem noslash_dtText (w : Wall) (b : Bool) (h : w.valid = true) : '/' ∉ vDatetimeTo (w.toP b) :=
  noslash_vDatetimeTo _ (Wall.valid_toP w b h)

theorem nocomma_durTo (s : Int) : ',' ∉ durTo s := by
  intro h
  have := List.all_eq_true.1 (durChars_durTo s) _ h
  revert this; decide

/-! ## `vDatetime.from_ical` on encoder output -/

/-- with a resolved zone the fields come back in that zone, `Z` or not -/
theorem dtFrom_some {Z : Type} (P : Provider Z) (z : Z) (w : Wall) (b : Bool) (h : w.valid = true) :
    dtFrom P (some z) (vDatetimeTo (w.toP b)) = .ok ⟨w, some z⟩ := by
  have hrt := C03.datetime_rt _ (Wall.valid_toP w false h)
  unfold dtFrom
  simp only []
  rw [dtText_take15 w b h, hrt]
  rfl

/-- without a zone `Z` decides -/
theorem dtFrom_none {Z : Type} (P : Provider Z) (w : Wall) (b : Bool) (h : w.valid = true) :
    dtFrom P none (vDatetimeTo (w.toP b)) = .ok ⟨w, if b then some P.utc else none⟩ := by
  have hrt := C03.datetime_rt _ (Wall.valid_toP w b h)
  unfold dtFrom
  simp only []
  rw [hrt]
  rfl

/-- what comes back for a value written with flag `b` when the reader resolved `tz` -/
def reread {Z : Type} (P : Provider Z) (tz : Option Z) (w : Wall) (b : Bool) : ZDT Z :=
  match tz with
  | some z => ⟨w, some z⟩
  | none => ⟨w, if b then some P.utc else none⟩

theorem dtFrom_text {Z : Type} (P : Provider Z) (tz : Option Z) (w : Wall) (b : Bool) (h : w.valid = true) :
    dtFrom P tz (vDatetimeTo (w.toP b)) = .ok (reread P tz w b) := by
  cases tz with
  | none => exact dtFrom_none P w b h
  | some z => exact dtFrom_some P z w b h

/-! ## `vDDDTypes.from_ical` dispatch on encoder output -/

theorem dddCoreZ_dtText {Z : Type} (P : Provider Z) (per : Str → CRes (Item Z)) (tz : Option Z)
    (w : Wall) (b : Bool) (h : w.valid = true) :
    dddCoreZ P per tz (vDatetimeTo (w.toP b)) = .ok (.val (.dt (reread P tz w b))) := by
  obtain ⟨c, cs, ht, hc⟩ := dtText_head w b h
  have hall := dtText_dtChars w b h
  have hlen := dtText_length w b h
  have hfrom := dtFrom_text P tz w b h
  rw [ht] at hall hlen hfrom ⊢
  unfold dddCoreZ
  simp only []
  rw [upper_dtChars _ hall, noslash_dtChars _ hall]
  have h1 : c ≠ 'P' := isDigit_ne c 'P' hc
  have h2 : c ≠ '-' := isDigit_ne c '-' hc
  have h3 : c ≠ '+' := isDigit_ne c '+' hc
  have hl : cs.length = 14 ∨ cs.length = 15 := by
    simp only [List.length_cons] at hlen
    cases b <;> simp at hlen <;> omega
  rcases hl with hl | hl <;> simp [startsWith, h1, h2, h3, hl, hfrom]

theorem dddCoreZ_durTo {Z : Type} (P : Provider Z) (per : Str → CRes (Item Z)) (tz : Option Z) (s : Int) :
    dddCoreZ P per tz (durTo s) = .ok (.val (.dur s)) := by
  have hP : upperC 'P' = 'P' := by decide
  have hm : upperC '-' = '-' := by decide
  have hp : upperC '+' = '+' := by decide
  have hd : durFromE (durTo s) = .ok s := durFromE_of (C03.duration_rt s)
  obtain ⟨x, hx⟩ := durTo_prefix s
  unfold dddCoreZ
  rw [hd]
  rcases hx with hx | hx | hx <;> rw [hx] <;> simp [upper, startsWith, hP, hm, hp]

/-- the end of a period: a date-time or a duration -/
def endOk {Z : Type} : Val Z → Prop
  | .dt v => v.wall.valid = true
  | .dur _ => True
  | _ => False

/-- how the end of a period comes back -/
def rereadVal {Z : Type} (P : Provider Z) (tz : Option Z) : Val Z → Val Z
  | .dt v => .dt (reread P tz v.wall (isUtc P v))
  | x => x

theorem dddCoreZ_end {Z : Type} (P : Provider Z) (per : Str → CRes (Item Z)) (tz : Option Z) (e : Val Z)
    (he : endOk e) : dddCoreZ P per tz (valText P e) = .ok (.val (rereadVal P tz e)) := by
  cases e with
  | dt v => exact dddCoreZ_dtText P per tz v.wall (isUtc P v) he
  | dur s => exact dddCoreZ_durTo P per tz s
  | date d => exact he.elim
  | time t => exact he.elim

theorem noslash_end {Z : Type} (P : Provider Z) (e : Val Z) (he : endOk e) : '/' ∉ valText P e := by
  cases e with
  | dt v => exact noslash_dtText v.wall _ he
  | dur s => exact noslash_durTo s
  | date d => exact he.elim
  | time t => exact he.elim

theorem nocomma_end {Z : Type} (P : Provider Z) (e : Val Z) (he : endOk e) : ',' ∉ valText P e := by
  cases e with
  | dt v => exact nocomma_dtText v.wall _ he
  | dur s => exact nocomma_durTo s
  | date d => exact he.elim
  | time t => exact he.elim

theorem itemText_period {Z : Type} (P : Provider Z) (v : ZDT Z) (e : Val Z) :
    itemText P (.period (.dt v) e) = vDatetimeTo (v.wall.toP (isUtc P v)) ++ '/' :: valText P e := rfl

/-- `vPeriod.from_ical` on a written period: start and end both in the resolved zone -/
theorem periodFromZ_text {Z : Type} (P : Provider Z) (tz : Option Z) (v : ZDT Z) (e : Val Z)
    (hv : v.wall.valid = true) (he : endOk e) :
    periodFromZ P tz (itemText P (.period (.dt v) e)) =
      .ok (.period (.dt (reread P tz v.wall (isUtc P v))) (rereadVal P tz e)) := by
  unfold periodFromZ
  rw [itemText_period, splitOnChar_append '/' _ _ (noslash_dtText v.wall _ hv), splitOnChar_nosep '/' _ (noslash_end P e he)]
  simp only [dddCoreZ_dtText P _ tz v.wall _ hv, dddCoreZ_end P _ tz e he]

/-- `vDDDTypes.from_ical` sends a written period to the period decoder -/
theorem dddFromZ_period {Z : Type} (P : Provider Z) (tz : Option Z) (v : ZDT Z) (e : Val Z)
    (hv : v.wall.valid = true) (he : endOk e) :
    dddFromZ P tz (itemText P (.period (.dt v) e)) =
      .ok (.period (.dt (reread P tz v.wall (isUtc P v))) (rereadVal P tz e)) := by
  rw [← periodFromZ_text P tz v e hv he]
  obtain ⟨c, cs, ht, hc⟩ := dtText_head v.wall (isUtc P v) hv
  unfold dddFromZ dddCoreZ
  rw [itemText_period, ht]
  have h1 : c ≠ 'P' := isDigit_ne c 'P' hc
  have h2 : c ≠ '-' := isDigit_ne c '-' hc
  have h3 : c ≠ '+' := isDigit_ne c '+' hc
  have hu : upperC c = c := upperC_digit c hc
  have hsl : (upper (c :: cs ++ '/' :: valText P e)).contains '/' = true := by
    have : upperC '/' = '/' := by decide
    simp [upper, this]
  simp only []
  rw [hsl]
  simp [upper, startsWith, hu, h1, h2, h3]

theorem nocomma_period {Z : Type} (P : Provider Z) (v : ZDT Z) (e : Val Z)
    (hv : v.wall.valid = true) (he : endOk e) : ',' ∉ itemText P (.period (.dt v) e) := by
  rw [itemText_period]
  simp only [List.mem_append, List.mem_cons]
  rintro (h | h | h)
  · exact nocomma_dtText v.wall _ hv h
  · revert h; decide
  · exact nocomma_end P e he h

/-! ## lists -/

theorem split_join (sep : Char) (ts : List Str) (hne : ts ≠ []) (h : ∀ t ∈ ts, sep ∉ t) :
    splitOnChar sep (joinWith [sep] ts) = ts := by
  induction ts with
  | nil => exact absurd rfl hne
  | cons t rest ih =>
    cases rest with
    | nil => simpa [joinWith] using splitOnChar_nosep sep t (h t (by simp))
    | cons u us =>
      have := ih (by simp) (fun x hx => h x (by simp [hx]))
      simp only [joinWith, List.append_assoc, List.singleton_append]
      rw [splitOnChar_append sep t _ (h t (by simp)), this]

theorem mapE_map {α β γ : Type} (f : α → CRes β) (g : γ → α) (r : γ → β) (xs : List γ)
    (h : ∀ x ∈ xs, f (g x) = .ok (r x)) : mapE f (xs.map g) = .ok (xs.map r) := by
  induction xs with
  | nil => rfl
  | cons x rest ih =>
    simp only [List.map_cons, mapE, h x (by simp), ih (fun y hy => h y (by simp [hy]))]

/-- a written list of date-times, read with the resolved zone `tz`: every item in that zone -/
theorem listFromZ_dts {Z : Type} (P : Provider Z) (tz : Option Z) (vs : List (ZDT Z)) (hne : vs ≠ [])
    (hv : ∀ v ∈ vs, v.wall.valid = true) :
    listFromZ P tz (listText P (vs.map fun v => .val (.dt v))) =
      .ok (vs.map fun v => .val (.dt (reread P tz v.wall (isUtc P v)))) := by
  unfold listFromZ listText
  rw [List.map_map, split_join ',' _ (by simpa using hne)]
  · exact mapE_map (dddFromZ P tz) _ _ vs (fun v hm => by
      simp only [Function.comp, itemText, valText, dtText]
      exact dddCoreZ_dtText P _ tz v.wall _ (hv v hm))
  · intro t ht
    simp only [List.mem_map, Function.comp] at ht
    obtain ⟨v, hm, rfl⟩ := ht
    exact nocomma_dtText v.wall _ (hv v hm)

/-- the TZID loop of `vDDDLists.__init__` over items that all carry the same TZID -/
theorem lastTzid_const (ps : List DParams) (t : Str) (acc : Option Str) (hne : ps ≠ [])
    (h : ∀ p ∈ ps, p.tzid = some t) : lastTzid ps acc = some t := by
  induction ps generalizing acc with
  | nil => exact absurd rfl hne
  | cons p rest ih =>
    have hp := h p (by simp)
    cases rest with
    | nil => simp [lastTzid, hp]
    | cons q qs => simp only [lastTzid, hp]; exact ih _ (by simp) (fun x hx => h x (by simp [hx]))

theorem lastTzid_none (ps : List DParams) (h : ∀ p ∈ ps, p.tzid = none) : lastTzid ps none = none := by
  induction ps with
  | nil => rfl
  | cons p rest ih => simp only [lastTzid, h p (by simp)]; exact ih (fun x hx => h x (by simp [hx]))

theorem uniformValue_const (ps : List DParams) (v : Option Str) (hne : ps ≠ [])
    (h : ∀ p ∈ ps, p.value = v) : uniformValue ps = v := by
  cases ps with
  | nil => exact absurd rfl hne
  | cons p rest =>
    have hp := h p (by simp)
    have : rest.all (fun q => q.value == p.value) = true := by
      rw [List.all_eq_true]; intro q hq; simp [h q (by simp [hq]), hp]
    show (if (rest.all fun q => q.value == p.value) = true then p.value else none) = v
    rw [if_pos this]
    exact hp

/-! ## TZID parameter of one value -/

theorem dddTzid_zoned {Z : Type} (P : Provider Z) (w : Wall) (z : Z) (h : P.key z ≠ UTC) :
    dddTzid P ⟨w, some z⟩ = some (P.key z) := by
  simp [dddTzid, tzidFromDt, h]

theorem dddTzid_utc {Z : Type} (P : Provider Z) (w : Wall) (z : Z) (h : P.key z = UTC) :
    dddTzid P ⟨w, some z⟩ = none := by
  simp [dddTzid, tzidFromDt, h]

theorem isUtc_zoned {Z : Type} (P : Provider Z) (w : Wall) (z : Z) (h : P.key z ≠ UTC) :
    isUtc P ⟨w, some z⟩ = false := by
  simp [isUtc, tzidFromDt, h]

theorem isUtc_utc {Z : Type} (P : Provider Z) (w : Wall) (z : Z) (h : P.key z = UTC) :
    isUtc P ⟨w, some z⟩ = true := by
  simp [isUtc, tzidFromDt, h]

theorem isUtc_floating {Z : Type} (P : Provider Z) (w : Wall) : isUtc P ⟨w, none⟩ = false := by
  simp [isUtc, tzidFromDt]

/-! ## `ofSec` answers only with a checked result -/

theorem ofSec_spec (n : Int) (w : Wall) (h : ofSec n = some w) : toSec w = n ∧ w.valid = true := by
  unfold ofSec at h
  split at h
  · cases h
  · simp only [] at h
    split at h
    · next hc => injection h with h; subst h; exact ⟨hc.2, hc.1⟩
    · cases h

/-- `localize_utc` of an aware value: UTC zone, same instant -/
theorem localizeUtc_aware {Z : Type} (P : Provider Z) (w : Wall) (z : Z) (v : ZDT Z)
    (h : localizeUtc P ⟨w, some z⟩ = some v) :
    v.zone = some P.utc ∧ toSec v.wall = toSec w - P.off z w ∧ v.wall.valid = true := by
  unfold localizeUtc at h
  simp only [] at h
  cases ho : ofSec (toSec w - P.off z w) with
  | none => rw [ho] at h; cases h
  | some w' =>
    rw [ho] at h
    injection h with h; subst h
    exact ⟨rfl, (ofSec_spec _ _ ho).1, (ofSec_spec _ _ ho).2⟩

end ICal.Zoned
