/-
  Helper definitions and lemmas for the tree layer of parsing (C01, C04):
  the stack machine `pstep`/`prun` of Model/Parse.lean against the item stream `items` of
  Model/Ser.lean.
-/
import ICal.Model.Parse
import ICal.Lemmas.CDict
namespace ICal

/-! ## names -/

def nBEGIN : Str := ['B','E','G','I','N']
def nEND : Str := ['E','N','D']
def nFREEBUSY : Str := ['F','R','E','E','B','U','S','Y']
def nXCOMMENT : Str := ['X','-','C','O','M','M','E','N','T']
def nTZID : Str := ['T','Z','I','D']
def nVEVENT : Str := ['V','E','V','E','N','T']
def nVTIMEZONE : Str := ['V','T','I','M','E','Z','O','N','E']

/-- `END`: the finished component goes to its parent's `subcomponents`, or to the result list -/
def attach (st : PState) (c : PComp) : PState :=
  match st.stack with
  | [] => { st with comps := st.comps ++ [c] }
  | .mk pn pp ps pe :: rest => { st with stack := .mk pn pp (ps ++ [c]) pe :: rest }

def attachL (st : PState) : List PComp → PState
  | [] => st
  | c :: cs => attachL (attach st c) cs


/-! ## `prun` -/

theorem prun_nil (tzok : Comp → Bool) (dec : Dec) (st : PState) : prun tzok dec st [] = some st := rfl

theorem prun_cons (tzok : Comp → Bool) (dec : Dec) (st : PState) (l : Str) (ls : List Str) :
    prun tzok dec st (l :: ls) = (pstep tzok dec st l).bind (fun st' => prun tzok dec st' ls) := by
  simp only [prun]
  cases pstep tzok dec st l <;> rfl

theorem prun_append (tzok : Comp → Bool) (dec : Dec) (st : PState) (a b : List Str) :
    prun tzok dec st (a ++ b) = (prun tzok dec st a).bind (fun st' => prun tzok dec st' b) := by
  induction a generalizing st with
  | nil => simp [prun]
  | cons l ls ih =>
    simp only [List.cons_append, prun_cons]
    cases pstep tzok dec st l with
    | none => rfl
    | some st' => simp [ih]

theorem prun_of_step_none (tzok : Comp → Bool) (dec : Dec) (st : PState) (l : Str) (ls : List Str)
    (h : pstep tzok dec st l = none) : prun tzok dec st (l :: ls) = none := by
  simp [prun_cons, h]

theorem prun_of_step_some (tzok : Comp → Bool) (dec : Dec) (st st' : PState) (l : Str) (ls : List Str)
    (h : pstep tzok dec st l = some st') : prun tzok dec st (l :: ls) = prun tzok dec st' ls := by
  simp [prun_cons, h]

/-! ## the decoding step of a property line -/

/-- what `pstep` computes for a property line (`decoded`): `none` = the typed decoder raised -/
def decodeStep (dec : Dec) (line name : Str) (params : Params) (vals : Str) : Option (List Str) :=
  let uname := upper name
  let kind := forProperty name
  let vals := if Gen.fromIcalTextRaw && textKinds.contains kind then rawValue line else vals
  let tz := Params.get? params ['T','Z','I','D']
  let dname := if Gen.fromIcalFreebusyOnUname then uname else name
  if dname == ['F','R','E','E','B','U','S','Y'] then
    (splitOnChar ',' vals).mapM (fun v => dec kind v tz)
  else if Gen.datetimeNames.contains (if Gen.fromIcalDatetimeOnUname then uname else name) && tz.isSome then
    (dec kind vals tz).map ([·])
  else (dec kind vals none).map ([·])

/-- the result of a property line whose decoding gave `decoded`, inside component `cn` -/
def propResult (st : PState) (cn name : Str) (params : Params) (decoded : Option (List Str)) : Option PState :=
  match decoded with
  | none => if lenientName cn then some (logToTop st (upper name)) else none
  | some texts => some (addToTop st (upper name) (texts.map (fun t => ⟨forProperty name, t, params⟩)))

/-- a skipped line -/
theorem pstep_skip (tzok : Comp → Bool) (dec : Dec) (st : PState) (line : Str) (h : (st.stopped || line.isEmpty) = true) :
    pstep tzok dec st line = some st := by
  unfold pstep
  rw [if_pos h]

/-- an unparseable line -/
theorem pstep_noparts (tzok : Comp → Bool) (dec : Dec) (st : PState) (line : Str) (hs : st.stopped = false) (hl : line ≠ [])
    (hp : parts line = none) :
    pstep tzok dec st line = (match st.stack with
      | .mk n _ _ _ :: _ => if lenientName n then some (logToTop st []) else none
      | [] => none) := by
  unfold pstep
  have : (st.stopped || line.isEmpty) = false := by
    cases line with
    | nil => exact absurd rfl hl
    | cons c cs => simp [hs]
  rw [this, hp]
  simp only [Bool.false_eq_true, if_false]
  rcases st.stack with _ | ⟨⟨n, p, s, e⟩, r⟩ <;> rfl

/-- a `BEGIN` line -/
theorem pstep_begin (tzok : Comp → Bool) (dec : Dec) (st : PState) (line name : Str) (params : Params) (vals : Str)
    (hs : st.stopped = false) (hl : line ≠ [])
    (hp : parts line = some (name, params, vals)) (hn : upper name = nBEGIN) :
    pstep tzok dec st line = some { st with stack := .mk (upper vals) [] [] [] :: st.stack } := by
  unfold pstep
  have : (st.stopped || line.isEmpty) = false := by
    cases line with
    | nil => exact absurd rfl hl
    | cons c cs => simp [hs]
  rw [this, hp]
  simp only [Bool.false_eq_true, if_false, hn, nBEGIN, beq_self_eq_true, if_true]

/-- an `END` line -/
theorem pstep_end (tzok : Comp → Bool) (dec : Dec) (st : PState) (line name : Str) (params : Params) (vals : Str)
    (hs : st.stopped = false) (hl : line ≠ [])
    (hp : parts line = some (name, params, vals)) (hn : upper name = nEND) :
    pstep tzok dec st line = (match st.stack with
      | [] => none
      | c :: rest =>
        if tzFails tzok (upper vals) c then none else some (attach { st with stack := rest } c)) := by
  unfold pstep
  have : (st.stopped || line.isEmpty) = false := by
    cases line with
    | nil => exact absurd rfl hl
    | cons c cs => simp [hs]
  rw [this, hp]
  have h1 : (nEND == ['B','E','G','I','N']) = false := by decide
  simp only [Bool.false_eq_true, if_false, hn, h1]
  simp only [nEND, beq_self_eq_true, if_true]
  rcases st.stack with _ | ⟨c, _ | ⟨⟨n, p, s, e⟩, r⟩⟩
  · rfl
  · simp only [attach]
  · simp only [attach]

/-- a property line inside an open component -/
theorem pstep_prop (tzok : Comp → Bool) (dec : Dec) (st : PState) (line name : Str) (params : Params) (vals : Str)
    (cn : Str) (pp : List Entry) (ps : List PComp) (pe : List Str) (rest : List PComp)
    (hs : st.stopped = false) (hl : line ≠ [])
    (hp : parts line = some (name, params, vals)) (hb : upper name ≠ nBEGIN) (he : upper name ≠ nEND)
    (hst : st.stack = .mk cn pp ps pe :: rest) :
    pstep tzok dec st line = propResult st cn name params (decodeStep dec line name params vals) := by
  unfold pstep
  have : (st.stopped || line.isEmpty) = false := by
    cases line with
    | nil => exact absurd rfl hl
    | cons c cs => simp [hs]
  rw [this, hp]
  have h1 : (upper name == ['B','E','G','I','N']) = false := by
    simpa [nBEGIN] using hb
  have h2 : (upper name == ['E','N','D']) = false := by
    simpa [nEND] using he
  simp only [Bool.false_eq_true, if_false, h1, h2, hst]
  unfold propResult decodeStep
  rfl

/-- a property line outside every component -/
theorem pstep_orphan (tzok : Comp → Bool) (dec : Dec) (st : PState) (line name : Str) (params : Params) (vals : Str)
    (hs : st.stopped = false) (hl : line ≠ [])
    (hp : parts line = some (name, params, vals)) (hb : upper name ≠ nBEGIN) (he : upper name ≠ nEND)
    (hst : st.stack = []) :
    pstep tzok dec st line = if upper name == nXCOMMENT then some { st with stopped := true } else none := by
  unfold pstep
  have : (st.stopped || line.isEmpty) = false := by
    cases line with
    | nil => exact absurd rfl hl
    | cons c cs => simp [hs]
  rw [this, hp]
  have h1 : (upper name == ['B','E','G','I','N']) = false := by
    simpa [nBEGIN] using hb
  have h2 : (upper name == ['E','N','D']) = false := by
    simpa [nEND] using he
  simp only [Bool.false_eq_true, if_false, h1, h2, hst]
  rfl

/-! ## forgetting the error lists (C04) -/

mutual
/-- set every `errors` list of the component and of all its subcomponents to `[]` -/
def PComp.eraseErrs : PComp → PComp
  | .mk n props subs _ => .mk n props (PComp.eraseErrsL subs) []
def PComp.eraseErrsL : List PComp → List PComp
  | [] => []
  | c :: cs => c.eraseErrs :: PComp.eraseErrsL cs
end

/-- the parser state with every `errors` list (open and finished components) emptied -/
def PState.eraseErrs (st : PState) : PState :=
  ⟨PComp.eraseErrsL st.stack, PComp.eraseErrsL st.comps, st.stopped⟩

theorem eraseErrsL_eq_map (l : List PComp) : PComp.eraseErrsL l = l.map PComp.eraseErrs := by
  induction l with
  | nil => rfl
  | cons c cs ih => simp [PComp.eraseErrsL, ih]

theorem eraseErrsL_append (a b : List PComp) :
    PComp.eraseErrsL (a ++ b) = PComp.eraseErrsL a ++ PComp.eraseErrsL b := by
  simp [eraseErrsL_eq_map]

mutual
theorem PComp.eraseErrs_idem : ∀ c : PComp, c.eraseErrs.eraseErrs = c.eraseErrs
  | .mk n props subs errs => by
    simp only [PComp.eraseErrs]
    rw [PComp.eraseErrsL_idem subs]
theorem PComp.eraseErrsL_idem : ∀ l : List PComp, PComp.eraseErrsL (PComp.eraseErrsL l) = PComp.eraseErrsL l
  | [] => rfl
  | c :: cs => by
    simp only [PComp.eraseErrsL]
    rw [PComp.eraseErrs_idem c, PComp.eraseErrsL_idem cs]
end

theorem PState.eraseErrs_idem (st : PState) : st.eraseErrs.eraseErrs = st.eraseErrs := by
  simp [PState.eraseErrs, PComp.eraseErrsL_idem]

@[simp] theorem PState.eraseErrs_stopped (st : PState) : st.eraseErrs.stopped = st.stopped := rfl

theorem eraseErrs_logToTop (st : PState) (u : Str) : (logToTop st u).eraseErrs = st.eraseErrs := by
  rcases st with ⟨stack, comps, stopped⟩
  rcases stack with _ | ⟨⟨n, p, s, e⟩, r⟩ <;> simp [logToTop, PState.eraseErrs, PComp.eraseErrsL, PComp.eraseErrs]

theorem eraseErrs_addToTop (st : PState) (u : Str) (vs : List Val) :
    (addToTop st u vs).eraseErrs = addToTop st.eraseErrs u vs := by
  rcases st with ⟨stack, comps, stopped⟩
  rcases stack with _ | ⟨⟨n, p, s, e⟩, r⟩ <;> simp [addToTop, PState.eraseErrs, PComp.eraseErrsL, PComp.eraseErrs]

/-- the top component's name ("" for an empty stack) -/
def PState.topName (st : PState) : Str :=
  match st.stack with
  | .mk n _ _ _ :: _ => n
  | [] => []

/-- the top component's error list -/
def PState.topErrs (st : PState) : List Str :=
  match st.stack with
  | .mk _ _ _ e :: _ => e
  | [] => []

mutual
theorem toComp_eraseErrs : ∀ c : PComp, c.eraseErrs.toComp = c.toComp
  | .mk n props subs errs => by
    simp only [PComp.eraseErrs, PComp.toComp]
    rw [toComps_eraseErrsL subs]
theorem toComps_eraseErrsL : ∀ l : List PComp, PComp.toComps (PComp.eraseErrsL l) = PComp.toComps l
  | [] => rfl
  | c :: cs => by
    simp only [PComp.eraseErrsL, PComp.toComps]
    rw [toComp_eraseErrs c, toComps_eraseErrsL cs]
end

theorem eraseErrs_attach (st : PState) (c : PComp) :
    (attach st c).eraseErrs = attach st.eraseErrs c.eraseErrs := by
  rcases st with ⟨stack, comps, stopped⟩
  rcases stack with _ | ⟨⟨n, p, s, e⟩, r⟩ <;>
    simp [attach, PState.eraseErrs, PComp.eraseErrsL, PComp.eraseErrs, eraseErrsL_append]

theorem tzFails_eraseErrs (tzok : Comp → Bool) (en : Str) (c : PComp) :
    tzFails tzok en c.eraseErrs = tzFails tzok en c := by
  have h := toComp_eraseErrs c
  obtain ⟨n, p, s, e⟩ := c
  simp only [PComp.eraseErrs] at h
  simp only [PComp.eraseErrs, tzFails, h]

/-- the step function never reads an `errors` list -/
theorem eraseErrs_step (tzok : Comp → Bool) (dec : Dec) (st : PState) (x : Str) :
    (pstep tzok dec st x).map PState.eraseErrs = (pstep tzok dec st.eraseErrs x).map PState.eraseErrs := by
  by_cases hskip : (st.stopped || x.isEmpty) = true
  · rw [pstep_skip tzok dec st x hskip, pstep_skip tzok dec st.eraseErrs x (by simpa using hskip)]
    simp [PState.eraseErrs_idem]
  · have hs : st.stopped = false := by
      cases h : st.stopped <;> simp [h] at hskip ⊢
    have hx : x ≠ [] := by
      intro h; subst h; simp at hskip
    have hs' : st.eraseErrs.stopped = false := hs
    rcases st with ⟨stack, comps, stopped⟩
    simp only at hs
    subst hs
    cases hp : parts x with
    | none =>
      rw [pstep_noparts tzok dec _ x rfl hx hp, pstep_noparts tzok dec _ x hs' hx hp]
      rcases stack with _ | ⟨⟨n, p, s, e⟩, r⟩
      · rfl
      · simp only [PState.eraseErrs, PComp.eraseErrsL, PComp.eraseErrs]
        cases lenientName n
        · rfl
        · simp [logToTop, PState.eraseErrs, PComp.eraseErrsL, PComp.eraseErrs, PComp.eraseErrsL_idem]
    | some t =>
      obtain ⟨name, params, vals⟩ := t
      by_cases hb : upper name = nBEGIN
      · rw [pstep_begin tzok dec _ x name params vals rfl hx hp hb,
          pstep_begin tzok dec _ x name params vals hs' hx hp hb]
        simp [PState.eraseErrs, PComp.eraseErrsL, PComp.eraseErrs, PComp.eraseErrsL_idem]
      · by_cases he : upper name = nEND
        · rw [pstep_end tzok dec _ x name params vals rfl hx hp he,
            pstep_end tzok dec _ x name params vals hs' hx hp he]
          rcases stack with _ | ⟨c, rest⟩
          · rfl
          · simp only [PState.eraseErrs, PComp.eraseErrsL, tzFails_eraseErrs]
            cases tzFails tzok (upper vals) c
            · simp only [Bool.false_eq_true, if_false, Option.map_some, eraseErrs_attach]
              simp only [PState.eraseErrs, PComp.eraseErrsL_idem, PComp.eraseErrs_idem]
            · rfl
        · rcases stack with _ | ⟨⟨n, p, s, e⟩, r⟩
          · rw [pstep_orphan tzok dec _ x name params vals rfl hx hp hb he rfl,
              pstep_orphan tzok dec _ x name params vals hs' hx hp hb he rfl]
            split
            · simp [PState.eraseErrs, PComp.eraseErrsL, PComp.eraseErrsL_idem]
            · rfl
          · rw [pstep_prop tzok dec _ x name params vals n p s e r rfl hx hp hb he rfl,
              pstep_prop tzok dec _ x name params vals n p (PComp.eraseErrsL s) [] (PComp.eraseErrsL r) hs' hx hp hb he rfl]
            cases decodeStep dec x name params vals with
            | none =>
              simp only [propResult]
              cases lenientName n
              · rfl
              · simp [eraseErrs_logToTop, PState.eraseErrs_idem]
            | some texts =>
              simp [propResult, eraseErrs_addToTop, PState.eraseErrs_idem]

/-- states that differ only in error lists run to states that differ only in error lists -/
theorem prun_eraseErrs_congr (tzok : Comp → Bool) (dec : Dec) (ls : List Str) : ∀ (st1 st2 : PState),
    st1.eraseErrs = st2.eraseErrs →
    (prun tzok dec st1 ls).map PState.eraseErrs = (prun tzok dec st2 ls).map PState.eraseErrs := by
  induction ls with
  | nil => intro st1 st2 h; simp [prun, h]
  | cons l ls ih =>
    intro st1 st2 h
    have h1 := eraseErrs_step tzok dec st1 l
    have h2 := eraseErrs_step tzok dec st2 l
    rw [h] at h1
    rw [← h2] at h1
    simp only [prun_cons]
    cases hp1 : pstep tzok dec st1 l with
    | none =>
      cases hp2 : pstep tzok dec st2 l with
      | none => rfl
      | some b => rw [hp1, hp2] at h1; simp at h1
    | some a =>
      cases hp2 : pstep tzok dec st2 l with
      | none => rw [hp1, hp2] at h1; simp at h1
      | some b =>
        rw [hp1, hp2] at h1
        simp only [Option.map_some, Option.some.injEq] at h1
        simpa using ih a b h1

theorem prun_eraseErrs (tzok : Comp → Bool) (dec : Dec) (st : PState) (ls : List Str) :
    (prun tzok dec st ls).map PState.eraseErrs = (prun tzok dec st.eraseErrs ls).map PState.eraseErrs :=
  prun_eraseErrs_congr tzok dec ls st st.eraseErrs (PState.eraseErrs_idem st).symm

/-! ## bad property lines (C04) -/

/-- the name under which a failing line is recorded in `component.errors`
    (`None`, here "", for a line that `parts()` refuses) -/
def errName (l : Str) : Str :=
  match parts l with
  | none => []
  | some (name, _, _) => upper name

/-- `l` is a line on which the loop body raises ValueError while a component is open: it is not
    skipped, and either `parts()` refuses it, or it is a property line (not BEGIN / END) whose
    typed decoding fails -/
def BadPropertyLine (dec : Dec) (st : PState) (l : Str) : Prop :=
  l ≠ [] ∧ st.stack ≠ [] ∧
  (parts l = none ∨ ∃ name params vals, parts l = some (name, params, vals) ∧
     upper name ≠ nBEGIN ∧ upper name ≠ nEND ∧ decodeStep dec l name params vals = none)

theorem pstep_bad (tzok : Comp → Bool) (dec : Dec) (st : PState) (l : Str) (hbad : BadPropertyLine dec st l)
    (hs : st.stopped = false) :
    pstep tzok dec st l = if lenientName st.topName then some (logToTop st (errName l)) else none := by
  obtain ⟨hl, hne, hcase⟩ := hbad
  rcases st with ⟨stack, comps, stopped⟩
  rcases stack with _ | ⟨⟨n, p, s, e⟩, r⟩
  · exact absurd rfl hne
  · rcases hcase with hp | ⟨name, params, vals, hp, hb, he, hd⟩
    · rw [pstep_noparts tzok dec _ l hs hl hp]
      simp [PState.topName, errName, hp]
    · rw [pstep_prop tzok dec _ l name params vals n p s e r hs hl hp hb he rfl, hd]
      simp [propResult, PState.topName, errName, hp]

theorem topErrs_logToTop (st : PState) (u : Str) (h : st.stack ≠ []) :
    (logToTop st u).topErrs = st.topErrs ++ [u] := by
  rcases st with ⟨stack, comps, stopped⟩
  rcases stack with _ | ⟨⟨n, p, s, e⟩, r⟩
  · exact absurd rfl h
  · rfl

/-! ## the tree layer (C01): definitions -/

/-- the value text the loop uses of a line: the `parts()` value for BEGIN / END, `raw_value()`
    for a property whose class is vText / vCategory, the `parts()` value otherwise -/
def readValue (line name vals : Str) : Str :=
  if name = nBEGIN ∨ name = nEND then vals
  else if Gen.fromIcalTextRaw && textKinds.contains (forProperty name) then rawValue line else vals

/-- what the line layer (C05 / C08) delivers for the line of one item: it is not blank, `parts()`
    reads back name and parameters, and the value text the loop uses is the item's value text -/
def LineOK (ln : Item → Str) (it : Item) : Prop :=
  ln it ≠ [] ∧ (parts (ln it)).map (fun r => (r.1, r.2.1)) = some (it.name, it.params) ∧
  (parts (ln it)).map (fun r => readValue (ln it) it.name r.2.2) = some it.text

instance (ln : Item → Str) (it : Item) : Decidable (LineOK ln it) := by
  unfold LineOK; infer_instance

/-- the simple sufficient condition: `parts()` and `raw_value()` both read back the value text -/
theorem lineOK_of_parts_raw (ln : Item → Str) (it : Item) (hne : ln it ≠ [])
    (hp : parts (ln it) = some (it.name, it.params, it.text)) (hr : rawValue (ln it) = it.text) :
    LineOK ln it := by
  refine ⟨hne, by rw [hp]; rfl, ?_⟩
  rw [hp]
  simp only [Option.map_some, readValue, hr, ite_self]

theorem LineOK.elim {ln : Item → Str} {it : Item} (h : LineOK ln it) :
    ∃ v', ln it ≠ [] ∧ parts (ln it) = some (it.name, it.params, v') ∧
      readValue (ln it) it.name v' = it.text := by
  obtain ⟨hne, h1, h2⟩ := h
  cases hp : parts (ln it) with
  | none => rw [hp] at h1; cases h1
  | some r =>
    obtain ⟨a, b, c⟩ := r
    rw [hp] at h1 h2
    simp only [Option.map_some, Option.some.injEq, Prod.mk.injEq] at h1 h2
    exact ⟨c, hne, by rw [h1.1, h1.2], h2⟩

/-- the `tz` argument `from_ical` hands to the decoder of property `k` -/
def tzArg (k : Str) (params : Params) : Option PVal :=
  if Gen.datetimeNames.contains k && (Params.get? params ['T','Z','I','D']).isSome then
    Params.get? params ['T','Z','I','D']
  else none

/-- a stored property name: upper-cased, not BEGIN / END, and not FREEBUSY (whose value the
    parser splits on commas) -/
def NameOK (k : Str) : Prop := upper k = k ∧ k ≠ nBEGIN ∧ k ≠ nEND ∧ k ≠ nFREEBUSY

/-- a value of property `k`: an instance of the class `for_property(k)` and a fixpoint of its
    decoder -/
def ValOK (dec : Dec) (k : Str) (v : Val) : Prop :=
  v.kind = forProperty k ∧ dec (forProperty k) v.text (tzArg k v.params) = some v.text

def EntryOK (dec : Dec) (e : Entry) : Prop :=
  NameOK e.name ∧ e.vals ≠ [] ∧ e.isList = decide (2 ≤ e.vals.length) ∧ ∀ v ∈ e.vals, ValOK dec e.name v

def PropsOK (dec : Dec) (props : List Entry) : Prop :=
  (props.map (·.name)).Nodup ∧ ∀ e ∈ props, EntryOK dec e

instance (k : Str) : Decidable (NameOK k) := by unfold NameOK; infer_instance
instance (dec : Dec) (k : Str) (v : Val) : Decidable (ValOK dec k v) := by unfold ValOK; infer_instance
instance (dec : Dec) (e : Entry) : Decidable (EntryOK dec e) := by unfold EntryOK; infer_instance
instance (dec : Dec) (props : List Entry) : Decidable (PropsOK dec props) := by unfold PropsOK; infer_instance

mutual
/-- trees on which parse ∘ serialise is exact (up to the order `sorted` imposes) -/
def WF (dec : Dec) : Comp → Prop
  | .mk n props subs => upper n = n ∧ escapeChar n = n ∧ PropsOK dec props ∧ WFs dec subs
def WFs (dec : Dec) : List Comp → Prop
  | [] => True
  | c :: cs => WF dec c ∧ WFs dec cs
end

mutual
/-- a finished component without errors -/
def Comp.toP : Comp → PComp
  | .mk n props subs => .mk n props (Comp.toPs subs) []
def Comp.toPs : List Comp → List PComp
  | [] => []
  | c :: cs => c.toP :: Comp.toPs cs
end

/-- `self[name]`: the first entry stored under `k` -/
def lookupEntry (props : List Entry) (k : Str) : Option Entry := props.find? (fun e => e.name == k)

/-- the entries in the order in which `property_items(sorted)` visits them -/
def sortedProps (b : Bool) (n : Str) (props : List Entry) : List Entry :=
  (propNames b n props).filterMap (lookupEntry props)

mutual
/-- the tree with the entries of every component in serialisation order -/
def sortedTree (b : Bool) : Comp → Comp
  | .mk n props subs => .mk n (sortedProps b n props) (sortedTrees b subs)
def sortedTrees (b : Bool) : List Comp → List Comp
  | [] => []
  | c :: cs => sortedTree b c :: sortedTrees b cs
end

mutual
/-- `tzok` holds of every VTIMEZONE with a TZID in the tree, as the parser will see it (entries in
    serialisation order): the END branch's `cache_timezone_component` does not raise -/
def TzOK (tzok : Comp → Bool) (b : Bool) : Comp → Prop
  | .mk n props subs =>
    (n = nVTIMEZONE → (∃ e ∈ props, e.name = nTZID) → tzok (sortedTree b (.mk n props subs)) = true) ∧
    TzOKs tzok b subs
def TzOKs (tzok : Comp → Bool) (b : Bool) : List Comp → Prop
  | [] => True
  | c :: cs => TzOK tzok b c ∧ TzOKs tzok b cs
end

/-- the items of one entry -/
def entryToks (e : Entry) : List Item := e.vals.map (fun v => ⟨e.name, v.text, v.params⟩)

/-! ## the tree layer: lemmas -/

mutual
theorem toComp_toP : ∀ c : Comp, c.toP.toComp = c
  | .mk n props subs => by
    simp only [Comp.toP, PComp.toComp]
    rw [toComps_toPs subs]
theorem toComps_toPs : ∀ l : List Comp, PComp.toComps (Comp.toPs l) = l
  | [] => rfl
  | c :: cs => by
    simp only [Comp.toPs, PComp.toComps]
    rw [toComp_toP c, toComps_toPs cs]
end

mutual
theorem errLog_toP : ∀ c : Comp, c.toP.errLog = []
  | .mk n props subs => by
    simp only [Comp.toP, PComp.errLog]
    rw [errLogs_toPs subs]
    rfl
theorem errLogs_toPs : ∀ l : List Comp, PComp.errLogs (Comp.toPs l) = []
  | [] => rfl
  | c :: cs => by
    simp only [Comp.toPs, PComp.errLogs]
    rw [errLog_toP c, errLogs_toPs cs]
    rfl
end

theorem attach_stopped (st : PState) (c : PComp) : (attach st c).stopped = st.stopped := by
  rcases st with ⟨stack, comps, stopped⟩
  rcases stack with _ | ⟨⟨n, p, s, e⟩, r⟩ <;> rfl

theorem attachL_open (cs : List PComp) : ∀ (n : Str) (p : List Entry) (s : List PComp) (e : List Str)
    (r comps : List PComp) (stopped : Bool),
    attachL ⟨.mk n p s e :: r, comps, stopped⟩ cs = ⟨.mk n p (s ++ cs) e :: r, comps, stopped⟩ := by
  induction cs with
  | nil => intros; simp [attachL]
  | cons c cs ih => intros; simp [attachL, attach, ih, List.append_assoc]

theorem attachL_init (cs : List PComp) : ∀ (comps : List PComp) (stopped : Bool),
    attachL ⟨[], comps, stopped⟩ cs = ⟨[], comps ++ cs, stopped⟩ := by
  induction cs with
  | nil => intros; simp [attachL]
  | cons c cs ih => intros; simp [attachL, attach, ih, List.append_assoc]

/-! ### `addEntry` -/

theorem addEntry_new (P : List Entry) (k : Str) (v : Val) (h : ∀ e ∈ P, e.name ≠ k) :
    addEntry P k v = P ++ [⟨k, false, [v]⟩] := by
  unfold addEntry
  rw [if_neg]
  simp only [List.any_eq_true, beq_iff_eq, not_exists, not_and]
  exact h

theorem addEntry_last (P : List Entry) (k : Str) (il : Bool) (vs0 : List Val) (v : Val)
    (h : ∀ e ∈ P, e.name ≠ k) :
    addEntry (P ++ [⟨k, il, vs0⟩]) k v = P ++ [⟨k, true, vs0 ++ [v]⟩] := by
  unfold addEntry
  rw [if_pos (by simp)]
  rw [List.map_append]
  congr 1
  · conv => rhs; rw [← List.map_id P]
    apply List.map_congr_left
    intro e he
    simp [h e he]
  · simp

/-! ### one property line -/

theorem decodeStep_ok (dec : Dec) (line k vals : Str) (v : Val) (hk : NameOK k) (hv : ValOK dec k v)
    (hval : readValue line k vals = v.text) :
    decodeStep dec line k v.params vals = some [v.text] := by
  obtain ⟨hu, hb, he, hf⟩ := hk
  unfold readValue at hval
  rw [if_neg (by simp [hb, he])] at hval
  unfold decodeStep
  have h1 : (k == ['F','R','E','E','B','U','S','Y']) = false := by simpa [nFREEBUSY] using hf
  simp only [hval, Gen.fromIcalFreebusyOnUname, Gen.fromIcalDatetimeOnUname, hu, if_true, h1,
    Bool.false_eq_true, if_false]
  have h2 := hv.2
  unfold tzArg at h2
  split
  · next hc => rw [if_pos hc] at h2; rw [h2]; rfl
  · next hc => rw [if_neg hc] at h2; rw [h2]; rfl

theorem pstep_item (tzok : Comp → Bool) (dec : Dec) (ln : Item → Str) (k : Str) (v : Val) (hk : NameOK k) (hv : ValOK dec k v)
    (hl : LineOK ln ⟨k, v.text, v.params⟩)
    (cn : Str) (P : List Entry) (subs : List PComp) (errs : List Str) (rest comps : List PComp) :
    pstep tzok dec ⟨.mk cn P subs errs :: rest, comps, false⟩ (ln ⟨k, v.text, v.params⟩) =
      some ⟨.mk cn (addEntry P k v) subs errs :: rest, comps, false⟩ := by
  obtain ⟨vals, hne, hp, hval⟩ := hl.elim
  simp only at hp hval
  have hu := hk.1
  rw [pstep_prop tzok dec _ _ k v.params vals cn P subs errs rest rfl hne hp
    (by rw [hu]; exact hk.2.1) (by rw [hu]; exact hk.2.2.1) rfl]
  rw [decodeStep_ok dec _ k vals v hk hv hval]
  simp only [propResult, addToTop, List.map_cons, List.map_nil, List.foldl_cons, List.foldl_nil, hu]
  rw [← hv.1]

/-! ### the values of one entry, the entries of one component -/

theorem run_vals (tzok : Comp → Bool) (dec : Dec) (ln : Item → Str) (k : Str) (hk : NameOK k) (vs : List Val) :
    ∀ (P : List Entry) (il : Bool) (vs0 : List Val) (cn : Str) (subs : List PComp) (errs : List Str)
      (rest comps : List PComp),
    (∀ e ∈ P, e.name ≠ k) →
    (∀ v ∈ vs, ValOK dec k v ∧ LineOK ln ⟨k, v.text, v.params⟩) →
    prun tzok dec ⟨.mk cn (P ++ [⟨k, il, vs0⟩]) subs errs :: rest, comps, false⟩
        (vs.map (fun v => ln ⟨k, v.text, v.params⟩)) =
      some ⟨.mk cn (P ++ [⟨k, il || !vs.isEmpty, vs0 ++ vs⟩]) subs errs :: rest, comps, false⟩ := by
  induction vs with
  | nil => intros; simp [prun]
  | cons v vs ih =>
    intro P il vs0 cn subs errs rest comps hP hvs
    have hv := hvs v (List.mem_cons_self)
    simp only [List.map_cons]
    rw [prun_of_step_some tzok dec _ _ _ _ (pstep_item tzok dec ln k v hk hv.1 hv.2 cn _ subs errs rest comps)]
    rw [addEntry_last P k il vs0 v hP]
    rw [ih P true (vs0 ++ [v]) cn subs errs rest comps hP (fun w hw => hvs w (List.mem_cons_of_mem _ hw))]
    simp [List.append_assoc]

theorem run_entry (tzok : Comp → Bool) (dec : Dec) (ln : Item → Str) (e : Entry) (he : EntryOK dec e)
    (hl : ∀ it ∈ entryToks e, LineOK ln it)
    (P : List Entry) (cn : Str) (subs : List PComp) (errs : List Str) (rest comps : List PComp)
    (hP : ∀ e' ∈ P, e'.name ≠ e.name) :
    prun tzok dec ⟨.mk cn P subs errs :: rest, comps, false⟩ ((entryToks e).map ln) =
      some ⟨.mk cn (P ++ [e]) subs errs :: rest, comps, false⟩ := by
  obtain ⟨k, il, vals⟩ := e
  obtain ⟨hk, hne, hil, hvals⟩ := he
  simp only at hk hne hil hvals hP
  cases vals with
  | nil => exact absurd rfl hne
  | cons v vs =>
    have hl' : ∀ w ∈ v :: vs, LineOK ln ⟨k, w.text, w.params⟩ := by
      intro w hw
      apply hl
      simp only [entryToks, List.mem_map]
      exact ⟨w, hw, rfl⟩
    simp only [entryToks, List.map_cons, List.map_map]
    rw [prun_of_step_some tzok dec _ _ _ _
      (pstep_item tzok dec ln k v hk (hvals v List.mem_cons_self) (hl' v List.mem_cons_self) cn P subs errs rest comps)]
    rw [addEntry_new P k v hP]
    have := run_vals tzok dec ln k hk vs P false [v] cn subs errs rest comps hP
      (fun w hw => ⟨hvals w (List.mem_cons_of_mem _ hw), hl' w (List.mem_cons_of_mem _ hw)⟩)
    simp only [Function.comp_def]
    rw [this]
    have e1 : (false || !vs.isEmpty) = il := by
      rw [hil]
      cases vs <;> simp
    rw [e1]
    rfl

theorem run_entries (tzok : Comp → Bool) (dec : Dec) (ln : Item → Str) (es : List Entry) :
    ∀ (P : List Entry) (cn : Str) (subs : List PComp) (errs : List Str) (rest comps : List PComp),
    (∀ e ∈ es, EntryOK dec e) → (∀ it ∈ es.flatMap entryToks, LineOK ln it) →
    (es.map (·.name)).Nodup → (∀ e' ∈ P, ∀ e ∈ es, e'.name ≠ e.name) →
    prun tzok dec ⟨.mk cn P subs errs :: rest, comps, false⟩ ((es.flatMap entryToks).map ln) =
      some ⟨.mk cn (P ++ es) subs errs :: rest, comps, false⟩ := by
  induction es with
  | nil => intros; simp [prun]
  | cons e es ih =>
    intro P cn subs errs rest comps hok hl hnd hP
    simp only [List.flatMap_cons, List.map_append]
    rw [prun_append]
    rw [run_entry tzok dec ln e (hok e List.mem_cons_self)
      (fun it hit => hl it (by simp only [List.flatMap_cons, List.mem_append]; exact Or.inl hit))
      P cn subs errs rest comps (fun e' he' => hP e' he' e List.mem_cons_self)]
    simp only [Option.bind_some]
    simp only [List.map_cons, List.nodup_cons, List.mem_map, not_exists, not_and] at hnd
    rw [ih (P ++ [e]) cn subs errs rest comps (fun x hx => hok x (List.mem_cons_of_mem _ hx))
      (fun it hit => hl it (by simp only [List.flatMap_cons, List.mem_append]; exact Or.inr hit))
      hnd.2 ?_]
    · simp [List.append_assoc]
    · intro e' he' x hx
      simp only [List.mem_append, List.mem_singleton] at he'
      rcases he' with h | h
      · exact hP e' h x (List.mem_cons_of_mem _ hx)
      · subst h
        intro heq
        exact hnd.1 x hx heq.symm

/-! ### lookup and serialisation order -/

theorem lookupEntry_some {props : List Entry} {k : Str} {e : Entry} (h : lookupEntry props k = some e) :
    e.name = k ∧ e ∈ props := by
  unfold lookupEntry at h
  have h1 := List.find?_some h
  exact ⟨by simpa using h1, List.mem_of_find?_eq_some h⟩

theorem lookupEntry_of_mem (props : List Entry) (k : Str) (h : k ∈ props.map (·.name)) :
    ∃ e, lookupEntry props k = some e := by
  unfold lookupEntry
  cases hf : props.find? (fun e => e.name == k) with
  | some e => exact ⟨e, rfl⟩
  | none =>
    rw [List.find?_eq_none] at hf
    obtain ⟨e, he, hk⟩ := List.mem_map.mp h
    exact absurd (by simpa using hk) (hf e he)

theorem entryItems_eq (props : List Entry) (k : Str) :
    entryItems props k = ((lookupEntry props k).map entryToks).getD [] := by
  unfold entryItems
  cases hf : lookupEntry props k with
  | none => unfold lookupEntry at hf; rw [hf]; rfl
  | some e =>
    have hn := (lookupEntry_some hf).1
    unfold lookupEntry at hf
    rw [hf]
    simp [entryToks, hn]

theorem flatMap_entryItems (props : List Entry) (L : List Str) :
    L.flatMap (entryItems props) = (L.filterMap (lookupEntry props)).flatMap entryToks := by
  induction L with
  | nil => rfl
  | cons k L ih =>
    simp only [List.flatMap_cons, ih, entryItems_eq]
    cases hf : lookupEntry props k with
    | none => simp [hf]
    | some e => simp [hf]

theorem propNames_perm (b : Bool) (n : Str) (props : List Entry) :
    (propNames b n props).Perm (props.map (·.name)) := by
  unfold propNames
  cases b
  · simp
  · simpa using CDict.canonsort_perm_keys _ _

theorem mem_propNames (b : Bool) (n : Str) (props : List Entry) (k : Str) :
    k ∈ propNames b n props ↔ k ∈ props.map (·.name) := (propNames_perm b n props).mem_iff

/-- names of the looked-up entries, when every name is stored -/
theorem map_name_filterMap_lookup (props : List Entry) (L : List Str) (h : ∀ k ∈ L, k ∈ props.map (·.name)) :
    (L.filterMap (lookupEntry props)).map (·.name) = L := by
  induction L with
  | nil => rfl
  | cons k L ih =>
    obtain ⟨e, he⟩ := lookupEntry_of_mem props k (h k List.mem_cons_self)
    simp only [List.filterMap_cons, he, List.map_cons, (lookupEntry_some he).1]
    rw [ih (fun x hx => h x (List.mem_cons_of_mem _ hx))]

theorem map_name_sortedProps (b : Bool) (n : Str) (props : List Entry) :
    (sortedProps b n props).map (·.name) = propNames b n props :=
  map_name_filterMap_lookup props _ (fun k hk => (mem_propNames b n props k).mp hk)

theorem mem_sortedProps {b : Bool} {n : Str} {props : List Entry} {e : Entry} (h : e ∈ sortedProps b n props) :
    e ∈ props := by
  unfold sortedProps at h
  obtain ⟨k, _, hk⟩ := List.mem_filterMap.mp h
  exact (lookupEntry_some hk).2

/-- looking up in the reordered entries finds the same entry -/
theorem lookup_filterMap_lookup (props : List Entry) (L : List Str) (h : ∀ k ∈ L, k ∈ props.map (·.name)) :
    ∀ k ∈ L, lookupEntry (L.filterMap (lookupEntry props)) k = lookupEntry props k := by
  induction L with
  | nil => intro k hk; cases hk
  | cons k0 L ih =>
    intro k hk
    obtain ⟨e0, he0⟩ := lookupEntry_of_mem props k0 (h k0 List.mem_cons_self)
    have hn := (lookupEntry_some he0).1
    simp only [List.filterMap_cons, he0]
    by_cases hkk : k0 = k
    · subst hkk
      rw [he0]
      unfold lookupEntry
      simp [hn]
    · have hk' : k ∈ L := by
        rcases List.mem_cons.mp hk with h1 | h1
        · exact absurd h1.symm hkk
        · exact h1
      rw [← ih (fun x hx => h x (List.mem_cons_of_mem _ hx)) k hk']
      unfold lookupEntry
      simp [hn, hkk]

theorem lookup_sortedProps (b : Bool) (n : Str) (props : List Entry) (k : Str) (hk : k ∈ props.map (·.name)) :
    lookupEntry (sortedProps b n props) k = lookupEntry props k :=
  lookup_filterMap_lookup props _ (fun k hk => (mem_propNames b n props k).mp hk) k
    ((mem_propNames b n props k).mpr hk)

theorem filterMap_congr_mem {α β : Type} (f g : α → Option β) (l : List α) (h : ∀ a ∈ l, f a = g a) :
    l.filterMap f = l.filterMap g := by
  induction l with
  | nil => rfl
  | cons a l ih =>
    simp only [List.filterMap_cons, h a List.mem_cons_self]
    rw [ih (fun x hx => h x (List.mem_cons_of_mem _ hx))]

/-- the serialisation order of the reordered entries is the same order -/
theorem propNames_sortedProps (b : Bool) (n : Str) (props : List Entry) :
    propNames b n (sortedProps b n props) = propNames b n props := by
  have hm := map_name_sortedProps b n props
  cases b
  · simp only [propNames, Bool.false_eq_true, if_false] at hm ⊢
    exact hm
  · simp only [propNames, if_true] at hm ⊢
    rw [hm]
    exact CDict.canonsort_perm' _ _ _ (CDict.canonsort_perm_keys _ _)

theorem sortedProps_idem (b : Bool) (n : Str) (props : List Entry) :
    sortedProps b n (sortedProps b n props) = sortedProps b n props := by
  unfold sortedProps
  rw [show propNames b n ((propNames b n props).filterMap (lookupEntry props)) = propNames b n props from
    propNames_sortedProps b n props]
  apply filterMap_congr_mem
  intro k hk
  exact lookup_sortedProps b n props k ((mem_propNames b n props k).mp hk)

theorem sortedProps_false_of_nodup (n : Str) (props : List Entry) (h : (props.map (·.name)).Nodup) :
    sortedProps false n props = props := by
  unfold sortedProps propNames
  simp only [Bool.false_eq_true, if_false]
  induction props with
  | nil => rfl
  | cons e es ih =>
    simp only [List.map_cons, List.nodup_cons, List.mem_map, not_exists, not_and] at h
    have h0 : lookupEntry (e :: es) e.name = some e := by simp [lookupEntry]
    simp only [List.map_cons, List.filterMap_cons, h0]
    congr 1
    refine Eq.trans ?_ (ih h.2)
    apply filterMap_congr_mem
    intro k hk
    obtain ⟨x, hx, hxk⟩ := List.mem_map.mp hk
    have : e.name ≠ k := fun heq => h.1 x hx (by rw [hxk]; exact heq.symm)
    unfold lookupEntry
    simp [this]

/-- with distinct names the reordered entries are a permutation of the entries -/
theorem sortedProps_perm (b : Bool) (n : Str) (props : List Entry) (h : (props.map (·.name)).Nodup) :
    (sortedProps b n props).Perm props := by
  have h0 := sortedProps_false_of_nodup n props h
  unfold sortedProps at h0 ⊢
  simp only [propNames, Bool.false_eq_true, if_false] at h0
  have := (propNames_perm b n props).filterMap (lookupEntry props)
  rw [h0] at this
  exact this

/-- the items of the reordered entries -/
theorem entryItems_sortedProps (b : Bool) (n : Str) (props : List Entry) :
    (propNames b n (sortedProps b n props)).flatMap (entryItems (sortedProps b n props)) =
      (propNames b n props).flatMap (entryItems props) := by
  rw [propNames_sortedProps]
  rw [List.flatMap_def, List.flatMap_def]
  congr 1
  apply List.map_congr_left
  intro k hk
  rw [entryItems_eq, entryItems_eq, lookup_sortedProps b n props k ((mem_propNames b n props k).mp hk)]

theorem propsOK_sortedProps (dec : Dec) (b : Bool) (n : Str) (props : List Entry) (h : PropsOK dec props) :
    PropsOK dec (sortedProps b n props) := by
  refine ⟨?_, fun e he => h.2 e (mem_sortedProps he)⟩
  rw [map_name_sortedProps]
  exact (propNames_perm b n props).nodup_iff.mpr h.1

mutual
theorem sortedTree_idem (b : Bool) : ∀ t : Comp, sortedTree b (sortedTree b t) = sortedTree b t
  | .mk n props subs => by
    simp only [sortedTree]
    rw [sortedProps_idem, sortedTrees_idem b subs]
theorem sortedTrees_idem (b : Bool) : ∀ l : List Comp, sortedTrees b (sortedTrees b l) = sortedTrees b l
  | [] => rfl
  | c :: cs => by
    simp only [sortedTrees]
    rw [sortedTree_idem b c, sortedTrees_idem b cs]
end

mutual
theorem items_sortedTree (b : Bool) : ∀ t : Comp, items b (sortedTree b t) = items b t
  | .mk n props subs => by
    simp only [sortedTree, items]
    rw [entryItems_sortedProps, itemsList_sortedTrees b subs]
theorem itemsList_sortedTrees (b : Bool) : ∀ l : List Comp, itemsList b (sortedTrees b l) = itemsList b l
  | [] => rfl
  | c :: cs => by
    simp only [sortedTrees, itemsList]
    rw [items_sortedTree b c, itemsList_sortedTrees b cs]
end

mutual
theorem sortedTree_false (dec : Dec) : ∀ t : Comp, WF dec t → sortedTree false t = t
  | .mk n props subs, h => by
    simp only [WF] at h
    simp only [sortedTree]
    rw [sortedProps_false_of_nodup n props h.2.2.1.1, sortedTrees_false dec subs h.2.2.2]
theorem sortedTrees_false (dec : Dec) : ∀ l : List Comp, WFs dec l → sortedTrees false l = l
  | [], _ => rfl
  | c :: cs, h => by
    simp only [WFs] at h
    simp only [sortedTrees]
    rw [sortedTree_false dec c h.1, sortedTrees_false dec cs h.2]
end

mutual
theorem WF_sortedTree (dec : Dec) (b : Bool) : ∀ t : Comp, WF dec t → WF dec (sortedTree b t)
  | .mk n props subs, h => by
    simp only [WF] at h
    simp only [sortedTree, WF]
    exact ⟨h.1, h.2.1, propsOK_sortedProps dec b n props h.2.2.1, WFs_sortedTrees dec b subs h.2.2.2⟩
theorem WFs_sortedTrees (dec : Dec) (b : Bool) : ∀ l : List Comp, WFs dec l → WFs dec (sortedTrees b l)
  | [], _ => by simp [sortedTrees, WFs]
  | c :: cs, h => by
    simp only [WFs] at h
    simp only [sortedTrees, WFs]
    exact ⟨WF_sortedTree dec b c h.1, WFs_sortedTrees dec b cs h.2⟩
end

mutual
/-- a provider that can build every time zone -/
theorem TzOK_true (b : Bool) : ∀ t : Comp, TzOK (fun _ => true) b t
  | .mk n props subs => by
    simp only [TzOK]
    exact ⟨fun _ _ => trivial, TzOKs_true b subs⟩
theorem TzOKs_true (b : Bool) : ∀ l : List Comp, TzOKs (fun _ => true) b l
  | [] => by simp [TzOKs]
  | c :: cs => by
    simp only [TzOKs]
    exact ⟨TzOK_true b c, TzOKs_true b cs⟩
end

mutual
theorem TzOK_sortedTree (tzok : Comp → Bool) (b : Bool) : ∀ t : Comp, TzOK tzok b t → TzOK tzok b (sortedTree b t)
  | .mk n props subs, h => by
    simp only [TzOK] at h
    simp only [sortedTree, TzOK]
    refine ⟨?_, TzOKs_sortedTrees tzok b subs h.2⟩
    intro hn ⟨e, he, hname⟩
    have := h.1 hn ⟨e, mem_sortedProps he, hname⟩
    have hid := sortedTree_idem b (.mk n props subs)
    simp only [sortedTree] at hid this
    rw [hid]
    exact this
theorem TzOKs_sortedTrees (tzok : Comp → Bool) (b : Bool) : ∀ l : List Comp, TzOKs tzok b l → TzOKs tzok b (sortedTrees b l)
  | [], _ => by simp [sortedTrees, TzOKs]
  | c :: cs, h => by
    simp only [TzOKs] at h
    simp only [sortedTrees, TzOKs]
    exact ⟨TzOK_sortedTree tzok b c h.1, TzOKs_sortedTrees tzok b cs h.2⟩
end

/-! ### the key lemma: parsing the items of a tree attaches the tree -/

theorem tzFails_false (tzok : Comp → Bool) (b : Bool) (en n : Str) (props : List Entry) (subs : List Comp)
    (h : n = nVTIMEZONE → (∃ e ∈ props, e.name = nTZID) → tzok (sortedTree b (.mk n props subs)) = true) :
    tzFails tzok en (.mk n (sortedProps b n props) (Comp.toPs (sortedTrees b subs)) []) = false := by
  simp only [tzFails, PComp.toComp, toComps_toPs]
  by_cases hn : n = nVTIMEZONE
  · by_cases hany : (sortedProps b n props).any (fun e => e.name == ['T','Z','I','D']) = true
    · have hex : ∃ e ∈ props, e.name = nTZID := by
        obtain ⟨e, he, hname⟩ := List.any_eq_true.mp hany
        exact ⟨e, mem_sortedProps he, by simpa [nTZID] using hname⟩
      have := h hn hex
      simp only [sortedTree] at this
      simp [this]
    · simp [hany]
  · have : (n == ['V','T','I','M','E','Z','O','N','E']) = false := by simpa [nVTIMEZONE] using hn
    simp [this]

theorem run_props (tzok : Comp → Bool) (dec : Dec) (ln : Item → Str) (b : Bool) (n : Str) (props : List Entry)
    (hok : PropsOK dec props)
    (hl : ∀ it ∈ (propNames b n props).flatMap (entryItems props), LineOK ln it)
    (cn : Str) (rest comps : List PComp) :
    prun tzok dec ⟨.mk cn [] [] [] :: rest, comps, false⟩
        (((propNames b n props).flatMap (entryItems props)).map ln) =
      some ⟨.mk cn (sortedProps b n props) [] [] :: rest, comps, false⟩ := by
  rw [flatMap_entryItems] at hl ⊢
  have hok' := propsOK_sortedProps dec b n props hok
  have := run_entries tzok dec ln (sortedProps b n props) [] cn [] [] rest comps hok'.2 hl hok'.1
    (fun e' he' => by cases he')
  simpa [sortedProps] using this

mutual
theorem run_items_aux (tzok : Comp → Bool) (dec : Dec) (ln : Item → Str) (b : Bool) : ∀ (t : Comp) (st : PState),
    WF dec t → TzOK tzok b t → (∀ it ∈ items b t, LineOK ln it) → st.stopped = false →
    prun tzok dec st ((items b t).map ln) = some (attach st (sortedTree b t).toP)
  | .mk n props subs, st, hwf, htz, hl, hs => by
    simp only [WF] at hwf
    simp only [TzOK] at htz
    obtain ⟨hu, hesc, hprops, hsubs⟩ := hwf
    simp only [items, List.mem_cons, List.mem_append, List.not_mem_nil, or_false] at hl
    rcases st with ⟨stack, comps, stopped⟩
    simp only at hs
    subst hs
    -- BEGIN
    obtain ⟨vB, hB1, hB2, hB3⟩ := (hl (beginItem n) (Or.inl rfl)).elim
    obtain ⟨vE, hE1, hE2, hE3⟩ := (hl (endItem n) (Or.inr (Or.inr rfl))).elim
    simp only [beginItem, endItem, readValue, nBEGIN, nEND, true_or, or_true, if_true] at hB2 hB3 hE2 hE3
    subst hB3
    simp only [items, List.map_cons, List.map_append, List.map_nil]
    rw [prun_of_step_some tzok dec _ _ _ _
      (pstep_begin tzok dec _ _ nBEGIN [] (escapeChar n) rfl hB1 hB2 (by decide))]
    simp only [hesc, hu]
    -- properties
    rw [prun_append, prun_append]
    rw [run_props tzok dec ln b n props hprops (fun it hit => hl it (Or.inr (Or.inl (Or.inl hit)))) n stack comps]
    simp only [Option.bind_some]
    -- subcomponents
    rw [run_itemsList_aux tzok dec ln b subs _ hsubs htz.2 (fun it hit => hl it (Or.inr (Or.inl (Or.inr hit)))) rfl]
    simp only [Option.bind_some, attachL_open, List.nil_append]
    -- END
    rw [prun_cons, pstep_end tzok dec _ _ nEND [] vE rfl hE1 hE2 (by decide)]
    simp only [tzFails_false tzok b (upper vE) n props subs htz.1, Bool.false_eq_true, if_false,
      Option.bind_some, prun_nil, sortedTree, Comp.toP]
theorem run_itemsList_aux (tzok : Comp → Bool) (dec : Dec) (ln : Item → Str) (b : Bool) : ∀ (cs : List Comp) (st : PState),
    WFs dec cs → TzOKs tzok b cs → (∀ it ∈ itemsList b cs, LineOK ln it) → st.stopped = false →
    prun tzok dec st ((itemsList b cs).map ln) = some (attachL st (Comp.toPs (sortedTrees b cs)))
  | [], st, _, _, _, _ => by simp [itemsList, prun, sortedTrees, Comp.toPs, attachL]
  | c :: cs, st, hwf, htz, hl, hs => by
    simp only [WFs] at hwf
    simp only [TzOKs] at htz
    simp only [itemsList, List.mem_append] at hl
    simp only [itemsList, List.map_append, sortedTrees, Comp.toPs, attachL]
    rw [prun_append, run_items_aux tzok dec ln b c st hwf.1 htz.1 (fun it hit => hl it (Or.inl hit)) hs]
    simp only [Option.bind_some]
    exact run_itemsList_aux tzok dec ln b cs _ hwf.2 htz.2 (fun it hit => hl it (Or.inr hit))
      (by rw [attach_stopped]; exact hs)
end

end ICal
