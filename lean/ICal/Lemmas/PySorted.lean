/-
  `sorted(..)` of strings (ICal/Model/PyRTTzUse.lean `pySortedStr`, the runtime of tools/py2lean.py wave 8) is the
  insertion sort `sortStr` of ICal/Model/TzUse.lean; it is sorted by the code-point order, and two duplicate-free lists
  with the same elements are sorted to the same list - which is what makes statements about Python sets independent of
  their iteration order.  Shared by ICal/Lemmas/BodiesTzUse.lean (C18) and ICal/Lemmas/BodiesCDictSort.lean (C17); imports no
  generated file.
-/
import ICal.Model.PyRTTzUse
import ICal.Lemmas.TzUse
import ICal.Lemmas.CDict
set_option linter.unusedSimpArgs false
set_option linter.unusedVariables false
namespace ICal.Bodies
open ICal ICal.PyRT

/-! ### `sorted(..)`: the code-point order -/

theorem pyInsertStr_eq : ∀ (k : Str) (l : List Str), pyInsertStr k l = insertSorted k l
  | _, [] => rfl
  | k, x :: xs => by simp only [pyInsertStr, insertSorted, pyInsertStr_eq k xs]

theorem pySortedStr_eq : ∀ (l : List Str), pySortedStr l = sortStr l
  | [] => rfl
  | x :: xs => by
    have ih := pySortedStr_eq xs
    simp only [pySortedStr, sortStr, List.foldr_cons] at ih ⊢
    rw [ih, pyInsertStr_eq]

theorem insertSorted_sorted (k : Str) : ∀ (l : List Str), l.Pairwise (fun a b => strLe a b = true) →
    (insertSorted k l).Pairwise (fun a b => strLe a b = true)
  | [], _ => by simp [insertSorted]
  | x :: xs, h => by
    have hx := (List.pairwise_cons.1 h)
    simp only [insertSorted]
    split
    · next hlt =>
      refine List.pairwise_cons.2 ⟨?_, insertSorted_sorted k xs hx.2⟩
      intro b hb
      rcases List.mem_cons.1 ((List.Perm.mem_iff (insertSorted_perm k xs)).1 hb) with rfl | hb'
      · unfold strLe; rw [CDict.strLt_asymm x b hlt]; rfl
      · exact hx.1 b hb'
    · next hnlt =>
      have hkx : strLe k x = true := by unfold strLe; simpa using hnlt
      refine List.pairwise_cons.2 ⟨?_, h⟩
      intro b hb
      rcases List.mem_cons.1 hb with rfl | hb'
      · exact hkx
      · exact CDict.strLe_trans k x b hkx (hx.1 b hb')

theorem sortStr_sorted : ∀ (l : List Str), (sortStr l).Pairwise (fun a b => strLe a b = true)
  | [] => by simp [sortStr]
  | x :: xs => by
    have ih := sortStr_sorted xs
    simp only [sortStr, List.foldr_cons] at ih ⊢
    exact insertSorted_sorted x _ ih

/-- two duplicate-free lists with the same elements are sorted to the same list -/
theorem sortStr_congr (a b : List Str) (ha : a.Nodup) (hb : b.Nodup) (h : ∀ k, k ∈ a ↔ k ∈ b) : sortStr a = sortStr b := by
  have hp : a.Perm b := by
    rw [List.perm_iff_count]
    intro k
    rw [List.Nodup.count ha, List.Nodup.count hb]
    simp [h k]
  exact List.Perm.eq_of_pairwise (le := fun a b => strLe a b = true)
    (fun x y _ _ h1 h2 => CDict.strLe_antisymm x y h1 h2) (sortStr_sorted a) (sortStr_sorted b)
    ((sortStr_perm a).trans (hp.trans (sortStr_perm b).symm))

theorem sortStr_toSet (l : List Str) : sortStr (toSet l) = toSet l := by
  have h := sortStr_congr (toSet l) (dedup l) (toSet_nodup l) (dedup_nodup l) (fun k => by rw [mem_toSet, mem_dedup])
  rw [h]; rfl

/-- a sublist of a sorted list picked by a predicate is sorted: sorting it again changes nothing -/
theorem sortStr_filter_toSet (l : List Str) (p : Str → Bool) : sortStr ((toSet l).filter p) = (toSet l).filter p := by
  have hs : ((toSet l).filter p).Pairwise (fun a b => strLe a b = true) := by
    have : (toSet l).Pairwise (fun a b => strLe a b = true) := by
      have := sortStr_sorted (dedup l); exact this
    exact this.sublist List.filter_sublist
  exact List.Perm.eq_of_pairwise (le := fun a b => strLe a b = true)
    (fun x y _ _ h1 h2 => CDict.strLe_antisymm x y h1 h2) (sortStr_sorted _) hs (sortStr_perm _)

end ICal.Bodies
