/-
  Equality of the regenerated `Component.content_line`, `content_lines` and `to_ical` (ICal/Gen/BodiesSer.lean,
  tools/py2lean.py: the loop `for name, value in self.property_items(sorted=sorted)` over the pairs, the call of the
  translated `property_items` and `content_line` with their keyword arguments, the final empty line, `Contentlines()` as
  the empty list) with the hand model `itemLine`, `contentLines`, `toIcal` of ICal/Model/Ser.lean.  The external pieces
  are those of ICal/Model/SerPieces.lean.
-/
import ICal.Lemmas.BodiesSer
set_option linter.unusedSimpArgs false
namespace ICal.Bodies
open ICal ICal.PyRT ICal.Gen.BodiesSer

/-- `content_line(name, value, sorted)` is the model's line of the item the serialiser sees in the pair -/
theorem content_line_eq (c : Comp) (n : Str) (v : PyIV) (sorted : Bool) :
    contentLineP c n v sorted = liftL (itemLine sorted (ivItem (n, v))) := by
  obtain ⟨cn, cp, cs⟩ := c
  unfold contentLineP Component_content_line itemLine fromPartsP
  cases v <;> simp [isBytesP, inlineOfP, paramsOfP, textOfP, ivItem, bind, Except.bind, pure, Except.pure] <;>
    (split <;> rfl)

theorem liftL_mapM_cons (sorted : Bool) (it : PyItem) (l : List PyItem) :
    liftL ((it :: l).mapM (fun x => itemLine sorted (ivItem x))) =
      (liftL (itemLine sorted (ivItem it)) >>= fun s => liftL (l.mapM (fun x => itemLine sorted (ivItem x))) >>= fun r => pure (s :: r)) := by
  rw [List.mapM_cons]
  cases h1 : itemLine sorted (ivItem it) with
  | error e => cases e <;> rfl
  | ok s =>
    cases h2 : l.mapM (fun x => itemLine sorted (ivItem x)) with
    | error e => cases e <;> rfl
    | ok r => rfl

theorem content_lines_loop (sorted : Bool) (cn : Str) (cp : List Entry) (cs : List Comp) (l : List PyItem) : ∀ (acc : List Str),
    Component_content_lines_loop1 (name_to_ical := nameToIcalP) (sorted_keys := sortedKeysP) (keys := keysP) (getitem := getitemP)
        (params_of := paramsOfP) (is_bytes := isBytesP) (inline_of := inlineOfP) (from_parts := fromPartsP) cn cp cs sorted acc l =
      (liftL (l.mapM (fun x => itemLine sorted (ivItem x))) >>= fun r => pure (acc ++ r)) := by
  induction l with
  | nil => intro acc; simp [Component_content_lines_loop1, liftL, pure, Except.pure, bind, Except.bind]
  | cons it l ih =>
    intro acc
    rw [Component_content_lines_loop1, liftL_mapM_cons]
    have h := content_line_eq (.mk cn cp cs) it.1 it.2 sorted
    unfold contentLineP at h
    rw [h]
    cases h1 : itemLine sorted (ivItem (it.1, it.2)) with
    | error e => cases e <;> rfl
    | ok s =>
      have e1 : (it.1, it.2) = it := rfl
      rw [e1] at h1
      simp only [h1, liftL, bind, Except.bind]
      rw [ih]
      cases h2 : l.mapM (fun x => itemLine sorted (ivItem x)) with
      | error e => cases e <;> rfl
      | ok r => simp [liftL, bind, Except.bind, pure, Except.pure]

/-- `content_lines(sorted)` is the model's `contentLines` followed by the empty line -/
theorem content_lines_eq (c : Comp) (sorted : Bool) :
    contentLinesP c sorted = liftL ((contentLines sorted c).map (fun ls => ls ++ [[]])) := by
  obtain ⟨cn, cp, cs⟩ := c
  unfold contentLinesP Component_content_lines contentLines
  simp only []
  rw [property_items_eq sorted (.mk cn cp cs)]
  simp only [bind, Except.bind]
  rw [content_lines_loop]
  rw [← pyItems_items sorted (.mk cn cp cs), List.mapM_map]
  simp only [Function.comp_def]
  generalize (pyItems sorted (.mk cn cp cs)).mapM (fun x => itemLine sorted (ivItem x)) = r
  cases r with
  | error e => cases e <;> rfl
  | ok r => simp [liftL, bind, Except.bind, pure, Except.pure, Except.map]

theorem linesToIcal_snoc_empty (ls : List Str) : linesToIcal (ls ++ [[]]) = linesToIcal ls := by
  simp [linesToIcal, List.filter_append]

/-- `to_ical(sorted)` is the model's `toIcal` -/
theorem to_ical_eq (c : Comp) (sorted : Bool) : toIcalP c sorted = liftL (toIcal sorted c) := by
  obtain ⟨cn, cp, cs⟩ := c
  unfold toIcalP Component_to_ical toIcal
  have h := content_lines_eq (.mk cn cp cs) sorted
  unfold contentLinesP at h
  simp only []
  rw [h]
  cases hc : contentLines sorted (.mk cn cp cs) with
  | error e => cases e <;> rfl
  | ok ls => simp [liftL, Except.map, bind, Except.bind, pure, Except.pure, linesToIcal_snoc_empty]

end ICal.Bodies
