/-
  The regenerated `CaselessDict.__ne__`, `__eq__`, `sorted_keys`, `sorted_items` (ICal/Gen/BodiesCDictMeta.lean,
  tools/py2lean.py) against the hand model of ICal/Model/CDict.lean.  These methods are thin: what they compare and sort
  with is external, given here BY NAME as the model has it (`cdEq`, `canonsort`, `cdSortedItems`).  What the translation
  pins is their shape - `__ne__` is the negation of `==`; `__eq__` answers True for the same object, NotImplemented
  (`none`) for an operand without `items`, and the comparison of the two plain dicts otherwise; `sorted_keys` sorts
  `self.keys()` by `self.canonical_order` - and their PRESENCE: a method removed from the class makes the translation
  fail, which breaks the tie of C17.
-/
import ICal.Gen.BodiesCDictMeta
import ICal.Model.CDict
namespace ICal.Bodies
open ICal ICal.PyRT ICal.CDict ICal.Gen.BodiesCDictMeta

set_option linter.unusedSectionVars false
variable {V : Type} [DecidableEq V]

/-- `__ne__` on a mapping operand is the negation of the model's `cdEq` -/
theorem cd_ne_eq (up : Str → Str) (s : Store V) (other : List (Str × V)) :
    cd_ne (self_ := s) (other := other) (eq_other := fun s o => cdEq up s o) = !cdEq up s other := rfl

/-- `__eq__` on another mapping (not the same object) is the model's `cdEq` -/
theorem cd_eq_mapping (up : Str → Str) (s : Store V) (other : List (Str × V)) :
    cd_eq (self_ := s) (other := other) (same_object := fun _ _ => false) (has_items := fun _ => true)
      (dict_eq := fun s o => cdEq up s o) = some (cdEq up s other) := rfl

/-- the same object is equal; an operand without `items` gives NotImplemented -/
theorem cd_eq_shape {S O : Type} (s : S) (o : O) (hi : O → Bool) (de : S → O → Bool) :
    cd_eq (self_ := s) (other := o) (same_object := fun _ _ => true) (has_items := hi) (dict_eq := de) = some true ∧
    cd_eq (self_ := s) (other := o) (same_object := fun _ _ => false) (has_items := fun _ => false) (dict_eq := de) = none :=
  ⟨rfl, rfl⟩

/-- `sorted_keys()` is `canonsort` of the stored keys by the class's order -/
theorem cd_sorted_keys_eq (s : Store V) (order : List Str) :
    cd_sorted_keys (self_ := s) (keys := fun s => odKeys s) (canonical_order := fun _ => order)
      (canonsort_keys := fun ks o => canonsort ks o) = canonsort (odKeys s) order := rfl

/-- `sorted_items()` is `canonsort_items(self, self.canonical_order)` -/
theorem cd_sorted_items_eq (up : Str → Str) (s : Store V) (order : List Str) :
    cd_sorted_items (self_ := s) (canonical_order := fun _ => order) (canonsort_items := fun s o => cdSortedItems up s o) =
      cdSortedItems up s order := rfl

end ICal.Bodies
