/-
  Equality of the regenerated `parser.foldline` (ICal/Gen/BodiesFold.lean, tools/py2lean.py) with the hand
  model `foldlineWith` / `foldline` of ICal/Model/Fold.lean, both paths: the ASCII path
  (`fold_sep.join(line[i:i+limit-1] for i in range(0, len(line), limit-1))`: the runtime's `range`
  and int-indexed slices give the model's `chunks`) and the per-character octet-counting loop.
  `limit >= 2` (for `limit == 1` the source raises ValueError: `range()` step 0).
-/
import ICal.Gen.BodiesFold
import ICal.Model.Fold
import ICal.Lemmas.BodiesRT
set_option linter.unusedSimpArgs false
namespace ICal.Bodies
open ICal ICal.PyRT ICal.Gen.BodiesFold

theorem joinWith_eq_joinSegs (sep : Str) (l : List Str) : joinWith sep l = joinSegs sep l := by
  induction l with
  | nil => rfl
  | cons a t ih => cases t with
    | nil => rfl
    | cons b u => simp only [joinWith, joinSegs]; rw [ih]

/-- `[line[i:i+k] for i in range(d, len(line), k)]` are the chunks of `line[d:]` -/
theorem range_chunks (l : Str) (k : Nat) (hk : 0 < k) : ∀ (fuel d : Nat), d ≤ l.length → l.length - d ≤ fuel →
    (rangeUp (l.length : Int) (k : Int) fuel (d : Int)).map (fun i => pySliceI l i (i + (k : Int))) =
      chunks k (l.drop d) := by
  intro fuel
  induction fuel with
  | zero =>
    intro d hd hf
    have : l.drop d = [] := List.drop_of_length_le (by omega)
    rw [this, chunks]; simp [rangeUp]
  | succ f ih =>
    intro d hd hf
    by_cases hlt : d < l.length
    · have hc : ((d : Int) < (l.length : Int)) := by omega
      have hne : l.drop d ≠ [] := by
        intro e; have := congrArg List.length e; simp at this; omega
      have e1 : ((d : Int) + (k : Int)) = ((d + k : Nat) : Int) := by push_cast; rfl
      rw [chunks]
      simp only [rangeUp, hc, if_true, List.map_cons, e1, pySliceI_nat, Nat.add_sub_cancel_left]
      have hk0 : ¬ (k = 0 ∨ l.drop d = []) := by
        intro h; rcases h with h | h
        · omega
        · exact hne h
      simp only [hk0, dite_false, List.drop_drop]
      by_cases hd2 : d + k ≤ l.length
      · rw [ih (d + k) hd2 (by omega)]
      · -- the next start is beyond the end: nothing more on either side
        have hnil : l.drop (d + k) = [] := List.drop_of_length_le (by omega)
        rw [hnil, chunks]
        have hc2 : ¬ (((d + k : Nat) : Int) < (l.length : Int)) := by omega
        cases f with
        | zero => simp [rangeUp]
        | succ g => simp [rangeUp]; omega
    · have : l.drop d = [] := List.drop_of_length_le (by omega)
      have hc : ¬ ((d : Int) < (l.length : Int)) := by omega
      rw [this, chunks]; simp [rangeUp, hc]

theorem isAsciiStr_eq (l : Str) : isAsciiStr l = isAscii l := rfl

/-- the non-ASCII path: the accumulating loop is the hand model's `foldUni` -/
theorem foldline_loop (limit : Nat) (sep : Str) (l : Str) : ∀ (cnt : Nat) (acc : Str),
    ∃ n : Int, foldline_loop1 (limit : Int) sep (cnt : Int) acc l = .ok (n, acc ++ foldUni limit sep cnt l) := by
  induction l with
  | nil => intro cnt acc; exact ⟨cnt, by simp [foldline_loop1, foldUni, pure, Except.pure]⟩
  | cons c cs ih =>
    intro cnt acc
    have e1 : ((cnt : Int) + utf8Len c) = ((cnt + w c : Nat) : Int) := by simp [utf8Len, w]
    have e2 : utf8Len c = ((w c : Nat) : Int) := rfl
    simp only [foldline_loop1, foldUni, e1]
    by_cases h : cnt + w c ≥ limit
    · have hd : decide (((cnt + w c : Nat) : Int) ≥ (limit : Int)) = true := by simp; omega
      obtain ⟨n, hn⟩ := ih (w c) (acc ++ sep ++ [c])
      refine ⟨n, ?_⟩
      simp only [hd, if_true, h, e2]
      rw [hn]; simp
    · have hd : decide (((cnt + w c : Nat) : Int) ≥ (limit : Int)) = false := by simp; omega
      obtain ⟨n, hn⟩ := ih (cnt + w c) (acc ++ [c])
      refine ⟨n, ?_⟩
      simp only [hd, h, if_false, Bool.false_eq_true]
      rw [hn]; simp

theorem foldline_eq (limit : Nat) (hl : 2 ≤ limit) (sep line : Str) :
    Gen.BodiesFold.foldline line (limit : Int) sep = .ok (foldlineWith limit sep line) := by
  have hm : Gen.foldSliceMinus = 1 := by decide
  simp only [Gen.BodiesFold.foldline, foldlineWith, isAsciiStr_eq, hm]
  by_cases ha : isAscii line = true
  · have e1 : ((limit : Int) - 1) = ((limit - 1 : Nat) : Int) := by omega
    have hs : ¬ (((limit - 1 : Nat) : Int) = 0) := by omega
    have hp : ((limit - 1 : Nat) : Int) > 0 := by omega
    have e2 : ∀ i : Int, i + (limit : Int) - 1 = i + ((limit - 1 : Nat) : Int) := by intro i; omega
    have e3 : (((line.length : Nat) : Int) - 0).toNat = line.length := by simp
    simp only [ha, if_true, e1, pyRange, hs, if_false, hp, e2, bind, Except.bind, pure, Except.pure, strLen_eq, e3]
    have := range_chunks line (limit - 1) (by omega) line.length 0 (by omega) (by omega)
    simp only [List.drop_zero] at this
    have e0 : ((0 : Nat) : Int) = 0 := rfl
    rw [e0] at this
    rw [this, joinWith_eq_joinSegs]
  · simp only [ha, if_false, Bool.false_eq_true]
    obtain ⟨n, hn⟩ := foldline_loop limit sep line 0 []
    have e0 : ((0 : Nat) : Int) = 0 := rfl
    rw [e0] at hn
    rw [hn]
    simp [bind, Except.bind, pure, Except.pure]

/-- with the defaults of the source (`limit=75`, `fold_sep='\r\n '`, read from the source as `Gen.foldLimit`, `Gen.foldSep`) -/
theorem foldline_default_eq (line : Str) :
    Gen.BodiesFold.foldline line (Gen.foldLimit : Int) Gen.foldSep = .ok (ICal.foldline line) :=
  foldline_eq Gen.foldLimit (by decide) Gen.foldSep line

end ICal.Bodies
