/-
  The proleptic Gregorian day count of ICal/Model/Zoned.lean is a bijection on the `datetime` range
  (C11, totality of `ofSec` / `localizeUtc`).

    toDays_ofDays   toDays (ofDays z) = z                       for every day number z
    ofDays_valid    (ofDays z).valid                            for toDays 1 1 1 ≤ z < toDays 10000 1 1
    toDays_range    toDays 1 1 1 ≤ toDays y m d < toDays 10000 1 1   for every valid date
    ofSec_total     ofSec answers on [toDays 1 1 1 * 86400, toDays 10000 1 1 * 86400)
    toSec_range     toSec of a valid wall time lies in that interval
    ofSec_isSome_iff  ... and `ofSec` answers exactly there

  Method.  z = era * 146097 + doe.  The year of era is located by a monotonicity argument:
  `yoeOf` (the closed formula of `ofDays`) is monotone on [0, 146096) (omega), and it is evaluated by the
  kernel at the first and last day of each of the 400 years of an era (`yearRows`, 400 rows); so it is the
  right year on every day in between.  The month and day of month come from a 366-row table (`doyRows`).
  The era bookkeeping (year = yoe + 400 * era, leap rule modulo 400) is linear arithmetic.
  Only `decide +kernel` on these two small tables and omega; no axioms beyond the three standard ones.
-/
import ICal.Model.Zoned
namespace ICal.Zoned
open ICal

/-! ## the pieces of `ofDays`, named -/

/-- year of era of a day of era: the closed formula of `ofDays` -/
def yoeOf (doe : Nat) : Nat := (doe - doe / 1460 + doe / 36524 - doe / 146096) / 365
/-- first day of era (counted from March 1) of a year of era -/
def yearStart (yoe : Nat) : Nat := 365 * yoe + yoe / 4 - yoe / 100
/-- month (March = 0) of a day of year -/
def mpOf (doy : Nat) : Nat := (5 * doy + 2) / 153
/-- first day of year of a month (March = 0) -/
def monthStart (mp : Nat) : Nat := (153 * mp + 2) / 5
/-- calendar month of a March-based month -/
def monthOf (mp : Nat) : Nat := if mp < 10 then mp + 3 else mp - 9

/-- `ofDays` in terms of the named pieces (definitional) -/
theorem ofDays_eq (z : Nat) :
    ofDays z =
      ⟨if monthOf (mpOf (z % 146097 - yearStart (yoeOf (z % 146097)))) ≤ 2
          then yoeOf (z % 146097) + z / 146097 * 400 + 1 else yoeOf (z % 146097) + z / 146097 * 400,
       monthOf (mpOf (z % 146097 - yearStart (yoeOf (z % 146097)))),
       z % 146097 - yearStart (yoeOf (z % 146097)) -
         monthStart (mpOf (z % 146097 - yearStart (yoeOf (z % 146097)))) + 1⟩ := rfl

/-! ## the year of era -/

theorem yoeOf_mono (a b : Nat) (hab : a ≤ b) (hb : b < 146096) : yoeOf a ≤ yoeOf b := by
  unfold yoeOf; omega

/-- one row of the year table: the formula is right on the first and on the last day of year `y` -/
def yearRow (y : Nat) : Bool :=
  yoeOf (yearStart y) == y && yoeOf (yearStart (y + 1) - 1) == y

theorem yearRows : ∀ y, y < 400 → yearRow y = true := by decide +kernel

theorem yearRow_spec (y : Nat) (h : y < 400) :
    yoeOf (yearStart y) = y ∧ yoeOf (yearStart (y + 1) - 1) = y := by
  have := yearRows y h
  simpa [yearRow] using this

theorem isLeap_of_mod (y : Nat) (h : y % 4 = 0 ∧ (y % 100 ≠ 0 ∨ y % 400 = 0)) : isLeap y = true := by
  unfold isLeap
  rcases h with ⟨h4, h100 | h400⟩ <;> simp [*]

/-- a year has 365 days, or 366 and then the NEXT calendar year (the one its January and February
    belong to) is a leap year -/
theorem yearStart_step (y : Nat) :
    yearStart y + 365 ≤ yearStart (y + 1) ∧ yearStart (y + 1) ≤ yearStart y + 366 ∧
    (yearStart (y + 1) = yearStart y + 366 → isLeap (y + 1) = true) := by
  refine ⟨by unfold yearStart; omega, by unfold yearStart; omega, fun h => isLeap_of_mod _ ?_⟩
  unfold yearStart at h; omega

theorem yearStart_le (y : Nat) (h : y ≤ 399) : yearStart y ≤ 145731 := by
  unfold yearStart; omega

/-- the closed formula finds the year: `doe` is one of the 365 or 366 days from `yearStart yoe` on, and
    when it is the 366th the next calendar year is a leap year.  (`yearStart 400` is 146096, one short of
    the era: the formula has no `+ yoe / 400`; the last day of the era is the 366th day of year 399.) -/
theorem yoeOf_spec (doe : Nat) (h : doe < 146097) :
    yoeOf doe < 400 ∧ yearStart (yoeOf doe) ≤ doe ∧ doe - yearStart (yoeOf doe) < 366 ∧
    (doe - yearStart (yoeOf doe) = 365 → isLeap (yoeOf doe + 1) = true) := by
  by_cases hlast : doe = 146096
  · subst hlast; decide
  · have hd : doe < 146096 := by omega
    have h399 : yoeOf doe ≤ 399 := by
      have := yoeOf_mono doe 146095 (by omega) (by omega)
      have h2 : yoeOf 146095 = 399 := by decide
      omega
    have hlow : yearStart (yoeOf doe) ≤ doe := by
      -- otherwise doe lies before the last day of the previous year
      apply Classical.byContradiction
      intro hc
      have hpos : 1 ≤ yoeOf doe := by
        apply Classical.byContradiction
        intro h0
        have : yoeOf doe = 0 := by omega
        rw [this] at hc
        exact hc (Nat.zero_le _)
      have hrow := (yearRow_spec (yoeOf doe - 1) (by omega)).2
      have he : yoeOf doe - 1 + 1 = yoeOf doe := by omega
      rw [he] at hrow
      have hs := yearStart_le (yoeOf doe) h399
      have := yoeOf_mono doe (yearStart (yoeOf doe) - 1) (by omega) (by omega)
      omega
    have hhigh : doe < yearStart (yoeOf doe + 1) := by
      apply Classical.byContradiction
      intro hc
      by_cases htop : yoeOf doe = 399
      · rw [htop] at hc
        have : yearStart (399 + 1) = 146096 := by decide
        omega
      · have hrow := (yearRow_spec (yoeOf doe + 1) (by omega)).1
        have := yoeOf_mono (yearStart (yoeOf doe + 1)) doe (by omega) hd
        omega
    obtain ⟨_, s2, s3⟩ := yearStart_step (yoeOf doe)
    exact ⟨by omega, hlow, by omega, fun h365 => s3 (by omega)⟩

/-! ## month and day of month -/

/-- days in a month, the leap status given -/
def dim (leap : Bool) (m : Nat) : Nat :=
  if m == 2 then (if leap then 29 else 28)
  else if m == 4 || m == 6 || m == 9 || m == 11 then 30
  else 31

theorem daysInMonth_eq_dim (y m : Nat) : daysInMonth y m = dim (isLeap y) m := rfl

theorem dim_le (b b' : Bool) (m : Nat) (h : m = 2 → b = true → b' = true) : dim b m ≤ dim b' m := by
  unfold dim
  by_cases hm : m = 2
  · subst hm
    cases b <;> cases b' <;> simp at h ⊢
  · simp [hm]

/-- one row of the day-of-year table: the month is at most 11 (February), it starts on or before the day,
    and the day of month fits the month (the 366th day, doy = 365, is February 29) -/
def doyRow (doy : Nat) : Bool :=
  decide (mpOf doy ≤ 11) && decide (monthStart (mpOf doy) ≤ doy) &&
  decide (doy - monthStart (mpOf doy) + 1 ≤ dim (doy == 365) (monthOf (mpOf doy)))

theorem doyRows : ∀ doy, doy < 366 → doyRow doy = true := by decide +kernel

theorem doyRow_spec (doy : Nat) (h : doy < 366) :
    mpOf doy ≤ 11 ∧ monthStart (mpOf doy) ≤ doy ∧
    doy - monthStart (mpOf doy) + 1 ≤ dim (doy == 365) (monthOf (mpOf doy)) := by
  have := doyRows doy h
  simpa [doyRow, and_assoc] using this

/-! ## `toDays ∘ ofDays = id` -/

/-- the algebra of `toDays` on the fields `ofDays` produces, all pieces abstract -/
theorem toDays_core (era doe yoe doy mp q : Nat) (hy : yoe < 400) (hlo : yearStart yoe ≤ doe)
    (hdoy : doy = doe - yearStart yoe) (hmp : mp ≤ 11) (hq : q = monthStart mp) (hqd : q ≤ doy) :
    toDays (if monthOf mp ≤ 2 then yoe + era * 400 + 1 else yoe + era * 400) (monthOf mp) (doy - q + 1) =
      era * 146097 + doe := by
  unfold toDays monthOf
  unfold yearStart at hlo hdoy
  unfold monthStart at hq
  by_cases h : mp < 10
  · have h1 : ¬ (mp + 3 ≤ 2) := by omega
    have h2 : mp + 3 > 2 := by omega
    simp only [h, if_true, h1, if_false, h2]
    have e1 : (yoe + era * 400) / 400 = era := by omega
    have e2 : (yoe + era * 400) % 400 = yoe := by omega
    have e3 : mp + 3 - 3 = mp := by omega
    rw [e1, e2, e3]
    omega
  · have h1 : mp - 9 ≤ 2 := by omega
    have h2 : ¬ (mp - 9 > 2) := by omega
    simp only [h, if_false, h1, if_true, h2]
    have e0 : yoe + era * 400 + 1 - 1 = yoe + era * 400 := by omega
    have e1 : (yoe + era * 400) / 400 = era := by omega
    have e2 : (yoe + era * 400) % 400 = yoe := by omega
    have e3 : mp - 9 + 9 = mp := by omega
    rw [e0, e1, e2, e3]
    omega

/-- what the year table says about the pieces of `ofDays z` -/
theorem ofDays_pieces (z : Nat) :
    yoeOf (z % 146097) < 400 ∧ yearStart (yoeOf (z % 146097)) ≤ z % 146097 ∧
    z % 146097 - yearStart (yoeOf (z % 146097)) < 366 ∧
    (z % 146097 - yearStart (yoeOf (z % 146097)) = 365 → isLeap (yoeOf (z % 146097) + 1) = true) :=
  yoeOf_spec (z % 146097) (Nat.mod_lt _ (by decide))

/-- `ofDays` is a right inverse of `toDays`, on every day number (year 0 included) -/
theorem toDays_ofDays (z : Nat) : toDays (ofDays z).y (ofDays z).m (ofDays z).d = z := by
  obtain ⟨hy, hlo, hdoy, _⟩ := ofDays_pieces z
  obtain ⟨hmp, hqd, _⟩ := doyRow_spec _ hdoy
  simp only [ofDays_eq]
  rw [toDays_core (z / 146097) (z % 146097) _ _ _ _ hy hlo rfl hmp rfl hqd]
  omega

/-! ## validity of `ofDays z` on the `datetime` range -/

theorem isLeap_add_era (y era : Nat) : isLeap (y + era * 400) = isLeap y := by
  unfold isLeap
  have h4 : (y + era * 400) % 4 = y % 4 := by omega
  have h100 : (y + era * 400) % 100 = y % 100 := by omega
  have h400 : (y + era * 400) % 400 = y % 400 := by omega
  rw [h4, h100, h400]

theorem toDays_first : toDays 1 1 1 = 306 := by decide
theorem toDays_end : toDays 10000 1 1 = 3652365 := by decide

/-- every day number from 0001-01-01 up to 9999-12-31 is a valid date -/
theorem ofDays_valid (z : Nat) (h1 : toDays 1 1 1 ≤ z) (h2 : z < toDays 10000 1 1) :
    (ofDays z).valid = true := by
  rw [toDays_first] at h1
  rw [toDays_end] at h2
  obtain ⟨hy, hlo, hdoy, hleap⟩ := ofDays_pieces z
  obtain ⟨hmp, hqd, hd⟩ := doyRow_spec _ hdoy
  rw [ofDays_eq]
  generalize hyoe : yoeOf (z % 146097) = yoe at *
  generalize hdoyv : z % 146097 - yearStart yoe = doy at *
  generalize hmpv : mpOf doy = mp at *
  have hmpdef : mp = (5 * doy + 2) / 153 := by rw [← hmpv]; rfl
  have hys : yearStart yoe = 365 * yoe + yoe / 4 - yoe / 100 := rfl
  simp only [PDate.valid, validDate, Bool.and_eq_true, decide_eq_true_iff]
  have hm : monthOf mp = if mp < 10 then mp + 3 else mp - 9 := rfl
  have hm1 : 1 ≤ monthOf mp := by rw [hm]; split <;> omega
  have hm12 : monthOf mp ≤ 12 := by rw [hm]; split <;> omega
  refine ⟨⟨⟨⟨⟨?_, ?_⟩, hm1⟩, hm12⟩, by omega⟩, ?_⟩
  · -- 1 ≤ year: in era 0 the days from 306 on are in year 1 or later
    split
    · omega
    · next hgt =>
      rw [hm] at hgt
      have : mp < 10 := by
        apply Classical.byContradiction; intro hc; simp only [hc, if_false] at hgt; omega
      omega
  · -- year ≤ 9999: in era 24 the days before 146037 are before January of year 400 of the era
    split
    · next hle =>
      rw [hm] at hle
      have : ¬ mp < 10 := by
        intro hc; simp only [hc, if_true] at hle; omega
      omega
    · omega
  · -- day of month
    refine Nat.le_trans hd ?_
    rw [daysInMonth_eq_dim]
    apply dim_le
    intro hm2 h365
    have h365' : doy = 365 := by simpa using h365
    have hl := hleap h365'
    have hle : monthOf mp ≤ 2 := by omega
    rw [if_pos hle]
    have : yoe + z / 146097 * 400 + 1 = yoe + 1 + z / 146097 * 400 := by omega
    rw [this, isLeap_add_era]
    exact hl

/-! ## `toDays` of a valid date lies in the range -/

theorem daysInMonth_le31 (y m : Nat) : daysInMonth y m ≤ 31 := by
  unfold daysInMonth
  split
  · split <;> omega
  · split <;> omega

theorem toDays_range (y m d : Nat) (h : validDate y m d = true) :
    toDays 1 1 1 ≤ toDays y m d ∧ toDays y m d < toDays 10000 1 1 := by
  rw [toDays_first, toDays_end]
  unfold validDate at h
  simp only [Bool.and_eq_true, decide_eq_true_iff] at h
  obtain ⟨⟨⟨⟨⟨hy1, hy2⟩, hm1⟩, hm2⟩, hd1⟩, hd2⟩ := h
  have hd31 := daysInMonth_le31 y m
  unfold toDays
  by_cases hm : m ≤ 2
  · have hn : ¬ (m > 2) := by omega
    simp only [hm, if_true, hn, if_false]
    omega
  · have hn : m > 2 := by omega
    simp only [hm, if_false, hn, if_true]
    omega

/-! ## seconds -/

/-- `ofSec` answers for every second of the years 1..9999 -/
theorem ofSec_total (n : Int) (h1 : (toDays 1 1 1 * 86400 : Int) ≤ n)
    (h2 : n < (toDays 10000 1 1 * 86400 : Int)) : ∃ w, ofSec n = some w := by
  have hf := toDays_first
  have he := toDays_end
  have hn : ¬ n < 0 := by omega
  have hk : ((n.toNat : Nat) : Int) = n := by omega
  have hz1 : toDays 1 1 1 ≤ n.toNat / 86400 := by omega
  have hz2 : n.toNat / 86400 < toDays 10000 1 1 := by omega
  have hval := ofDays_valid _ hz1 hz2
  have hinv := toDays_ofDays (n.toNat / 86400)
  unfold ofSec
  simp only [hn, if_false]
  refine ⟨_, if_pos ⟨?_, ?_⟩⟩
  · simp only [Wall.valid, hval, Bool.true_and, validTime, Bool.and_eq_true, decide_eq_true_iff]
    omega
  · unfold toSec
    simp only [hinv]
    omega

/-- a valid wall time is a second of the years 1..9999 -/
theorem toSec_range (w : Wall) (hw : w.valid = true) :
    (toDays 1 1 1 * 86400 : Int) ≤ toSec w ∧ toSec w < (toDays 10000 1 1 * 86400 : Int) := by
  simp only [Wall.valid, PDate.valid, validTime, Bool.and_eq_true, decide_eq_true_iff] at hw
  obtain ⟨hd, ⟨hh, hmi⟩, hs⟩ := hw
  obtain ⟨r1, r2⟩ := toDays_range _ _ _ hd
  unfold toSec
  omega

/-- `ofSec` answers exactly on the seconds of the years 1..9999 -/
theorem ofSec_isSome_iff (n : Int) :
    (∃ w, ofSec n = some w) ↔ (toDays 1 1 1 * 86400 : Int) ≤ n ∧ n < (toDays 10000 1 1 * 86400 : Int) := by
  constructor
  · rintro ⟨w, hw⟩
    unfold ofSec at hw
    split at hw
    · cases hw
    · simp only [] at hw
      split at hw
      · next hc =>
        injection hw with hw
        subst hw
        have := toSec_range _ hc.1
        rw [hc.2] at this
        exact this
      · cases hw
  · exact fun ⟨h1, h2⟩ => ofSec_total n h1 h2

end ICal.Zoned
