/-
  Helper lemmas for C18: sets as sorted duplicate-free lists, the scan of TZID parameters,
  and the effect of appending generated VTIMEZONEs.
-/
import ICal.Lemmas.Walk
import ICal.Model.TzUse
namespace ICal

open List

/-! ### sets -/

theorem mem_dedup : ∀ (l : List Str) (k : Str), k ∈ dedup l ↔ k ∈ l
  | [], _ => by simp [dedup]
  | x :: xs, k => by
    simp only [dedup]
    split
    · next h =>
      rw [mem_dedup xs k]
      have hx : x ∈ xs := by simpa using h
      constructor
      · intro h; exact List.mem_cons_of_mem _ h
      · intro h
        rcases List.mem_cons.1 h with rfl | h
        · exact hx
        · exact h
    · simp [mem_dedup xs k]

theorem dedup_nodup : ∀ (l : List Str), (dedup l).Nodup
  | [] => by simp [dedup]
  | x :: xs => by
    simp only [dedup]
    split
    · exact dedup_nodup xs
    · next h =>
      have hx : x ∉ xs := by simpa using h
      exact List.nodup_cons.2 ⟨fun hm => hx ((mem_dedup xs x).1 hm), dedup_nodup xs⟩

theorem insertSorted_perm (k : Str) : ∀ (l : List Str), (insertSorted k l).Perm (k :: l)
  | [] => by simp [insertSorted]
  | x :: xs => by
    simp only [insertSorted]
    split
    · exact ((insertSorted_perm k xs).cons x).trans (Perm.swap _ _ _)
    · exact Perm.refl _

theorem sortStr_perm : ∀ (l : List Str), (sortStr l).Perm l
  | [] => by simp [sortStr]
  | x :: xs => by
    simp only [sortStr, List.foldr_cons]
    exact (insertSorted_perm x _).trans ((sortStr_perm xs).cons x)

theorem mem_toSet (l : List Str) (k : Str) : k ∈ toSet l ↔ k ∈ l := by
  rw [toSet, (sortStr_perm _).mem_iff, mem_dedup]

theorem toSet_nodup (l : List Str) : (toSet l).Nodup :=
  (sortStr_perm _).symm.nodup (dedup_nodup l)

/-! ### the scan -/

mutual
theorem mem_rawTzids : ∀ (t : Comp) (k : Str),
    k ∈ rawTzids t ↔ ∃ c ∈ preorder t, ∃ e ∈ c.props, ∃ v ∈ e.vals, k ∈ valTzids v
  | .mk n p subs, k => by
    simp only [rawTzids, preorder, List.mem_append, mem_rawTzidsL subs k, List.mem_cons]
    constructor
    · rintro (h | ⟨c, hc, h⟩)
      · simp only [propsTzids, entryTzids, List.mem_flatMap] at h
        obtain ⟨e, he, v, hv, hk⟩ := h
        exact ⟨_, Or.inl rfl, e, he, v, hv, hk⟩
      · exact ⟨c, Or.inr hc, h⟩
    · rintro ⟨c, rfl | hc, e, he, v, hv, hk⟩
      · left
        simp only [propsTzids, entryTzids, List.mem_flatMap]
        exact ⟨e, he, v, hv, hk⟩
      · exact Or.inr ⟨c, hc, e, he, v, hv, hk⟩
theorem mem_rawTzidsL : ∀ (cs : List Comp) (k : Str),
    k ∈ rawTzidsL cs ↔ ∃ c ∈ preorderL cs, ∃ e ∈ c.props, ∃ v ∈ e.vals, k ∈ valTzids v
  | [], _ => by simp [rawTzidsL, preorderL]
  | c :: cs, k => by
    simp only [rawTzidsL, preorderL, List.mem_append, mem_rawTzids c k, mem_rawTzidsL cs k]
    constructor
    · rintro (⟨d, hd, h⟩ | ⟨d, hd, h⟩)
      · exact ⟨d, Or.inl hd, h⟩
      · exact ⟨d, Or.inr hd, h⟩
    · rintro ⟨d, hd | hd, h⟩
      · exact Or.inl ⟨d, hd, h⟩
      · exact Or.inr ⟨d, hd, h⟩
end

theorem mem_valTzids (v : Val) (k : Str) :
    k ∈ valTzids v ↔ v.params.get? TZID = some (.one k) ∨ ∃ l, v.params.get? TZID = some (.many l) ∧ k ∈ l := by
  unfold valTzids
  split
  · next s h => simp [h, eq_comm]
  · next l h => simp [h]
  · next h => simp [h]

/-! ### appending generated VTIMEZONEs -/

theorem rawTzidsL_append : ∀ (a b : List Comp), rawTzidsL (a ++ b) = rawTzidsL a ++ rawTzidsL b
  | [], _ => by simp [rawTzidsL]
  | c :: a, b => by simp [rawTzidsL, rawTzidsL_append a b]

theorem rawTzidsL_gen : ∀ (ks : List Str), rawTzidsL (ks.map genTz) = []
  | [] => by simp [rawTzidsL]
  | k :: ks => by
    simp only [List.map_cons, rawTzidsL, rawTzidsL_gen ks, List.append_nil]
    simp [genTz, rawTzids, rawTzidsL, propsTzids, entryTzids, valTzids, Params.get?]

theorem walkAuxL_append (name? : Option Str) (sel : Comp → Bool) : ∀ (a b : List Comp),
    walkAuxL name? sel (a ++ b) = walkAuxL name? sel a ++ walkAuxL name? sel b
  | [], _ => by simp [walkAuxL]
  | c :: a, b => by simp [walkAuxL, walkAuxL_append name? sel a b]

theorem upper_VTIMEZONE : upper VTIMEZONE = VTIMEZONE := by decide

theorem tzName_gen (k : Str) : tzName? (genTz k) = some k := by
  simp [tzName?, genTz, Comp.props]

theorem walk_gen : ∀ (ks : List Str),
    walkAuxL (some VTIMEZONE) (fun _ => true) (ks.map genTz) = ks.map genTz
  | [] => by simp [walkAuxL]
  | k :: ks => by
    simp only [List.map_cons, walkAuxL, walk_gen ks]
    simp [genTz, walkAux, walkAuxL]

theorem filterMap_gen : ∀ (ks : List Str), (ks.map genTz).filterMap tzName? = ks
  | [] => rfl
  | k :: ks => by simp [tzName_gen, filterMap_gen ks]

theorem tzNames_mk (n : Str) (p : List Entry) (subs : List Comp) :
    tzNames (.mk n p subs) =
      (if n == VTIMEZONE then (tzName? (.mk n p [])).toList else []) ++
        (walkAuxL (some VTIMEZONE) (fun _ => true) subs).filterMap tzName? := by
  simp only [tzNames, timezones, walk, Option.map, upper_VTIMEZONE, walkAux, Bool.and_true,
    List.filterMap_append]
  congr 1
  split
  · have : tzName? (.mk n p subs) = tzName? (.mk n p []) := rfl
    rw [List.filterMap_cons, this]
    cases tzName? (.mk n p []) <;> simp
  · simp

theorem tzNames_append_gen (n : Str) (p : List Entry) (subs : List Comp) (ks : List Str) :
    tzNames (.mk n p (subs ++ ks.map genTz)) = tzNames (.mk n p subs) ++ ks := by
  simp only [tzNames_mk, walkAuxL_append, walk_gen, List.filterMap_append, filterMap_gen,
    List.append_assoc]

theorem usedTzids_append_gen (n : Str) (p : List Entry) (subs : List Comp) (ks : List Str) :
    usedTzids (.mk n p (subs ++ ks.map genTz)) = usedTzids (.mk n p subs) := by
  simp only [usedTzids, rawTzids, rawTzidsL_append, rawTzidsL_gen, List.append_nil]

/-- the ids `add_missing_timezones` appends -/
def addedIds (knows : Str → Bool) (t : Comp) : List Str := (missingTzids t).filter knows

theorem addMissing_eq (knows : Str → Bool) (t : Comp) :
    addMissing knows t = .mk t.name t.props (t.subs ++ (addedIds knows t).map genTz) := by
  cases t; rfl

theorem usedTzids_addMissing (knows : Str → Bool) (t : Comp) :
    usedTzids (addMissing knows t) = usedTzids t := by
  cases t with
  | mk n p subs => simp only [addMissing, usedTzids_append_gen]

theorem tzNames_addMissing (knows : Str → Bool) (t : Comp) :
    tzNames (addMissing knows t) = tzNames t ++ addedIds knows t := by
  cases t with
  | mk n p subs => simp only [addMissing, tzNames_append_gen, addedIds]

theorem mem_missingTzids (t : Comp) (k : Str) :
    k ∈ missingTzids t ↔ k ∈ usedTzids t ∧ k ∉ tzNames t := by
  simp [missingTzids]

theorem missingTzids_nodup (t : Comp) : (missingTzids t).Nodup :=
  (toSet_nodup _).sublist List.filter_sublist |> fun h => h

theorem missingTzids_addMissing (knows : Str → Bool) (t : Comp) :
    missingTzids (addMissing knows t) = (missingTzids t).filter (fun k => !knows k) := by
  simp only [missingTzids, usedTzids_addMissing, tzNames_addMissing, List.filter_filter]
  apply List.filter_congr
  intro k hk
  by_cases h1 : (tzNames t).contains k = true
  · have h1' : k ∈ tzNames t := by simpa using h1
    simp [h1']
  · have h1' : k ∉ tzNames t := by simpa using h1
    by_cases h2 : knows k = true
    · have : k ∈ addedIds knows t := by
        simp only [addedIds, List.mem_filter, mem_missingTzids]
        exact ⟨⟨hk, h1'⟩, h2⟩
      simp [h1', h2, this]
    · have : k ∉ addedIds knows t := by
        simp only [addedIds, List.mem_filter, not_and]
        intro _; exact h2
      simp [h1', h2, this]

end ICal
