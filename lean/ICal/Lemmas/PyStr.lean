import ICal.Model.PyStr
namespace ICal

theorem replaceAll_go1 (a : Char) (r : Str) : ∀ (fuel : Nat) (s : Str), s.length ≤ fuel →
    replaceAll.go [a] r [] fuel s = rep1 a r s := by
  intro fuel
  induction fuel with
  | zero => intro s h; cases s with
    | nil => simp [replaceAll.go, rep1]
    | cons c cs => simp at h
  | succ n ih =>
    intro s h
    cases s with
    | nil => simp [replaceAll.go, rep1]
    | cons c cs =>
      have hl : cs.length ≤ n := by simpa using h
      simp only [replaceAll.go, rep1, startsWith, List.length_nil, List.drop_zero]
      by_cases hc : c = a
      · subst hc; simp [ih cs hl]
      · simp [hc, ih cs hl]

theorem replaceAll_one (a : Char) (r s : Str) : replaceAll [a] r s = rep1 a r s := by
  unfold replaceAll
  exact replaceAll_go1 a r s.length s (Nat.le_refl _)

theorem replaceAll_go2 (a b : Char) (r : Str) : ∀ (fuel : Nat) (s : Str), s.length ≤ fuel →
    replaceAll.go [a, b] r [b] fuel s = rep2 a b r s := by
  intro fuel
  induction fuel using Nat.strongRecOn with
  | _ n ih =>
    intro s h
    cases n with
    | zero => cases s with
      | nil => simp [replaceAll.go, rep2]
      | cons c cs => simp at h
    | succ n =>
      cases s with
      | nil => simp [replaceAll.go, rep2]
      | cons c cs =>
        have hl : cs.length ≤ n := by simpa using h
        cases cs with
        | nil =>
          simp only [replaceAll.go, rep2, startsWith]
          cases n with
          | zero => simp [replaceAll.go]
          | succ m => simp [replaceAll.go]
        | cons d ds =>
          simp only [replaceAll.go, rep2, startsWith, List.length_singleton, List.drop_succ_cons, List.drop_zero]
          have hds : ds.length ≤ n := by simp at hl; omega
          by_cases hc : c = a ∧ d = b
          · obtain ⟨rfl, rfl⟩ := hc
            simp only [beq_self_eq_true, Bool.and_self, if_true, and_self]
            -- go n ds with ds.length ≤ n
            rw [ih n (Nat.lt_succ_self n) ds hds]
          · have : (c == a && (d == b && true)) = false := by
              by_cases h1 : c = a
              · by_cases h2 : d = b
                · exact absurd ⟨h1, h2⟩ hc
                · simp [h2]
              · simp [h1]
            simp only [this, hc, if_false]
            rw [ih n (Nat.lt_succ_self n) (d :: ds) hl]
            simp

theorem replaceAll_two (a b : Char) (r s : Str) : replaceAll [a, b] r s = rep2 a b r s := by
  unfold replaceAll
  exact replaceAll_go2 a b r s.length s (Nat.le_refl _)

theorem rep1_flatMap (a : Char) (r s : Str) :
    rep1 a r s = s.flatMap (fun c => if c = a then r else [c]) := by
  induction s with
  | nil => simp [rep1]
  | cons c cs ih => simp only [rep1, List.flatMap_cons]; split <;> simp [ih]

theorem rep1_append (a : Char) (r x y : Str) : rep1 a r (x ++ y) = rep1 a r x ++ rep1 a r y := by
  simp [rep1_flatMap]

theorem rep2_cons_ne (a b c : Char) (r l : Str) (h : c ≠ a) :
    rep2 a b r (c :: l) = c :: rep2 a b r l := by
  cases l with
  | nil => simp [rep2]
  | cons d ds => simp [rep2, h]

theorem rep2_cons_a (a b : Char) (r l : Str) (h : l.head? ≠ some b) :
    rep2 a b r (a :: l) = a :: rep2 a b r l := by
  cases l with
  | nil => simp [rep2]
  | cons d ds =>
    have : d ≠ b := by simpa using h
    simp [rep2, this]

end ICal
