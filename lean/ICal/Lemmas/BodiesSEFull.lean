/-
  Equality of the regenerated `_get_start_end_duration`, `.start`, `.end` (calling the translated checks) and `.duration`
  of cal.Event / cal.Todo (ICal/Gen/BodiesSE.lean, tools/py2lean.py: the four InvalidCalendar checks with their
  `and` chains - `isinstance(start, date) and not isinstance(start, datetime) and duration is not None and
  duration.seconds != 0`, `(start.tzinfo is None) != (end.tzinfo is None)` evaluated only for two datetimes -, the tuple
  the checks return and its use by index and by unpacking, IncompleteComponent, `self.end - self.start` with end first)
  with the hand model `getSED`, `getStart`, `getEnd`, `getDuration` of ICal/Model/StartEnd.lean.  The external pieces are
  those of ICal/Model/SEPieces.lean.
-/
import ICal.Model.SEPieces
set_option linter.unusedSimpArgs false
namespace ICal.Bodies
open ICal ICal.PyRT ICal.SE ICal.Gen.BodiesSE ICal.PyRT.SEOps

theorem is_date_se (v : SE.Val) : is_date v = v.isDate := by cases v <;> rfl

/-- the checks on three values the descriptors returned -/
theorem event_checks (st en : Option SE.Val) (du : Option Int) :
    Event_get_start_end_duration (dtstart := .ok st) (dtend := .ok en) (duration_prop := .ok du) =
      (if forbidden st en du then .error .invalidCalendar else .ok (st, en, du)) := by
  unfold Event_get_start_end_duration
  cases du <;> rcases en with _ | en <;> rcases st with _ | st <;> (try cases en) <;> (try cases st) <;>
    simp [forbidden, dateWithTime, kindMismatch, tzMismatch, is_date_se, bind, Except.bind, pure, Except.pure, throw, throwThe,
      MonadExceptOf.throw, pyMod, tzinfoIsNone, Val.isDate, Val.isDatetime, Val.isDT, Val.isFloating]

theorem todo_checks (st en : Option SE.Val) (du : Option Int) :
    Todo_get_start_end_duration (dtstart := .ok st) (due := .ok en) (duration_prop := .ok du) =
      (if forbidden st en du then .error .invalidCalendar else .ok (st, en, du)) := by
  unfold Todo_get_start_end_duration
  cases du <;> rcases en with _ | en <;> rcases st with _ | st <;> (try cases en) <;> (try cases st) <;>
    simp [forbidden, dateWithTime, kindMismatch, tzMismatch, is_date_se, bind, Except.bind, pure, Except.pure, throw, throwThe,
      MonadExceptOf.throw, pyMod, tzinfoIsNone, Val.isDate, Val.isDatetime, Val.isDT, Val.isFloating]

/-- an Event or a Todo -/
def seHasEnd : Cls → Bool
  | .journal => false
  | _ => true

/-- the translated `_get_start_end_duration` on the model's descriptors is the model's `getSED` -/
theorem sed_eq (c : Cls) (hc : seHasEnd c = true) (s : St) :
    seSedP c (seLift (getProp s.dtstart)) (seLift (getProp (s.get (endKey c)))) (seLift (getDur s.duration)) = seLift (getSED c s) := by
  unfold getSED
  cases c with
  | journal => simp [seHasEnd] at hc
  | event =>
    unfold seSedP
    cases h1 : getProp s.dtstart with
    | error e => cases e <;> rfl
    | ok st =>
      cases h2 : getProp (s.get (endKey .event)) with
      | error e => cases e <;> rfl
      | ok en =>
        cases h3 : getDur s.duration with
        | error e => cases e <;> rfl
        | ok du =>
          simp only [seLift, event_checks, bind, Except.bind]
          by_cases hf : forbidden st en du = true <;> simp [hf, seLift, seExc]
  | todo =>
    unfold seSedP
    cases h1 : getProp s.dtstart with
    | error e => cases e <;> rfl
    | ok st =>
      cases h2 : getProp (s.get (endKey .todo)) with
      | error e => cases e <;> rfl
      | ok en =>
        cases h3 : getDur s.duration with
        | error e => cases e <;> rfl
        | ok du =>
          simp only [seLift, todo_checks, bind, Except.bind]
          by_cases hf : forbidden st en du = true <;> simp [hf, seLift, seExc]

theorem sed_event (s : St) :
    Event_get_start_end_duration (dtstart := seLift (getProp s.dtstart)) (dtend := seLift (getProp s.dtend))
      (duration_prop := seLift (getDur s.duration)) = seLift (getSED .event s) := sed_eq .event rfl s
theorem sed_todo (s : St) :
    Todo_get_start_end_duration (dtstart := seLift (getProp s.dtstart)) (due := seLift (getProp s.due))
      (duration_prop := seLift (getDur s.duration)) = seLift (getSED .todo s) := sed_eq .todo rfl s

/-- the translated `.start` is the model's `getStart` -/
theorem start_eq_se (c : Cls) (hc : seHasEnd c = true) (s : St) :
    seStartP c (seLift (getProp s.dtstart)) (seLift (getProp (s.get (endKey c)))) (seLift (getDur s.duration)) = seLift (getStart c s) := by
  cases c with
  | journal => simp [seHasEnd] at hc
  | event =>
    simp only [seStartP, Event_start, endKey, St.get, sed_event, getStart]
    cases h : getSED .event s with
    | error e => cases e <;> rfl
    | ok r => obtain ⟨st, en, du⟩ := r; cases st <;> rfl
  | todo =>
    simp only [seStartP, Todo_start, endKey, St.get, sed_todo, getStart]
    cases h : getSED .todo s with
    | error e => cases e <;> rfl
    | ok r => obtain ⟨st, en, du⟩ := r; cases st <;> rfl

/-- the translated `.end` (calling the translated checks) is the model's `getEnd` -/
theorem end_eq_se (c : Cls) (hc : seHasEnd c = true) (s : St) :
    seEndP c (seLift (getProp s.dtstart)) (seLift (getProp (s.get (endKey c)))) (seLift (getDur s.duration)) =
      seLift ((getEnd c s).map some) := by
  have h1 : tdsOfUnits 0 1 0 0 0 = 86400 := by decide
  cases c with
  | journal => simp [seHasEnd] at hc
  | event =>
    simp only [seEndP, Event_end_full, endKey, St.get, sed_event, getEnd]
    cases h : getSED .event s with
    | error e => cases e <;> rfl
    | ok r =>
      obtain ⟨st, en, du⟩ := r
      cases en <;> cases du <;> cases st <;>
        simp [endOf, seLift, seExc, Except.map, is_date_se, h1, bind, Except.bind, pure, Except.pure, throw, throwThe, MonadExceptOf.throw]
      all_goals (split <;> simp [seLift, Except.map, *])
  | todo =>
    simp only [seEndP, Todo_end_full, endKey, St.get, sed_todo, getEnd]
    cases h : getSED .todo s with
    | error e => cases e <;> rfl
    | ok r =>
      obtain ⟨st, en, du⟩ := r
      cases en <;> cases du <;> cases st <;>
        simp [endOf, seLift, seExc, Except.map, is_date_se, h1, bind, Except.bind, pure, Except.pure, throw, throwThe, MonadExceptOf.throw]
      all_goals (split <;> simp [seLift, Except.map, *])

/-- the translated `.duration` (`self.end - self.start`, end first) is the model's `getDuration` -/
theorem duration_eq_se (p : Prov) (c : Cls) (hc : seHasEnd c = true) (s : St) :
    seDurationP p c (seLift (getProp s.dtstart)) (seLift (getProp (s.get (endKey c)))) (seLift (getDur s.duration)) =
      seLift (getDuration p c s) := by
  have he := end_eq_se c hc s
  have hs := start_eq_se c hc s
  cases c with
  | journal => simp [seHasEnd] at hc
  | event =>
    simp only [seEndP, seStartP, endKey, St.get] at he hs
    simp only [seDurationP, Event_duration, endKey, St.get, he, hs, getDuration]
    cases h1 : getEnd .event s with
    | error e => cases e <;> rfl
    | ok e =>
      cases h2 : getStart .event s with
      | error e2 => cases e2 <;> rfl
      | ok st => simp [seLift, Except.map, bind, Except.bind, pure, Except.pure]
  | todo =>
    simp only [seEndP, seStartP, endKey, St.get] at he hs
    simp only [seDurationP, Todo_duration, endKey, St.get, he, hs, getDuration]
    cases h1 : getEnd .todo s with
    | error e => cases e <;> rfl
    | ok e =>
      cases h2 : getStart .todo s with
      | error e2 => cases e2 <;> rfl
      | ok st => simp [seLift, Except.map, bind, Except.bind, pure, Except.pure]

end ICal.Bodies
