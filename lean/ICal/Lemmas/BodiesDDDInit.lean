/-
  Equality of the regenerated `vDDDTypes.__init__` (ICal/Gen/BodiesAdd.lean, tools/py2lean.py: the chain of instance tests
  on the union `PyDDD` - datetime / timedelta, date, time, else a tuple -, the time zone of the START of a period, the
  zone of a datetime or a time, `tzid is not None and tzid != 'UTC'`) with the hand model `atomParams` / `periodParamsDDD`
  of ICal/Model/Encode.lean.  The time zone of a datetime is not among the fields of `PyDateTime`: it comes back through
  the parameter for `tzid_from_dt` (`TzOfAtom`).  Pieces: ICal/Model/AddPieces.lean.
-/
import ICal.Model.AddPieces
set_option linter.unusedSimpArgs false
namespace ICal.Bodies
open ICal ICal.PyRT ICal.Enc ICal.Gen.BodiesAdd

/-- `tzid_from_dt` gives the model's time zone id of a datetime, and none for a naive time -/
def TzOfAtom (tz : PyDDD → Option Str) : PyAtom → Prop
  | .dt t => tz (atomObjE (.dt t)) = t.tzid
  | .time t => tz (atomObjE (.time t)) = none
  | _ => True

/-- the translated `vDDDTypes.__init__` on one object derives the model's `atomParams` -/
theorem ddd_init_atom (tz : PyDDD → Option Str) (a : PyAtom) (h : TzOfAtom tz a) :
    dddInitParamsP tz (atomObjE a) = atomParams a := by
  unfold dddInitParamsP vDDDTypes_init
  cases a with
  | date d => simp [atomObjE, atomParams, kVALUE]
  | dur s => simp [atomObjE, atomParams]
  | time t =>
    simp only [TzOfAtom, atomObjE] at h
    simp [atomObjE, atomParams, h, kVALUE]
  | dt t =>
    simp only [TzOfAtom, atomObjE] at h
    simp only [atomObjE, atomParams, tzParamDDD, h]
    cases ht : t.tzid with
    | none => simp
    | some z => by_cases hz : z = ['U', 'T', 'C'] <;> simp [hz, UTC, kTZID]

/-- on a pair (a period) it derives the model's `periodParamsDDD`: VALUE=PERIOD and the zone of a datetime start -/
theorem ddd_init_period (tz : PyDDD → Option Str) (a b : PyAtom) (h : TzOfAtom tz a) :
    dddInitParamsP tz (.period (atomObjE a) (atomObjE b)) = periodParamsDDD a := by
  unfold dddInitParamsP vDDDTypes_init
  cases a with
  | date d => simp [atomObjE, periodParamsDDD, kVALUE]
  | dur s => simp [atomObjE, periodParamsDDD, kVALUE]
  | time t => simp [atomObjE, periodParamsDDD, kVALUE]
  | dt t =>
    simp only [TzOfAtom, atomObjE] at h
    simp only [atomObjE, periodParamsDDD, tzParamDDD, h]
    cases ht : t.tzid with
    | none => simp [kVALUE]
    | some z => by_cases hz : z = ['U', 'T', 'C'] <;> simp [hz, UTC, kTZID, kVALUE]

end ICal.Bodies
