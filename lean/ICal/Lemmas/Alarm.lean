/-
  Helper lemmas and specification vocabulary for C14 / C15 (model: ICal/Model/Alarm.lean).
-/
import ICal.Model.Alarm
namespace ICal.Alarms

/-! ### specification vocabulary -/

/-- the REPEAT count that takes effect: REPEAT when DURATION is present too (negative counts as 0), else 0 -/
def VAlarm.reps (a : VAlarm) : Nat :=
  match a.duration with
  | some _ => a.rep.toNat
  | none => 0

/-- DURATION (0 when absent; only used when `reps` is 0 then) -/
def VAlarm.dur (a : VAlarm) : Int := a.duration.getD 0

/-- `[first ⊕ k·D | k ≤ R]` -/
def series (first : Trig) (a : VAlarm) : List Trig :=
  (List.range (a.reps + 1)).map (fun (k : Nat) => add first (a.dur * (k : Int)))

/-- classification of `add_alarm` -/
def VAlarm.isAbsolute (a : VAlarm) : Bool :=
  match a.trigger with
  | some t => t.isAbs
  | none => false

def VAlarm.isStartRel (a : VAlarm) : Bool :=
  match a.trigger with
  | some (.rel _) => decide (a.triggerRelated = START)
  | _ => false

def VAlarm.isEndRel (a : VAlarm) : Bool :=
  match a.trigger with
  | some (.rel _) => !decide (a.triggerRelated = START)
  | _ => false

/-- what a relative alarm contributes for a given anchor (the component's start or end) -/
def expectedRel (anchor : Option Trig) (a : VAlarm) : List (VAlarm × Trig) :=
  match anchor, a.trigger with
  | some x, some (.rel td) => (series (add x td) a).map (fun t => (a, t))
  | _, _ => []

/-- what an absolute alarm contributes -/
def expectedAbs (a : VAlarm) : List (VAlarm × Trig) :=
  match a.trigger with
  | some t => if t.isAbs then (series t.toTrig a).map (fun x => (a, x)) else []
  | none => []

/-- `ack ≤ ack'` on optional acknowledgements: "nothing acknowledged" is the least element -/
def ackLe : Option Int → Option Int → Prop
  | none, _ => True
  | some _, none => False
  | some a, some b => a ≤ b

/-! ### `_add`, `_repeat`, `Alarm.triggers` -/

theorem add_zero (t : Trig) : add t 0 = t := by
  cases t <;> simp [add, pyAdd]

theorem range'_one_map {β : Type} (f : Nat → β) (n : Nat) :
    (List.range' 1 n).map f = (List.range n).map (fun k => f (k + 1)) := by
  rw [List.range'_eq_map_range, List.map_map]
  apply List.map_congr_left
  intro k _
  simp [Nat.add_comm]

theorem range_succ_map {β : Type} (f : Nat → β) (n : Nat) :
    (List.range (n + 1)).map f = f 0 :: (List.range n).map (fun k => f (k + 1)) := by
  rw [List.range_succ_eq_map, List.map_cons, List.map_map]
  rfl

/-- `_repeat` yields exactly the multiplicative series -/
theorem repeatTimes_eq_series (first : Trig) (a : VAlarm) : repeatTimes first a = series first a := by
  unfold repeatTimes series VAlarm.reps VAlarm.dur
  cases hd : a.duration with
  | none => simp [add_zero]
  | some d =>
    simp only [Option.getD_some]
    by_cases hr : a.rep = 0
    · simp [hr, add_zero]
    · rw [if_pos hr, range_succ_map, range'_one_map]
      simp [add_zero]

/-- generic form of "cumulative addition = closed form" -/
theorem cumul_eq_map {α : Type} (plus : α → Int → α) (d : Int) (f : Nat → α)
    (hstep : ∀ k, plus (f k) d = f (k + 1)) (n m : Nat) :
    cumul plus d n (f m) = (List.range' m (n + 1)).map f := by
  induction n generalizing m with
  | zero => simp [cumul]
  | succ n ih =>
    rw [cumul, hstep, ih (m + 1)]
    simp [List.range'_succ]

theorem cumul_int (d : Int) (n : Nat) (x : Int) :
    cumul (· + ·) d n x = (List.range (n + 1)).map (fun (k : Nat) => x + d * (k : Int)) := by
  have h := cumul_eq_map (· + ·) d (fun (k : Nat) => x + d * (k : Int))
    (by intro k; simp only [Int.natCast_add, Int.natCast_one]; rw [Int.mul_add]; omega) n 0
  simp only [Int.natCast_zero, Int.mul_zero, Int.add_zero] at h
  rw [h, List.range_eq_range']

theorem pyAdd_pyAdd (t : Trig) (h : t.isDate = false) (a b : Int) :
    pyAdd (pyAdd t a) b = pyAdd t (a + b) := by
  cases t <;> simp_all [pyAdd, Trig.isDate, Int.add_assoc]

theorem add_eq_pyAdd (t : Trig) (h : t.isDate = false) (a : Int) : add t a = pyAdd t a := by
  cases t <;> simp_all [add, Trig.isDate]

theorem cumul_trig (t : Trig) (h : t.isDate = false) (d : Int) (n : Nat) :
    cumul pyAdd d n t = (List.range (n + 1)).map (fun (k : Nat) => add t (d * (k : Int))) := by
  have h' := cumul_eq_map pyAdd d (fun (k : Nat) => pyAdd t (d * (k : Int)))
    (by
      intro k
      rw [pyAdd_pyAdd t h]
      congr 1
      simp only [Int.natCast_add, Int.natCast_one]; rw [Int.mul_add]; omega) n 0
  have h0 : pyAdd t (d * ((0 : Nat) : Int)) = t := by
    cases t <;> simp_all [pyAdd, Trig.isDate]
  rw [h0] at h'
  rw [h', List.range_eq_range']
  apply List.map_congr_left
  intro k _
  rw [add_eq_pyAdd t h]

theorem toTrig_not_date (t : TriggerV) : t.toTrig.isDate = false := by
  cases t <;> rfl

/-! ### optional maxima -/

theorem optMax_none_iff (a b : Option Int) : optMax a b = none ↔ a = none ∧ b = none := by
  cases a <;> cases b <;> simp [optMax]

theorem optMax_some (a b : Option Int) (k : Int) (h : optMax a b = some k) :
    (a = some k ∨ b = some k) ∧ (∀ x, a = some x → x ≤ k) ∧ (∀ x, b = some x → x ≤ k) := by
  cases a <;> cases b <;> simp [optMax] at h ⊢ <;> omega

theorem ackLe_refl (a : Option Int) : ackLe a a := by
  cases a <;> simp [ackLe]

theorem optMax_mono_right (c x y : Option Int) (h : ackLe x y) : ackLe (optMax c x) (optMax c y) := by
  cases c <;> cases x <;> cases y <;> simp_all [optMax, ackLe] <;> omega

theorem optMax_mono_left (c x y : Option Int) (h : ackLe x y) : ackLe (optMax x c) (optMax y c) := by
  cases c <;> cases x <;> cases y <;> simp_all [optMax, ackLe] <;> omega

/-! ### comprehension with a raising condition -/

theorem filterE_cons_ok {α ε : Type} {p : α → Except ε Bool} {x : α} {xs r : List α}
    (h : filterE p (x :: xs) = .ok r) :
    ∃ b r', p x = .ok b ∧ filterE p xs = .ok r' ∧ r = if b then x :: r' else r' := by
  unfold filterE at h
  cases hpx : p x with
  | error e => rw [hpx] at h; cases h
  | ok b =>
    rw [hpx] at h
    cases hf : filterE p xs with
    | error e => rw [hf] at h; cases h
    | ok r' =>
      rw [hf] at h
      injection h with h
      exact ⟨b, r', rfl, rfl, h.symm⟩

theorem filterE_cons_error {α ε : Type} {p : α → Except ε Bool} {x : α} {xs : List α} {e : ε}
    (h : filterE p (x :: xs) = .error e) :
    p x = .error e ∨ ((∃ b, p x = .ok b) ∧ filterE p xs = .error e) := by
  unfold filterE at h
  cases hpx : p x with
  | error e' => rw [hpx] at h; injection h with h; subst h; exact Or.inl rfl
  | ok b =>
    rw [hpx] at h
    cases hf : filterE p xs with
    | error e' => rw [hf] at h; injection h with h; subst h; exact Or.inr ⟨⟨b, rfl⟩, rfl⟩
    | ok r' => rw [hf] at h; cases h

theorem filterE_sublist {α ε : Type} (p : α → Except ε Bool) (l r : List α)
    (h : filterE p l = .ok r) : r.Sublist l := by
  induction l generalizing r with
  | nil => simp [filterE] at h; subst h; exact List.Sublist.refl _
  | cons x xs ih =>
    obtain ⟨b, r', _, hr', hr⟩ := filterE_cons_ok h
    subst hr
    have := ih r' hr'
    cases b
    · exact List.Sublist.cons _ this
    · exact List.Sublist.cons_cons _ this

theorem filterE_mem {α ε : Type} (p : α → Except ε Bool) (l r : List α)
    (h : filterE p l = .ok r) (x : α) : x ∈ r ↔ x ∈ l ∧ p x = .ok true := by
  induction l generalizing r with
  | nil => simp [filterE] at h; subst h; simp
  | cons y ys ih =>
    obtain ⟨b, r', hb, hr', hr⟩ := filterE_cons_ok h
    subst hr
    have := ih r' hr'
    cases b
    · simp only [Bool.false_eq_true, if_false, List.mem_cons, this]
      constructor
      · rintro ⟨hx, hp⟩; exact ⟨Or.inr hx, hp⟩
      · rintro ⟨hx | hx, hp⟩
        · subst hx; rw [hb] at hp; cases hp
        · exact ⟨hx, hp⟩
    · simp only [if_true, List.mem_cons, this]
      constructor
      · rintro (hx | ⟨hx, hp⟩)
        · subst hx; exact ⟨Or.inl rfl, hb⟩
        · exact ⟨Or.inr hx, hp⟩
      · rintro ⟨hx | hx, hp⟩
        · exact Or.inl hx
        · exact Or.inr ⟨hx, hp⟩

theorem filterE_error {α ε : Type} (p : α → Except ε Bool) (l : List α) (e : ε)
    (h : filterE p l = .error e) : ∃ x ∈ l, p x = .error e := by
  induction l with
  | nil => simp [filterE] at h
  | cons y ys ih =>
    rcases filterE_cons_error h with h1 | ⟨_, h2⟩
    · exact ⟨y, List.mem_cons_self, h1⟩
    · obtain ⟨x, hx, hp⟩ := ih h2
      exact ⟨x, List.mem_cons_of_mem _ hx, hp⟩

theorem filterE_total {α ε : Type} (p : α → Except ε Bool) (l : List α)
    (h : ∀ x ∈ l, ∃ b, p x = .ok b) : ∃ r, filterE p l = .ok r := by
  cases hf : filterE p l with
  | ok r => exact ⟨r, rfl⟩
  | error e =>
    obtain ⟨x, hx, hp⟩ := filterE_error p l e hf
    obtain ⟨b, hb⟩ := h x hx
    rw [hb] at hp
    cases hp

/-- two comprehensions over "the same" list (related element-wise by `f`): if every condition that
    holds on the right holds on the left, the right result is, through `g`, a sub-list of the left one -/
theorem filterE_map_mono {α ε γ : Type} (p p' : α → Except ε Bool) (f : α → α) (g : α → γ)
    (hg : ∀ x, g (f x) = g x)
    (hp : ∀ x b', p' (f x) = .ok b' → ∃ b, p x = .ok b ∧ (b' = true → b = true))
    (l : List α) (r' : List α) (h : filterE p' (l.map f) = .ok r') :
    ∃ r, filterE p l = .ok r ∧ (r'.map g).Sublist (r.map g) := by
  induction l generalizing r' with
  | nil => simp [filterE] at h; subst h; exact ⟨[], by simp [filterE], List.Sublist.refl _⟩
  | cons x xs ih =>
    rw [List.map_cons] at h
    obtain ⟨b', r1, hb', hr1, hr⟩ := filterE_cons_ok h
    subst hr
    obtain ⟨r, hr, hsub⟩ := ih r1 hr1
    obtain ⟨b, hb, himp⟩ := hp x b' hb'
    refine ⟨if b then x :: r else r, ?_, ?_⟩
    · unfold filterE; rw [hb]; simp only; rw [hr]
    · cases b' <;> cases b
      · simpa using hsub
      · simp only [Bool.false_eq_true, if_false, if_true, List.map_cons]
        exact List.Sublist.cons _ hsub
      · simp at himp
      · simp only [if_true, List.map_cons, hg]
        exact List.Sublist.cons_cons _ hsub

/-! ### `add_alarm` over a list -/

theorem foldl_addAlarm (as : List VAlarm) (s : State) :
    (as.foldl addAlarm s) =
      { s with
        absoluteAlarms := s.absoluteAlarms ++ as.filter VAlarm.isAbsolute
        startAlarms := s.startAlarms ++ as.filter VAlarm.isStartRel
        endAlarms := s.endAlarms ++ as.filter VAlarm.isEndRel } := by
  induction as generalizing s with
  | nil => simp
  | cons a as ih =>
    rw [List.foldl_cons, ih]
    unfold addAlarm
    cases ht : a.trigger with
    | none => simp [VAlarm.isAbsolute, VAlarm.isStartRel, VAlarm.isEndRel, ht]
    | some t =>
      cases t with
      | rel td =>
        by_cases hs : a.triggerRelated = START
        · simp [VAlarm.isAbsolute, VAlarm.isStartRel, VAlarm.isEndRel, ht, TriggerV.isAbs, hs]
        · simp [VAlarm.isAbsolute, VAlarm.isStartRel, VAlarm.isEndRel, ht, TriggerV.isAbs, hs]
      | absAware i =>
        simp [VAlarm.isAbsolute, VAlarm.isStartRel, VAlarm.isEndRel, ht, TriggerV.isAbs]
      | absFloating w =>
        simp [VAlarm.isAbsolute, VAlarm.isStartRel, VAlarm.isEndRel, ht, TriggerV.isAbs]


/-! ### `AlarmTime.is_active` / `AlarmTime.trigger` as decision tables -/

/-- closed form of `is_active` in terms of the effective acknowledgement, the snooze and the raw trigger -/
def isActiveSpec (ack snooze : Option Int) (trig : Trig) : Except AErr Bool :=
  match ack with
  | none => .ok true
  | some k =>
    match snooze, trig with
    | some s, .aware t => .ok (decide (s > k) || decide (t > k))
    | some s, _ => if s > k then .ok true else .error .localTimezoneMissing
    | none, .aware t => .ok (decide (t > k))
    | none, _ => .error .localTimezoneMissing

theorem isActive_eq_spec (a : AlarmTime) : a.isActive = isActiveSpec a.acknowledged a.snooze a.trig := by
  unfold AlarmTime.isActive isActiveSpec AlarmTime.trigger
  cases a.acknowledged with
  | none => rfl
  | some k =>
    cases a.snooze with
    | none => cases a.trig <;> simp [toDatetime]
    | some s =>
      cases a.trig with
      | aware t =>
        simp only [toDatetime]
        by_cases h1 : s > k
        · simp [h1]
        · by_cases h2 : s > t
          · have h3 : ¬ t > k := by omega
            simp [h1, h2, h3]
          · simp [h1, h2]
      | floating w => by_cases h1 : s > k <;> simp [toDatetime, h1]
      | date d => by_cases h1 : s > k <;> simp [toDatetime, h1]

/-! ### shape of `times` -/

theorem flatMap_congr' {α β : Type} {l : List α} {f g : α → List β} (h : ∀ a ∈ l, f a = g a) :
    l.flatMap f = l.flatMap g := by
  induction l with
  | nil => rfl
  | cons x xs ih =>
    rw [List.flatMap_cons, List.flatMap_cons, h x List.mem_cons_self,
      ih (fun a ha => h a (List.mem_cons_of_mem _ ha))]

/-- the pair the property talks about: which alarm, at what time -/
def AlarmTime.key (x : AlarmTime) : VAlarm × Trig := (x.alarm, x.trig)

/-- alarm by alarm: end-relative alarms, start-relative alarms, absolute alarms (the order of `times`) -/
def expected (start end_ : Option Trig) (as : List VAlarm) : List (VAlarm × Trig) :=
  (as.filter VAlarm.isEndRel).flatMap (expectedRel end_) ++
  (as.filter VAlarm.isStartRel).flatMap (expectedRel start) ++
  (as.filter VAlarm.isAbsolute).flatMap expectedAbs

theorem relativeTimes_key (localize : Int → Int) (s : State) (x : Trig) (as : List VAlarm) :
    (relativeTimes localize s x as).map AlarmTime.key =
      (as.flatMap (expectedRel (some x))).map (fun q => (q.1, applyLocal localize s.localTz q.2)) := by
  unfold relativeTimes
  rw [List.map_flatMap, List.map_flatMap]
  apply flatMap_congr'
  intro a _
  unfold expectedRel
  cases a.trigger with
  | none => rfl
  | some t =>
    cases t with
    | rel td => simp [repeatTimes_eq_series, List.map_map, Function.comp_def, AlarmTime.key, alarmTime]
    | absAware i => rfl
    | absFloating w => rfl

theorem absoluteTimes_key (localize : Int → Int) (s : State)
    (hwf : ∀ a ∈ s.absoluteAlarms, a.isAbsolute = true) :
    (absoluteTimes localize s).map AlarmTime.key =
      (s.absoluteAlarms.flatMap expectedAbs).map (fun q => (q.1, applyLocal localize s.localTz q.2)) := by
  unfold absoluteTimes
  rw [List.map_flatMap, List.map_flatMap]
  apply flatMap_congr'
  intro a ha
  have := hwf a ha
  unfold expectedAbs
  unfold VAlarm.isAbsolute at this
  cases ht : a.trigger with
  | none => rfl
  | some t =>
    rw [ht] at this
    simp [this, repeatTimes_eq_series, List.map_map, Function.comp_def, AlarmTime.key, alarmTime]

/-- `times` succeeds exactly when no needed anchor is missing -/
theorem times_ok_iff (localize : Int → Int) (s : State) :
    (∃ ts, times localize s = .ok ts) ↔
      (s.end_ ≠ none ∨ s.endAlarms = []) ∧ (s.start ≠ none ∨ s.startAlarms = []) := by
  unfold times endTimes startTimes
  cases s.end_ <;> cases s.start <;> cases he : s.endAlarms <;> cases hs : s.startAlarms <;> simp

theorem times_error (localize : Int → Int) (s : State) (e : AErr) (h : times localize s = .error e) :
    (e = .componentEndMissing ∧ s.end_ = none ∧ s.endAlarms ≠ []) ∨
    (e = .componentStartMissing ∧ s.start = none ∧ s.startAlarms ≠ [] ∧ (s.end_ ≠ none ∨ s.endAlarms = [])) := by
  unfold times endTimes startTimes at h
  cases hen : s.end_ <;> cases hst : s.start <;> cases he : s.endAlarms <;> cases hs : s.startAlarms <;>
    simp_all <;> exact h.symm

theorem times_ok_form (localize : Int → Int) (s : State) (ts : List AlarmTime)
    (h : times localize s = .ok ts) :
    ∃ es ss, endTimes localize s = .ok es ∧ startTimes localize s = .ok ss ∧
      ts = es ++ ss ++ absoluteTimes localize s := by
  unfold times at h
  cases he : endTimes localize s with
  | error e => rw [he] at h; cases h
  | ok es =>
    cases hs : startTimes localize s with
    | error e => rw [he, hs] at h; cases h
    | ok ss =>
      rw [he, hs] at h
      injection h with h
      exact ⟨es, ss, rfl, rfl, h.symm⟩

theorem endTimes_key (localize : Int → Int) (s : State) (es : List AlarmTime)
    (h : endTimes localize s = .ok es) :
    es.map AlarmTime.key =
      (s.endAlarms.flatMap (expectedRel s.end_)).map (fun q => (q.1, applyLocal localize s.localTz q.2)) := by
  unfold endTimes at h
  cases hen : s.end_ with
  | none =>
    rw [hen] at h
    cases hl : s.endAlarms with
    | nil => simp [hl] at h; subst h; simp
    | cons a as => simp [hl] at h
  | some x =>
    rw [hen] at h
    injection h with h
    subst h
    exact relativeTimes_key localize s x _

theorem startTimes_key (localize : Int → Int) (s : State) (ss : List AlarmTime)
    (h : startTimes localize s = .ok ss) :
    ss.map AlarmTime.key =
      (s.startAlarms.flatMap (expectedRel s.start)).map (fun q => (q.1, applyLocal localize s.localTz q.2)) := by
  unfold startTimes at h
  cases hst : s.start with
  | none =>
    rw [hst] at h
    cases hl : s.startAlarms with
    | nil => simp [hl] at h; subst h; simp
    | cons a as => simp [hl] at h
  | some x =>
    rw [hst] at h
    injection h with h
    subst h
    exact relativeTimes_key localize s x _

/-- state-level form of the C14 specification -/
theorem times_key (localize : Int → Int) (s : State) (ts : List AlarmTime)
    (hwf : ∀ a ∈ s.absoluteAlarms, a.isAbsolute = true)
    (h : times localize s = .ok ts) :
    ts.map AlarmTime.key =
      (s.endAlarms.flatMap (expectedRel s.end_) ++ s.startAlarms.flatMap (expectedRel s.start) ++
        s.absoluteAlarms.flatMap expectedAbs).map (fun q => (q.1, applyLocal localize s.localTz q.2)) := by
  obtain ⟨es, ss, he, hs, rfl⟩ := times_ok_form localize s ts h
  simp only [List.map_append]
  rw [endTimes_key localize s es he, startTimes_key localize s ss hs, absoluteTimes_key localize s hwf]

/-- the state `Alarms(component)` followed by `set_local_timezone` -/
def componentState (p : Parent) (start end_ : Option Trig) (as : List VAlarm) (tz : Bool) : State :=
  setLocalTimezone (ofComponent p start end_ as) tz

theorem componentState_eq (p : Parent) (start end_ : Option Trig) (as : List VAlarm) (tz : Bool) :
    componentState p start end_ as tz =
      { absoluteAlarms := as.filter VAlarm.isAbsolute
        startAlarms := as.filter VAlarm.isStartRel
        endAlarms := as.filter VAlarm.isEndRel
        start := start
        end_ := end_
        lastAck := if p.isThunderbird then p.lastack else p.dtstamp
        snooze := if p.isThunderbird then p.snoozeTime else none
        localTz := tz } := by
  unfold componentState ofComponent addComponent setLocalTimezone
  rw [foldl_addAlarm]
  cases p.isThunderbird <;> simp [setStart, setEnd, acknowledgeUntil, snoozeUntil]

/-- every alarm time carries the state's acknowledgement and snooze, and an aware trigger once a local
    time zone is set -/
theorem times_mem (localize : Int → Int) (s : State) (ts : List AlarmTime)
    (h : times localize s = .ok ts) (x : AlarmTime) (hx : x ∈ ts) :
    x.lastAck = s.lastAck ∧ x.snooze = s.snooze ∧ (s.localTz = true → x.trig.isAware = true) := by
  have key : ∀ (a : VAlarm) (t : Trig), (alarmTime localize s a t).lastAck = s.lastAck ∧
      (alarmTime localize s a t).snooze = s.snooze ∧
      (s.localTz = true → (alarmTime localize s a t).trig.isAware = true) := by
    intro a t
    refine ⟨rfl, rfl, ?_⟩
    intro hl
    cases t <;> simp [alarmTime, applyLocal, hl, Trig.isAware]
  have hrel : ∀ (anchor : Trig) (l : List VAlarm), x ∈ relativeTimes localize s anchor l →
      x.lastAck = s.lastAck ∧ x.snooze = s.snooze ∧ (s.localTz = true → x.trig.isAware = true) := by
    intro anchor l hm
    unfold relativeTimes at hm
    rw [List.mem_flatMap] at hm
    obtain ⟨a, _, hm⟩ := hm
    split at hm
    · rw [List.mem_map] at hm
      obtain ⟨t, _, rfl⟩ := hm
      exact key a t
    · cases hm
  obtain ⟨es, ss, he, hs, rfl⟩ := times_ok_form localize s ts h
  rw [List.mem_append, List.mem_append] at hx
  rcases hx with (hx | hx) | hx
  · unfold endTimes at he
    split at he
    · split at he
      · injection he with he; subst he; cases hx
      · cases he
    · injection he with he; subst he; exact hrel _ _ hx
  · unfold startTimes at hs
    split at hs
    · split at hs
      · injection hs with hs; subst hs; cases hx
      · cases hs
    · injection hs with hs; subst hs; exact hrel _ _ hx
  · unfold absoluteTimes at hx
    rw [List.mem_flatMap] at hx
    obtain ⟨a, _, hm⟩ := hx
    split at hm
    · rw [List.mem_map] at hm
      obtain ⟨t, _, rfl⟩ := hm
      exact key a t
    · cases hm

/-- moving the component-level acknowledgement changes nothing but the `lastAck` of every alarm time -/
theorem times_acknowledgeUntil (localize : Int → Int) (s : State) (k : Option Int) :
    times localize (acknowledgeUntil s k) =
      (times localize s).map (fun ts => ts.map (fun x => { x with lastAck := k })) := by
  have hat : ∀ a t, alarmTime localize (acknowledgeUntil s k) a t =
      { alarmTime localize s a t with lastAck := k } := by intro a t; rfl
  have hrel : ∀ x l, relativeTimes localize (acknowledgeUntil s k) x l =
      (relativeTimes localize s x l).map (fun x => { x with lastAck := k }) := by
    intro x l
    unfold relativeTimes
    rw [List.map_flatMap]
    apply flatMap_congr'
    intro a _
    split <;> simp [List.map_map, Function.comp_def, hat]
  have habs : absoluteTimes localize (acknowledgeUntil s k) =
      (absoluteTimes localize s).map (fun x => { x with lastAck := k }) := by
    unfold absoluteTimes
    rw [List.map_flatMap]
    apply flatMap_congr'
    intro a _
    split <;> simp [List.map_map, Function.comp_def, hat]
  have hen : (acknowledgeUntil s k).end_ = s.end_ := rfl
  have hst : (acknowledgeUntil s k).start = s.start := rfl
  have hea : (acknowledgeUntil s k).endAlarms = s.endAlarms := rfl
  have hsa : (acknowledgeUntil s k).startAlarms = s.startAlarms := rfl
  unfold times endTimes startTimes
  rw [habs, hen, hst, hea, hsa]
  cases s.end_ <;> cases s.start <;> cases s.endAlarms <;> cases s.startAlarms <;>
    simp [Except.map, hrel]


theorem expectedRel_fst (anchor : Option Trig) (a : VAlarm) (q : VAlarm × Trig)
    (h : q ∈ expectedRel anchor a) : q.1 = a := by
  unfold expectedRel at h
  split at h
  · rw [List.mem_map] at h
    obtain ⟨_, _, rfl⟩ := h
    rfl
  · cases h

theorem expectedAbs_fst (a : VAlarm) (q : VAlarm × Trig) (h : q ∈ expectedAbs a) : q.1 = a := by
  unfold expectedAbs at h
  split at h
  · split at h
    · rw [List.mem_map] at h
      obtain ⟨_, _, rfl⟩ := h
      rfl
    · cases h
  · cases h

theorem trigger_of_class (a : VAlarm) (h : a.isEndRel = true ∨ a.isStartRel = true ∨ a.isAbsolute = true) :
    a.trigger ≠ none := by
  intro hn
  simp [VAlarm.isEndRel, VAlarm.isStartRel, VAlarm.isAbsolute, hn] at h

end ICal.Alarms
