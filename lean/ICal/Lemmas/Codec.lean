/-
  Helper lemmas for the value-codec model (C03): decimal printing and parsing, zero padding,
  `int()` on digit strings, fixed-width fields, the duration regex against the RFC grammar,
  `vDDDTypes.from_ical` dispatch, `str.split` on one separator, weekday / month tables.
  Everything lives in `ICal.Codec` so that generic names cannot clash with other lemma files.
-/
import ICal.Model.Codec
set_option linter.unusedSimpArgs false
namespace ICal.Codec

/-! ## characters -/

theorem char_le_iff (a b : Char) : a ≤ b ↔ a.toNat ≤ b.toNat := by
  rw [Char.le_def, UInt32.le_iff_toNat_le]; rfl

theorem isDigit_iff (c : Char) : isDigit c = true ↔ 48 ≤ c.toNat ∧ c.toNat ≤ 57 := by
  unfold isDigit
  rw [Bool.and_eq_true, decide_eq_true_iff, decide_eq_true_iff, char_le_iff, char_le_iff]
  exact Iff.rfl

/-- the digit character of `k < 10` -/
def dig (k : Nat) : Char := Char.ofNat ('0'.toNat + k)

theorem dig_spec (k : Nat) (h : k < 10) : isDigit (dig k) = true ∧ digitVal (dig k) = k := by
  have : k = 0 ∨ k = 1 ∨ k = 2 ∨ k = 3 ∨ k = 4 ∨ k = 5 ∨ k = 6 ∨ k = 7 ∨ k = 8 ∨ k = 9 := by omega
  rcases this with rfl|rfl|rfl|rfl|rfl|rfl|rfl|rfl|rfl|rfl <;> decide

theorem isDigit_dig (k : Nat) (h : k < 10) : isDigit (dig k) = true := (dig_spec k h).1
theorem digitVal_dig (k : Nat) (h : k < 10) : digitVal (dig k) = k := (dig_spec k h).2

theorem digitVal_lt (c : Char) (h : isDigit c = true) : digitVal c < 10 := by
  rw [isDigit_iff] at h
  have : '0'.toNat = 48 := by decide
  unfold digitVal; omega

/-- a digit is none of the characters the codecs treat specially -/
theorem isDigit_ne (c d : Char) (h : isDigit c = true) (hd : isDigit d = false := by decide) : c ≠ d := by
  intro e; subst e; rw [h] at hd; cases hd

theorem isDigit_not_space (c : Char) (h : isDigit c = true) : isPySpace c = false := by
  rw [isDigit_iff] at h
  unfold isPySpace
  have h1 : (c.toNat == 32) = false := by simp; omega
  have h2 : (decide (c.toNat ≤ 13)) = false := by simp; omega
  simp [h1, h2]

theorem upperC_digit (c : Char) (h : isDigit c = true) : upperC c = c := by
  rw [isDigit_iff] at h
  unfold upperC
  have : ¬ ('a' ≤ c ∧ c ≤ 'z') := by
    rw [char_le_iff, char_le_iff]
    have : 'a'.toNat = 97 := by decide
    omega
  simp [this]

/-! ## `str(n)` -/

theorem digitsAux_acc (fuel n : Nat) (acc : List Char) :
    digitsAux fuel n acc = digitsAux fuel n [] ++ acc := by
  induction fuel generalizing n acc with
  | zero => simp [digitsAux]
  | succ f ih =>
    simp only [digitsAux]
    split
    · simp
    · rw [ih (n / 10) (_ :: acc), ih (n / 10) [_]]; simp

theorem digitsAux_fuel (f g n : Nat) (hf : n < f) (hg : n < g) (acc : List Char) :
    digitsAux f n acc = digitsAux g n acc := by
  induction f generalizing g n acc with
  | zero => omega
  | succ f ih =>
    cases g with
    | zero => omega
    | succ g =>
      simp only [digitsAux]
      split
      · rfl
      · apply ih <;> omega

theorem natToStr_lt10 (n : Nat) (h : n < 10) : natToStr n = [dig n] := by
  unfold natToStr dig
  simp only [digitsAux]
  have : n / 10 = 0 := by omega
  have h2 : n % 10 = n := by omega
  simp [this, h2]

theorem natToStr_step (n : Nat) (h : 10 ≤ n) : natToStr n = natToStr (n / 10) ++ [dig (n % 10)] := by
  have hne : n / 10 ≠ 0 := by omega
  have key : digitsAux (n + 1) n [] = digitsAux n (n / 10) [dig (n % 10)] := by
    simp [digitsAux, hne, dig]
  unfold natToStr
  rw [key, digitsAux_acc, digitsAux_fuel n (n / 10 + 1) (n / 10) (by omega) (by omega)]

theorem natToStr_ne_nil (n : Nat) : natToStr n ≠ [] := by
  by_cases h : n < 10
  · rw [natToStr_lt10 n h]; simp
  · rw [natToStr_step n (by omega)]; simp

theorem natToStr_digits (n : Nat) : ∀ c ∈ natToStr n, isDigit c = true := by
  induction n using Nat.strongRecOn with
  | _ n ih =>
    by_cases h : n < 10
    · rw [natToStr_lt10 n h]; intro c hc; simp at hc; subst hc; exact isDigit_dig n h
    · rw [natToStr_step n (by omega)]
      intro c hc
      rw [List.mem_append] at hc
      rcases hc with hc | hc
      · exact ih (n / 10) (by omega) c hc
      · simp at hc; subst hc; exact isDigit_dig _ (Nat.mod_lt _ (by omega))

theorem ofDigits_snoc (s : Str) (c : Char) : ofDigits (s ++ [c]) = ofDigits s * 10 + digitVal c := by
  simp [ofDigits, List.foldl_append]

/-- `int(str(n)) == n` at the level of digit strings -/
theorem ofDigits_natToStr (n : Nat) : ofDigits (natToStr n) = n := by
  induction n using Nat.strongRecOn with
  | _ n ih =>
    by_cases h : n < 10
    · rw [natToStr_lt10 n h]; simp [ofDigits, digitVal_dig n h]
    · rw [natToStr_step n (by omega), ofDigits_snoc, ih (n / 10) (by omega),
        digitVal_dig _ (Nat.mod_lt _ (by omega))]
      omega

theorem natToStr_2 (n : Nat) (h1 : 10 ≤ n) (h2 : n < 100) : natToStr n = [dig (n / 10), dig (n % 10)] := by
  rw [natToStr_step n h1, natToStr_lt10 (n / 10) (by omega)]; rfl

theorem natToStr_3 (n : Nat) (h1 : 100 ≤ n) (h2 : n < 1000) :
    natToStr n = [dig (n / 100), dig (n / 10 % 10), dig (n % 10)] := by
  rw [natToStr_step n (by omega), natToStr_2 (n / 10) (by omega) (by omega)]
  have : n / 10 / 10 = n / 100 := by omega
  simp [this]

theorem natToStr_4 (n : Nat) (h1 : 1000 ≤ n) (h2 : n < 10000) :
    natToStr n = [dig (n / 1000), dig (n / 100 % 10), dig (n / 10 % 10), dig (n % 10)] := by
  rw [natToStr_step n (by omega), natToStr_3 (n / 10) (by omega) (by omega)]
  have e1 : n / 10 / 100 = n / 1000 := by omega
  have e2 : n / 10 / 10 % 10 = n / 100 % 10 := by omega
  simp [e1, e2]

/-! ## zero padding -/

theorem dig_zero : dig 0 = '0' := by decide

theorem pad2_eq (n : Nat) (h : n < 100) : pad 2 n = [dig (n / 10), dig (n % 10)] := by
  unfold pad
  by_cases h1 : n < 10
  · rw [natToStr_lt10 n h1]
    have e1 : n / 10 = 0 := by omega
    have e2 : n % 10 = n := by omega
    simp [e1, e2, dig_zero]
  · rw [natToStr_2 n (by omega) h]; simp

theorem pad4_eq (n : Nat) (h : n < 10000) :
    pad 4 n = [dig (n / 1000), dig (n / 100 % 10), dig (n / 10 % 10), dig (n % 10)] := by
  unfold pad
  by_cases h1 : n < 10
  · rw [natToStr_lt10 n h1]
    have e1 : n / 1000 = 0 := by omega
    have e2 : n / 100 % 10 = 0 := by omega
    have e3 : n / 10 % 10 = 0 := by omega
    have e4 : n % 10 = n := by omega
    simp [e1, e2, e3, e4, dig_zero, List.replicate]
  · by_cases h2 : n < 100
    · rw [natToStr_2 n (by omega) h2]
      have e1 : n / 1000 = 0 := by omega
      have e2 : n / 100 % 10 = 0 := by omega
      have e3 : n / 10 % 10 = n / 10 := by omega
      simp [e1, e2, e3, dig_zero, List.replicate]
    · by_cases h3 : n < 1000
      · rw [natToStr_3 n (by omega) h3]
        have e1 : n / 1000 = 0 := by omega
        have e2 : n / 100 % 10 = n / 100 := by omega
        simp [e1, e2, dig_zero]
      · rw [natToStr_4 n (by omega) h]; simp

/-! ## `int()` on digit strings -/

theorem pyNatAux_digits (s : Str) (hs : ∀ c ∈ s, isDigit c = true) (acc : Nat) (prev : Bool)
    (h : s ≠ [] ∨ prev = true) :
    pyNatAux acc prev s = some (s.foldl (fun a c => a * 10 + digitVal c) acc) := by
  induction s generalizing acc prev with
  | nil =>
    rcases h with h | h
    · exact absurd rfl h
    · simp [pyNatAux, h]
  | cons c cs ih =>
    have hc := hs c (by simp)
    simp only [pyNatAux, hc, if_true, List.foldl_cons]
    exact ih (fun x hx => hs x (by simp [hx])) _ true (Or.inr rfl)

theorem lstripSp_digit (c : Char) (cs : Str) (h : isDigit c = true) : lstripSp (c :: cs) = c :: cs := by
  simp [lstripSp, isDigit_not_space c h]

theorem rstripSp_digits (s : Str) (hs : ∀ c ∈ s, isDigit c = true) : rstripSp s = s := by
  induction s with
  | nil => rfl
  | cons c cs ih =>
    have hc := isDigit_not_space c (hs c (by simp))
    have := ih (fun x hx => hs x (by simp [hx]))
    simp only [rstripSp, this]
    cases cs with
    | nil => simp [hc]
    | cons d ds => rfl

/-- `int(s)` of a non-empty string of ASCII digits is its decimal value -/
theorem pyInt_digits (s : Str) (hs : ∀ c ∈ s, isDigit c = true) (hne : s ≠ []) :
    pyInt s = some ((ofDigits s : Nat) : Int) := by
  cases s with
  | nil => exact absurd rfl hne
  | cons c cs =>
    have hc := hs c (by simp)
    unfold pyInt
    rw [lstripSp_digit c cs hc, rstripSp_digits _ hs]
    have h1 : c ≠ '-' := isDigit_ne c '-' hc
    have h2 : c ≠ '+' := isDigit_ne c '+' hc
    split
    · next r heq => simp at heq; exact absurd heq.1 h1
    · next r heq => simp at heq; exact absurd heq.1 h2
    · next r _ _ =>
      unfold pyNat
      rw [pyNatAux_digits (c :: cs) hs 0 false (Or.inl (by simp))]
      simp [ofDigits]

theorem pyIntE_digits (s : Str) (hs : ∀ c ∈ s, isDigit c = true) (hne : s ≠ []) :
    pyIntE s = .ok ((ofDigits s : Nat) : Int) := by
  unfold pyIntE; rw [pyInt_digits s hs hne]

theorem pyIntE_2 (a b : Char) (ha : isDigit a = true) (hb : isDigit b = true) :
    pyIntE [a, b] = .ok ((num2 a b : Nat) : Int) :=
  pyIntE_digits [a, b] (by intro c hc; simp at hc; rcases hc with rfl | rfl <;> assumption) (by simp)

theorem pyIntE_4 (a b c d : Char) (ha : isDigit a = true) (hb : isDigit b = true)
    (hc : isDigit c = true) (hd : isDigit d = true) :
    pyIntE [a, b, c, d] = .ok ((num4 a b c d : Nat) : Int) :=
  pyIntE_digits [a, b, c, d]
    (by intro x hx; simp at hx; rcases hx with rfl | rfl | rfl | rfl <;> assumption) (by simp)

theorem num2_val (a b : Char) : num2 a b = digitVal a * 10 + digitVal b := by
  simp [num2, ofDigits]

theorem num4_val (a b c d : Char) :
    num4 a b c d = digitVal a * 1000 + digitVal b * 100 + digitVal c * 10 + digitVal d := by
  simp [num4, ofDigits]; omega

theorem num2_dig (x : Nat) (h : x < 100) : num2 (dig (x / 10)) (dig (x % 10)) = x := by
  rw [num2_val, digitVal_dig _ (by omega), digitVal_dig _ (by omega)]; omega

theorem num4_dig (x : Nat) (h : x < 10000) :
    num4 (dig (x / 1000)) (dig (x / 100 % 10)) (dig (x / 10 % 10)) (dig (x % 10)) = x := by
  rw [num4_val, digitVal_dig _ (by omega), digitVal_dig _ (by omega), digitVal_dig _ (by omega),
    digitVal_dig _ (by omega)]
  omega

theorem num2_lt (a b : Char) (ha : isDigit a = true) (hb : isDigit b = true) : num2 a b < 100 := by
  have := digitVal_lt a ha; have := digitVal_lt b hb; rw [num2_val]; omega

/-! ## dates and times as fixed-width fields -/

theorem daysInMonth_le (y m : Nat) : daysInMonth y m ≤ 31 := by
  unfold daysInMonth; split
  · split <;> omega
  · split <;> omega

theorem validDate_bounds {y m d : Nat} (h : validDate y m d = true) : y < 10000 ∧ m < 100 ∧ d < 100 := by
  unfold validDate at h
  simp only [Bool.and_eq_true, decide_eq_true_iff] at h
  have := daysInMonth_le y m
  omega

theorem validTime_bounds {h m s : Nat} (hv : validTime h m s = true) : h < 24 ∧ m < 60 ∧ s < 60 := by
  unfold validTime at hv
  simp only [Bool.and_eq_true, decide_eq_true_iff] at hv
  omega

theorem mkDate_nat (y m d : Nat) (h : validDate y m d = true) :
    mkDate (y : Int) (m : Int) (d : Int) = .ok ⟨y, m, d⟩ := by
  unfold mkDate
  simp [h]

theorem okTime_nat (h m s : Nat) : okTime (h : Int) (m : Int) (s : Int) = validTime h m s := by
  simp [okTime]

/-- the eight characters of `f"{y:04}{m:02}{d:02}"` -/
def dateChars (y m d : Nat) : Str :=
  [dig (y / 1000), dig (y / 100 % 10), dig (y / 10 % 10), dig (y % 10), dig (m / 10), dig (m % 10),
    dig (d / 10), dig (d % 10)]

/-- the six characters of `f"{h:02}{m:02}{s:02}"` -/
def hmsChars (h m s : Nat) : Str :=
  [dig (h / 10), dig (h % 10), dig (m / 10), dig (m % 10), dig (s / 10), dig (s % 10)]

theorem vDateTo_eq (y m d : Nat) (hy : y < 10000) (hm : m < 100) (hd : d < 100) :
    vDateTo ⟨y, m, d⟩ = dateChars y m d := by
  unfold vDateTo dateChars
  simp only [pad4_eq y hy, pad2_eq m hm, pad2_eq d hd, List.cons_append, List.nil_append]

theorem hmsTo_eq (h m s : Nat) (hh : h < 100) (hm : m < 100) (hs : s < 100) :
    hmsTo h m s = hmsChars h m s := by
  unfold hmsTo hmsChars
  simp only [pad2_eq h hh, pad2_eq m hm, pad2_eq s hs, List.cons_append, List.nil_append]

theorem rfcDate_dateChars (y m d : Nat) (hv : validDate y m d = true) :
    rfcDate (dateChars y m d) = some ⟨y, m, d⟩ := by
  obtain ⟨hy, hm, hd⟩ := validDate_bounds hv
  unfold rfcDate dateChars
  simp only [num4_dig y hy, num2_dig m hm, num2_dig d hd, hv,
    isDigit_dig _ (show y / 1000 < 10 by omega), isDigit_dig _ (show y / 100 % 10 < 10 by omega),
    isDigit_dig _ (show y / 10 % 10 < 10 by omega), isDigit_dig _ (show y % 10 < 10 by omega),
    isDigit_dig _ (show m / 10 < 10 by omega), isDigit_dig _ (show m % 10 < 10 by omega),
    isDigit_dig _ (show d / 10 < 10 by omega), isDigit_dig _ (show d % 10 < 10 by omega),
    Bool.and_self, if_true]

theorem rfcTime_hmsChars (h m s : Nat) (hv : validTime h m s = true) :
    rfcTime (hmsChars h m s) = some ⟨h, m, s, false⟩ := by
  obtain ⟨hh, hm, hs⟩ := validTime_bounds hv
  unfold rfcTime hmsChars
  simp only [num2_dig h (by omega), num2_dig m (by omega), num2_dig s (by omega), hv,
    isDigit_dig _ (show h / 10 < 10 by omega), isDigit_dig _ (show h % 10 < 10 by omega),
    isDigit_dig _ (show m / 10 < 10 by omega), isDigit_dig _ (show m % 10 < 10 by omega),
    isDigit_dig _ (show s / 10 < 10 by omega), isDigit_dig _ (show s % 10 < 10 by omega),
    Bool.and_self, if_true]

theorem rfcTime_hmsChars_Z (h m s : Nat) (hv : validTime h m s = true) :
    rfcTime (hmsChars h m s ++ ['Z']) = some ⟨h, m, s, true⟩ := by
  obtain ⟨hh, hm, hs⟩ := validTime_bounds hv
  unfold rfcTime hmsChars
  simp only [List.cons_append, List.nil_append,
    num2_dig h (by omega), num2_dig m (by omega), num2_dig s (by omega), hv,
    isDigit_dig _ (show h / 10 < 10 by omega), isDigit_dig _ (show h % 10 < 10 by omega),
    isDigit_dig _ (show m / 10 < 10 by omega), isDigit_dig _ (show m % 10 < 10 by omega),
    isDigit_dig _ (show s / 10 < 10 by omega), isDigit_dig _ (show s % 10 < 10 by omega),
    Bool.and_self, if_true]

/-- what `rfcDate t = some v` says about `t` -/
theorem rfcDate_inv {t : Str} {v : PDate} (h : rfcDate t = some v) :
    ∃ a b c d e f g i, t = [a, b, c, d, e, f, g, i] ∧
      isDigit a = true ∧ isDigit b = true ∧ isDigit c = true ∧ isDigit d = true ∧ isDigit e = true ∧
      isDigit f = true ∧ isDigit g = true ∧ isDigit i = true ∧
      validDate (num4 a b c d) (num2 e f) (num2 g i) = true ∧ v = ⟨num4 a b c d, num2 e f, num2 g i⟩ := by
  unfold rfcDate at h
  split at h
  · next a b c d e f g i =>
    split at h
    · next hc =>
      simp only [Bool.and_eq_true] at hc
      obtain ⟨⟨⟨⟨⟨⟨⟨⟨ha, hb⟩, hc'⟩, hd⟩, he⟩, hf⟩, hg⟩, hi⟩, hv⟩ := hc
      cases h
      exact ⟨a, b, c, d, e, f, g, i, rfl, ha, hb, hc', hd, he, hf, hg, hi, hv, rfl⟩
    · cases h
  · cases h

/-- what `rfcTime t = some v` says about `t` -/
theorem rfcTime_inv {t : Str} {v : PTime} (h : rfcTime t = some v) :
    ∃ a b c d e f, (t = [a, b, c, d, e, f] ∧ v.utc = false ∨ t = [a, b, c, d, e, f, 'Z'] ∧ v.utc = true) ∧
      isDigit a = true ∧ isDigit b = true ∧ isDigit c = true ∧ isDigit d = true ∧ isDigit e = true ∧
      isDigit f = true ∧ validTime (num2 a b) (num2 c d) (num2 e f) = true ∧
      v.h = num2 a b ∧ v.mi = num2 c d ∧ v.s = num2 e f := by
  unfold rfcTime at h
  split at h
  · next a b c d e f =>
    split at h
    · next hc =>
      simp only [Bool.and_eq_true] at hc
      obtain ⟨⟨⟨⟨⟨⟨ha, hb⟩, hc'⟩, hd⟩, he⟩, hf⟩, hv⟩ := hc
      cases h
      exact ⟨a, b, c, d, e, f, Or.inl ⟨rfl, rfl⟩, ha, hb, hc', hd, he, hf, hv, rfl, rfl, rfl⟩
    · cases h
  · next a b c d e f =>
    split at h
    · next hc =>
      simp only [Bool.and_eq_true] at hc
      obtain ⟨⟨⟨⟨⟨⟨ha, hb⟩, hc'⟩, hd⟩, he⟩, hf⟩, hv⟩ := hc
      cases h
      exact ⟨a, b, c, d, e, f, Or.inr ⟨rfl, rfl⟩, ha, hb, hc', hd, he, hf, hv, rfl, rfl, rfl⟩
    · cases h
  · cases h

theorem vDateFrom_chars (a b c d e f g i : Char) (rest : Str)
    (ha : isDigit a = true) (hb : isDigit b = true) (hc : isDigit c = true) (hd : isDigit d = true)
    (he : isDigit e = true) (hf : isDigit f = true) (hg : isDigit g = true) (hi : isDigit i = true)
    (hv : validDate (num4 a b c d) (num2 e f) (num2 g i) = true) :
    vDateFrom (a :: b :: c :: d :: e :: f :: g :: i :: rest) = .ok ⟨num4 a b c d, num2 e f, num2 g i⟩ := by
  have s1 : slice (a :: b :: c :: d :: e :: f :: g :: i :: rest) 0 4 = [a, b, c, d] := rfl
  have s2 : slice (a :: b :: c :: d :: e :: f :: g :: i :: rest) 4 6 = [e, f] := rfl
  have s3 : slice (a :: b :: c :: d :: e :: f :: g :: i :: rest) 6 8 = [g, i] := rfl
  unfold vDateFrom
  rw [s1, s2, s3, pyIntE_4 a b c d ha hb hc hd, pyIntE_2 e f he hf, pyIntE_2 g i hg hi]
  exact mkDate_nat _ _ _ hv

theorem vTimeFrom_chars (a b c d e f : Char) (rest : Str)
    (ha : isDigit a = true) (hb : isDigit b = true) (hc : isDigit c = true) (hd : isDigit d = true)
    (he : isDigit e = true) (hf : isDigit f = true)
    (hv : validTime (num2 a b) (num2 c d) (num2 e f) = true) :
    vTimeFrom (a :: b :: c :: d :: e :: f :: rest) = .ok ⟨num2 a b, num2 c d, num2 e f, false⟩ := by
  have s1 : slice (a :: b :: c :: d :: e :: f :: rest) 0 2 = [a, b] := rfl
  have s2 : slice (a :: b :: c :: d :: e :: f :: rest) 2 4 = [c, d] := rfl
  have s3 : slice (a :: b :: c :: d :: e :: f :: rest) 4 6 = [e, f] := rfl
  unfold vTimeFrom
  rw [s1, s2, s3, pyIntE_2 a b ha hb, pyIntE_2 c d hc hd, pyIntE_2 e f he hf]
  simp [bind, Except.bind, okTime_nat, hv]

theorem vDatetimeFrom_chars (a b c d e f g i x j k l m n o : Char) (z : Bool)
    (ha : isDigit a = true) (hb : isDigit b = true) (hc : isDigit c = true) (hd : isDigit d = true)
    (he : isDigit e = true) (hf : isDigit f = true) (hg : isDigit g = true) (hi : isDigit i = true)
    (hj : isDigit j = true) (hk : isDigit k = true) (hl : isDigit l = true) (hm : isDigit m = true)
    (hn : isDigit n = true) (ho : isDigit o = true)
    (hv : validDate (num4 a b c d) (num2 e f) (num2 g i) = true)
    (ht : validTime (num2 j k) (num2 l m) (num2 n o) = true) :
    vDatetimeFrom (a :: b :: c :: d :: e :: f :: g :: i :: x :: j :: k :: l :: m :: n :: o :: (if z then ['Z'] else []))
      = .ok ⟨⟨num4 a b c d, num2 e f, num2 g i⟩, num2 j k, num2 l m, num2 n o, z⟩ := by
  generalize hr : (if z then ['Z'] else []) = rest
  have s1 : slice (a :: b :: c :: d :: e :: f :: g :: i :: x :: j :: k :: l :: m :: n :: o :: rest) 0 4 = [a, b, c, d] := rfl
  have s2 : slice (a :: b :: c :: d :: e :: f :: g :: i :: x :: j :: k :: l :: m :: n :: o :: rest) 4 6 = [e, f] := rfl
  have s3 : slice (a :: b :: c :: d :: e :: f :: g :: i :: x :: j :: k :: l :: m :: n :: o :: rest) 6 8 = [g, i] := rfl
  have s4 : slice (a :: b :: c :: d :: e :: f :: g :: i :: x :: j :: k :: l :: m :: n :: o :: rest) 9 11 = [j, k] := rfl
  have s5 : slice (a :: b :: c :: d :: e :: f :: g :: i :: x :: j :: k :: l :: m :: n :: o :: rest) 11 13 = [l, m] := rfl
  have s6 : slice (a :: b :: c :: d :: e :: f :: g :: i :: x :: j :: k :: l :: m :: n :: o :: rest) 13 15 = [n, o] := rfl
  have s7 : (a :: b :: c :: d :: e :: f :: g :: i :: x :: j :: k :: l :: m :: n :: o :: rest).drop 15 = rest := rfl
  have s8 : slice (a :: b :: c :: d :: e :: f :: g :: i :: x :: j :: k :: l :: m :: n :: o :: rest) 15 16 = rest.take 1 := rfl
  unfold vDatetimeFrom
  rw [s1, s2, s3, s4, s5, s6, s7, s8, pyIntE_4 a b c d ha hb hc hd, pyIntE_2 e f he hf, pyIntE_2 g i hg hi,
    pyIntE_2 j k hj hk, pyIntE_2 l m hl hm, pyIntE_2 n o hn ho]
  subst hr
  cases z <;> simp [bind, Except.bind, okTime_nat, hv, ht, mkDate_nat]

theorem rfcDateTime_inv {t : Str} {v : PDateTime} (h : rfcDateTime t = some v) :
    ∃ a b c d e f g i j k l m n o,
      t = a :: b :: c :: d :: e :: f :: g :: i :: 'T' :: j :: k :: l :: m :: n :: o :: (if v.utc then ['Z'] else []) ∧
      isDigit a = true ∧ isDigit b = true ∧ isDigit c = true ∧ isDigit d = true ∧ isDigit e = true ∧
      isDigit f = true ∧ isDigit g = true ∧ isDigit i = true ∧
      isDigit j = true ∧ isDigit k = true ∧ isDigit l = true ∧ isDigit m = true ∧ isDigit n = true ∧
      isDigit o = true ∧
      validDate (num4 a b c d) (num2 e f) (num2 g i) = true ∧
      validTime (num2 j k) (num2 l m) (num2 n o) = true ∧
      v = ⟨⟨num4 a b c d, num2 e f, num2 g i⟩, num2 j k, num2 l m, num2 n o, v.utc⟩ := by
  unfold rfcDateTime at h
  split at h
  · next a b c d e f g i rest =>
    split at h
    · next dt tm hd ht =>
      cases h
      obtain ⟨a', b', c', d', e', f', g', i', heq, ha, hb, hc, hd', he, hf, hg, hi, hv, rfl⟩ := rfcDate_inv hd
      simp only [List.cons.injEq, and_true] at heq
      obtain ⟨rfl, rfl, rfl, rfl, rfl, rfl, rfl, rfl⟩ := heq
      obtain ⟨j, k, l, m, n, o, hform, hj, hk, hl, hm, hn, ho, hvt, e1, e2, e3⟩ := rfcTime_inv ht
      refine ⟨a, b, c, d, e, f, g, i, j, k, l, m, n, o, ?_, ha, hb, hc, hd', he, hf, hg, hi, hj, hk, hl, hm, hn, ho, hv, hvt, ?_⟩
      · rcases hform with ⟨rfl, hz⟩ | ⟨rfl, hz⟩ <;> simp [hz]
      · simp [e1, e2, e3]
    · cases h
  · cases h

/-! ## DURATION: the encoder's text through the regex matcher -/

theorem spanDigits_append (ds : Str) (c : Char) (rest : Str)
    (hds : ∀ x ∈ ds, isDigit x = true) (hc : isDigit c = false) :
    spanDigits (ds ++ c :: rest) = (ds, c :: rest) := by
  induction ds with
  | nil => simp [spanDigits, hc]
  | cons d ds ih =>
    have hd := hds d (by simp)
    have := ih (fun x hx => hds x (by simp [hx]))
    simp [spanDigits, hd, this]

@[simp] theorem optUnit_nil (u : Char) : optUnit u [] = (0, []) := by simp [optUnit, spanDigits]

/-- present group -/
theorem optUnit_hit (u : Char) (hu : isDigit u = false) (n : Nat) (rest : Str) :
    optUnit u (natToStr n ++ u :: rest) = (n, rest) := by
  unfold optUnit
  rw [spanDigits_append _ _ _ (natToStr_digits n) hu]
  cases h : natToStr n with
  | nil => exact absurd h (natToStr_ne_nil n)
  | cons d ds => simp [← h, ofDigits_natToStr]

/-- absent group: digits followed by another unit letter -/
theorem optUnit_miss (u v : Char) (hv : isDigit v = false) (huv : v ≠ u) (n : Nat) (rest : Str) :
    optUnit u (natToStr n ++ v :: rest) = (0, natToStr n ++ v :: rest) := by
  unfold optUnit
  rw [spanDigits_append _ _ _ (natToStr_digits n) hv]
  cases h : natToStr n with
  | nil => exact absurd h (natToStr_ne_nil n)
  | cons d ds => simp [huv]

/-- absent group: the text does not start with a digit -/
theorem optUnit_nodigit (u : Char) (l : Str) (h : ∀ c, l.head? = some c → isDigit c = false) :
    optUnit u l = (0, l) := by
  unfold optUnit
  cases l with
  | nil => simp [spanDigits]
  | cons c cs => have := h c rfl; simp [spanDigits, this]

/-- parsing the H/M/S text generated for (h, m, s) gives back (h, m, s) -/
theorem parse_hms (h m s : Nat) :
    let r1 := optUnit 'H' (hmsText h m s)
    let r2 := optUnit 'M' r1.2
    let r3 := optUnit 'S' r2.2
    (r1.1, r2.1, r3.1, r3.2) = (h, m, s, []) := by
  unfold hmsText
  by_cases hh : h = 0 <;> by_cases hm : m = 0 <;> by_cases hs : s = 0
  all_goals simp only [hh, hm, hs, ne_eq, not_true_eq_false, not_false_eq_true, false_and, true_and,
    and_false, and_true, or_false, or_true, false_or, true_or, if_true, if_false, List.nil_append,
    List.append_nil, List.append_assoc, List.cons_append]
  · simp
  · rw [optUnit_miss 'H' 'S' (by decide) (by decide), optUnit_miss 'M' 'S' (by decide) (by decide),
        optUnit_hit 'S' (by decide)]
  · rw [optUnit_miss 'H' 'M' (by decide) (by decide), optUnit_hit 'M' (by decide)]
    simp
  · rw [optUnit_miss 'H' 'M' (by decide) (by decide), optUnit_hit 'M' (by decide),
        optUnit_hit 'S' (by decide)]
  · rw [optUnit_hit 'H' (by decide)]
    simp
  · rw [optUnit_hit 'H' (by decide)]
    simp only []
    rw [show natToStr 0 ++ 'M' :: (natToStr s ++ ['S']) = natToStr 0 ++ 'M' :: (natToStr s ++ 'S' :: []) from rfl,
        optUnit_hit 'M' (by decide), optUnit_hit 'S' (by decide)]
  · rw [optUnit_hit 'H' (by decide)]
    simp only []
    rw [optUnit_hit 'M' (by decide)]
    simp
  · rw [optUnit_hit 'H' (by decide)]
    simp only []
    rw [optUnit_hit 'M' (by decide)]
    simp only []
    rw [optUnit_hit 'S' (by decide)]

theorem parseT_timepart (secs : Nat) :
    parseT (timepartOf secs) = (secs / 3600, secs % 3600 / 60, secs % 60, []) ∨
    (secs = 0 ∧ parseT (timepartOf secs) = (0, 0, 0, [])) := by
  unfold timepartOf
  by_cases h0 : secs = 0
  · right; simp [h0, parseT]
  · left
    simp only [h0, if_false, parseT]
    exact parse_hms _ _ _

theorem parseDurBody_durBodyOf (a : Nat) : parseDurBody (durBodyOf a) = some a := by
  have hT := parseT_timepart (a % 86400)
  have key : ∀ t : Nat × Nat × Nat × Str,
      (t = ((a % 86400) / 3600, (a % 86400) % 3600 / 60, (a % 86400) % 60, []) ∨
       (a % 86400 = 0 ∧ t = (0, 0, 0, []))) →
      t.2.2.2 = [] ∧ t.1 * 3600 + t.2.1 * 60 + t.2.2.1 = a % 86400 := by
    intro t ht
    rcases ht with rfl | ⟨h0, rfl⟩
    · refine ⟨rfl, ?_⟩; simp only []; omega
    · exact ⟨rfl, by simp [h0]⟩
  unfold durBodyOf
  simp only []
  split
  · next hcond =>
    obtain ⟨hd, hne⟩ := hcond
    have htp : ∃ x, timepartOf (a % 86400) = 'T' :: x := by
      unfold timepartOf at hne ⊢
      by_cases h0 : a % 86400 = 0
      · simp [h0] at hne
      · exact ⟨_, by rw [if_neg h0]⟩
    obtain ⟨x, hx⟩ := htp
    have k := key _ hT
    simp only [parseDurBody]
    rw [hx] at k ⊢
    rw [optUnit_nodigit 'W' ('T' :: x) (by intro c hc; simp at hc; subst hc; decide)]
    simp only []
    rw [optUnit_nodigit 'D' ('T' :: x) (by intro c hc; simp at hc; subst hc; decide)]
    simp only [k.1, true_or, if_true]
    have := Nat.div_add_mod a 86400
    congr 1; omega
  · next hcond =>
    simp only [parseDurBody]
    rw [optUnit_miss 'W' 'D' (by decide) (by decide)]
    simp only []
    rw [optUnit_hit 'D' (by decide)]
    simp only []
    have k := key _ hT
    simp only [k.1, true_or, if_true]
    have := Nat.div_add_mod a 86400
    congr 1; omega

theorem durBodyOf_P (a : Nat) : ∃ x, durBodyOf a = 'P' :: x := by
  unfold durBodyOf; simp only []; split <;> exact ⟨_, rfl⟩

theorem durFrom_P (x : Str) :
    durFrom ('P' :: x) = (parseDurBody ('P' :: x)).map (fun (v : Nat) => Int.ofNat v) := by
  unfold durFrom
  split
  · next r heq => simp at heq
  · next r heq => simp at heq
  · rfl

theorem durFrom_minus (r : Str) :
    durFrom ('-' :: r) = (parseDurBody r).map (fun (v : Nat) => -(Int.ofNat v)) := by
  unfold durFrom; rfl

theorem durFrom_plus (r : Str) :
    durFrom ('+' :: r) = (parseDurBody r).map (fun (v : Nat) => Int.ofNat v) := by
  unfold durFrom; rfl

/-! ## DURATION: the RFC grammar side -/

theorem rfcNum_hit (u : Char) (hu : isDigit u = false) (n : Nat) (rest : Str) :
    rfcNum u (natToStr n ++ u :: rest) = some (n, rest) := by
  unfold rfcNum
  rw [spanDigits_append _ _ _ (natToStr_digits n) hu]
  cases h : natToStr n with
  | nil => exact absurd h (natToStr_ne_nil n)
  | cons d ds => simp [← h, ofDigits_natToStr]

theorem rfcNum_miss (u v : Char) (hv : isDigit v = false) (huv : v ≠ u) (n : Nat) (rest : Str) :
    rfcNum u (natToStr n ++ v :: rest) = none := by
  unfold rfcNum
  rw [spanDigits_append _ _ _ (natToStr_digits n) hv]
  cases h : natToStr n with
  | nil => exact absurd h (natToStr_ne_nil n)
  | cons d ds => simp [huv]

theorem rfcNum_nodigit (u : Char) (l : Str) (h : ∀ c, l.head? = some c → isDigit c = false) :
    rfcNum u l = none := by
  unfold rfcNum
  cases l with
  | nil => simp [spanDigits]
  | cons c cs => have := h c rfl; simp [spanDigits, this]

/-- the functions in `if` form -/
theorem rfcDurSecond_of {l : Str} {n : Nat} {r : Str} (h : rfcNum 'S' l = some (n, r)) :
    rfcDurSecond l = if r = [] then some n else none := by
  unfold rfcDurSecond; rw [h]; cases r <;> simp

theorem rfcDurMinute_of {l : Str} {n : Nat} {r : Str} (h : rfcNum 'M' l = some (n, r)) :
    rfcDurMinute l = if r = [] then some (n * 60) else (rfcDurSecond r).map (fun s => n * 60 + s) := by
  unfold rfcDurMinute; rw [h]; cases r <;> simp

theorem rfcDurHour_of {l : Str} {n : Nat} {r : Str} (h : rfcNum 'H' l = some (n, r)) :
    rfcDurHour l = if r = [] then some (n * 3600) else (rfcDurMinute r).map (fun s => n * 3600 + s) := by
  unfold rfcDurHour; rw [h]; cases r <;> simp

theorem rfcDurDate_of {l : Str} {n : Nat} {r : Str} (h : rfcNum 'D' l = some (n, r)) :
    rfcDurDate l = if r = [] then some (n * 86400) else (rfcDurTime r).map (fun s => n * 86400 + s) := by
  unfold rfcDurDate; rw [h]; cases r <;> simp

theorem rfcDurWeek_of {l : Str} {n : Nat} {r : Str} (h : rfcNum 'W' l = some (n, r)) :
    rfcDurWeek l = if r = [] then some (n * 604800) else none := by
  unfold rfcDurWeek; rw [h]; cases r <;> simp

theorem rfcDurSecond_none {l : Str} (h : rfcNum 'S' l = none) : rfcDurSecond l = none := by
  unfold rfcDurSecond; rw [h]
theorem rfcDurMinute_none {l : Str} (h : rfcNum 'M' l = none) : rfcDurMinute l = none := by
  unfold rfcDurMinute; rw [h]
theorem rfcDurHour_none {l : Str} (h : rfcNum 'H' l = none) : rfcDurHour l = none := by
  unfold rfcDurHour; rw [h]
theorem rfcDurDate_none {l : Str} (h : rfcNum 'D' l = none) : rfcDurDate l = none := by
  unfold rfcDurDate; rw [h]
theorem rfcDurWeek_none {l : Str} (h : rfcNum 'W' l = none) : rfcDurWeek l = none := by
  unfold rfcDurWeek; rw [h]

theorem app_ne_nil (a : Str) (c : Char) (r : Str) : a ++ c :: r ≠ [] := by simp

/-- the H/M/S text the encoder writes is an RFC `dur-hour / dur-minute / dur-second` of that value -/
theorem rfcDurTime_hmsText (h m s : Nat) (hne : ¬ (h = 0 ∧ m = 0 ∧ s = 0)) :
    rfcDurTime ('T' :: hmsText h m s) = some (h * 3600 + m * 60 + s) := by
  unfold hmsText rfcDurTime
  by_cases hh : h = 0 <;> by_cases hm : m = 0 <;> by_cases hs : s = 0
  all_goals simp only [hh, hm, hs, ne_eq, not_true_eq_false, not_false_eq_true, false_and, true_and,
    and_false, and_true, or_false, or_true, false_or, true_or, if_true, if_false, List.nil_append,
    List.append_nil, List.append_assoc, List.cons_append]
  · exact absurd ⟨hh, hm, hs⟩ hne
  · -- sS
    rw [rfcDurHour_none (rfcNum_miss 'H' 'S' (by decide) (by decide) s []),
      rfcDurMinute_none (rfcNum_miss 'M' 'S' (by decide) (by decide) s []),
      rfcDurSecond_of (rfcNum_hit 'S' (by decide) s [])]
    simp
  · -- mM
    rw [rfcDurHour_none (rfcNum_miss 'H' 'M' (by decide) (by decide) m []),
      rfcDurMinute_of (rfcNum_hit 'M' (by decide) m [])]
    simp
  · -- mMsS
    rw [rfcDurHour_none (rfcNum_miss 'H' 'M' (by decide) (by decide) m _),
      rfcDurMinute_of (rfcNum_hit 'M' (by decide) m _), if_neg (app_ne_nil _ _ _),
      rfcDurSecond_of (rfcNum_hit 'S' (by decide) s [])]
    simp
  · -- hH
    rw [rfcDurHour_of (rfcNum_hit 'H' (by decide) h [])]
    simp
  · -- hH0MsS
    rw [rfcDurHour_of (rfcNum_hit 'H' (by decide) h _), if_neg (app_ne_nil _ _ _),
      rfcDurMinute_of (rfcNum_hit 'M' (by decide) 0 _), if_neg (app_ne_nil _ _ _),
      rfcDurSecond_of (rfcNum_hit 'S' (by decide) s [])]
    simp
  · -- hHmM
    rw [rfcDurHour_of (rfcNum_hit 'H' (by decide) h _), if_neg (app_ne_nil _ _ _),
      rfcDurMinute_of (rfcNum_hit 'M' (by decide) m [])]
    simp [Nat.add_assoc]
  · -- hHmMsS
    rw [rfcDurHour_of (rfcNum_hit 'H' (by decide) h _), if_neg (app_ne_nil _ _ _),
      rfcDurMinute_of (rfcNum_hit 'M' (by decide) m _), if_neg (app_ne_nil _ _ _),
      rfcDurSecond_of (rfcNum_hit 'S' (by decide) s [])]
    simp [Nat.add_assoc]

theorem rfcDurBody_durBodyOf (a : Nat) : rfcDurBody (durBodyOf a) = some a := by
  have hdm := Nat.div_add_mod a 86400
  unfold durBodyOf timepartOf
  simp only []
  by_cases h0 : a % 86400 = 0
  · -- no time part: P<days>D
    simp only [h0, if_true, ne_eq, not_true_eq_false, and_false, if_false, rfcDurBody]
    rw [rfcDurDate_of (rfcNum_hit 'D' (by decide) (a / 86400) [])]
    simp; omega
  · have hne : ¬ ((a % 86400) / 3600 = 0 ∧ (a % 86400) % 3600 / 60 = 0 ∧ (a % 86400) % 60 = 0) := by omega
    have hT := rfcDurTime_hmsText _ _ _ hne
    simp only [h0, if_false]
    by_cases hd : a / 86400 = 0
    · simp only [hd, ne_eq, reduceCtorEq, not_false_eq_true, and_self, if_true, rfcDurBody]
      rw [rfcDurDate_none (rfcNum_nodigit 'D' _ (by intro c hc; simp at hc; subst hc; decide)), hT]
      simp; omega
    · simp only [hd, false_and, if_false, rfcDurBody]
      rw [rfcDurDate_of (rfcNum_hit 'D' (by decide) (a / 86400) _), if_neg (by simp), hT]
      simp; omega

/-! ## DURATION: every RFC `dur-value` through the regex matcher -/

theorem rfcNum_inv {v : Char} {l : Str} {n : Nat} {r : Str} (h : rfcNum v l = some (n, r)) :
    ∃ d ds, spanDigits l = (d :: ds, v :: r) ∧ n = ofDigits (d :: ds) := by
  unfold rfcNum at h
  split at h
  · cases h
  · cases h
  · next _ ds c rest hne heq =>
    split at h
    · next hc =>
      cases h
      cases ds with
      | nil => exact absurd rfl hne
      | cons d ds => exact ⟨d, ds, by rw [heq, hc], rfl⟩
    · cases h

theorem optUnit_of_rfcNum {u v : Char} {l : Str} {n : Nat} {r : Str} (h : rfcNum v l = some (n, r)) :
    optUnit u l = if v = u then (n, r) else (0, l) := by
  obtain ⟨d, ds, hs, rfl⟩ := rfcNum_inv h
  unfold optUnit
  rw [hs]

theorem rfcDurSecond_inv {l : Str} {sv : Nat} (h : rfcDurSecond l = some sv) : rfcNum 'S' l = some (sv, []) := by
  unfold rfcDurSecond at h
  split at h
  · next n heq => cases h; exact heq
  · cases h

theorem durMinute_regex {l : Str} {mv : Nat} (h : rfcDurMinute l = some mv) :
    ∃ m s, optUnit 'H' l = (0, l) ∧ optUnit 'M' l = (m, (optUnit 'M' l).2) ∧
      optUnit 'S' (optUnit 'M' l).2 = (s, []) ∧ m * 60 + s = mv := by
  cases hn : rfcNum 'M' l with
  | none => rw [rfcDurMinute_none hn] at h; cases h
  | some p =>
    obtain ⟨n, r⟩ := p
    rw [rfcDurMinute_of hn] at h
    have hH : optUnit 'H' l = (0, l) := by rw [optUnit_of_rfcNum hn]; simp
    have hM : optUnit 'M' l = (n, r) := by rw [optUnit_of_rfcNum hn]; simp
    split at h
    · next hr =>
      cases h; subst hr
      exact ⟨n, 0, hH, by rw [hM], by rw [hM]; simp, by simp⟩
    · next hr =>
      cases hs : rfcDurSecond r with
      | none => rw [hs] at h; cases h
      | some sv =>
        rw [hs] at h; cases h
        have := rfcDurSecond_inv hs
        exact ⟨n, sv, hH, by rw [hM], by rw [hM, optUnit_of_rfcNum this]; simp, rfl⟩

/-- `"T" (dur-hour / dur-minute / dur-second)` is matched by the regex's T group with the same value -/
theorem durTime_regex {r : Str} {tv : Nat} (h : rfcDurTime r = some tv) :
    ∃ hh mm ss, parseT r = (hh, mm, ss, []) ∧ hh * 3600 + mm * 60 + ss = tv := by
  unfold rfcDurTime at h
  split at h
  · next l =>
    simp only [parseT]
    cases hH : rfcDurHour l with
    | some hv =>
      rw [hH] at h; simp only [Option.orElse_eq_or, Option.some_or, Option.none_or] at h; cases h
      cases hn : rfcNum 'H' l with
      | none => rw [rfcDurHour_none hn] at hH; cases hH
      | some p =>
        obtain ⟨n, r1⟩ := p
        rw [rfcDurHour_of hn] at hH
        have hU : optUnit 'H' l = (n, r1) := by rw [optUnit_of_rfcNum hn]; simp
        split at hH
        · next hr =>
          subst hr; cases hH
          refine ⟨n, 0, 0, ?_, ?_⟩
          · rw [hU]; simp
          · simp
        · next hr =>
          cases hm : rfcDurMinute r1 with
          | none => rw [hm] at hH; cases hH
          | some mv =>
            rw [hm] at hH
            simp only [Option.map_some, Option.some.injEq] at hH
            obtain ⟨m, s, _, hM, hS, hsum⟩ := durMinute_regex hm
            refine ⟨n, m, s, ?_, ?_⟩
            · rw [hU]; simp only []; rw [hM] ; simp only []; rw [hS]
            · subst hsum; subst hH; omega
    | none =>
      rw [hH] at h
      simp only [Option.orElse_eq_or, Option.some_or, Option.none_or] at h
      cases hM : rfcDurMinute l with
      | some mv =>
        rw [hM] at h; simp only [Option.orElse_eq_or, Option.some_or, Option.none_or] at h; cases h
        obtain ⟨m, s, hH', hM', hS, hsum⟩ := durMinute_regex hM
        refine ⟨0, m, s, ?_, ?_⟩
        · rw [hH']; simp only []; rw [hM']; simp only []; rw [hS]
        · subst hsum; omega
      | none =>
        rw [hM] at h; simp only [Option.orElse_eq_or, Option.some_or, Option.none_or] at h
        have hs := rfcDurSecond_inv h
        refine ⟨0, 0, tv, ?_, ?_⟩
        · rw [optUnit_of_rfcNum hs]; simp only [show ¬ ('S' = 'H') by decide, if_false]
          rw [optUnit_of_rfcNum hs]; simp only [show ¬ ('S' = 'M') by decide, if_false]
          rw [optUnit_of_rfcNum hs]; simp
        · omega
  · cases h

theorem parseT_nil : parseT [] = (0, 0, 0, []) := rfl

theorem durBody_regex {b : Str} {v : Nat} (h : rfcDurBody b = some v) : parseDurBody b = some v := by
  unfold rfcDurBody at h
  split at h
  · next l =>
    simp only [parseDurBody]
    cases hD : rfcDurDate l with
    | some dv =>
      rw [hD] at h; simp only [Option.orElse_eq_or, Option.some_or, Option.none_or] at h; cases h
      cases hn : rfcNum 'D' l with
      | none => rw [rfcDurDate_none hn] at hD; cases hD
      | some p =>
        obtain ⟨n, r⟩ := p
        rw [rfcDurDate_of hn] at hD
        rw [optUnit_of_rfcNum hn]; simp only [show ¬ ('D' = 'W') by decide, if_false]
        rw [optUnit_of_rfcNum hn]; simp only [if_true]
        split at hD
        · next hr =>
          subst hr; cases hD
          simp [parseT_nil]
        · next hr =>
          cases ht : rfcDurTime r with
          | none => rw [ht] at hD; cases hD
          | some tv =>
            rw [ht] at hD
            simp only [Option.map_some, Option.some.injEq] at hD
            obtain ⟨hh, mm, ss, hp, hsum⟩ := durTime_regex ht
            rw [hp]; subst hsum; subst hD; simp; omega
    | none =>
      rw [hD] at h; simp only [Option.orElse_eq_or, Option.some_or, Option.none_or] at h
      cases hT : rfcDurTime l with
      | some tv =>
        rw [hT] at h; simp only [Option.orElse_eq_or, Option.some_or, Option.none_or] at h; cases h
        have hl : ∃ x, l = 'T' :: x := by
          unfold rfcDurTime at hT; split at hT
          · exact ⟨_, rfl⟩
          · cases hT
        obtain ⟨x, rfl⟩ := hl
        obtain ⟨hh, mm, ss, hp, hsum⟩ := durTime_regex hT
        rw [optUnit_nodigit 'W' ('T' :: x) (by intro c hc; simp at hc; subst hc; decide)]
        simp only []
        rw [optUnit_nodigit 'D' ('T' :: x) (by intro c hc; simp at hc; subst hc; decide)]
        simp only []
        rw [hp]; simp; omega
      | none =>
        rw [hT] at h; simp only [Option.orElse_eq_or, Option.some_or, Option.none_or] at h
        cases hn : rfcNum 'W' l with
        | none => rw [rfcDurWeek_none hn] at h; cases h
        | some p =>
          obtain ⟨n, r⟩ := p
          rw [rfcDurWeek_of hn] at h
          split at h
          · next hr =>
            subst hr; cases h
            rw [optUnit_of_rfcNum hn]; simp [parseT_nil]
          · cases h
  · cases h

/-- every RFC 5545 `dur-value` is matched by `DURATION_REGEX` and decodes to the RFC value -/
theorem rfcDuration_durFrom {t : Str} {v : Int} (h : rfcDuration t = some v) : durFrom t = some v := by
  unfold rfcDuration at h
  unfold durFrom
  split at h
  · next r =>
    cases hb : rfcDurBody r with
    | none => rw [hb] at h; cases h
    | some bv => rw [hb] at h; simp at h; simp [durBody_regex hb, h]
  · next r =>
    cases hb : rfcDurBody r with
    | none => rw [hb] at h; cases h
    | some bv => rw [hb] at h; simp at h; simp [durBody_regex hb, h]
  · next r h1 h2 =>
    cases hb : rfcDurBody t with
    | none => rw [hb] at h; cases h
    | some bv =>
      rw [hb] at h; simp at h
      simp [durBody_regex hb, h]

/-! ## UTC-OFFSET -/

theorem offFrom_chars5 (sg a b c d : Char)
    (ha : isDigit a = true) (hb : isDigit b = true) (hc : isDigit c = true) (hd : isDigit d = true)
    (hh : num2 a b < 24) (hm : num2 c d < 60) :
    offFrom [sg, a, b, c, d] =
      .ok (if sg = '-' then -((num2 a b * 3600 + num2 c d * 60 : Nat) : Int)
           else ((num2 a b * 3600 + num2 c d * 60 : Nat) : Int)) := by
  have s0 : slice [sg, a, b, c, d] 0 1 = [sg] := rfl
  have s1 : slice [sg, a, b, c, d] 1 3 = [a, b] := rfl
  have s2 : slice [sg, a, b, c, d] 3 5 = [c, d] := rfl
  have s3 : slice [sg, a, b, c, d] 5 7 = [] := rfl
  unfold offFrom
  rw [s0, s1, s2, s3, pyIntE_2 a b ha hb, pyIntE_2 c d hc hd]
  have hlt : ¬ ((num2 a b : Int) * 3600 + (num2 c d : Int) * 60 + 0 ≥ 86400) := by omega
  simp only [bind, Except.bind, pure, Except.pure, List.isEmpty_nil, if_true, hlt, if_false]
  by_cases hs : sg = '-'
  · simp [hs]
  · simp [hs]

theorem offFrom_chars7 (sg a b c d e f : Char)
    (ha : isDigit a = true) (hb : isDigit b = true) (hc : isDigit c = true) (hd : isDigit d = true)
    (he : isDigit e = true) (hf : isDigit f = true)
    (hh : num2 a b < 24) (hm : num2 c d < 60) (hs : num2 e f < 60) :
    offFrom [sg, a, b, c, d, e, f] =
      .ok (if sg = '-' then -((num2 a b * 3600 + num2 c d * 60 + num2 e f : Nat) : Int)
           else ((num2 a b * 3600 + num2 c d * 60 + num2 e f : Nat) : Int)) := by
  have s0 : slice [sg, a, b, c, d, e, f] 0 1 = [sg] := rfl
  have s1 : slice [sg, a, b, c, d, e, f] 1 3 = [a, b] := rfl
  have s2 : slice [sg, a, b, c, d, e, f] 3 5 = [c, d] := rfl
  have s3 : slice [sg, a, b, c, d, e, f] 5 7 = [e, f] := rfl
  unfold offFrom
  rw [s0, s1, s2, s3, pyIntE_2 a b ha hb, pyIntE_2 c d hc hd, pyIntE_2 e f he hf]
  have hlt : ¬ ((num2 a b : Int) * 3600 + (num2 c d : Int) * 60 + (num2 e f : Int) ≥ 86400) := by omega
  simp only [bind, Except.bind, pure, Except.pure, List.isEmpty_cons, Bool.false_eq_true, if_false, hlt]
  by_cases hs : sg = '-'
  · simp [hs]
  · simp [hs]

/-- every RFC `utc-offset` text decodes to the RFC value -/
theorem rfcUtcOffset_offFrom {t : Str} {v : Int} (h : rfcUtcOffset t = some v) : offFrom t = .ok v := by
  unfold rfcUtcOffset at h
  split at h
  · next sg a b c d =>
    split at h
    · next hc =>
      simp only [Bool.and_eq_true, decide_eq_true_iff] at hc
      obtain ⟨⟨⟨⟨⟨⟨hsg, ha⟩, hb⟩, hc'⟩, hd⟩, hh⟩, hm⟩ := hc
      rw [offFrom_chars5 sg a b c d ha hb hc' hd hh hm]
      by_cases hs : sg = '-'
      · subst hs
        simp only [beq_self_eq_true, if_true] at h
        split at h
        · cases h
        · cases h; simp
      · have : (sg == '-') = false := by simp [hs]
        simp only [this, Bool.false_eq_true, if_false] at h
        cases h; simp [hs]
    · cases h
  · next sg a b c d e f =>
    split at h
    · next hc =>
      simp only [Bool.and_eq_true, decide_eq_true_iff] at hc
      obtain ⟨⟨⟨⟨⟨⟨⟨⟨⟨hsg, ha⟩, hb⟩, hc'⟩, hd⟩, he⟩, hf⟩, hh⟩, hm⟩, hs'⟩ := hc
      rw [offFrom_chars7 sg a b c d e f ha hb hc' hd he hf hh hm hs']
      by_cases hs : sg = '-'
      · subst hs
        simp only [beq_self_eq_true, if_true] at h
        split at h
        · cases h
        · cases h; simp
      · have : (sg == '-') = false := by simp [hs]
        simp only [this, Bool.false_eq_true, if_false] at h
        cases h; simp [hs]
    · cases h
  · cases h

/-- the encoder's text for an offset below 24 h -/
theorem offTo_eq (s : Int) (h : s.natAbs < 86400) :
    offTo s = (if s < 0 then '-' else '+') ::
      (if s.natAbs % 60 ≠ 0 then hmsChars (s.natAbs / 3600) (s.natAbs % 3600 / 60) (s.natAbs % 60)
       else [dig (s.natAbs / 3600 / 10), dig (s.natAbs / 3600 % 10), dig (s.natAbs % 3600 / 60 / 10),
             dig (s.natAbs % 3600 / 60 % 10)]) := by
  unfold offTo hmsChars
  simp only [pad2_eq (s.natAbs / 3600) (by omega), pad2_eq (s.natAbs % 3600 / 60) (by omega),
    pad2_eq (s.natAbs % 60) (by omega), List.cons_append, List.nil_append]

theorem rfcUtcOffset_offTo (s : Int) (h : s.natAbs < 86400) : rfcUtcOffset (offTo s) = some s := by
  rw [offTo_eq s h]
  generalize ha : s.natAbs = a at h ⊢
  have hdm := Nat.div_add_mod a 3600
  have hdm2 := Nat.div_add_mod (a % 3600) 60
  have e60 : a % 3600 % 60 = a % 60 := by omega
  by_cases hsec : a % 60 = 0
  · simp only [hsec, ne_eq, not_true_eq_false, if_false]
    unfold rfcUtcOffset
    simp only [num2_dig (a / 3600) (by omega), num2_dig (a % 3600 / 60) (by omega),
      isDigit_dig _ (show a / 3600 / 10 < 10 by omega), isDigit_dig _ (show a / 3600 % 10 < 10 by omega),
      isDigit_dig _ (show a % 3600 / 60 / 10 < 10 by omega), isDigit_dig _ (show a % 3600 / 60 % 10 < 10 by omega)]
    by_cases hneg : s < 0
    · have h1 : decide (a / 3600 < 24) = true := by simp; omega
      have h2 : decide (a % 3600 / 60 < 60) = true := by simp; omega
      have hnz : ¬ (a / 3600 * 3600 + a % 3600 / 60 * 60 = 0) := by omega
      simp [hneg, h1, h2, hnz]
      omega
    · have h1 : decide (a / 3600 < 24) = true := by simp; omega
      have h2 : decide (a % 3600 / 60 < 60) = true := by simp; omega
      simp [hneg, h1, h2]
      omega
  · simp only [hsec, ne_eq, not_false_eq_true, if_true]
    unfold rfcUtcOffset hmsChars
    simp only [num2_dig (a / 3600) (by omega), num2_dig (a % 3600 / 60) (by omega), num2_dig (a % 60) (by omega),
      isDigit_dig _ (show a / 3600 / 10 < 10 by omega), isDigit_dig _ (show a / 3600 % 10 < 10 by omega),
      isDigit_dig _ (show a % 3600 / 60 / 10 < 10 by omega), isDigit_dig _ (show a % 3600 / 60 % 10 < 10 by omega),
      isDigit_dig _ (show a % 60 / 10 < 10 by omega), isDigit_dig _ (show a % 60 % 10 < 10 by omega)]
    have h1 : decide (a / 3600 < 24) = true := by simp; omega
    have h2 : decide (a % 3600 / 60 < 60) = true := by simp; omega
    have h3 : decide (a % 60 < 60) = true := by simp; omega
    by_cases hneg : s < 0
    · have hnz : ¬ (a / 3600 * 3600 + a % 3600 / 60 * 60 + a % 60 = 0) := by omega
      simp [hneg, h1, h2, h3, hnz]
      omega
    · simp [hneg, h1, h2, h3]
      omega

/-! ## leading zeros, `-0000` -/

theorem ofDigits_zeros (l : Str) (h : ∀ c ∈ l, c = '0') : ofDigits l = 0 := by
  induction l with
  | nil => rfl
  | cons c cs ih =>
    have hc := h c (by simp)
    subst hc
    have : ofDigits ('0' :: cs) = ofDigits cs := by simp [ofDigits, digitVal]
    rw [this]; exact ih (fun x hx => h x (by simp [hx]))

theorem ofDigits_replicate_zero (k : Nat) (d : Str) : ofDigits (List.replicate k '0' ++ d) = ofDigits d := by
  induction k with
  | zero => simp
  | succ k ih =>
    rw [List.replicate_succ, List.cons_append]
    have : ofDigits ('0' :: (List.replicate k '0' ++ d)) = ofDigits (List.replicate k '0' ++ d) := by
      simp [ofDigits, digitVal]
    rw [this, ih]

theorem ofDigits_pad (w n : Nat) : ofDigits (pad w n) = n := by
  unfold pad; simp only []; rw [ofDigits_replicate_zero, ofDigits_natToStr]

/-- a sign `-` is never followed by zeros only: `vUTCOffset.to_ical` never writes `-0000`/`-000000`,
    whatever the magnitude -/
theorem offTo_not_minus_zeros (s : Int) (zs : Str) (h : offTo s = '-' :: zs) : ¬ ∀ c ∈ zs, c = '0' := by
  intro hz
  unfold offTo at h
  simp only [] at h
  have hneg : s < 0 := by
    by_cases hn : s < 0
    · exact hn
    · simp [hn] at h
  have hpos : 0 < s.natAbs := by omega
  simp only [hneg, if_true, List.cons.injEq, true_and] at h
  have hH : s.natAbs / 3600 = 0 := by
    rw [← ofDigits_pad 2 (s.natAbs / 3600)]
    apply ofDigits_zeros
    intro c hc; apply hz c; rw [← h]; split <;> simp [hc]
  have hM : s.natAbs % 3600 / 60 = 0 := by
    rw [← ofDigits_pad 2 (s.natAbs % 3600 / 60)]
    apply ofDigits_zeros
    intro c hc; apply hz c; rw [← h]; split <;> simp [hc]
  by_cases hs : s.natAbs % 60 = 0
  · omega
  · have hS : s.natAbs % 60 = 0 := by
      rw [← ofDigits_pad 2 (s.natAbs % 60)]
      apply ofDigits_zeros
      intro c hc; apply hz c; rw [← h]; simp [hs, hc]
    exact hs hS

/-! ## INTEGER -/

theorem rstripSp_nospace (s : Str) (hs : ∀ c ∈ s, isPySpace c = false) : rstripSp s = s := by
  induction s with
  | nil => rfl
  | cons c cs ih =>
    have hc := hs c (by simp)
    have := ih (fun x hx => hs x (by simp [hx]))
    simp only [rstripSp, this]
    cases cs with
    | nil => simp [hc]
    | cons d ds => rfl

theorem isDigitStr_iff (s : Str) : isDigitStr s = true ↔ s ≠ [] ∧ ∀ c ∈ s, isDigit c = true := by
  unfold isDigitStr
  cases s <;> simp

theorem pyInt_signed (sg : Char) (r : Str) (hsg : sg = '-' ∨ sg = '+') (hr : isDigitStr r = true) :
    pyInt (sg :: r) = some (if sg = '-' then -((ofDigits r : Nat) : Int) else ((ofDigits r : Nat) : Int)) := by
  obtain ⟨hne, hd⟩ := (isDigitStr_iff r).1 hr
  have hsp : isPySpace sg = false := by rcases hsg with rfl | rfl <;> decide
  unfold pyInt
  have h1 : lstripSp (sg :: r) = sg :: r := by simp [lstripSp, hsp]
  have h2 : rstripSp (sg :: r) = sg :: r := by
    apply rstripSp_nospace
    intro c hc; simp at hc; rcases hc with rfl | hc
    · exact hsp
    · exact isDigit_not_space c (hd c hc)
  rw [h1, h2]
  have hn : pyNat r = some (ofDigits r) := by
    unfold pyNat
    rw [pyNatAux_digits r hd 0 false (Or.inl hne)]; rfl
  rcases hsg with rfl | rfl
  · simp [hn]
  · simp [hn]

/-- every RFC `integer` text decodes to its value -/
theorem rfcInteger_intFrom {t : Str} {v : Int} (h : rfcInteger t = some v) : intFrom t = .ok v := by
  unfold intFrom pyIntE
  unfold rfcInteger at h
  split at h
  · next r =>
    split at h
    · next hr => cases h; rw [pyInt_signed '-' r (Or.inl rfl) hr]; simp
    · cases h
  · next r =>
    split at h
    · next hr => cases h; rw [pyInt_signed '+' r (Or.inr rfl) hr]; simp
    · cases h
  · next r _ _ =>
    split at h
    · next hr =>
      cases h
      obtain ⟨hne, hd⟩ := (isDigitStr_iff _).1 hr
      rw [pyInt_digits _ hd hne]
    · cases h

theorem isDigitStr_natToStr (n : Nat) : isDigitStr (natToStr n) = true :=
  (isDigitStr_iff _).2 ⟨natToStr_ne_nil n, natToStr_digits n⟩

theorem rfcInteger_intTo (z : Int) : rfcInteger (intTo z) = some z := by
  unfold intTo intToStr
  by_cases hz : z < 0
  · simp only [hz, if_true, rfcInteger, isDigitStr_natToStr, ofDigits_natToStr]
    simp; omega
  · simp only [hz, if_false]
    obtain ⟨c, cs, hc⟩ : ∃ c cs, natToStr z.natAbs = c :: cs := by
      cases h : natToStr z.natAbs with
      | nil => exact absurd h (natToStr_ne_nil _)
      | cons c cs => exact ⟨c, cs, rfl⟩
    have hd : isDigit c = true := natToStr_digits z.natAbs c (by rw [hc]; simp)
    unfold rfcInteger
    rw [hc]
    split
    · next r heq => simp at heq; exact absurd heq.1 (isDigit_ne c '-' hd)
    · next r heq => simp at heq; exact absurd heq.1 (isDigit_ne c '+' hd)
    · rw [← hc, isDigitStr_natToStr, ofDigits_natToStr]
      simp; omega

/-! ## `str.split(sep)` on a text with exactly one separator -/

theorem splitOnChar_ne_nil (sep : Char) (t : Str) : splitOnChar sep t ≠ [] := by
  cases t with
  | nil => simp [splitOnChar]
  | cons c cs =>
    simp only [splitOnChar]
    split
    · simp
    · split <;> simp

theorem splitOnChar_nosep (sep : Char) (t : Str) (h : sep ∉ t) : splitOnChar sep t = [t] := by
  induction t with
  | nil => rfl
  | cons c cs ih =>
    have hc : c ≠ sep := by intro e; apply h; simp [e]
    have := ih (by intro hm; apply h; simp [hm])
    simp [splitOnChar, this, hc]

theorem splitOnChar_append (sep : Char) (a b : Str) (h : sep ∉ a) :
    splitOnChar sep (a ++ sep :: b) = a :: splitOnChar sep b := by
  induction a with
  | nil =>
    simp only [List.nil_append, splitOnChar]
    cases hb : splitOnChar sep b with
    | nil => exact absurd hb (splitOnChar_ne_nil sep b)
    | cons x xs => simp
  | cons c cs ih =>
    have hc : c ≠ sep := by intro e; apply h; simp [e]
    have := ih (by intro hm; apply h; simp [hm])
    simp [splitOnChar, this, hc]

/-- if splitting gives exactly two parts, the text is those parts around one separator -/
theorem splitOnChar_two {sep : Char} {t a b : Str} (h : splitOnChar sep t = [a, b]) :
    t = a ++ sep :: b ∧ sep ∉ a ∧ sep ∉ b := by
  induction t generalizing a with
  | nil => simp [splitOnChar] at h
  | cons c cs ih =>
    simp only [splitOnChar] at h
    cases hs : splitOnChar sep cs with
    | nil => exact absurd hs (splitOnChar_ne_nil sep cs)
    | cons x xs =>
      rw [hs] at h
      simp only [] at h
      by_cases hc : c = sep
      · simp only [hc, if_true, List.cons.injEq] at h
        obtain ⟨rfl, rfl, rfl⟩ := h
        -- cs splits into the single part x
        have hx : sep ∉ x ∧ cs = x := by
          clear ih
          induction cs generalizing x with
          | nil => simp [splitOnChar] at hs; subst hs; simp
          | cons d ds ih2 =>
            simp only [splitOnChar] at hs
            cases hs2 : splitOnChar sep ds with
            | nil => exact absurd hs2 (splitOnChar_ne_nil sep ds)
            | cons y ys =>
              rw [hs2] at hs; simp only [] at hs
              by_cases hd : d = sep
              · simp [hd] at hs
              · simp only [hd, if_false, List.cons.injEq] at hs
                obtain ⟨rfl, rfl⟩ := hs
                have := ih2 y hs2
                refine ⟨?_, by rw [this.2]⟩
                intro hm; simp at hm; rcases hm with e | hm
                · exact hd e.symm
                · exact this.1 hm
        exact ⟨by simp [hc, hx.2], by simp, hx.1⟩
      · simp only [hc, if_false, List.cons.injEq] at h
        obtain ⟨rfl, rfl⟩ := h
        obtain ⟨h1, h2, h3⟩ := ih hs
        refine ⟨by rw [h1]; simp, ?_, h3⟩
        intro hm; simp at hm; rcases hm with e | hm
        · exact hc e.symm
        · exact h2 hm

/-! ## `vDDDTypes.from_ical`: dispatch -/

/-- the characters of DATE, DATE-TIME and TIME texts -/
def dtChar (c : Char) : Bool := isDigit c || c == 'T' || c == 'Z'

theorem upperC_dtChar (c : Char) (h : dtChar c = true) : upperC c = c := by
  unfold dtChar at h
  simp only [Bool.or_eq_true, beq_iff_eq] at h
  rcases h with (h | rfl) | rfl
  · exact upperC_digit c h
  · decide
  · decide

theorem dtChar_ne_slash (c : Char) (h : dtChar c = true) : c ≠ '/' := by
  intro e; subst e; revert h; decide

theorem upper_dtChars (t : Str) (h : ∀ c ∈ t, dtChar c = true) : upper t = t := by
  induction t with
  | nil => rfl
  | cons c cs ih =>
    show upperC c :: upper cs = c :: cs
    rw [upperC_dtChar c (h c (by simp)), show upper cs = cs from ih (fun x hx => h x (by simp [hx]))]

theorem noslash_dtChars (t : Str) (h : ∀ c ∈ t, dtChar c = true) : t.contains '/' = false := by
  induction t with
  | nil => rfl
  | cons c cs ih =>
    have hc := dtChar_ne_slash c (h c (by simp))
    have := ih (fun x hx => h x (by simp [hx]))
    simp only [List.contains_cons, this, Bool.or_false]
    simp; exact fun e => hc e.symm

/-- a text that starts with a digit and has no `/` is dispatched on its length alone -/
theorem dddCore_digits (per : Str → CRes DDD) (c : Char) (cs : Str) (hc : isDigit c = true)
    (h : ∀ x ∈ c :: cs, dtChar x = true) :
    dddCore per (c :: cs) =
      if (c :: cs).length = 15 ∨ (c :: cs).length = 16 then (vDatetimeFrom (c :: cs)).map (fun x => .atom (.dt x))
      else if (c :: cs).length = 8 then (vDateFrom (c :: cs)).map (fun x => .atom (.date x))
      else if (c :: cs).length = 6 ∨ (c :: cs).length = 7 then (vTimeFrom (c :: cs)).map (fun x => .atom (.time x))
      else .error .valueError := by
  unfold dddCore
  simp only []
  rw [upper_dtChars _ h, noslash_dtChars _ h]
  have h1 : c ≠ 'P' := isDigit_ne c 'P' hc
  have h2 : c ≠ '-' := isDigit_ne c '-' hc
  have h3 : c ≠ '+' := isDigit_ne c '+' hc
  simp [startsWith, h1, h2, h3]

theorem dtChar_digit (c : Char) (h : isDigit c = true) : dtChar c = true := by simp [dtChar, h]

/-- DATE texts go to the date decoder -/
theorem dddCore_date (per : Str → CRes DDD) {t : Str} {v : PDate} (h : rfcDate t = some v) :
    dddCore per t = (vDateFrom t).map (fun x => .atom (.date x)) := by
  obtain ⟨a, b, c, d, e, f, g, i, rfl, ha, hb, hc, hd, he, hf, hg, hi, _, _⟩ := rfcDate_inv h
  rw [dddCore_digits per a _ ha (by
    intro x hx; simp at hx
    rcases hx with rfl | rfl | rfl | rfl | rfl | rfl | rfl | rfl <;> exact dtChar_digit _ ‹_›)]
  simp

/-- TIME texts go to the time decoder -/
theorem dddCore_time (per : Str → CRes DDD) {t : Str} {v : PTime} (h : rfcTime t = some v) :
    dddCore per t = (vTimeFrom t).map (fun x => .atom (.time x)) := by
  obtain ⟨a, b, c, d, e, f, hform, ha, hb, hc, hd, he, hf, _⟩ := rfcTime_inv h
  rcases hform with ⟨rfl, _⟩ | ⟨rfl, _⟩
  · rw [dddCore_digits per a _ ha (by
      intro x hx; simp at hx
      rcases hx with rfl | rfl | rfl | rfl | rfl | rfl <;> exact dtChar_digit _ ‹_›)]
    simp
  · rw [dddCore_digits per a _ ha (by
      intro x hx; simp at hx
      rcases hx with rfl | rfl | rfl | rfl | rfl | rfl | rfl
      all_goals first | exact dtChar_digit _ ‹_› | decide)]
    simp

/-- DATE-TIME texts (15 or 16 characters) go to the date-time decoder -/
theorem dddCore_datetime (per : Str → CRes DDD) {t : Str} {v : PDateTime} (h : rfcDateTime t = some v) :
    dddCore per t = (vDatetimeFrom t).map (fun x => .atom (.dt x)) := by
  obtain ⟨a, b, c, d, e, f, g, i, j, k, l, m, n, o, rfl, ha, hb, hc, hd, he, hf, hg, hi, hj, hk, hl, hm, hn, ho, _⟩ :=
    rfcDateTime_inv h
  rw [dddCore_digits per a _ ha (by
    intro x hx
    cases hz : v.utc <;> simp [hz] at hx
    · rcases hx with rfl | rfl | rfl | rfl | rfl | rfl | rfl | rfl | rfl | rfl | rfl | rfl | rfl | rfl | rfl
      all_goals first | exact dtChar_digit _ ‹_› | decide
    · rcases hx with rfl | rfl | rfl | rfl | rfl | rfl | rfl | rfl | rfl | rfl | rfl | rfl | rfl | rfl | rfl | rfl
      all_goals first | exact dtChar_digit _ ‹_› | decide)]
  cases hz : v.utc <;> simp

theorem rfcDurBody_P {r : Str} {v : Nat} (h : rfcDurBody r = some v) : ∃ x, r = 'P' :: x := by
  unfold rfcDurBody at h
  split at h
  · exact ⟨_, rfl⟩
  · cases h

/-- an RFC `dur-value` starts with `P`, `+P` or `-P` -/
theorem rfcDuration_prefix {t : Str} {v : Int} (h : rfcDuration t = some v) :
    ∃ x, t = 'P' :: x ∨ t = '-' :: 'P' :: x ∨ t = '+' :: 'P' :: x := by
  unfold rfcDuration at h
  split at h
  · next r =>
    cases hb : rfcDurBody r with
    | none => rw [hb] at h; cases h
    | some bv => obtain ⟨x, rfl⟩ := rfcDurBody_P hb; exact ⟨x, Or.inr (Or.inl rfl)⟩
  · next r =>
    cases hb : rfcDurBody r with
    | none => rw [hb] at h; cases h
    | some bv => obtain ⟨x, rfl⟩ := rfcDurBody_P hb; exact ⟨x, Or.inr (Or.inr rfl)⟩
  · next r _ _ =>
    cases hb : rfcDurBody t with
    | none => rw [hb] at h; cases h
    | some bv => obtain ⟨x, rfl⟩ := rfcDurBody_P hb; exact ⟨x, Or.inl rfl⟩

/-- texts with a duration prefix go to the duration decoder -/
theorem dddCore_prefixP (per : Str → CRes DDD) (t x : Str)
    (h : t = 'P' :: x ∨ t = '-' :: 'P' :: x ∨ t = '+' :: 'P' :: x) :
    dddCore per t = (durFromE t).map (fun s => .atom (.dur s)) := by
  have hP : upperC 'P' = 'P' := by decide
  have hm : upperC '-' = '-' := by decide
  have hp : upperC '+' = '+' := by decide
  unfold dddCore
  rcases h with rfl | rfl | rfl <;> simp [upper, startsWith, hP, hm, hp]

theorem dddCore_duration (per : Str → CRes DDD) {t : Str} {v : Int} (h : rfcDuration t = some v) :
    dddCore per t = (durFromE t).map (fun s => .atom (.dur s)) := by
  obtain ⟨x, hx⟩ := rfcDuration_prefix h
  exact dddCore_prefixP per t x hx

/-! ## DATE-TIME encoder output, PERIOD -/

theorem vDatetimeTo_eq (v : PDateTime) (hv : v.valid = true) :
    vDatetimeTo v = dateChars v.date.y v.date.m v.date.d ++ 'T' :: (hmsChars v.h v.mi v.s ++ (if v.utc then ['Z'] else [])) := by
  obtain ⟨⟨y, m, d⟩, h, mi, s, z⟩ := v
  simp only [PDateTime.valid, PDate.valid, Bool.and_eq_true] at hv
  obtain ⟨hy, hm, hd⟩ := validDate_bounds hv.1
  obtain ⟨hh, hmi, hs⟩ := validTime_bounds hv.2
  unfold vDatetimeTo
  simp only [vDateTo_eq y m d hy hm hd, hmsTo_eq h mi s (by omega) (by omega) (by omega)]

/-- the encoded DATE-TIME is the RFC text of the value -/
theorem rfcDateTime_vDatetimeTo (v : PDateTime) (hv : v.valid = true) : rfcDateTime (vDatetimeTo v) = some v := by
  rw [vDatetimeTo_eq v hv]
  obtain ⟨⟨y, m, d⟩, h, mi, s, z⟩ := v
  simp only [PDateTime.valid, PDate.valid, Bool.and_eq_true] at hv
  have hD := rfcDate_dateChars y m d hv.1
  have hT := rfcTime_hmsChars h mi s hv.2
  have hZ := rfcTime_hmsChars_Z h mi s hv.2
  unfold dateChars at hD ⊢
  simp only [List.cons_append, List.nil_append]
  unfold rfcDateTime
  cases z
  · simp only [hD, Bool.false_eq_true, if_false, List.append_nil, hT]
  · simp only [hD, if_true, hZ]

theorem dtChars_dateChars (y m d : Nat) (hy : y < 10000) (hm : m < 100) (hd : d < 100) :
    ∀ c ∈ dateChars y m d, dtChar c = true := by
  intro c hc
  unfold dateChars at hc
  simp only [List.mem_cons, List.not_mem_nil, or_false] at hc
  rcases hc with rfl | rfl | rfl | rfl | rfl | rfl | rfl | rfl <;>
    exact dtChar_digit _ (isDigit_dig _ (by omega))

theorem dtChars_hmsChars (h m s : Nat) (hh : h < 100) (hm : m < 100) (hs : s < 100) :
    ∀ c ∈ hmsChars h m s, dtChar c = true := by
  intro c hc
  unfold hmsChars at hc
  simp only [List.mem_cons, List.not_mem_nil, or_false] at hc
  rcases hc with rfl | rfl | rfl | rfl | rfl | rfl <;>
    exact dtChar_digit _ (isDigit_dig _ (by omega))

theorem noslash_vDatetimeTo (v : PDateTime) (hv : v.valid = true) : '/' ∉ vDatetimeTo v := by
  rw [vDatetimeTo_eq v hv]
  obtain ⟨⟨y, m, d⟩, h, mi, s, z⟩ := v
  simp only [PDateTime.valid, PDate.valid, Bool.and_eq_true] at hv
  obtain ⟨hy, hm, hd⟩ := validDate_bounds hv.1
  obtain ⟨hh, hmi, hs⟩ := validTime_bounds hv.2
  intro hmem
  simp only [List.mem_append, List.mem_cons] at hmem
  rcases hmem with h1 | h2 | h3 | h4
  · exact dtChar_ne_slash _ (dtChars_dateChars y m d hy hm hd _ h1) rfl
  · revert h2; decide
  · exact dtChar_ne_slash _ (dtChars_hmsChars h mi s (by omega) (by omega) (by omega) _ h3) rfl
  · cases z <;> simp at h4

/-- characters of a DURATION text written by the encoder -/
def durChar (c : Char) : Bool :=
  isDigit c || c == '-' || c == 'P' || c == 'D' || c == 'T' || c == 'H' || c == 'M' || c == 'S'

theorem durChar_natToStr (n : Nat) : (natToStr n).all durChar = true := by
  rw [List.all_eq_true]; intro c hc; simp [durChar, natToStr_digits n c hc]

theorem durChars_durTo (s : Int) : (durTo s).all durChar = true := by
  have hN := durChar_natToStr
  have c1 : durChar '-' = true := by decide
  have c2 : durChar 'P' = true := by decide
  have c3 : durChar 'D' = true := by decide
  have c4 : durChar 'T' = true := by decide
  have c5 : durChar 'H' = true := by decide
  have c6 : durChar 'M' = true := by decide
  have c7 : durChar 'S' = true := by decide
  unfold durTo durBodyOf timepartOf hmsText
  simp only []
  repeat' split
  all_goals simp [List.all_append, hN, c1, c2, c3, c4, c5, c6, c7]

theorem noslash_durTo (s : Int) : '/' ∉ durTo s := by
  intro h
  have := List.all_eq_true.1 (durChars_durTo s) _ h
  revert this; decide

/-! ## decoders on grammar-valid texts -/

theorem rfcDate_vDateFrom {t : Str} {v : PDate} (h : rfcDate t = some v) : vDateFrom t = .ok v := by
  obtain ⟨a, b, c, d, e, f, g, i, rfl, ha, hb, hc, hd, he, hf, hg, hi, hv, rfl⟩ := rfcDate_inv h
  exact vDateFrom_chars a b c d e f g i [] ha hb hc hd he hf hg hi hv

theorem rfcDateTime_vDatetimeFrom {t : Str} {v : PDateTime} (h : rfcDateTime t = some v) :
    vDatetimeFrom t = .ok v := by
  obtain ⟨a, b, c, d, e, f, g, i, j, k, l, m, n, o, rfl, ha, hb, hc, hd, he, hf, hg, hi, hj, hk, hl, hm, hn, ho, hv, ht, hval⟩ :=
    rfcDateTime_inv h
  rw [vDatetimeFrom_chars a b c d e f g i 'T' j k l m n o v.utc ha hb hc hd he hf hg hi hj hk hl hm hn ho hv ht]
  rw [← hval]

/-- the time decoder reads the right hour, minute and second, but always answers a naive time -/
theorem rfcTime_vTimeFrom {t : Str} {v : PTime} (h : rfcTime t = some v) :
    vTimeFrom t = .ok { v with utc := false } := by
  obtain ⟨a, b, c, d, e, f, hform, ha, hb, hc, hd, he, hf, hv, e1, e2, e3⟩ := rfcTime_inv h
  rcases hform with ⟨rfl, _⟩ | ⟨rfl, _⟩
  · rw [vTimeFrom_chars a b c d e f [] ha hb hc hd he hf hv, e1, e2, e3]
  · rw [vTimeFrom_chars a b c d e f ['Z'] ha hb hc hd he hf hv, e1, e2, e3]

theorem durFromE_of {t : Str} {v : Int} (h : durFrom t = some v) : durFromE t = .ok v := by
  unfold durFromE; rw [h]

theorem rfcDateTime_not_prefix {t : Str} (h : ∃ x, t = 'P' :: x ∨ t = '-' :: 'P' :: x ∨ t = '+' :: 'P' :: x) :
    rfcDateTime t = none := by
  cases hr : rfcDateTime t with
  | none => rfl
  | some v =>
    obtain ⟨a, b, c, d, e, f, g, i, j, k, l, m, n, o, ht, ha, _⟩ := rfcDateTime_inv hr
    obtain ⟨x, hx⟩ := h
    rw [ht] at hx
    rcases hx with hx | hx | hx <;> (simp at hx; obtain ⟨rfl, _⟩ := hx; exact absurd ha (by decide))

/-- the head of a DATE-TIME text is a digit and the text has no `/` -/
theorem rfcDateTime_shape {t : Str} {v : PDateTime} (h : rfcDateTime t = some v) :
    ∃ c cs, t = c :: cs ∧ isDigit c = true := by
  obtain ⟨a, b, c, d, e, f, g, i, j, k, l, m, n, o, ht, ha, _⟩ := rfcDateTime_inv h
  exact ⟨a, _, ht, ha⟩

/-- every RFC `period` text decodes to the RFC value -/
theorem rfcPeriod_vPeriodFrom {t : Str} {p : DDD} (h : rfcPeriod t = some p) : vPeriodFrom t = .ok p := by
  unfold rfcPeriod at h
  unfold vPeriodFrom
  split at h
  · next a b hsplit =>
    cases hs : rfcDateTime a with
    | none => rw [hs] at h; cases h
    | some s =>
      rw [hs] at h; simp only [] at h
      rw [dddCore_datetime _ hs, rfcDateTime_vDatetimeFrom hs]
      cases he : rfcDateTime b with
      | some e =>
        rw [he] at h; simp only [Option.some.injEq] at h; subst h
        rw [dddCore_datetime _ he, rfcDateTime_vDatetimeFrom he]
        rfl
      | none =>
        rw [he] at h; simp only [] at h
        cases hd : rfcDuration b with
        | none => rw [hd] at h; cases h
        | some d =>
          rw [hd] at h; simp only [Option.map_some, Option.some.injEq] at h; subst h
          rw [dddCore_duration _ hd, durFromE_of (rfcDuration_durFrom hd)]
          rfl
  · cases h

/-- PERIOD texts go to the period decoder -/
theorem dddFrom_period {t : Str} {p : DDD} (h : rfcPeriod t = some p) : dddFrom t = vPeriodFrom t := by
  unfold rfcPeriod at h
  split at h
  · next a b hsplit =>
    obtain ⟨ht, _, _⟩ := splitOnChar_two hsplit
    cases hs : rfcDateTime a with
    | none => rw [hs] at h; cases h
    | some s =>
      obtain ⟨c, cs, rfl, hc⟩ := rfcDateTime_shape hs
      subst ht
      unfold dddFrom dddCore
      simp only []
      have h1 : c ≠ 'P' := isDigit_ne c 'P' hc
      have h2 : c ≠ '-' := isDigit_ne c '-' hc
      have h3 : c ≠ '+' := isDigit_ne c '+' hc
      have hsl : (upper (c :: cs ++ '/' :: b)).contains '/' = true := by
        have : upperC '/' = '/' := by decide
        simp [upper, this]
      rw [hsl]
      simp [upper, startsWith, upperC_digit c hc, h1, h2, h3]
  · cases h

/-! ## PERIOD: encoder output -/

theorem durTo_prefix (s : Int) : ∃ x, durTo s = 'P' :: x ∨ durTo s = '-' :: 'P' :: x ∨ durTo s = '+' :: 'P' :: x := by
  obtain ⟨x, hx⟩ := durBodyOf_P s.natAbs
  unfold durTo
  split
  · exact ⟨x, Or.inr (Or.inl (by rw [hx]))⟩
  · exact ⟨x, Or.inl hx⟩

theorem rfcDuration_P (x : Str) :
    rfcDuration ('P' :: x) = (rfcDurBody ('P' :: x)).map (fun (v : Nat) => Int.ofNat v) := by
  unfold rfcDuration
  split
  · next r heq => simp at heq
  · next r heq => simp at heq
  · rfl

theorem rfcDuration_durTo (s : Int) : rfcDuration (durTo s) = some s := by
  unfold durTo
  obtain ⟨x, hx⟩ := durBodyOf_P s.natAbs
  have hb := rfcDurBody_durBodyOf s.natAbs
  split
  · next hneg =>
    simp only [rfcDuration, hb, Option.map_some]
    congr 1; simp; omega
  · next hpos =>
    rw [hx] at hb ⊢
    rw [rfcDuration_P, hb]
    simp; omega

theorem rfcPeriod_vPeriodTo_dt (s e : PDateTime) (hs : s.valid = true) (he : e.valid = true) :
    rfcPeriod (vPeriodTo (.dt s) (.dt e)) = some (.period (.dt s) (.dt e)) := by
  unfold rfcPeriod vPeriodTo atomTo
  rw [splitOnChar_append '/' _ _ (noslash_vDatetimeTo s hs), splitOnChar_nosep '/' _ (noslash_vDatetimeTo e he)]
  simp only [rfcDateTime_vDatetimeTo s hs, rfcDateTime_vDatetimeTo e he]

theorem rfcPeriod_vPeriodTo_dur (s : PDateTime) (d : Int) (hs : s.valid = true) :
    rfcPeriod (vPeriodTo (.dt s) (.dur d)) = some (.period (.dt s) (.dur d)) := by
  unfold rfcPeriod vPeriodTo atomTo
  rw [splitOnChar_append '/' _ _ (noslash_vDatetimeTo s hs), splitOnChar_nosep '/' _ (noslash_durTo d)]
  simp only [rfcDateTime_vDatetimeTo s hs, rfcDateTime_not_prefix (durTo_prefix d), rfcDuration_durTo d,
    Option.map_some]

/-! ## the five classes of `vDDDTypes.from_ical` are pairwise disjoint -/

theorem sig_date {t : Str} {v : PDate} (h : rfcDate t = some v) :
    t.length = 8 ∧ (∃ c cs, t = c :: cs ∧ isDigit c = true) ∧ '/' ∉ t := by
  obtain ⟨a, b, c, d, e, f, g, i, rfl, ha, hb, hc, hd, he, hf, hg, hi, _, _⟩ := rfcDate_inv h
  refine ⟨rfl, ⟨a, _, rfl, ha⟩, ?_⟩
  intro hm; simp at hm
  rcases hm with rfl | rfl | rfl | rfl | rfl | rfl | rfl | rfl <;> exact absurd ‹isDigit '/' = true› (by decide)

theorem sig_time {t : Str} {v : PTime} (h : rfcTime t = some v) :
    (t.length = 6 ∨ t.length = 7) ∧ (∃ c cs, t = c :: cs ∧ isDigit c = true) ∧ '/' ∉ t := by
  obtain ⟨a, b, c, d, e, f, hform, ha, hb, hc, hd, he, hf, _⟩ := rfcTime_inv h
  rcases hform with ⟨rfl, _⟩ | ⟨rfl, _⟩
  · refine ⟨Or.inl rfl, ⟨a, _, rfl, ha⟩, ?_⟩
    intro hm; simp at hm
    rcases hm with rfl | rfl | rfl | rfl | rfl | rfl <;> exact absurd ‹isDigit '/' = true› (by decide)
  · refine ⟨Or.inr rfl, ⟨a, _, rfl, ha⟩, ?_⟩
    intro hm; simp at hm
    rcases hm with rfl | rfl | rfl | rfl | rfl | rfl <;> exact absurd ‹isDigit '/' = true› (by decide)

theorem sig_datetime {t : Str} {v : PDateTime} (h : rfcDateTime t = some v) :
    (t.length = 15 ∨ t.length = 16) ∧ (∃ c cs, t = c :: cs ∧ isDigit c = true) ∧ '/' ∉ t := by
  obtain ⟨a, b, c, d, e, f, g, i, j, k, l, m, n, o, rfl, ha, hb, hc, hd, he, hf, hg, hi, hj, hk, hl, hm, hn, ho, _⟩ :=
    rfcDateTime_inv h
  refine ⟨?_, ⟨a, _, rfl, ha⟩, ?_⟩
  · cases v.utc <;> simp
  · intro hmem
    cases hz : v.utc <;> simp [hz] at hmem
    all_goals
      rcases hmem with rfl | rfl | rfl | rfl | rfl | rfl | rfl | rfl | rfl | rfl | rfl | rfl | rfl | rfl
      all_goals exact absurd ‹isDigit '/' = true› (by decide)

theorem sig_duration {t : Str} {v : Int} (h : rfcDuration t = some v) :
    ∃ c cs, t = c :: cs ∧ isDigit c = false := by
  obtain ⟨x, hx | hx | hx⟩ := rfcDuration_prefix h <;> exact ⟨_, _, hx, by decide⟩

theorem sig_period {t : Str} {p : DDD} (h : rfcPeriod t = some p) :
    (∃ c cs, t = c :: cs ∧ isDigit c = true) ∧ '/' ∈ t := by
  unfold rfcPeriod at h
  split at h
  · next a b hsplit =>
    obtain ⟨ht, _, _⟩ := splitOnChar_two hsplit
    cases hs : rfcDateTime a with
    | none => rw [hs] at h; cases h
    | some s =>
      obtain ⟨c, cs, rfl, hc⟩ := rfcDateTime_shape hs
      subst ht
      exact ⟨⟨c, _, rfl, hc⟩, by simp⟩
  · cases h

/-! ## weekday -/

theorem mem_weekDays {w : Str} (h : w ∈ weekDays) :
    w = ['S', 'U'] ∨ w = ['M', 'O'] ∨ w = ['T', 'U'] ∨ w = ['W', 'E'] ∨ w = ['T', 'H'] ∨ w = ['F', 'R'] ∨ w = ['S', 'A'] := by
  simpa [weekDays, Gen.weekDays] using h

theorem weekDays_facts {w : Str} (h : w ∈ weekDays) :
    ∃ x y, w = [x, y] ∧ isWordC x = true ∧ isWordC y = true ∧ weekDays.contains (upper [x, y]) = true ∧
      upper [x, y] = [x, y] ∧ y ≠ '\n' ∧ x ≠ '+' ∧ x ≠ '-' := by
  rcases mem_weekDays h with rfl | rfl | rfl | rfl | rfl | rfl | rfl <;> exact ⟨_, _, rfl, by decide⟩

/-- `vWeekday(s)` on sign + up to two digits + a weekday name -/
theorem vWeekdayNew_parts (sgn rel wd : Str) (hs : sgn = [] ∨ sgn = ['+'] ∨ sgn = ['-'])
    (hl : rel.length ≤ 2) (hd : ∀ c ∈ rel, isDigit c = true) (hw : wd ∈ weekDays) :
    vWeekdayNew (sgn ++ rel ++ wd) =
      .ok ⟨sgn ++ rel ++ wd, wd,
        if ofDigits rel = 0 then none
        else if sgn = ['-'] then some (-((ofDigits rel : Nat) : Int)) else some ((ofDigits rel : Nat) : Int)⟩ := by
  obtain ⟨x, y, rfl, hx, hy, _, hup, hlf, hx1, hx2⟩ := weekDays_facts hw
  have hcont : upper [x, y] ∈ weekDays := by rw [hup]; exact hw
  have hrel : rel = [] ∨ (∃ a, rel = [a]) ∨ (∃ a b, rel = [a, b]) := by
    match rel, hl with
    | [], _ => exact Or.inl rfl
    | [a], _ => exact Or.inr (Or.inl ⟨a, rfl⟩)
    | [a, b], _ => exact Or.inr (Or.inr ⟨a, b, rfl⟩)
    | _ :: _ :: _ :: _, h => simp at h
  rcases hrel with rfl | ⟨a, rfl⟩ | ⟨a, b, rfl⟩
  · rcases hs with rfl | rfl | rfl <;>
      simp [vWeekdayNew, hx, hy, hcont, hlf, hx1, hx2, ofDigits]
  · have ha := hd a (by simp)
    have h1 : a ≠ '+' := isDigit_ne a '+' ha
    have h2 : a ≠ '-' := isDigit_ne a '-' ha
    rcases hs with rfl | rfl | rfl <;>
      simp [vWeekdayNew, hx, hy, hcont, hlf, ha, h1, h2, ofDigits]
  · have ha := hd a (by simp)
    have hb := hd b (by simp)
    have h1 : a ≠ '+' := isDigit_ne a '+' ha
    have h2 : a ≠ '-' := isDigit_ne a '-' ha
    rcases hs with rfl | rfl | rfl <;>
      simp [vWeekdayNew, hx, hy, hcont, hlf, ha, hb, h1, h2, ofDigits]


theorem rfcSignSplit_spec (t : Str) :
    ∃ sgn, t = sgn ++ (rfcSignSplit t).2 ∧
      (((rfcSignSplit t).1 = none ∧ sgn = []) ∨ ((rfcSignSplit t).1 = some false ∧ sgn = ['+']) ∨
       ((rfcSignSplit t).1 = some true ∧ sgn = ['-'])) := by
  unfold rfcSignSplit
  split
  · exact ⟨['+'], rfl, Or.inr (Or.inl ⟨rfl, rfl⟩)⟩
  · exact ⟨['-'], rfl, Or.inr (Or.inr ⟨rfl, rfl⟩)⟩
  · exact ⟨[], rfl, Or.inl ⟨rfl, rfl⟩⟩

theorem rfcDay_inv {w : Str} {i : Nat}
    (h : (if List.idxOf w weekDays < 7 then some (List.idxOf w weekDays) else none) = some i) :
    w ∈ weekDays ∧ weekDays[i]? = some w := by
  have hlen : weekDays.length = 7 := by decide
  split at h
  · next hlt =>
    cases h
    have hlt' : List.idxOf w weekDays < weekDays.length := by rw [hlen]; exact hlt
    refine ⟨List.idxOf_lt_length_iff.1 hlt', ?_⟩
    rw [List.getElem?_eq_getElem hlt', List.getElem_idxOf hlt']
  · cases h

/-- what `rfcWeekdayNum t = some (i, r)` says about `t` -/
theorem rfcWeekdayNum_inv {t : Str} {i : Nat} {r : Option Int} (h : rfcWeekdayNum t = some (i, r)) :
    ∃ sgn rel wd, t = sgn ++ rel ++ wd ∧ (sgn = [] ∨ sgn = ['+'] ∨ sgn = ['-']) ∧ rel.length ≤ 2 ∧
      (∀ c ∈ rel, isDigit c = true) ∧ wd ∈ weekDays ∧ weekDays[i]? = some wd ∧
      r = (if ofDigits rel = 0 then none
           else if sgn = ['-'] then some (-((ofDigits rel : Nat) : Int)) else some ((ofDigits rel : Nat) : Int)) := by
  obtain ⟨sgn, ht, hsg⟩ := rfcSignSplit_spec t
  have hsgn : sgn = [] ∨ sgn = ['+'] ∨ sgn = ['-'] := by
    rcases hsg with ⟨_, h⟩ | ⟨_, h⟩ | ⟨_, h⟩ <;> simp [h]
  unfold rfcWeekdayNum at h
  simp only [] at h
  generalize rfcSignSplit t = sr at h ht hsg
  obtain ⟨sg, body⟩ := sr
  simp only [] at h ht hsg
  have hrel : ∀ n : Nat, n ≠ 0 →
      some (if sg = some true then -(n : Int) else (n : Int)) =
        (if n = 0 then none else if sgn = ['-'] then some (-(n : Int)) else some (n : Int)) := by
    intro n hn
    rw [if_neg hn]
    rcases hsg with ⟨h1, h2⟩ | ⟨h1, h2⟩ | ⟨h1, h2⟩ <;> subst h1 <;> subst h2 <;> simp
  split at h
  · next x y =>
    cases hd : (if List.idxOf [x, y] weekDays < 7 then some (List.idxOf [x, y] weekDays) else none) with
    | none => rw [hd] at h; cases h
    | some j =>
      rw [hd] at h; simp only [Option.map_some, Option.some.injEq, Prod.mk.injEq] at h
      obtain ⟨rfl, rfl⟩ := h
      obtain ⟨hm, hi⟩ := rfcDay_inv hd
      exact ⟨sgn, [], [x, y], by rw [ht]; simp, hsgn, by simp, by simp, hm, hi, by simp [ofDigits]⟩
  · next sg a x y =>
    split at h
    · next hc =>
      simp only [Bool.and_eq_true, decide_eq_true_iff] at hc
      cases hd : (if List.idxOf [x, y] weekDays < 7 then some (List.idxOf [x, y] weekDays) else none) with
      | none => rw [hd] at h; cases h
      | some j =>
        rw [hd] at h; simp only [Option.map_some, Option.some.injEq, Prod.mk.injEq] at h
        obtain ⟨rfl, rfl⟩ := h
        obtain ⟨hm, hi⟩ := rfcDay_inv hd
        have hv : ofDigits [a] = digitVal a := by simp [ofDigits]
        refine ⟨sgn, [a], [x, y], by rw [ht]; simp, hsgn, by simp, by simpa using hc.1, hm, hi, ?_⟩
        rw [hv]; exact hrel _ (by omega)
    · cases h
  · next sg a b x y =>
    split at h
    · next hc =>
      simp only [Bool.and_eq_true, decide_eq_true_iff] at hc
      cases hd : (if List.idxOf [x, y] weekDays < 7 then some (List.idxOf [x, y] weekDays) else none) with
      | none => rw [hd] at h; cases h
      | some j =>
        rw [hd] at h; simp only [Option.map_some, Option.some.injEq, Prod.mk.injEq] at h
        obtain ⟨rfl, rfl⟩ := h
        obtain ⟨hm, hi⟩ := rfcDay_inv hd
        refine ⟨sgn, [a, b], [x, y], by rw [ht]; simp, hsgn, by simp, ?_, hm, hi, ?_⟩
        · intro c hcm; simp at hcm; rcases hcm with rfl | rfl
          · exact hc.1.1.1
          · exact hc.1.1.2
        · exact hrel (num2 a b) (by omega)
    · cases h
  · cases h

/-! ## month, frequency, boolean -/

theorem vMonthNew_digits (s : Str) (h : isDigitStr s = true) :
    vMonthNew s = .ok (((ofDigits s : Nat) : Int), false) := by
  unfold vMonthNew; simp [h]

theorem vMonthNew_L (s : Str) (h : isDigitStr s = true) :
    vMonthNew (s ++ ['L']) = .ok (((ofDigits s : Nat) : Int), true) := by
  obtain ⟨hne, hd⟩ := (isDigitStr_iff s).1 h
  have hnd : isDigitStr (s ++ ['L']) = false := by
    cases hx : isDigitStr (s ++ ['L']) with
    | false => rfl
    | true =>
      have := ((isDigitStr_iff _).1 hx).2 'L' (by simp)
      exact absurd this (by decide)
  unfold vMonthNew
  simp only [hnd, Bool.false_eq_true, if_false, List.getLast?_append, List.getLast?_singleton,
    Option.some_or, List.dropLast_concat, ne_eq, not_true_eq_false, false_and, pyInt_digits s hd hne]

theorem intToStr_nat (n : Nat) : intToStr (n : Int) = natToStr n := by
  unfold intToStr
  have : ¬ ((n : Int) < 0) := by omega
  simp [this]

/-- what `rfcMonth t = some v` says about `t` -/
theorem rfcMonth_inv {t : Str} {v : Int × Bool} (h : rfcMonth t = some v) :
    ∃ s, isDigitStr s = true ∧ v.1 = ((ofDigits s : Nat) : Int) ∧
      ((t = s ∧ v.2 = false) ∨ (t = s ++ ['L'] ∧ v.2 = true)) := by
  unfold rfcMonth at h
  simp only [] at h
  have core : ∀ (r : Str) (leap : Bool),
      (match r with
        | [a] => if (isDigit a && decide (1 ≤ digitVal a)) = true then some (((digitVal a : Nat) : Int), leap) else none
        | [a, b] => if (isDigit a && isDigit b && decide (1 ≤ num2 a b) && decide (num2 a b ≤ 12)) = true then
            some (((num2 a b : Nat) : Int), leap) else none
        | _ => none) = some v →
      isDigitStr r = true ∧ v.1 = ((ofDigits r : Nat) : Int) ∧ v.2 = leap := by
    intro r leap hr
    split at hr
    · next a =>
      split at hr
      · next hc =>
        simp only [Bool.and_eq_true, decide_eq_true_iff] at hc
        cases hr
        exact ⟨by simp [isDigitStr, hc.1], by simp [ofDigits], rfl⟩
      · cases hr
    · next a b =>
      split at hr
      · next hc =>
        simp only [Bool.and_eq_true, decide_eq_true_iff] at hc
        cases hr
        exact ⟨by simp [isDigitStr, hc.1.1.1, hc.1.1.2], by simp [num2], rfl⟩
      · cases hr
    · cases hr
  split at h
  · next hl =>
    obtain ⟨h1, h2, h3⟩ := core _ _ h
    refine ⟨t.dropLast, h1, h2, Or.inr ⟨?_, h3⟩⟩
    obtain ⟨ys, hys⟩ := List.getLast?_eq_some_iff.1 hl
    rw [hys]; simp
  · next hl =>
    obtain ⟨h1, h2, h3⟩ := core _ _ h
    exact ⟨t, h1, h2, Or.inl ⟨rfl, h3⟩⟩

theorem mem_frequencies_upper {s : Str} (h : s ∈ frequencies) : upper s = s := by
  have : s = "SECONDLY".toList ∨ s = "MINUTELY".toList ∨ s = "HOURLY".toList ∨ s = "DAILY".toList ∨
      s = "WEEKLY".toList ∨ s = "MONTHLY".toList ∨ s = "YEARLY".toList := by
    simpa [frequencies, Gen.frequencies] using h
  rcases this with rfl | rfl | rfl | rfl | rfl | rfl | rfl <;> decide

/-- an RFC `weekdaynum` text is already upper case -/
theorem rfcWeekdayNum_upper {t : Str} {i : Nat} {r : Option Int} (h : rfcWeekdayNum t = some (i, r)) :
    upper t = t := by
  obtain ⟨sgn, rel, wd, rfl, hs, _, hd, hw, _, _⟩ := rfcWeekdayNum_inv h
  obtain ⟨x, y, rfl, _, _, _, hup, _⟩ := weekDays_facts hw
  have h1 : upper sgn = sgn := by rcases hs with rfl | rfl | rfl <;> decide
  have h2 : upper rel = rel := upper_dtChars rel (fun c hc => dtChar_digit c (hd c hc))
  show List.map upperC (sgn ++ rel ++ [x, y]) = _
  rw [List.map_append, List.map_append]
  exact congr (congrArg _ (congr (congrArg _ h1) h2)) hup

/-! ## pairwise disjointness of the five classes -/

theorem isSome_false_of {α : Type} {o : Option α} (h : ∀ v, o = some v → False) : o.isSome = false := by
  cases o with
  | none => rfl
  | some v => exact (h v rfl).elim

theorem head_clash {t : Str} (h1 : ∃ c cs, t = c :: cs ∧ isDigit c = true)
    (h2 : ∃ c cs, t = c :: cs ∧ isDigit c = false) : False := by
  obtain ⟨c, cs, rfl, hc⟩ := h1
  obtain ⟨c', cs', he, hc'⟩ := h2
  simp only [List.cons.injEq] at he
  rw [← he.1, hc] at hc'; cases hc'

theorem disj_date_datetime {t : Str} {a : PDate} {b : PDateTime} (ha : rfcDate t = some a)
    (hb : rfcDateTime t = some b) : False := by
  have := (sig_date ha).1; have := (sig_datetime hb).1; omega

theorem disj_date_time {t : Str} {a : PDate} {b : PTime} (ha : rfcDate t = some a)
    (hb : rfcTime t = some b) : False := by
  have := (sig_date ha).1; have := (sig_time hb).1; omega

theorem disj_datetime_time {t : Str} {a : PDateTime} {b : PTime} (ha : rfcDateTime t = some a)
    (hb : rfcTime t = some b) : False := by
  have := (sig_datetime ha).1; have := (sig_time hb).1; omega

theorem disj_date_dur {t : Str} {a : PDate} {b : Int} (ha : rfcDate t = some a)
    (hb : rfcDuration t = some b) : False := head_clash (sig_date ha).2.1 (sig_duration hb)

theorem disj_datetime_dur {t : Str} {a : PDateTime} {b : Int} (ha : rfcDateTime t = some a)
    (hb : rfcDuration t = some b) : False := head_clash (sig_datetime ha).2.1 (sig_duration hb)

theorem disj_time_dur {t : Str} {a : PTime} {b : Int} (ha : rfcTime t = some a)
    (hb : rfcDuration t = some b) : False := head_clash (sig_time ha).2.1 (sig_duration hb)

theorem disj_date_period {t : Str} {a : PDate} {b : DDD} (ha : rfcDate t = some a)
    (hb : rfcPeriod t = some b) : False := (sig_date ha).2.2 (sig_period hb).2

theorem disj_datetime_period {t : Str} {a : PDateTime} {b : DDD} (ha : rfcDateTime t = some a)
    (hb : rfcPeriod t = some b) : False := (sig_datetime ha).2.2 (sig_period hb).2

theorem disj_time_period {t : Str} {a : PTime} {b : DDD} (ha : rfcTime t = some a)
    (hb : rfcPeriod t = some b) : False := (sig_time ha).2.2 (sig_period hb).2

theorem disj_dur_period {t : Str} {a : Int} {b : DDD} (ha : rfcDuration t = some a)
    (hb : rfcPeriod t = some b) : False := head_clash (sig_period hb).1 (sig_duration ha)

theorem rfcMonth_vMonthTo (n : Nat) (leap : Bool) (h1 : 1 ≤ n) (h2 : n ≤ 12) :
    rfcMonth (vMonthTo n leap) = some ((n : Int), leap) := by
  unfold vMonthTo
  rw [intToStr_nat]
  have hL : ∀ k, k < 10 → dig k ≠ 'L' := fun k hk => isDigit_ne _ 'L' (isDigit_dig k hk)
  by_cases hn : n < 10
  · rw [natToStr_lt10 n hn]
    have hd := isDigit_dig n hn
    have hv := digitVal_dig n hn
    cases leap
    · simp [rfcMonth, hL n hn, hd, hv, h1]
    · simp [rfcMonth, hd, hv, h1]
  · rw [natToStr_2 n (by omega) (by omega)]
    have hd1 := isDigit_dig (n / 10) (by omega)
    have hd2 := isDigit_dig (n % 10) (by omega)
    have hv := num2_dig n (by omega)
    cases leap
    · simp [rfcMonth, hL (n % 10) (by omega), hd1, hd2, hv, h1, h2]
    · simp [rfcMonth, hd1, hd2, hv, h1, h2]

theorem rfcFreq_freqTo (s : Str) (h : s ∈ frequencies) : rfcFreq (freqTo s) = some s := by
  unfold freqTo rfcFreq
  rw [mem_frequencies_upper h]
  simp [h]

end ICal.Codec
