/-
  Helper lemmas for the value-codec model (C03): decimal printing and parsing, zero padding,
  `int()` on digit strings, fixed-width fields.
-/
import ICal.Model.Codec
namespace ICal

/-! ## characters -/

theorem char_le_iff (a b : Char) : a ≤ b ↔ a.toNat ≤ b.toNat := by
  rw [Char.le_def, UInt32.le_iff_toNat_le]; rfl

theorem isDigit_iff (c : Char) : isDigit c = true ↔ 48 ≤ c.toNat ∧ c.toNat ≤ 57 := by
  unfold isDigit
  rw [Bool.and_eq_true, decide_eq_true_iff, decide_eq_true_iff, char_le_iff, char_le_iff]
  exact Iff.rfl

/-- the digit character of `k < 10` -/
def dig (k : Nat) : Char := Char.ofNat ('0'.toNat + k)

theorem dig_spec (k : Nat) (h : k < 10) : isDigit (dig k) = true ∧ digitVal (dig k) = k := by
  have : k = 0 ∨ k = 1 ∨ k = 2 ∨ k = 3 ∨ k = 4 ∨ k = 5 ∨ k = 6 ∨ k = 7 ∨ k = 8 ∨ k = 9 := by omega
  rcases this with rfl|rfl|rfl|rfl|rfl|rfl|rfl|rfl|rfl|rfl <;> decide

theorem isDigit_dig (k : Nat) (h : k < 10) : isDigit (dig k) = true := (dig_spec k h).1
theorem digitVal_dig (k : Nat) (h : k < 10) : digitVal (dig k) = k := (dig_spec k h).2

theorem digitVal_lt (c : Char) (h : isDigit c = true) : digitVal c < 10 := by
  rw [isDigit_iff] at h
  have : '0'.toNat = 48 := by decide
  unfold digitVal; omega

/-- a digit is none of the characters the codecs treat specially -/
theorem isDigit_ne (c d : Char) (h : isDigit c = true) (hd : isDigit d = false := by decide) : c ≠ d := by
  intro e; subst e; rw [h] at hd; cases hd

theorem isDigit_not_space (c : Char) (h : isDigit c = true) : isPySpace c = false := by
  rw [isDigit_iff] at h
  unfold isPySpace
  have h1 : (c.toNat == 32) = false := by simp; omega
  have h2 : (decide (c.toNat ≤ 13)) = false := by simp; omega
  simp [h1, h2]

theorem upperC_digit (c : Char) (h : isDigit c = true) : upperC c = c := by
  rw [isDigit_iff] at h
  unfold upperC
  have : ¬ ('a' ≤ c ∧ c ≤ 'z') := by
    rw [char_le_iff, char_le_iff]
    have : 'a'.toNat = 97 := by decide
    omega
  simp [this]

/-! ## `str(n)` -/

theorem digitsAux_acc (fuel n : Nat) (acc : List Char) :
    digitsAux fuel n acc = digitsAux fuel n [] ++ acc := by
  induction fuel generalizing n acc with
  | zero => simp [digitsAux]
  | succ f ih =>
    simp only [digitsAux]
    split
    · simp
    · rw [ih (n / 10) (_ :: acc), ih (n / 10) [_]]; simp

theorem digitsAux_fuel (f g n : Nat) (hf : n < f) (hg : n < g) (acc : List Char) :
    digitsAux f n acc = digitsAux g n acc := by
  induction f generalizing g n acc with
  | zero => omega
  | succ f ih =>
    cases g with
    | zero => omega
    | succ g =>
      simp only [digitsAux]
      split
      · rfl
      · apply ih <;> omega

theorem natToStr_lt10 (n : Nat) (h : n < 10) : natToStr n = [dig n] := by
  unfold natToStr dig
  simp only [digitsAux]
  have : n / 10 = 0 := by omega
  have h2 : n % 10 = n := by omega
  simp [this, h2]

theorem natToStr_step (n : Nat) (h : 10 ≤ n) : natToStr n = natToStr (n / 10) ++ [dig (n % 10)] := by
  have hne : n / 10 ≠ 0 := by omega
  have key : digitsAux (n + 1) n [] = digitsAux n (n / 10) [dig (n % 10)] := by
    simp [digitsAux, hne, dig]
  unfold natToStr
  rw [key, digitsAux_acc, digitsAux_fuel n (n / 10 + 1) (n / 10) (by omega) (by omega)]

theorem natToStr_ne_nil (n : Nat) : natToStr n ≠ [] := by
  by_cases h : n < 10
  · rw [natToStr_lt10 n h]; simp
  · rw [natToStr_step n (by omega)]; simp

theorem natToStr_digits (n : Nat) : ∀ c ∈ natToStr n, isDigit c = true := by
  induction n using Nat.strongRecOn with
  | _ n ih =>
    by_cases h : n < 10
    · rw [natToStr_lt10 n h]; intro c hc; simp at hc; subst hc; exact isDigit_dig n h
    · rw [natToStr_step n (by omega)]
      intro c hc
      rw [List.mem_append] at hc
      rcases hc with hc | hc
      · exact ih (n / 10) (by omega) c hc
      · simp at hc; subst hc; exact isDigit_dig _ (Nat.mod_lt _ (by omega))

theorem ofDigits_snoc (s : Str) (c : Char) : ofDigits (s ++ [c]) = ofDigits s * 10 + digitVal c := by
  simp [ofDigits, List.foldl_append]

/-- `int(str(n)) == n` at the level of digit strings -/
theorem ofDigits_natToStr (n : Nat) : ofDigits (natToStr n) = n := by
  induction n using Nat.strongRecOn with
  | _ n ih =>
    by_cases h : n < 10
    · rw [natToStr_lt10 n h]; simp [ofDigits, digitVal_dig n h]
    · rw [natToStr_step n (by omega), ofDigits_snoc, ih (n / 10) (by omega),
        digitVal_dig _ (Nat.mod_lt _ (by omega))]
      omega

theorem natToStr_2 (n : Nat) (h1 : 10 ≤ n) (h2 : n < 100) : natToStr n = [dig (n / 10), dig (n % 10)] := by
  rw [natToStr_step n h1, natToStr_lt10 (n / 10) (by omega)]; rfl

theorem natToStr_3 (n : Nat) (h1 : 100 ≤ n) (h2 : n < 1000) :
    natToStr n = [dig (n / 100), dig (n / 10 % 10), dig (n % 10)] := by
  rw [natToStr_step n (by omega), natToStr_2 (n / 10) (by omega) (by omega)]
  have : n / 10 / 10 = n / 100 := by omega
  simp [this]

theorem natToStr_4 (n : Nat) (h1 : 1000 ≤ n) (h2 : n < 10000) :
    natToStr n = [dig (n / 1000), dig (n / 100 % 10), dig (n / 10 % 10), dig (n % 10)] := by
  rw [natToStr_step n (by omega), natToStr_3 (n / 10) (by omega) (by omega)]
  have e1 : n / 10 / 100 = n / 1000 := by omega
  have e2 : n / 10 / 10 % 10 = n / 100 % 10 := by omega
  simp [e1, e2]

/-! ## zero padding -/

theorem dig_zero : dig 0 = '0' := by decide

theorem pad2_eq (n : Nat) (h : n < 100) : pad 2 n = [dig (n / 10), dig (n % 10)] := by
  unfold pad
  by_cases h1 : n < 10
  · rw [natToStr_lt10 n h1]
    have e1 : n / 10 = 0 := by omega
    have e2 : n % 10 = n := by omega
    simp [e1, e2, dig_zero]
  · rw [natToStr_2 n (by omega) h]; simp

theorem pad4_eq (n : Nat) (h : n < 10000) :
    pad 4 n = [dig (n / 1000), dig (n / 100 % 10), dig (n / 10 % 10), dig (n % 10)] := by
  unfold pad
  by_cases h1 : n < 10
  · rw [natToStr_lt10 n h1]
    have e1 : n / 1000 = 0 := by omega
    have e2 : n / 100 % 10 = 0 := by omega
    have e3 : n / 10 % 10 = 0 := by omega
    have e4 : n % 10 = n := by omega
    simp [e1, e2, e3, e4, dig_zero, List.replicate]
  · by_cases h2 : n < 100
    · rw [natToStr_2 n (by omega) h2]
      have e1 : n / 1000 = 0 := by omega
      have e2 : n / 100 % 10 = 0 := by omega
      have e3 : n / 10 % 10 = n / 10 := by omega
      simp [e1, e2, e3, dig_zero, List.replicate]
    · by_cases h3 : n < 1000
      · rw [natToStr_3 n (by omega) h3]
        have e1 : n / 1000 = 0 := by omega
        have e2 : n / 100 % 10 = n / 100 := by omega
        simp [e1, e2, dig_zero]
      · rw [natToStr_4 n (by omega) h]; simp

/-! ## `int()` on digit strings -/

theorem pyNatAux_digits (s : Str) (hs : ∀ c ∈ s, isDigit c = true) (acc : Nat) (prev : Bool)
    (h : s ≠ [] ∨ prev = true) :
    pyNatAux acc prev s = some (s.foldl (fun a c => a * 10 + digitVal c) acc) := by
  induction s generalizing acc prev with
  | nil =>
    rcases h with h | h
    · exact absurd rfl h
    · simp [pyNatAux, h]
  | cons c cs ih =>
    have hc := hs c (by simp)
    simp only [pyNatAux, hc, if_true, List.foldl_cons]
    exact ih (fun x hx => hs x (by simp [hx])) _ true (Or.inr rfl)

theorem lstripSp_digit (c : Char) (cs : Str) (h : isDigit c = true) : lstripSp (c :: cs) = c :: cs := by
  simp [lstripSp, isDigit_not_space c h]

theorem rstripSp_digits (s : Str) (hs : ∀ c ∈ s, isDigit c = true) : rstripSp s = s := by
  induction s with
  | nil => rfl
  | cons c cs ih =>
    have hc := isDigit_not_space c (hs c (by simp))
    have := ih (fun x hx => hs x (by simp [hx]))
    simp only [rstripSp, this]
    cases cs with
    | nil => simp [hc]
    | cons d ds => rfl

/-- `int(s)` of a non-empty string of ASCII digits is its decimal value -/
theorem pyInt_digits (s : Str) (hs : ∀ c ∈ s, isDigit c = true) (hne : s ≠ []) :
    pyInt s = some ((ofDigits s : Nat) : Int) := by
  cases s with
  | nil => exact absurd rfl hne
  | cons c cs =>
    have hc := hs c (by simp)
    unfold pyInt
    rw [lstripSp_digit c cs hc, rstripSp_digits _ hs]
    have h1 : c ≠ '-' := isDigit_ne c '-' hc
    have h2 : c ≠ '+' := isDigit_ne c '+' hc
    split
    · next r heq => simp at heq; exact absurd heq.1 h1
    · next r heq => simp at heq; exact absurd heq.1 h2
    · next r _ _ =>
      unfold pyNat
      rw [pyNatAux_digits (c :: cs) hs 0 false (Or.inl (by simp))]
      simp [ofDigits]

theorem pyIntE_digits (s : Str) (hs : ∀ c ∈ s, isDigit c = true) (hne : s ≠ []) :
    pyIntE s = .ok ((ofDigits s : Nat) : Int) := by
  unfold pyIntE; rw [pyInt_digits s hs hne]

theorem pyIntE_2 (a b : Char) (ha : isDigit a = true) (hb : isDigit b = true) :
    pyIntE [a, b] = .ok ((num2 a b : Nat) : Int) :=
  pyIntE_digits [a, b] (by intro c hc; simp at hc; rcases hc with rfl | rfl <;> assumption) (by simp)

theorem pyIntE_4 (a b c d : Char) (ha : isDigit a = true) (hb : isDigit b = true)
    (hc : isDigit c = true) (hd : isDigit d = true) :
    pyIntE [a, b, c, d] = .ok ((num4 a b c d : Nat) : Int) :=
  pyIntE_digits [a, b, c, d]
    (by intro x hx; simp at hx; rcases hx with rfl | rfl | rfl | rfl <;> assumption) (by simp)

theorem num2_val (a b : Char) : num2 a b = digitVal a * 10 + digitVal b := by
  simp [num2, ofDigits]

theorem num4_val (a b c d : Char) :
    num4 a b c d = digitVal a * 1000 + digitVal b * 100 + digitVal c * 10 + digitVal d := by
  simp [num4, ofDigits]; omega

theorem num2_dig (x : Nat) (h : x < 100) : num2 (dig (x / 10)) (dig (x % 10)) = x := by
  rw [num2_val, digitVal_dig _ (by omega), digitVal_dig _ (by omega)]; omega

theorem num4_dig (x : Nat) (h : x < 10000) :
    num4 (dig (x / 1000)) (dig (x / 100 % 10)) (dig (x / 10 % 10)) (dig (x % 10)) = x := by
  rw [num4_val, digitVal_dig _ (by omega), digitVal_dig _ (by omega), digitVal_dig _ (by omega),
    digitVal_dig _ (by omega)]
  omega

theorem num2_lt (a b : Char) (ha : isDigit a = true) (hb : isDigit b = true) : num2 a b < 100 := by
  have := digitVal_lt a ha; have := digitVal_lt b hb; rw [num2_val]; omega

end ICal
