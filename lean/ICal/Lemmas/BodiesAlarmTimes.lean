/-
  Equality of the regenerated `Alarms.times`, `_get_absolute_alarm_times`, `_get_start_alarm_times`,
  `_get_end_alarm_times` and `_alarm_time` of alarms.py (ICal/Gen/BodiesAlarm.lean, tools/py2lean.py: the nested
  comprehensions `[self._alarm_time(alarm, trigger) for alarm in .. for trigger in self._repeat(.., alarm)]`, the calls
  of the translated `_repeat` / `_add` with the alarm's REPEAT / DURATION / TRIGGER, the ComponentStartMissing /
  ComponentEndMissing tests, the local time zone applied to a trigger without tzinfo, the order end + start + absolute)
  with the hand model `times` of ICal/Model/Alarm.lean.  The external pieces are those of ICal/Model/AlarmPieces.lean.
  The model's three lists hold only alarms `add_alarm` would put there (`Sorted`: an absolute TRIGGER in
  `absoluteAlarms`, a relative one in the others); `sorted_ofComponent` shows it of every state built by
  `Alarms(component)`.  `self._add(self._start, ..)` with `_start` None (TypeError in Python) is inside a
  comprehension over an empty list there: the proof shows it is never reached.
  `Alarms.add_component` with `set_parent`, `set_start`, `set_end`, `acknowledge_until`, `snooze_until`, `add_alarm`
  (methods that write attributes of self: translated as functions from the attributes before to the attributes
  after) is the model's `addComponent` (`add_component_eq`), `add_alarm` is `addAlarm`, and the chain
  add_component then times is the model's (`add_component_times`).
-/
import ICal.Model.AlarmPieces
import ICal.Lemmas.BodiesAlarm
set_option linter.unusedSimpArgs false
namespace ICal.Bodies
open ICal ICal.PyRT ICal.Alarms ICal.Gen.BodiesAlarm

def toATup (x : AlarmTime) : ATup := (x.alarm, x.trig, awareOpt x.lastAck, awareOpt x.snooze)

/-- what `add_alarm` guarantees of the three lists -/
structure Sorted (s : State) : Prop where
  abs : ∀ a ∈ s.absoluteAlarms, ∃ t, a.trigger = some t ∧ t.isAbs = true
  start : ∀ a ∈ s.startAlarms, ∃ td, a.trigger = some (.rel td)
  end_ : ∀ a ∈ s.endAlarms, ∃ td, a.trigger = some (.rel td)

theorem alarm_time_eq (loc : Int → Int) (s : State) (a : VAlarm) (t : Trig) :
    Alarms_alarm_time (alarm := a) (trigger := t) (local_tzinfo := localTzP s) (to_datetime := toDatetime) (localize := localizeP loc) (normalize_pytz := id)
      (last_ack := awareOpt s.lastAck) (snooze_until := awareOpt s.snooze) (parent := ()) (mk_alarm_time := mkATP) =
      toATup (alarmTime loc s a t) := by
  simp only [Alarms_alarm_time, alarmTime, toATup, mkATP, localTzP, applyLocal]
  cases t <;> cases s.localTz <;> simp [Trig.isAware, localizeP, toDatetime]

theorem mapM_ok {α β : Type} (F : α → Py β) (f : α → β) : ∀ (xs : List α), (∀ a ∈ xs, F a = .ok (f a)) →
    List.mapM F xs = .ok (xs.map f) := by
  intro xs
  induction xs with
  | nil => intro _; rfl
  | cons x xs ih =>
    intro h
    rw [List.mapM_cons, h x (by simp), ih (fun a ha => h a (by simp [ha]))]
    rfl

theorem flatten_map_congr {α β γ : Type} (F : α → List γ) (G : α → List β) (g : β → γ) : ∀ (xs : List α),
    (∀ a ∈ xs, F a = (G a).map g) → (xs.map F).flatten = (xs.flatMap G).map g := by
  intro xs
  induction xs with
  | nil => intro _; rfl
  | cons x xs ih =>
    intro h
    simp [List.flatMap_cons, h x (by simp), ih (fun a ha => h a (by simp [ha]))]

theorem absolute_eq (loc : Int → Int) (s : State) (h : Sorted s) :
    Alarms_get_absolute_alarm_times (absolute_alarms := s.absoluteAlarms) (alarm_trigger_abs := trigAbsP) (alarm_repeat := fun a => a.rep)
      (alarm_duration := fun a => a.duration) (local_tzinfo := localTzP s) (to_datetime := toDatetime) (localize := localizeP loc) (normalize_pytz := id)
      (last_ack := awareOpt s.lastAck) (snooze_until := awareOpt s.snooze) (parent := ()) (mk_alarm_time := mkATP) = .ok ((absoluteTimes loc s).map toATup) := by
  unfold Alarms_get_absolute_alarm_times
  rw [mapM_ok _ (fun a => (repeatTimes (trigAbsP a) a).map (fun t => toATup (alarmTime loc s a t)))]
  · simp only [bind, Except.bind, pure, Except.pure, absoluteTimes]
    congr 1
    apply flatten_map_congr
    intro a ha
    obtain ⟨t, ht, _⟩ := h.abs a ha
    simp [ht, trigAbsP]
  · intro a _
    simp only [Alarms_repeat_eq, alarm_time_eq, bind, Except.bind, pure, Except.pure]

theorem relative_eq (loc : Int → Int) (s : State) (anchor : Trig) (alarms : List VAlarm)
    (_h : ∀ a ∈ alarms, ∃ td, a.trigger = some (.rel td)) :
    List.mapM (fun alarm => (Alarms_repeat (first := Alarms_add (dt := anchor) (td := trigRelP alarm) (to_datetime := toDatetime) (normalize_pytz := id))
        (alarm_repeat := alarm.rep) (alarm_duration := alarm.duration) (to_datetime := toDatetime) (normalize_pytz := id)) >>=
        fun (t : List Trig) => pure (t.map (fun trigger => Alarms_alarm_time (alarm := alarm) (trigger := trigger) (local_tzinfo := localTzP s) (to_datetime := toDatetime) (localize := localizeP loc) (normalize_pytz := id)
      (last_ack := awareOpt s.lastAck) (snooze_until := awareOpt s.snooze) (parent := ()) (mk_alarm_time := mkATP)))) alarms =
      .ok (alarms.map (fun a => (repeatTimes (add anchor (trigRelP a)) a).map (fun t => toATup (alarmTime loc s a t)))) := by
  apply mapM_ok
  intro a _
  simp only [Alarms_add_eq, Alarms_repeat_eq, alarm_time_eq, bind, Except.bind, pure, Except.pure]

theorem relative_flat (loc : Int → Int) (s : State) (anchor : Trig) (alarms : List VAlarm)
    (h : ∀ a ∈ alarms, ∃ td, a.trigger = some (.rel td)) :
    (alarms.map (fun a => (repeatTimes (add anchor (trigRelP a)) a).map (fun t => toATup (alarmTime loc s a t)))).flatten =
      (relativeTimes loc s anchor alarms).map toATup := by
  unfold relativeTimes
  apply flatten_map_congr
  intro a ha
  obtain ⟨td, ht⟩ := h a ha
  simp [ht, trigRelP]

theorem start_eq (loc : Int → Int) (s : State) (h : Sorted s) :
    Alarms_get_start_alarm_times (start := s.start) (start_alarms := s.startAlarms) (alarm_trigger_rel := trigRelP) (alarm_repeat := fun a => a.rep) (alarm_duration := fun a => a.duration)
      (local_tzinfo := localTzP s) (to_datetime := toDatetime) (localize := localizeP loc) (normalize_pytz := id)
      (last_ack := awareOpt s.lastAck) (snooze_until := awareOpt s.snooze) (parent := ()) (mk_alarm_time := mkATP) = liftA ((startTimes loc s).map (List.map toATup)) := by
  unfold Alarms_get_start_alarm_times startTimes
  cases hs : s.start with
  | none =>
    cases ha : s.startAlarms with
    | nil => simp [liftA, pure, Except.pure, bind, Except.bind, Except.map]
    | cons a as => simp [throw, throwThe, MonadExceptOf.throw]; rfl
  | some st =>
    simp only []
    rw [relative_eq loc s st s.startAlarms h.start]
    simp only [bind, Except.bind, pure, Except.pure, relative_flat loc s st s.startAlarms h.start, liftA, Except.map]

theorem end_eq (loc : Int → Int) (s : State) (h : Sorted s) :
    Alarms_get_end_alarm_times (end_ := s.end_) (end_alarms := s.endAlarms) (alarm_trigger_rel := trigRelP) (alarm_repeat := fun a => a.rep) (alarm_duration := fun a => a.duration)
      (local_tzinfo := localTzP s) (to_datetime := toDatetime) (localize := localizeP loc) (normalize_pytz := id)
      (last_ack := awareOpt s.lastAck) (snooze_until := awareOpt s.snooze) (parent := ()) (mk_alarm_time := mkATP) = liftA ((endTimes loc s).map (List.map toATup)) := by
  unfold Alarms_get_end_alarm_times endTimes
  cases hs : s.end_ with
  | none =>
    cases ha : s.endAlarms with
    | nil => simp [liftA, pure, Except.pure, bind, Except.bind, Except.map]
    | cons a as => simp [throw, throwThe, MonadExceptOf.throw]; rfl
  | some en =>
    simp only []
    rw [relative_eq loc s en s.endAlarms h.end_]
    simp only [bind, Except.bind, pure, Except.pure, relative_flat loc s en s.endAlarms h.end_, liftA, Except.map]

/-- the translated `Alarms.times` is the model's `times` (on a state whose three lists are sorted as `add_alarm` sorts them) -/
theorem times_eq (loc : Int → Int) (s : State) (h : Sorted s) :
    timesP loc s = liftA ((times loc s).map (List.map toATup)) := by
  unfold timesP Alarms_times times
  rw [end_eq loc s h, start_eq loc s h, absolute_eq loc s h]
  cases he : endTimes loc s with
  | error e => cases e <;> rfl
  | ok es =>
    cases hs : startTimes loc s with
    | error e => cases e <;> rfl
    | ok ss => simp [liftA, Except.map, bind, Except.bind, pure, Except.pure]

/-- `add_alarm` keeps the three lists sorted -/
theorem sorted_addAlarm (s : State) (a : VAlarm) (h : Sorted s) : Sorted (addAlarm s a) := by
  unfold addAlarm
  cases ht : a.trigger with
  | none => exact h
  | some t =>
    simp only
    by_cases hab : t.isAbs = true
    · simp only [hab, if_true]
      exact ⟨fun x hx => by
        rcases List.mem_append.mp hx with hx | hx
        · exact h.abs x hx
        · simp at hx; subst hx; exact ⟨t, ht, hab⟩, h.start, h.end_⟩
    · have hrel : ∃ td, t = .rel td := by cases t <;> simp [TriggerV.isAbs] at hab ⊢
      obtain ⟨td, rfl⟩ := hrel
      simp only [hab, if_false]
      by_cases hst : a.triggerRelated = START
      · simp only [hst, if_true]
        exact ⟨h.abs, fun x hx => by
          rcases List.mem_append.mp hx with hx | hx
          · exact h.start x hx
          · simp at hx; subst hx; exact ⟨td, ht⟩, h.end_⟩
      · simp only [hst, if_false]
        exact ⟨h.abs, h.start, fun x hx => by
          rcases List.mem_append.mp hx with hx | hx
          · exact h.end_ x hx
          · simp at hx; subst hx; exact ⟨td, ht⟩⟩

theorem sorted_empty : Sorted {} := ⟨by simp, by simp, by simp⟩

theorem sorted_foldl (as : List VAlarm) : ∀ s, Sorted s → Sorted (as.foldl addAlarm s) := by
  induction as with
  | nil => intro s h; exact h
  | cons a as ih => intro s h; exact ih _ (sorted_addAlarm s a h)

/-- every state that `Alarms(component)` and the setters produce is sorted -/
theorem sorted_ofComponent (p : Parent) (start end_ : Option Trig) (alarms : List VAlarm) : Sorted (ofComponent p start end_ alarms) := by
  unfold ofComponent addComponent
  apply sorted_foldl
  cases p.isThunderbird <;> exact ⟨by simp [setStart, setEnd, acknowledgeUntil, snoozeUntil], by simp [setStart, setEnd, acknowledgeUntil, snoozeUntil], by simp [setStart, setEnd, acknowledgeUntil, snoozeUntil]⟩

/-! ### `add_component`, `add_alarm` and the setters -/

/-- the translated `add_alarm` is the model's `addAlarm` on the three lists -/
theorem add_alarm_eq (s : State) (a : VAlarm) :
    addAlarmP a s.absoluteAlarms s.startAlarms s.endAlarms =
      ((addAlarm s a).absoluteAlarms, (addAlarm s a).startAlarms, (addAlarm s a).endAlarms) := by
  unfold addAlarmP Alarms_add_alarm addAlarm
  cases ht : a.trigger with
  | none => simp [ht]
  | some t =>
    simp only [relatedIsStartP, ht]
    by_cases hab : t.isAbs = true
    · simp [hab]
    · by_cases hst : a.triggerRelated = START <;> simp [hab, hst]

/-- `add_alarm` does not touch the other attributes -/
theorem addAlarm_other (s : State) (a : VAlarm) :
    (addAlarm s a).start = s.start ∧ (addAlarm s a).end_ = s.end_ ∧ (addAlarm s a).lastAck = s.lastAck ∧
      (addAlarm s a).snooze = s.snooze ∧ (addAlarm s a).localTz = s.localTz := by
  unfold addAlarm
  cases a.trigger with
  | none => simp
  | some t => by_cases h1 : t.isAbs = true <;> by_cases h2 : a.triggerRelated = START <;> simp [h1, h2]

theorem add_component_loop (as : List VAlarm) : ∀ (s : State),
    Alarms_add_component_loop1 (alarm_trigger := fun a => a.trigger) (trigger_is_date := TriggerV.isAbs)
        (related_is_start := relatedIsStartP) s.absoluteAlarms s.startAlarms s.endAlarms as =
      .ok ((as.foldl addAlarm s).absoluteAlarms, (as.foldl addAlarm s).startAlarms, (as.foldl addAlarm s).endAlarms) := by
  induction as with
  | nil => intro s; rfl
  | cons a as ih =>
    intro s
    rw [Alarms_add_component_loop1]
    have h := add_alarm_eq s a
    unfold addAlarmP at h
    simp only [h, List.foldl_cons]
    exact ih (addAlarm s a)

theorem foldl_other (as : List VAlarm) : ∀ (s : State),
    (as.foldl addAlarm s).start = s.start ∧ (as.foldl addAlarm s).end_ = s.end_ ∧ (as.foldl addAlarm s).lastAck = s.lastAck ∧
      (as.foldl addAlarm s).snooze = s.snooze := by
  induction as with
  | nil => intro s; simp
  | cons a as ih =>
    intro s
    obtain ⟨h1, h2, h3, h4, _⟩ := addAlarm_other s a
    obtain ⟨i1, i2, i3, i4⟩ := ih (addAlarm s a)
    simp only [List.foldl_cons]
    exact ⟨i1.trans h1, i2.trans h2, i3.trans h3, i4.trans h4⟩

/-- the translated `Alarms.add_component` (with `set_parent`, `set_start`, `set_end`, `acknowledge_until`, `snooze_until`,
    `add_alarm`) is the model's `addComponent` -/
theorem add_component_eq (s : State) (par : Option CompView) (c : CompView) :
    alarmsAddComponentP c (fieldsOf s par) = .ok (fieldsOf (addComponent s c.parent c.start c.end_ c.alarms) (some c)) := by
  obtain ⟨p, st, en, as⟩ := c
  have hack : ∀ (o : Option Int) (la : Option Trig), Alarms_acknowledge_until (awareOpt o) la id = awareOpt o := by
    intro o la; cases o <;> rfl
  have hsn : ∀ (o : Option Int) (la : Option Trig), Alarms_snooze_until (awareOpt o) la id = awareOpt o := by
    intro o la; cases o <;> rfl
  unfold alarmsAddComponentP Alarms_add_component fieldsOf addComponent
  simp only [hack, hsn, Alarms_set_parent, Alarms_set_start, Alarms_set_end, startP, endP]
  by_cases ht : p.isThunderbird = true
  · have hl := add_component_loop as (snoozeUntil (acknowledgeUntil (setEnd (setStart s st) en) p.lastack) p.snoozeTime)
    have ho := foldl_other as (snoozeUntil (acknowledgeUntil (setEnd (setStart s st) en) p.lastack) p.snoozeTime)
    simp only [setStart, setEnd, acknowledgeUntil, snoozeUntil] at hl ho
    cases par <;> cases st <;> cases en <;>
      simp [ht, caught, bind, Except.bind, pure, Except.pure, setStart, setEnd, acknowledgeUntil, snoozeUntil, hl, ho]
  · have hl := add_component_loop as (acknowledgeUntil (setEnd (setStart s st) en) p.dtstamp)
    have ho := foldl_other as (acknowledgeUntil (setEnd (setStart s st) en) p.dtstamp)
    simp only [setStart, setEnd, acknowledgeUntil, snoozeUntil] at hl ho
    cases par <;> cases st <;> cases en <;>
      simp [ht, caught, bind, Except.bind, pure, Except.pure, setStart, setEnd, acknowledgeUntil, snoozeUntil, hl, ho]

/-- `add_component` keeps the lists sorted -/
theorem sorted_addComponent (s : State) (h : Sorted s) (p : Parent) (start end_ : Option Trig) (alarms : List VAlarm) :
    Sorted (addComponent s p start end_ alarms) := by
  unfold addComponent
  apply sorted_foldl
  cases p.isThunderbird <;> exact ⟨h.abs, h.start, h.end_⟩

/-- the translated `times` on the attributes is the model's `times` -/
theorem timesF_eq (loc : Int → Int) (s : State) (par : Option CompView) (h : Sorted s) :
    timesF loc s.localTz (fieldsOf s par) = liftA ((times loc s).map (List.map toATup)) :=
  times_eq loc s h

/-- the whole chain as translated - `add_component(c)` on a sorted state, then `times` - is the model's -/
theorem add_component_times (loc : Int → Int) (s : State) (par : Option CompView) (c : CompView) (h : Sorted s) :
    (alarmsAddComponentP c (fieldsOf s par) >>= timesF loc s.localTz) =
      liftA ((times loc (addComponent s c.parent c.start c.end_ c.alarms)).map (List.map toATup)) := by
  rw [add_component_eq]
  have hl : (addComponent s c.parent c.start c.end_ c.alarms).localTz = s.localTz := by
    unfold addComponent
    have : ∀ (as : List VAlarm) (s1 : State), (as.foldl addAlarm s1).localTz = s1.localTz := by
      intro as
      induction as with
      | nil => intro s1; rfl
      | cons a as ih => intro s1; simp only [List.foldl_cons]; rw [ih]; exact (addAlarm_other s1 a).2.2.2.2
    rw [this]
    cases c.parent.isThunderbird <;> rfl
  show timesF loc s.localTz (fieldsOf _ (some c)) = _
  rw [← hl]
  exact timesF_eq loc _ (some c) (sorted_addComponent s h _ _ _ _)

end ICal.Bodies
