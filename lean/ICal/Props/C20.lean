/-
  C20 — Traversal is complete and in pre-order; component equality is an order-insensitive
  equivalence that distinguishes kind, values and the multiset of subcomponents.

  Property theorems only; helper lemmas are in ICal/Lemmas/Walk.lean and ICal/Lemmas/CompEq.lean.
  `walk`, `events`, `todos`, `timezones`, `compEq` are the models of Component.walk/_walk,
  Calendar.events/todos/timezones and Component.__eq__ (Model/Walk.lean).

  Value equality (`__eq__` of the value classes of prop.py) is a parameter `veq` of `compEq`; the
  theorems assume of it exactly what each needs (reflexive / `VEquiv veq` = equivalence relation).
  `Comp.WF t` says that inside every component the property keys are pairwise distinct — they are
  keys of a Python dict, so every tree extracted from a live component satisfies it.

  Not in the model (checked on the implementation by harness/props/C20.py): comparison with
  non-components, the letter case of property names (keys are upper-cased by
  CaselessDict.__setitem__ before they reach the tree), and that deepcopy / pickle reproduce the
  attribute state — a copy with the same state is the same tree, which is `==` by `eq_refl` and
  serialises identically because serialisation is a function of the tree.  The
  serialise-and-parse copy is a theorem of the model (`reparse_eq`, on the domain of C01).
-/
import ICal.Lemmas.CompEq
import ICal.Props.C01
import ICal.Lemmas.BodiesWalk
namespace ICal.C20

/-! ### traversal -/

/-- `walk()` without name and predicate is the pre-order listing of the tree. -/
theorem walk_preorder (t : Comp) : walk none (fun _ => true) t = preorder t := by
  simp [walk, walkAux_filter, walkTest]

/-- ... and so returns as many components as the tree has. -/
theorem walk_length (t : Comp) : (walk none (fun _ => true) t).length = size t := by
  rw [walk_preorder, preorder_length]

/-- the pre-order listing is: the component itself, then the listings of its subcomponents in order -/
theorem preorder_unfold (n : Str) (p : List Entry) (subs : List Comp) :
    preorder (.mk n p subs) = .mk n p subs :: subs.flatMap preorder :=
  preorder_eq n p subs

/-- Every nested component exactly once: the pre-order listing enumerates the positions
    (child-index paths) of the tree without repetition, each position with the component found
    there, and every position that exists in the tree is enumerated. -/
theorem walk_exactly_once (t : Comp) :
    (positions t).Nodup ∧
    (positions t).map (compAt t) = (walk none (fun _ => true) t).map some ∧
    ∀ path d, compAt t path = some d → path ∈ positions t := by
  rw [walk_preorder]
  exact ⟨positions_nodup t, positions_preorder t, positions_complete t⟩

/-- `walk(select=sel)`: the pre-order listing restricted to the predicate. -/
theorem walk_select (sel : Comp → Bool) (t : Comp) : walk none sel t = (preorder t).filter sel := by
  have h : walkTest none sel = sel := by funext c; simp [walkTest]
  simp [walk, walkAux_filter, h]

/-- `walk(name, select)`: the pre-order listing restricted to the components whose name is the
    upper-cased requested name and that satisfy the predicate. -/
theorem walk_filter (n : Str) (sel : Comp → Bool) (t : Comp) :
    walk (some n) sel t = (preorder t).filter (fun c => c.name == upper n && sel c) := by
  have h : walkTest (some (upper n)) sel = (fun c => c.name == upper n && sel c) := by
    funext c; simp [walkTest]
  simp [walk, walkAux_filter, h]

/-- the requested name is matched case-insensitively: any spelling with the same upper-casing
    gives the same result -/
theorem walk_name_case (n m : Str) (sel : Comp → Bool) (t : Comp) (h : upper n = upper m) :
    walk (some n) sel t = walk (some m) sel t := by
  rw [walk_filter, walk_filter, h]

/-- `events`, `todos`, `timezones` return exactly the components of that kind, in pre-order. -/
theorem events_spec (t : Comp) : events t = (preorder t).filter (fun c => c.name == VEVENT) := by
  have h : upper VEVENT = VEVENT := by decide
  simp [events, walk_filter, h]

theorem todos_spec (t : Comp) : todos t = (preorder t).filter (fun c => c.name == VTODO) := by
  have h : upper VTODO = VTODO := by decide
  simp [todos, walk_filter, h]

theorem timezones_spec (t : Comp) : timezones t = (preorder t).filter (fun c => c.name == VTIMEZONE) := by
  have h : upper VTIMEZONE = VTIMEZONE := by decide
  simp [timezones, walk_filter, h]

/-! ### equality -/

/-- reflexive -/
theorem eq_refl (veq : Val → Val → Bool) (hr : ∀ v, veq v v = true) (t : Comp) (hw : Comp.WF t) :
    compEq veq t t = true :=
  compEq_refl veq hr (size t) t (Nat.le_refl _) hw

/-- symmetric: `a == b` and `b == a` give the same answer -/
theorem eq_symm (veq : Val → Val → Bool) (hv : VEquiv veq) (a b : Comp) (wa : Comp.WF a) (wb : Comp.WF b) :
    compEq veq a b = compEq veq b a := by
  have S := (compEq_symm_trans veq hv (max (size a) (size b))).1
  have h1 := S a b (Nat.le_max_left _ _) (Nat.le_max_right _ _) wa wb
  have h2 := S b a (Nat.le_max_right _ _) (Nat.le_max_left _ _) wb wa
  cases hab : compEq veq a b <;> cases hba : compEq veq b a <;> simp_all

/-- transitive -/
theorem eq_trans (veq : Val → Val → Bool) (hv : VEquiv veq) (a b c : Comp)
    (wa : Comp.WF a) (wb : Comp.WF b) (wc : Comp.WF c)
    (h1 : compEq veq a b = true) (h2 : compEq veq b c = true) : compEq veq a c = true := by
  have T := (compEq_symm_trans veq hv (max (size a) (max (size b) (size c)))).2
  exact T a b c (by omega) (by omega) (by omega) wa wb wc h1 h2

/-- Equal iff same kind, equal property maps, and the subcomponent lists are permutations of
    each other up to equality (a one-to-one matching exists): the greedy loop of `__eq__`
    finds a matching whenever there is one. -/
theorem eq_multiset (veq : Val → Val → Bool) (hv : VEquiv veq) (a b : Comp) (wa : Comp.WF a) (wb : Comp.WF b) :
    compEq veq a b = true ↔
      a.name = b.name ∧ propsEq veq a.props b.props = true ∧
        ∃ l, l.Perm b.subs ∧ Forall2 (fun c d => compEq veq c d = true) a.subs l := by
  constructor
  · exact compEq_sound veq a b
  · rintro ⟨hn, hp, hm⟩
    apply compEq_complete veq a b hn hp hm
    have wa' := (WF_iff a).1 wa
    have wb' := (WF_iff b).1 wb
    intro c hc c' hc' x hx y hy e1 e2 e3
    have f1 : compEq veq x c = true := by
      rw [eq_symm veq hv x c (wb'.2 x hx) (wa'.2 c hc)]; exact e1
    have f2 := eq_trans veq hv c' x c (wa'.2 c' hc') (wb'.2 x hx) (wa'.2 c hc) e3 f1
    exact eq_trans veq hv c' c y (wa'.2 c' hc') (wa'.2 c hc) (wb'.2 y hy) f2 e2

/-- the order of the subcomponents is ignored -/
theorem eq_perm_subs (veq : Val → Val → Bool) (hv : VEquiv veq) (n : Str) (p : List Entry)
    (subs subs' : List Comp) (hw : Comp.WF (.mk n p subs)) (hperm : subs'.Perm subs) :
    compEq veq (.mk n p subs) (.mk n p subs') = true := by
  have hw' := (WF_iff _).1 hw
  have hw2 : Comp.WF (.mk n p subs') :=
    (WF_iff _).2 ⟨hw'.1, fun c hc => hw'.2 c (hperm.mem_iff.1 hc)⟩
  rw [eq_multiset veq hv _ _ hw hw2]
  refine ⟨rfl, propsEq_refl veq hv.refl p hw'.1, subs, hperm.symm, ?_⟩
  exact Forall2.refl_of _ (fun c hc => eq_refl veq hv.refl c (hw'.2 c hc))

/-- the insertion order of the properties is ignored -/
theorem eq_perm_props (veq : Val → Val → Bool) (hr : ∀ v, veq v v = true) (n : Str) (p p' : List Entry)
    (subs : List Comp) (hw : Comp.WF (.mk n p subs)) (hperm : p'.Perm p) :
    compEq veq (.mk n p subs) (.mk n p' subs) = true := by
  have hw' := (WF_iff _).1 hw
  rw [compEq_def]
  simp only [Comp.name, Comp.subs, Comp.props, Bool.and_eq_true, beq_iff_eq]
  refine ⟨⟨by simp, propsEq_perm veq hr p p' hw'.1 hperm⟩, ?_⟩
  apply greedy_diag
  rw [Forall2.map_left]
  exact Forall2.refl_of _ (fun c hc => eq_refl veq hr c (hw'.2 c hc))

/-! ### Clause pass (round 10): permutations at every depth -/

/-- Congruence under permutation: if the subcomponents of `b` are a permutation of a list whose
    members are `==` to the subcomponents of `a` one by one (each of them possibly with ITS
    subcomponents permuted, and so on downwards), then `a == b`.  Applied level by level this is
    "the order of subcomponents is ignored at every depth". -/
theorem eq_congr_perm (veq : Val → Val → Bool) (hv : VEquiv veq) (n : Str) (p : List Entry)
    (subs l subs' : List Comp) (hw : Comp.WF (.mk n p subs)) (hw2 : Comp.WF (.mk n p subs'))
    (hl : l.Perm subs') (hf : Forall2 (fun c d => compEq veq c d = true) subs l) :
    compEq veq (.mk n p subs) (.mk n p subs') = true :=
  (eq_multiset veq hv _ _ hw hw2).2 ⟨rfl, propsEq_refl veq hv.refl p ((WF_iff _).1 hw).1, l, hl, hf⟩

/-- Two levels at once: permuting the children and, inside one child, the grandchildren. -/
theorem eq_perm_depth2 (veq : Val → Val → Bool) (hv : VEquiv veq) (n m : Str) (p q : List Entry)
    (xs xs' rest rest' : List Comp) (hw : Comp.WF (.mk n p (.mk m q xs :: rest)))
    (hx : xs'.Perm xs) (hr : rest'.Perm (.mk m q xs' :: rest)) :
    compEq veq (.mk n p (.mk m q xs :: rest)) (.mk n p rest') = true := by
  have hw' := (WF_iff _).1 hw
  have hin : Comp.WF (.mk m q xs) := hw'.2 _ (by simp [Comp.subs])
  have hin' := (WF_iff _).1 hin
  have hin2 : Comp.WF (.mk m q xs') :=
    (WF_iff _).2 ⟨hin'.1, fun c hc => hin'.2 c (hx.mem_iff.1 hc)⟩
  have hw2 : Comp.WF (.mk n p rest') := by
    refine (WF_iff _).2 ⟨hw'.1, fun c hc => ?_⟩
    have hc' : c ∈ Comp.mk m q xs' :: rest := hr.mem_iff.1 hc
    rcases List.mem_cons.mp hc' with rfl | hc'
    · exact hin2
    · exact hw'.2 c (by simp [Comp.subs, hc'])
  refine eq_congr_perm veq hv n p _ (.mk m q xs' :: rest) rest' hw hw2 hr.symm ?_
  refine Forall2.cons (eq_perm_subs veq hv m q xs xs' hin hx) ?_
  exact Forall2.refl_of _ (fun c hc => eq_refl veq hv.refl c (hw'.2 c (by simp [Comp.subs, hc])))

example (a b : Comp) : [b, a].Perm [a, b] := List.Perm.swap a b []

/-- components of different kind are never equal -/
theorem eq_distinguishes_kind (veq : Val → Val → Bool) (a b : Comp) (h : a.name ≠ b.name) :
    compEq veq a b = false := by
  rw [compEq_def]; simp [h]

/-- a different number of subcomponents is never equal -/
theorem eq_distinguishes_count (veq : Val → Val → Bool) (a b : Comp) (h : a.subs.length ≠ b.subs.length) :
    compEq veq a b = false := by
  rw [compEq_def]; simp [h]

/-- a property of `a` that `b` lacks, or holds with an unequal value (or as a list where `a`
    has a single value, or with one list element unequal), makes them unequal -/
theorem eq_distinguishes_value (veq : Val → Val → Bool) (a b : Comp) (e : Entry) (he : e ∈ a.props)
    (h : ∀ e', b.props.find? (fun x => x.name == e.name) = some e' → entryEq veq e e' = false) :
    compEq veq a b = false := by
  cases hc : compEq veq a b with
  | false => rfl
  | true =>
    obtain ⟨_, hp, _⟩ := compEq_sound veq a b hc
    obtain ⟨e', hf, hee⟩ := ((propsEq_iff veq _ _).1 hp).2 e he
    rw [h e' hf] at hee
    cases hee

/-- a subcomponent of `a` that equals no subcomponent of `b` makes them unequal (at any depth,
    by induction: a perturbed descendant makes its ancestor chain unequal to the originals) -/
theorem eq_distinguishes_sub (veq : Val → Val → Bool) (a b : Comp) (c : Comp) (hc : c ∈ a.subs)
    (h : ∀ d ∈ b.subs, compEq veq c d = false) : compEq veq a b = false := by
  rw [compEq_def]
  have := greedy_false_of_unmatched (a.subs.map (compEq veq)) b.subs (compEq veq c)
    (List.mem_map_of_mem hc) h
  simp [this]

/-- the multiset of subcomponents matters, not the set: `{e, e}` and `{e, f}` differ when
    `e` and `f` differ, although every subcomponent of the first occurs in the second -/
theorem eq_distinguishes_multiplicity (veq : Val → Val → Bool) (hr : ∀ v, veq v v = true) (n : Str) (p : List Entry)
    (e f : Comp) (we : Comp.WF e) (hef : compEq veq e f = false) :
    compEq veq (.mk n p [e, e]) (.mk n p [e, f]) = false := by
  rw [compEq_def]
  have hee := eq_refl veq hr e we
  simp [Comp.subs, greedy, removeFirst, hee, hef]

/-! ### the serialise-and-parse copy -/

/-- For every tree of C01's domain (names upper-case and escape-free, property names pairwise
    distinct, entries and values the parser can reproduce, VTIMEZONEs the parser can cache, items
    that make well-formed content lines): `to_ical()` succeeds, `from_ical` of its output returns
    exactly one component and no error, and that component is `==` to the original in both
    directions (for any reflexive value equality) and serialises to the same text.  The parsed
    tree differs from the original only in the insertion order of the properties of each
    component. -/
theorem reparse_eq (veq : Val → Val → Bool) (hr : ∀ v, veq v v = true)
    (tzok : Comp → Bool) (dec : Dec) (t : Comp)
    (hwf : WF dec t) (htz : TzOK tzok true t) (h : ∀ it ∈ items true t, ICal.C01.ItemOK it) :
    ∃ text t', toIcal true t = .ok text ∧ parseText tzok dec false text = some ([t'], []) ∧
      compEq veq t t' = true ∧ compEq veq t' t = true ∧ toIcal true t' = .ok text := by
  obtain ⟨text, h1, h2⟩ := ICal.C01.parse_toIcal tzok dec t hwf htz h
  have hw : Comp.WF t := compWF_of_WF dec t hwf
  have he := compEq_sortedTree veq true hr t hw
  refine ⟨text, sortedTree true t, h1, h2, he.1, he.2, ?_⟩
  rw [← h1]
  simp only [toIcal, contentLines, items_sortedTree]

/-- the structural value equality used by the driver is an equivalence relation, so the
    hypotheses above are satisfiable -/
theorem veqStructural_equiv : VEquiv veqStructural := by
  refine ⟨?_, ?_, ?_⟩
  · intro v; simp [veqStructural]
  · intro a b h; simp only [veqStructural, decide_eq_true_eq] at h ⊢; exact h.symm
  · intro a b c h1 h2; simp only [veqStructural, decide_eq_true_eq] at h1 h2 ⊢; exact h1.trans h2

/-! ### non-vacuity: concrete trees -/

section examples

private def tv (s : String) : Val := { kind := "vText".toList, text := s.toList, params := [] }
private def dt (s z : String) : Val :=
  { kind := "vDDDTypes".toList, text := s.toList, params := [("TZID".toList, .one z.toList)] }
private def ev (s : String) : Comp :=
  .mk VEVENT [{ name := "SUMMARY".toList, isList := false, vals := [tv s] },
              { name := "DTSTART".toList, isList := false, vals := [dt "20200101T120000" "Europe/Berlin"] }] []
private def xfoo : Comp := .mk "X-FOO".toList [] [ev "a"]
private def cal : Comp := .mk "VCALENDAR".toList [] [ev "a", xfoo, .mk VTODO [] [], ev "b", ev "a"]
private def cal' : Comp := .mk "VCALENDAR".toList [] [ev "a", ev "b", ev "a", .mk VTODO [] [], xfoo]

example : (walk none (fun _ => true) cal).map (·.name) =
    ["VCALENDAR", "VEVENT", "X-FOO", "VEVENT", "VTODO", "VEVENT", "VEVENT"].map String.toList := by decide
example : (events cal).length = 4 ∧ (todos cal).length = 1 ∧ (timezones cal).length = 0 := by decide
example : (walk (some "vEvent".toList) (fun c => c.subs.isEmpty) cal).length = 4 := by decide
example : positions cal = [[], [0], [1], [1, 0], [2], [3], [4]] := by decide
example : compEq veqStructural cal cal' = true ∧ compEq veqStructural cal' cal = true := by decide
example : compEq veqStructural (ev "a") (ev "b") = false := by decide
example : compEq veqStructural (.mk VEVENT [] []) (.mk VTODO [] []) = false := by decide
example : compEq veqStructural (.mk VEVENT [] [ev "a", ev "a"]) (.mk VEVENT [] [ev "a", ev "b"]) = false := by decide
/-- the recorded finding `one-element-list-vs-scalar`: a one-element list and the single value
    serialise alike but are not equal -/
example : compEq veqStructural
    (.mk VEVENT [{ name := "ATTENDEE".toList, isList := true, vals := [tv "a"] }] [])
    (.mk VEVENT [{ name := "ATTENDEE".toList, isList := false, vals := [tv "a"] }] []) = false := by decide

/-- `reparse_eq` applies to a tree whose entries the serialiser reorders (ATTENDEE was inserted
    before SUMMARY; SUMMARY is in VEVENT's canonical order): the hypotheses hold, the parsed tree
    has another entry order, and it is equal to the original both ways. -/
private def rsample : Comp :=
  .mk "VCALENDAR".toList [{ name := "VERSION".toList, isList := false, vals := [tv "2.0"] }]
    [.mk VEVENT
      [{ name := "ATTENDEE".toList, isList := true,
         vals := [{ kind := "vCalAddress".toList, text := "mailto:a@example.com".toList,
                    params := [("CN".toList, .one "A, B".toList)] },
                  { kind := "vCalAddress".toList, text := "mailto:b@example.com".toList, params := [] }] },
       { name := "SUMMARY".toList, isList := false, vals := [tv "x"] }]
      [.mk "VALARM".toList [{ name := "ACTION".toList, isList := false, vals := [tv "DISPLAY"] }] []]]
example : ∃ text t', toIcal true rsample = .ok text ∧
    parseText (fun _ => true) (fun _ t _ => some t) false text = some ([t'], []) ∧
    compEq veqStructural rsample t' = true ∧ compEq veqStructural t' rsample = true ∧
    toIcal true t' = .ok text :=
  reparse_eq veqStructural veqStructural_equiv.refl (fun _ => true) (fun _ t _ => some t) rsample
    (by simp only [rsample, WF, WFs, and_true]; decide) (TzOK_true true rsample) (by decide +kernel)
example : (sortedTree true rsample).subs.map (fun c => c.props.map (·.name)) =
    [["SUMMARY".toList, "ATTENDEE".toList]] := by decide +kernel

end examples

/-! ## Regenerated function bodies = hand model

  `ICal.Gen.BodiesWalk.Component__walk` / `Component_walk` are written by tools/py2lean.py from the current source
  of `Component._walk` / `Component.walk` on every run (the recursion over the tree, the loop
  `result += subcomponent._walk(name, select)`, the test `(name is None or self.name == name) and select(self)`,
  the upper-casing of the requested name; `select` is a function argument, ASCII upper-casing as in the model).
  The theorems prove them equal to `walkAux` / `walk`, which the theorems above are about. -/

theorem body__walk (name : Option Str) (sel : Comp → Bool) (c : Comp) :
    Gen.BodiesWalk.Component__walk c name sel = walkAux name sel c :=
  Bodies.Component__walk_eq name sel c

theorem body_walk (name : Option Str) (sel : Comp → Bool) (c : Comp) :
    Gen.BodiesWalk.Component_walk c name sel = walk name sel c :=
  Bodies.Component_walk_eq name sel c

end ICal.C20
