import ICal.Model.Line
namespace ICal.C08
end ICal.C08
