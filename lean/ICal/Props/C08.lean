/-
  C08 — property parameters survive serialising and parsing: same names (upper-cased), same values,
  same order; a single string holding a comma stays distinct from a list; every value holding
  `,` `;` `:` is emitted inside double quotes.
  Property theorems only; helper lemmas and the definitions `Balanced`, `ValueOk`, `PValOk`,
  `ParamDomain`, `canonVal`, `canon`, `KeySorted` are in ICal/Lemmas/Params.lean.
  `dquote`, `qJoin`, `qSplit`, `parseParamVals`, `paramsToIcal`, `paramsFromIcal` are the models of
  dquote / q_join / q_split / the value loop of Parameters.from_ical / Parameters.to_ical /
  Parameters.from_ical, built on the *generated* character classes (ICal.Gen, regenerated from
  /repo each run).
-/
import ICal.Lemmas.Params
import ICal.Lemmas.BodiesParser
import ICal.Lemmas.ParamsMore
namespace ICal.C08

/-- `,` `;` `:` are in QUOTABLE -/
theorem quotable_delims :
    inClass Gen.quotable ',' = true ∧ inClass Gen.quotable ';' = true ∧ inClass Gen.quotable ':' = true := by
  decide

/-- A value holding a comma, semicolon or colon is emitted inside double quotes (after the
    substitution of `'` for `"`). Unbounded in `v`. -/
theorem dquote_quotes (v : Str) (h : ∃ c ∈ v, c = ',' ∨ c = ';' ∨ c = ':') :
    dquote v = DQ :: rep1 DQ ['\''] v ++ [DQ] := by
  rw [dquote_def, if_pos]
  obtain ⟨c, hc, hcase⟩ := h
  rw [List.any_eq_true]
  have hne : c ≠ DQ := by rcases hcase with e | e | e <;> (rw [e]; decide)
  refine ⟨c, mem_rep1_of_ne DQ _ c hne v hc, ?_⟩
  rcases hcase with e | e | e <;> (rw [e]; decide)

/-- The backslash is in QUOTABLE (repair 89027b2): a value holding one is emitted inside double quotes, so a
    backslash at the END of a value can no longer stand in front of the delimiter the library writes after the
    value (`\\;` `\\:` `\\,` are what `escape_string` hides).  The recorded finding `param-escape-hazard` is
    about backslash sequences INSIDE a quoted value only; this theorem keeps the repaired part repaired. -/
theorem quotable_backslash : inClass Gen.quotable '\\' = true := by decide

theorem dquote_quotes_backslash (v : Str) (h : '\\' ∈ v) :
    dquote v = DQ :: rep1 DQ ['\''] v ++ [DQ] := by
  rw [dquote_def, if_pos]
  rw [List.any_eq_true]
  exact ⟨'\\', mem_rep1_of_ne DQ _ '\\' (by decide) v h, by decide⟩

/-- `q_split` inverts joining on `sep` for segments that hold no `sep` outside double quotes and
    close their quotes. (`sep ≠ DQ` is necessary: `q_split('a"b', '"')` is `['a"b']`.) -/
theorem qsplit_join (sep : Char) (hs : sep ≠ DQ) (segs : List Str) (hne : joinWith [sep] segs ≠ [])
    (hb : ∀ s ∈ segs, Balanced sep s) : qSplit (joinWith [sep] segs) sep = segs :=
  qSplit_join sep hs segs hne hb

/-- `q_split(item, '=', maxsplit=1)` cuts `KEY=value` after the key, whatever the value holds. -/
theorem qsplit_key_val (k v : Str) (hk : validToken k = true) :
    qSplit (k ++ '=' :: v) '=' (some 1) = [k, v] :=
  qSplit_key_val k v hk

/-- What `dquote` returns never shows `,` or `;` outside double quotes — for every string. -/
theorem dquote_balanced (v : Str) : Balanced ',' (dquote v) ∧ Balanced ';' (dquote v) :=
  ⟨dquote_balanced_any ',' quotable_comma (by decide) v, dquote_balanced_any ';' quotable_semi (by decide) v⟩

/-- A whole item `KEY=value` (string or list value) never shows `;` outside double quotes. -/
theorem item_balanced (k : Str) (v : PVal) (hk : validToken k = true) :
    Balanced ';' (k ++ ['='] ++ paramValue v) := by
  refine ((balanced_plain ';' k (validToken_noDQ _ hk) (validToken_noSep _ hk)).append
    (by decide)).append ?_
  exact paramValue_balanced ';' quotable_semi (by decide) (by decide) v

/-- The values of one parameter: join-and-split returns the list item by item, unquoted.
    (`qJoin xs = []` only for `xs = [[]]`, see `param_vals_empty`.) -/
theorem param_vals_roundtrip (xs : List Str) (_hne : xs ≠ []) (hd : ∀ x ∈ xs, ValueOk x) (hq : qJoin xs ≠ []) :
    parseParamVals false (qSplit (qJoin xs) ',') = some xs :=
  parse_qJoin xs hd hq

/-- The one list whose text is empty. -/
theorem param_vals_empty (xs : List Str) (hne : xs ≠ []) (hq : qJoin xs = []) : xs = [[]] :=
  qJoin_eq_nil xs hne hq

/-- ASCII upper-casing (the model's `upper`) is idempotent. -/
theorem upper_idempotent (k : Str) : upper (upper k) = upper k := upper_idem k

/-- Main theorem: parsing the serialised map gives the map sorted by key, every value unchanged
    except that a one-element list comes back as its element (`canonVal`). Unbounded in the number
    of parameters, list lengths and string lengths. -/
theorem params_roundtrip (m : Params) (hd : ParamDomain m) :
    paramsFromIcal (paramsToIcal m true) false = some (canon m) :=
  fromIcal_toIcal m hd

/-- Order: the parsed keys are sorted in code point order, nothing is lost or added, and every
    key reads back its value (`canonVal` keeps a list of two or more items as the same list, in
    the same order). -/
theorem params_order (m : Params) (hd : ParamDomain m) :
    ∃ p, paramsFromIcal (paramsToIcal m true) false = some p ∧
      List.Pairwise (fun a b => strLe a b = true) (p.map Prod.fst) ∧
      p.length = m.length ∧
      ∀ kv ∈ m, p.get? kv.1 = some (canonVal kv.2) :=
  ⟨canon m, fromIcal_toIcal m hd, canon_sorted m, canon_length m, fun kv h => canon_get? m hd kv h⟩

/-- A single string stays a single string (even when it holds a comma), and a list of two or
    more strings stays that list. -/
theorem params_values (m : Params) (hd : ParamDomain m) :
    ∃ p, paramsFromIcal (paramsToIcal m true) false = some p ∧
      (∀ k x, (k, PVal.one x) ∈ m → p.get? k = some (PVal.one x)) ∧
      (∀ k xs, (k, PVal.many xs) ∈ m → 2 ≤ xs.length → p.get? k = some (PVal.many xs)) := by
  refine ⟨canon m, fromIcal_toIcal m hd, ?_, ?_⟩
  · intro k x h
    exact canon_get? m hd (k, .one x) h
  · intro k xs h hl
    have := canon_get? m hd (k, .many xs) h
    match xs, hl with
    | a :: b :: r, _ => exact this

/-! Non-vacuity: a map with a quoted value holding `,;:`, a list with a quoted item, an empty
    value, a one-element list and a lower-case plain value lies in the domain; the round trip
    on it is checked by evaluation. -/
example : ParamDomain sampleParams := by decide
example : paramsToIcal sampleParams true =
    "A.1=one;CN=\"x,;: y\";E=;X-B=\"a,b\",c;Z_=,".toList := by decide
example : paramsFromIcal (paramsToIcal sampleParams true) false = some (canon sampleParams) := by decide
example : canon sampleParams =
  [(['A', '.', '1'], .one ['o', 'n', 'e']),
   (['C', 'N'], .one ['x', ',', ';', ':', ' ', 'y']),
   (['E'], .one []),
   (['X', '-', 'B'], .many [['a', ',', 'b'], ['c']]),
   (['Z', '_'], .many [[], []])] := by decide
example : Balanced ';' ("CN=\"x,;: y\"".toList) ∧ ¬ Balanced ';' ("CN=x;y".toList) := by decide
example : ∃ c ∈ ['x', ',', ';', ':', ' ', 'y'], c = ',' ∨ c = ';' ∨ c = ':' := ⟨',', by decide, Or.inl rfl⟩
example : ValueOk ['x', ',', ';', ':', ' ', 'y'] ∧ ¬ ValueOk ['a', '"'] ∧ ¬ ValueOk ['a', '\n'] := by decide

/-! ## Clause pass (round 10) -/

/-- "… so no other conforming parser splits it differently", for the colon that ends the
    parameter part of a content line: the WHOLE text of `Parameters.to_ical` (either order) shows
    no colon outside double quotes — for every value whatsoever, in the domain or not. -/
theorem params_no_bare_colon (m : Params) (sorted : Bool)
    (hk : ∀ kv ∈ m, validToken (upper kv.1) = true) : Balanced ':' (paramsToIcal m sorted) :=
  paramsToIcal_balanced_colon m sorted hk

example : Balanced ':' (paramsToIcal [(['C','N'], .one ['a', ':', '"', ':', 'b']), (['X'], .many [[':'], ['c']])] false) := by
  decide

/-- "The same values in the same order" with `sorted=False`: the parsed map lists the names in
    insertion order, every value unchanged up to `canonVal`. -/
theorem params_roundtrip_unsorted (m : Params) (hd : ParamDomain m) :
    paramsFromIcal (paramsToIcal m false) false = some (m.map (fun kv => (kv.1, canonVal kv.2))) :=
  fromIcal_toIcal_unsorted m hd

example : ParamDomain [(['Z'], .one ['a', ',', 'b']), (['A'], .many [['x'], [';']])] := by decide

/-- Names are compared case-insensitively, writing side: re-casing the stored names in any way
    that keeps their upper-cased form does not change the text. -/
theorem params_name_case_write (m : Params) (f : Str → Str) (hf : ∀ k, upper (f k) = upper k) :
    paramsToIcal (m.map (fun kv => (f kv.1, kv.2))) false = paramsToIcal m false := by
  unfold paramsToIcal
  simp [List.map_map, Function.comp_def, hf]

example : ∀ k, upper (upper k) = upper k := upper_idem
example : paramsToIcal [(['c','n'], .one ['a']), (['X','-','y'], .one [])] false =
    paramsToIcal [(['C','n'], .one ['a']), (['x','-','Y'], .one [])] false := by decide

/-- Names are compared case-insensitively, reading side: two items whose names differ only in
    letter case are read as the same (name, value), strict or not. -/
theorem params_name_case_read (strict : Bool) (k k' v : Str) (hk : validToken k = true)
    (hk' : validToken k' = true) (hu : upper k = upper k') :
    parseParam strict (k ++ '=' :: v) = parseParam strict (k' ++ '=' :: v) :=
  parseParam_name_case strict k k' v hk hk' hu

example : parseParam false ("cn=a".toList) = parseParam false ("CN=a".toList) ∧
    parseParam false ("cn=a".toList) = some (['C','N'], .one ['a']) := by decide

/-- §5.3/1 spelled out: a one-element list and its element have the SAME text (no reader can tell
    them apart — they are identified by `canonVal`), while a single string holding a comma is
    written quoted and is read back as that one string, never as a list. -/
theorem one_element_list_same_text (x : Str) : paramValue (.many [x]) = paramValue (.one x) := rfl

theorem comma_string_stays_single (k x : Str) (hk : validToken k = true) (hu : upper k = k)
    (hx : ValueOk x) (hc : ',' ∈ x) :
    paramValue (.one x) = DQ :: x ++ [DQ] ∧
    paramsFromIcal (paramsToIcal [(k, .one x)] true) false = some [(k, .one x)] := by
  constructor
  · have := dquote_quotes x ⟨',', hc, Or.inl rfl⟩
    rw [rep1_of_not_mem DQ _ x hx.1] at this
    exact this
  · have hd : ParamDomain [(k, .one x)] := by
      refine ⟨by simp, ?_⟩
      intro kv hkv
      simp only [List.mem_cons, List.not_mem_nil, or_false] at hkv
      subst hkv; exact ⟨⟨hk, hu⟩, hx⟩
    rw [params_roundtrip _ hd]
    simp [canon, sortByKey, insertByKey, canonVal]

example : ValueOk ['a', ',', 'b'] ∧ ',' ∈ ['a', ',', 'b'] := by decide

/-! ## Regenerated function bodies = hand model

  `ICal.Gen.BodiesParser.dquote` / `q_join` are written by tools/py2lean.py from the current source
  text of `parser.dquote` / `parser.q_join` on every run (`.replace`, the f-string, the early return,
  `sep.join(dquote(itm) for itm in lst)`).  `QUOTABLE.search` is a predicate parameter;
  `Bodies.quotableSearch` ("some character is in the generated class `Gen.quotable`") is its hand
  model, compared with the real regex every run.  The theorems prove the regenerated bodies equal to
  the models `dquote` / `qJoin` that every theorem above is about. -/

theorem body_dquote (v : Str) : Gen.BodiesParser.dquote v Bodies.quotableSearch = dquote v :=
  Bodies.dquote_eq v

theorem body_q_join (l : List Str) : Gen.BodiesParser.q_join l [','] Bodies.quotableSearch = qJoin l :=
  Bodies.q_join_eq l

/-- an instance of what the tie buys: the quoting clause holds of what the translated code emits -/
theorem body_dquote_quotes (v : Str) (h : ∃ c ∈ v, c = ',' ∨ c = ';' ∨ c = ':') :
    Gen.BodiesParser.dquote v Bodies.quotableSearch = DQ :: rep1 DQ ['\''] v ++ [DQ] := by
  rw [body_dquote]; exact dquote_quotes v h

example : Gen.BodiesParser.dquote "a,b".toList Bodies.quotableSearch = "\"a,b\"".toList := by decide
example : Gen.BodiesParser.q_join ["a;b".toList, "c".toList] [','] Bodies.quotableSearch = "\"a;b\",c".toList := by decide

/-- `parser.q_split` regenerated (wave 3: `for i, ch in enumerate(st)` with `break`, `st[cursor:i]`, a flag
    that starts as the int 0): equal to the model `qSplit` for a one-character separator; the int
    `maxsplit` of the source is `Bodies.maxsplitOf m` (`-1`, any negative value: no limit). -/
theorem body_q_split (st : Str) (c : Char) (m : Int) :
    Gen.BodiesParser.q_split st [c] m = qSplit st c (Bodies.maxsplitOf m) :=
  Bodies.q_split_eq st c m

example : Gen.BodiesParser.q_split "a,\"b,c\",d".toList [','] (-1) = ["a".toList, "\"b,c\"".toList, "d".toList] := by
  decide
example : Gen.BodiesParser.q_split "K=a=b".toList ['='] 1 = ["K".toList, "a=b".toList] := by decide

end ICal.C08
