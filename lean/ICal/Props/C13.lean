/-
  C13 — a VTIMEZONE generated from a provider zone reproduces the zone.
  Property theorems only; helper lemmas are in ICal/Lemmas/TzGen.lean, the model in
  ICal/Model/TzGen.lean (`fromInfo` / `fromTzinfo` = Timezone.from_tzinfo: outer loop, coarse-to-fine
  search with retract and overflow break, grouping by (from, to, name, is_standard), DTSTART/RDATE
  emission) and ICal/Model/Tz.lean (`specAt` = the RFC 5545 reading).
  The zone is a function `info` of the algorithm's own clock; the theorems about the RFC reading are
  for the UTC clock (pytz path: wall time written = x + offset); the wall-clock variant (zoneinfo) is
  covered by the correspondence run and the oracle.
-/
import ICal.Lemmas.TzGen
import ICal.Lemmas.TzGenMore
namespace ICal.C13
open ICal.Tz (Obs specAt specEntries specAt_latest specAt_none)
open ICal.TzGen

/-- The coarse-to-fine search finds the next offset change exactly: if the offset is `o` on
    `[s, T)`, differs at `T` and does not come back to `o` within the coarsest step (64 days), the
    search with the code's step list stops one tick before `T` (so the next segment starts at `T`). -/
theorem search_finds_next (off : Int → Int) (o s T H : Int) (hsT : s < T)
    (hB : ∀ t, s ≤ t → t < T → off t = o) (hA : ∀ t, T ≤ t → t < T + maxStep → off t ≠ o)
    (hH : T + maxStep ≤ H) : search off o H skipSearch s = .ok (T - 1) := by
  obtain ⟨e', h, _, _, hl⟩ := search_spec off o T maxStep H s hB hA hH skipSearch s skipSearch_steps
    (Int.le_refl _) hsT
  rw [h, hl skipSearch_last]

/-- The outer loop finds every transition: along a chain of visible offset changes the segments it
    produces start exactly at the chain points before `last`, each with the zone's offset, name and
    dst flag at its start, the wall time of its start, and the offset in force before it. -/
theorem gen_onset (info : Int → Info) (wallOf : Int → Int) (H first last : Int) (Ts : List Int)
    (hc : Chain info H last first Ts) (hH : last + maxStep ≤ H) :
    outer info wallOf skipSearch H last ((last - first).toNat + 1) first none
      = some (segsOf info wallOf last none first Ts) ∧
    ∀ g ∈ segsOf info wallOf last none first Ts,
      first ≤ g.start ∧ g.start < last ∧ g.offTo = (info g.start).off ∧ g.name = (info g.start).name ∧
      g.isStd = (info g.start).isStd ∧ g.wall = wallOf g.start := by
  refine ⟨outer_chain info wallOf H last hH Ts first hc _ none (by omega), ?_⟩
  intro g hg
  obtain ⟨h1, h2⟩ := segsOf_start_ge info wallOf H last Ts first none hc g hg
  obtain ⟨h3, h4, h5, h6⟩ := segsOf_ok info wallOf last Ts first none g hg
  exact ⟨h1, h2, h3, h4, h5, h6⟩

/-- The applicability check the driver runs on the table of every real zone is sound: when
    `chainOK` answers true for an ascending table, the zone has a `Chain` in the sense of
    `gen_onset` / `gen_faithful_partial` (so the zones the theorems cover are computed, not assumed). -/
theorem chainOK_sound (Z : Zone) (H first last : Int) (hs : sortedRows Z.rows = true)
    (hc : chainOK Z.init Z.rows first last = true) (hH : last + maxStep ≤ H) :
    ∃ Ts, Chain Z.info H last first Ts :=
  chainOK_sound_aux Z.info H first last hH Z.rows Z.init hs (fun _ _ => rfl) hc

/-- the generated component, read by RFC 5545 onset rules at `t`, says `i` -/
def Reads (gen : List GenObs) (t : Int) (i : Info) : Prop :=
  ∃ b, specAt (gen.map toObs) t = some b ∧ b.2.offTo = i.off ∧ b.2.name = i.name ∧ b.2.isDst = !i.isStd

/-- C13 (faithfulness) at full strength, UTC clock: whatever the zone, at every instant of the
    window the generated component reads as the zone. FALSE on the code (D16a, D16b): see
    `short_excursion_witness` and `onset_shift_witness`. -/
def gen_faithful_full : Prop :=
  ∀ (Z : Zone), Z.wallIsClock = false → ∀ (H first last lastWall : Int) (gen : List GenObs),
    last + maxStep ≤ H → fromTzinfo Z H first last lastWall = some gen →
    ∀ t, first ≤ t → t < last → Reads gen t (Z.info t)

/-- C13 (faithfulness) as it holds of the code, UTC clock. Hypotheses beyond the full statement:
    * `Chain`: every change in the window is an offset change that persists for the coarsest step
      (complement of the finding class `tzgen-excursion`, decided per zone by `chainOK`);
    * `hout`: `t` does not lie between a transition and the onset the generated component gives it
      (complement of `tzgen-onset-shift`; `onsetOf g = g.start + (to − from)`, see `onset_is_shifted`);
    * `hsep`: the misplaced onsets are still in the order of the transitions;
    * `hnld`: no wall time of a start falls on `last_date` (the code moves such a DTSTART to midnight). -/
theorem gen_faithful_partial (info : Int → Info) (H first last lastWall : Int) (Ts : List Int)
    (hc : Chain info H last first Ts) (hH : last + maxStep ≤ H) (gen : List GenObs)
    (hgen : fromInfo info (fun x => x + (info x).off) H first last lastWall = some gen)
    (hnld : ∀ g ∈ segsOf info (fun x => x + (info x).off) last none first Ts,
      ¬ (lastWall ≤ g.wall ∧ g.wall < lastWall + 86400))
    (hsep : ∀ a ∈ segsOf info (fun x => x + (info x).off) last none first Ts,
      ∀ b ∈ segsOf info (fun x => x + (info x).off) last none first Ts, a.start < b.start → onsetOf a < onsetOf b)
    (t : Int) (h1 : first ≤ t) (h2 : t < last)
    (hout : ∀ g ∈ segsOf info (fun x => x + (info x).off) last none first Ts,
      (g.start ≤ t → onsetOf g ≤ t) ∧ (onsetOf g ≤ t → g.start ≤ t)) :
    Reads gen t (info t) := by
  have houter := outer_chain info (fun x => x + (info x).off) H last hH Ts first hc
    ((last - first).toNat + 1) none (by omega)
  unfold fromInfo at hgen
  rw [houter] at hgen
  simp only [Option.map_some, Option.some.injEq] at hgen
  subst hgen
  obtain ⟨hE1, hE2⟩ := gen_entries _ lastWall hnld
  obtain ⟨gs, hgs, hgst, hgi, hgmax⟩ := chain_info info (fun x => x + (info x).off) H last (by have := maxStep_pos; omega)
    Ts first none hc t h1 h2
  have hons : onsetOf gs ≤ t := (hout gs hgs).1 hgst
  obtain ⟨ps, hps, hps1, _, _, _⟩ := hE2 gs hgs
  cases hsp : specAt (List.map toObs (List.map (emit lastWall)
      (group (segsOf info (fun x => x + (info x).off) last none first Ts)))) t with
  | none => exact absurd (by rw [hps1]; exact hons) (specAt_none hsp ps hps)
  | some b =>
    obtain ⟨hb1, hb2, hb3⟩ := specAt_latest hsp
    obtain ⟨sb, hsb, hsb1, hsb2, hsb3, hsb4⟩ := hE1 b hb1
    have hle : sb.start ≤ gs.start := hgmax sb hsb ((hout sb hsb).2 (by rw [← hsb1]; exact hb2))
    have hge : onsetOf gs ≤ onsetOf sb := by
      rw [← hsb1, ← hps1]; exact hb3 ps hps (by rw [hps1]; exact hons)
    have heq : sb.start = gs.start := by
      rcases Int.lt_or_eq_of_le hle with hlt | h
      · have := hsep sb hsb gs hgs hlt; omega
      · exact h
    obtain ⟨k1, k2, k3, _⟩ := segsOf_ok info (fun x => x + (info x).off) last Ts first none sb hsb
    refine ⟨b, hsp, ?_, ?_, ?_⟩
    · rw [hsb2, k1, heq, ← hgi]
    · rw [hsb3, k2, heq, ← hgi]
    · rw [hsb4, k3, heq, ← hgi]

/-- End to end for a zone given by its table (UTC clock): when the driver's check `chainOK` accepts the
    table, the generated component exists and reads as the zone at every instant of the window that
    does not lie between a transition and its misplaced onset. All hypotheses are statements about
    the table and the segments the loop produced; none mentions a chain. -/
theorem gen_faithful_zone (Z : Zone) (hclock : Z.wallIsClock = false) (H first last lastWall : Int)
    (hs : sortedRows Z.rows = true) (hc : chainOK Z.init Z.rows first last = true) (hH : last + maxStep ≤ H)
    (segs : List Seg)
    (hsegs : outer Z.info Z.wall skipSearch H last ((last - first).toNat + 1) first none = some segs)
    (hnld : ∀ g ∈ segs, ¬ (lastWall ≤ g.wall ∧ g.wall < lastWall + 86400))
    (hsep : ∀ a ∈ segs, ∀ b ∈ segs, a.start < b.start → onsetOf a < onsetOf b)
    (t : Int) (h1 : first ≤ t) (h2 : t < last)
    (hout : ∀ g ∈ segs, (g.start ≤ t → onsetOf g ≤ t) ∧ (onsetOf g ≤ t → g.start ≤ t)) :
    ∃ gen, fromTzinfo Z H first last lastWall = some gen ∧ Reads gen t (Z.info t) := by
  obtain ⟨Ts, hTs⟩ := chainOK_sound Z H first last hs hc hH
  have hwall : Z.wall = fun x => x + (Z.info x).off := by
    funext x; simp [Zone.wall, hclock]
  rw [hwall] at hsegs
  have houter := outer_chain Z.info (fun x => x + (Z.info x).off) H last hH Ts first hTs
    ((last - first).toNat + 1) none (by omega)
  rw [houter] at hsegs
  simp only [Option.some.injEq] at hsegs
  subst hsegs
  have hgen : fromInfo Z.info (fun x => x + (Z.info x).off) H first last lastWall =
      some ((group (segsOf Z.info (fun x => x + (Z.info x).off) last none first Ts)).map (emit lastWall)) := by
    unfold fromInfo; rw [houter]; rfl
  refine ⟨_, ?_, gen_faithful_partial Z.info H first last lastWall Ts hTs hH _ hgen hnld hsep t h1 h2 hout⟩
  unfold fromTzinfo
  rw [hwall]; exact hgen

/-- On the UTC clock the onset the generated component gives a transition at `g.start` is
    misplaced by `to − from` (D16b): DTSTART is the wall time *after* the change. -/
theorem onset_is_shifted (info : Int → Info) (last first : Int) (Ts : List Int) :
    ∀ g ∈ segsOf info (fun x => x + (info x).off) last none first Ts,
      onsetOf g = g.start + (g.offTo - g.offFrom.getD g.offTo) := by
  intro g hg
  obtain ⟨k1, _, _, k4⟩ := segsOf_ok info (fun x => x + (info x).off) last Ts first none g hg
  simp only [onsetOf, k4, k1]; omega

/-! ## well-formedness (no assumption on the zone) -/

private theorem loop_ge (off : Int → Int) (o d H : Int) (hd : 0 < d) :
    ∀ (n : Nat) (e p : Int), e ≤ p → ∀ r, (loop off o d H n e p = .ok r ∨ loop off o d H n e p = .brk r) → e ≤ r := by
  intro n
  induction n with
  | zero => intro e p _ r h; simp [loop] at h; omega
  | succ k ih =>
    intro e p hep r h
    unfold loop at h
    split at h
    · split at h
      · simp at h; omega
      · have := ih p (p + d) (by omega) r h; omega
    · simp at h; omega

private theorem search_ge (off : Int → Int) (o H : Int) :
    ∀ (ds : List Int), (∀ d ∈ ds, 0 < d) → ∀ (e r : Int),
      (search off o H ds e = .ok r ∨ search off o H ds e = .brk r) → e ≤ r := by
  intro ds
  induction ds with
  | nil => intro _ e r h; simp [search] at h; omega
  | cons d ds ih =>
    intro hds e r h
    have hd := hds d (by simp)
    simp only [search] at h
    cases hp : pass off o d H e with
    | raise => rw [hp] at h; simp at h
    | ok e1 =>
      rw [hp] at h
      have h1 : e ≤ e1 := by
        unfold pass at hp
        split at hp
        · simp at hp
        · exact loop_ge off o d H hd _ e (e + d) (by omega) e1 (Or.inl hp)
      have := ih (fun x hx => hds x (by simp [hx])) e1 r h
      omega
    | brk e1 =>
      rw [hp] at h
      have h1 : e ≤ e1 := by
        unfold pass at hp
        split at hp
        · simp at hp
        · exact loop_ge off o d H hd _ e (e + d) (by omega) e1 (Or.inr hp)
      rcases h with h | h
      · cases h
      · cases h; exact h1

private theorem outer_segs (info : Int → Info) (wallOf : Int → Int) (H last : Int) :
    ∀ (n : Nat) (start : Int) (prev : Option Int) (segs : List Seg),
      outer info wallOf skipSearch H last n start prev = some segs →
      ∀ g ∈ segs, start ≤ g.start ∧ g.start < last ∧ SegOK info wallOf g := by
  intro n
  induction n with
  | zero => intro start prev segs h g hg; simp [outer] at h; subst h; simp at hg
  | succ n ih =>
    intro start prev segs h g hg
    unfold outer at h
    split at h
    · next hs =>
      simp only at h
      have hpos : ∀ d ∈ skipSearch, 0 < d := fun d hd => (skipSearch_steps d hd).1
      split at h
      · simp at h
      · next e he =>
        cases hr : outer info wallOf skipSearch H last n (e + 1) (some (info start).off) with
        | none => rw [hr] at h; simp at h
        | some tl =>
          rw [hr] at h; simp at h; subst h
          have hge := search_ge _ _ H skipSearch hpos start e (Or.inl he)
          rcases List.mem_cons.mp hg with rfl | hg
          · exact ⟨Int.le_refl _, hs, rfl, rfl, rfl, rfl⟩
          · have := ih (e + 1) _ tl hr g hg
            exact ⟨by omega, this.2.1, this.2.2⟩
      · next e he =>
        cases hr : outer info wallOf skipSearch H last n (e + 1) (some (info start).off) with
        | none => rw [hr] at h; simp at h
        | some tl =>
          rw [hr] at h; simp at h; subst h
          have hge := search_ge _ _ H skipSearch hpos start e (Or.inr he)
          rcases List.mem_cons.mp hg with rfl | hg
          · exact ⟨Int.le_refl _, hs, rfl, rfl, rfl, rfl⟩
          · have := ih (e + 1) _ tl hr g hg
            exact ⟨by omega, this.2.1, this.2.2⟩
    · simp at h; subst h; simp at hg

/-- The generated component is well-formed for every zone and window (when no overflow escapes):
    at least one observance; every observance carries DTSTART, TZOFFSETFROM, TZOFFSETTO, TZNAME (by
    construction of `GenObs`); its offset, name and STANDARD/DAYLIGHT kind are the zone's at some
    clock value of the window; and every onset (DTSTART or RDATE) is the wall time of a clock value
    inside the window, or midnight of `last_date`. -/
theorem gen_wellformed (info : Int → Info) (wallOf : Int → Int) (H first last lastWall : Int)
    (gen : List GenObs) (hfl : first < last)
    (hgen : fromInfo info wallOf H first last lastWall = some gen) :
    gen ≠ [] ∧ ∀ g ∈ gen,
      (∃ c, first ≤ c ∧ c < last ∧ g.offTo = (info c).off ∧ g.name = (info c).name ∧ g.isStd = (info c).isStd) ∧
      ∀ x ∈ g.dtstart :: g.rdates, x = lastWall ∨ ∃ c, first ≤ c ∧ c < last ∧ x = wallOf c := by
  unfold fromInfo at hgen
  cases hs : outer info wallOf skipSearch H last ((last - first).toNat + 1) first none with
  | none => rw [hs] at hgen; simp at hgen
  | some segs =>
    rw [hs] at hgen
    simp only [Option.map_some, Option.some.injEq] at hgen
    subst hgen
    have hsegs := outer_segs info wallOf H last _ first none segs hs
    have hsound := group_sound (fun k w => ∃ s ∈ segs, s.key = k ∧ s.wall = w) segs []
      (by simp) (fun s hs => ⟨s, hs, rfl, rfl⟩)
    constructor
    · -- the first iteration always contributes a segment
      have hne : segs ≠ [] := by
        intro h; subst h
        simp only [outer, hfl, if_true] at hs
        split at hs
        · simp at hs
        · cases hr : outer info wallOf skipSearch H last (last - first).toNat _ _ <;> rw [hr] at hs <;> simp at hs
        · cases hr : outer info wallOf skipSearch H last (last - first).toNat _ _ <;> rw [hr] at hs <;> simp at hs
      obtain ⟨s, hsm⟩ := List.exists_mem_of_ne_nil segs hne
      obtain ⟨ws, hq, _⟩ := (group_complete segs []).1 s hsm
      intro h
      have : (emit lastWall (s.key, ws)) ∈ List.map (emit lastWall) (group segs) :=
        List.mem_map.mpr ⟨_, hq, rfl⟩
      rw [h] at this; simp at this
    · intro g hg
      obtain ⟨q, hq, rfl⟩ := List.mem_map.mp hg
      obtain ⟨hne, hall⟩ := hsound q hq
      obtain ⟨k, ws⟩ := q
      cases ws with
      | nil => exact absurd rfl hne
      | cons w r =>
        have hm : listMin w r ∈ w :: r := by
          rcases listMin_mem r w with h | h
          · rw [h]; simp
          · exact List.mem_cons_of_mem _ h
        constructor
        · obtain ⟨s, hsm, hk, _⟩ := hall w (by simp)
          obtain ⟨c1, c2, k1, k2, k3, _⟩ := hsegs s hsm
          have hk' : s.key = k := hk
          refine ⟨s.start, c1, c2, ?_, ?_, ?_⟩
          · simp only [emit]; rw [← hk']; exact k1
          · simp only [emit]; rw [← hk']; exact k2
          · simp only [emit]; rw [← hk']; exact k3
        · intro x hx
          have hcase : x = lastWall ∨ x ∈ w :: r := by
            simp only [emit] at hx
            rcases List.mem_cons.mp hx with h | h
            · split at h
              · left; exact h
              · right; rw [h]; exact hm
            · right; exact List.mem_of_mem_erase h
          rcases hcase with h | h
          · left; exact h
          · right
            obtain ⟨s, hsm, _, hw⟩ := hall x h
            obtain ⟨c1, c2, _, _, _, k4⟩ := hsegs s hsm
            exact ⟨s.start, c1, c2, by rw [← hw, k4]⟩

/-! ## witnesses (UTC clock, window [0, 3 000 000), horizon just beyond the coarsest step) -/

def CET : Str := ['C', 'E', 'T']
def CEST : Str := ['C', 'E', 'S', 'T']

/-- +01:00 until 1 000 000, then +02:00 (a DST onset) -/
def zShift : Zone := ⟨⟨3600, true, CET⟩, [⟨1000000, ⟨7200, false, CEST⟩⟩], false⟩

/-- D16b: the zone is on +02:00 from 1 000 000 on, the generated component (DTSTART = wall time after
    the change = 1 007 200, TZOFFSETFROM +01:00) places the onset at 1 003 600: at 1 000 000 it still
    reads +01:00 CET. -/
theorem onset_shift_witness :
    fromTzinfo zShift 8529600 0 3000000 3000000 =
      some [⟨true, 3600, 3600, CET, 3600, []⟩, ⟨false, 3600, 7200, CEST, 1007200, []⟩] ∧
    (specAt ([⟨true, 3600, 3600, CET, 3600, []⟩, ⟨false, 3600, 7200, CEST, 1007200, []⟩].map toObs) 1000000).map
      (fun b => (b.2.offTo, b.2.name)) = some (3600, CET) ∧
    zShift.info 1000000 = ⟨7200, false, CEST⟩ := by
  decide +kernel

/-- +00:00, ten days of +01:00 from 1 000 000, back to +00:00 -/
def zExcursion : Zone :=
  ⟨⟨0, true, ['G', 'M', 'T']⟩, [⟨1000000, ⟨3600, false, ['B', 'S', 'T']⟩⟩, ⟨1864000, ⟨0, true, ['G', 'M', 'T']⟩⟩], false⟩

/-- D16a: the 64-day probe steps over the ten-day excursion; the generated component has the single
    observance +00:00 and reads +00:00 inside the excursion. -/
theorem short_excursion_witness :
    fromTzinfo zExcursion 8529600 0 3000000 3000000 = some [⟨true, 0, 0, ['G', 'M', 'T'], 0, []⟩] ∧
    (specAt ([⟨true, 0, 0, ['G', 'M', 'T'], 0, []⟩].map toObs) 1500000).map (fun b => b.2.offTo) = some 0 ∧
    (zExcursion.info 1500000).off = 3600 ∧
    chainOK zExcursion.init zExcursion.rows 0 3000000 = false := by
  decide +kernel

/-- the full-strength statement is false of the code -/
theorem gen_faithful_full_false : ¬ gen_faithful_full := by
  intro h
  obtain ⟨w1, w2, w3⟩ := onset_shift_witness
  obtain ⟨b, hb, ho, _⟩ := h zShift rfl 8529600 0 3000000 3000000 _ (by decide) w1 1000000 (by decide) (by decide)
  rw [hb] at w2
  rw [w3] at ho
  simp at w2
  simp at ho
  omega

/-! ## well-formedness, continued: shape of the generated observances (no assumption on the zone) -/

/-- what `from_tzinfo` returns is the emission of the groups of the segments of the outer loop -/
private theorem gen_shape {info : Int → Info} {wallOf : Int → Int} {H first last lastWall : Int} {gen : List GenObs}
    (hgen : fromInfo info wallOf H first last lastWall = some gen) :
    ∃ segs, outer info wallOf skipSearch H last ((last - first).toNat + 1) first none = some segs ∧
      gen = (group segs).map (emit lastWall) := by
  unfold fromInfo at hgen
  cases hs : outer info wallOf skipSearch H last ((last - first).toNat + 1) first none with
  | none => rw [hs] at hgen; simp at hgen
  | some segs =>
    rw [hs] at hgen
    simp only [Option.map_some, Option.some.injEq] at hgen
    exact ⟨segs, rfl, hgen.symm⟩

/-- The grouping key `(offset_from, offset_to, tzname, is_standard)` is unique across the generated
    observances: the component has exactly one STANDARD/DAYLIGHT sub-component per key, each the
    emission of a non-empty list of starts. -/
theorem gen_keys_unique (info : Int → Info) (wallOf : Int → Int) (H first last lastWall : Int)
    (gen : List GenObs) (hgen : fromInfo info wallOf H first last lastWall = some gen) :
    ∃ groups : List (Key × List Int), gen = groups.map (emit lastWall) ∧ (groups.map (·.1)).Nodup ∧
      ∀ q ∈ groups, q.2 ≠ [] := by
  obtain ⟨segs, _, hg⟩ := gen_shape hgen
  obtain ⟨h1, h2, _⟩ := group_spec segs
  exact ⟨group segs, hg, h1, fun q hq => (h2 q hq).2⟩

/-- Within every generated observance the onsets are strictly increasing, DTSTART first: DTSTART is
    the earliest start of its group (also when it was moved to midnight of `last_date`) and the RDATEs
    follow in time order without repetition — for every zone whose wall time grows with the clock
    while the offset is the same (true of both clocks, see `gen_onsets_increasing_zone`). -/
theorem gen_onsets_increasing (info : Int → Info) (wallOf : Int → Int) (H first last lastWall : Int)
    (gen : List GenObs)
    (hmono : ∀ x y, first ≤ x → x < y → y < last → (info x).off = (info y).off → wallOf x < wallOf y)
    (hgen : fromInfo info wallOf H first last lastWall = some gen) :
    ∀ g ∈ gen, (g.dtstart :: g.rdates).Pairwise (· < ·) := by
  obtain ⟨segs, hs, hg⟩ := gen_shape hgen
  obtain ⟨i1, i2, _⟩ := outer_inv info wallOf H last _ first none segs hs
  obtain ⟨_, h2, _⟩ := group_spec segs
  intro g hgm
  rw [hg] at hgm
  obtain ⟨q, hq, rfl⟩ := List.mem_map.mp hgm
  obtain ⟨hw, hne⟩ := h2 q hq
  have hsorted : q.2.Pairwise (· < ·) := by
    rw [hw]
    unfold walls
    rw [List.pairwise_map]
    have hf : (segs.filter fun s => decide (s.key = q.1)).Pairwise (fun a b => a.start < b.start) :=
      i2.sublist List.filter_sublist
    refine List.Pairwise.imp_of_mem ?_ hf
    intro a b ha hb hab
    obtain ⟨ha1, ha2⟩ := List.mem_filter.mp ha
    obtain ⟨hb1, hb2⟩ := List.mem_filter.mp hb
    have hka : a.key = q.1 := by simpa using ha2
    have hkb : b.key = q.1 := by simpa using hb2
    obtain ⟨a1, _, a3, _, _, a6⟩ := i1 a ha1
    obtain ⟨_, b2, b3, _, _, b6⟩ := i1 b hb1
    have hoff : a.offTo = b.offTo := by
      have : a.key.offTo = b.key.offTo := by rw [hka, hkb]
      exact this
    rw [a6, b6]
    exact hmono _ _ a1 hab b2 (by rw [← a3, ← b3]; exact hoff)
  obtain ⟨k, ws⟩ := q
  cases ws with
  | nil => exact absurd rfl hne
  | cons w r => exact (emit_sorted lastWall k w r hsorted).2.2

/-- ... in particular for a zone given by its table, on either clock (pytz: wall = clock + offset,
    zoneinfo: wall = clock). -/
theorem gen_onsets_increasing_zone (Z : Zone) (H first last lastWall : Int) (gen : List GenObs)
    (hgen : fromTzinfo Z H first last lastWall = some gen) :
    ∀ g ∈ gen, (g.dtstart :: g.rdates).Pairwise (· < ·) := by
  apply gen_onsets_increasing Z.info Z.wall H first last lastWall gen ?_ hgen
  intro x y _ hxy _ hoff
  unfold Zone.wall
  split
  · exact hxy
  · omega

/-- The first generated observance is the one of the window start: TZOFFSETFROM = TZOFFSETTO (the
    code's convention for "no previous offset"), the zone's offset, name and kind at `first`, no
    RDATE, and DTSTART = the wall time of `first` (or midnight of `last_date`). -/
theorem gen_first_observance (info : Int → Info) (wallOf : Int → Int) (H first last lastWall : Int)
    (gen : List GenObs) (hfl : first < last) (hgen : fromInfo info wallOf H first last lastWall = some gen) :
    ∃ d rest, gen = ⟨(info first).isStd, (info first).off, (info first).off, (info first).name, d, []⟩ :: rest ∧
      (d = wallOf first ∨ (d = lastWall ∧ lastWall ≤ wallOf first ∧ wallOf first < lastWall + 86400)) := by
  obtain ⟨segs, hs, hg⟩ := gen_shape hgen
  obtain ⟨_, _, i3⟩ := outer_inv info wallOf H last _ first none segs hs
  have hn : (last - first).toNat + 1 = ((last - first).toNat) + 1 := rfl
  rcases outer_succ info wallOf H last _ first none segs hs with ⟨h, _⟩ | ⟨_, e, tl, _, _, _, hsegs⟩
  · exact absurd hfl h
  · obtain ⟨_, _, hsome⟩ := i3 _ tl hsegs
    -- no later segment has the key of the first one, so the first group is the single start
    have hgrp : ∀ (l : List Seg) (k0 : Key) (ws0 : List Int) (g : List (Key × List Int)),
        (∀ s ∈ l, s.key ≠ k0) →
        l.foldl (fun g s => addSeg g s.key s.wall) ((k0, ws0) :: g) =
          (k0, ws0) :: l.foldl (fun g s => addSeg g s.key s.wall) g := by
      intro l
      induction l with
      | nil => intro k0 ws0 g _; rfl
      | cons s r ih =>
        intro k0 ws0 g hk
        have hne : ¬ k0 = s.key := fun e => hk s (by simp) e.symm
        simp only [List.foldl_cons, addSeg, hne, if_false]
        exact ih k0 ws0 _ (fun s' hs' => hk s' (List.mem_cons_of_mem _ hs'))
    have hkey : ∀ s ∈ tl, s.key ≠ (⟨none, (info first).off, (info first).name, (info first).isStd⟩ : Key) := by
      intro s hs' e
      have h1 := hsome s hs'
      have : s.key.offFrom = none := by rw [e]
      have h2 : s.offFrom = none := this
      rw [h2] at h1; cases h1
    have hgroup : group segs = (⟨none, (info first).off, (info first).name, (info first).isStd⟩, [wallOf first]) ::
        tl.foldl (fun g s => addSeg g s.key s.wall) [] := by
      rw [hsegs]
      unfold group
      simp only [List.foldl_cons, addSeg, Seg.key]
      exact hgrp tl _ _ [] hkey
    rw [hg, hgroup, List.map_cons]
    refine ⟨(if lastWall ≤ wallOf first ∧ wallOf first < lastWall + 86400 then lastWall else wallOf first),
      List.map (emit lastWall) (tl.foldl (fun g s => addSeg g s.key s.wall) []), ?_, ?_⟩
    · simp only [emit, listMin, List.erase_cons_head, Option.getD_none]
      rfl
    · by_cases hc : lastWall ≤ wallOf first ∧ wallOf first < lastWall + 86400
      · right; simp [hc]
      · left; simp [hc]

/-- One onset per iteration of the outer loop: the DTSTARTs and RDATEs of the generated component
    are as many as the segments the loop found ... -/
theorem gen_onset_count (info : Int → Info) (wallOf : Int → Int) (H first last lastWall : Int)
    (gen : List GenObs) (hgen : fromInfo info wallOf H first last lastWall = some gen) :
    ∃ segs, outer info wallOf skipSearch H last ((last - first).toNat + 1) first none = some segs ∧
      (gen.map fun g => 1 + g.rdates.length).sum = segs.length := by
  obtain ⟨segs, hs, hg⟩ := gen_shape hgen
  refine ⟨segs, hs, ?_⟩
  obtain ⟨_, h2, _⟩ := group_spec segs
  rw [hg, List.map_map]
  have : (group segs).map ((fun g : GenObs => 1 + g.rdates.length) ∘ emit lastWall) =
      (group segs).map (·.2.length) := by
    apply List.map_congr_left
    intro q hq
    exact emit_count lastWall q (h2 q hq).2
  rw [this]
  have := sumLen_group segs []
  simpa [group] using this

/-- ... and along a chain of visible offset changes that is one (the window start) plus the number
    of offset changes before `last`: no transition is lost and none is invented. -/
theorem gen_onset_count_chain (info : Int → Info) (wallOf : Int → Int) (H first last lastWall : Int)
    (Ts : List Int) (hc : Chain info H last first Ts) (hH : last + maxStep ≤ H) (hfl : first < last)
    (gen : List GenObs) (hgen : fromInfo info wallOf H first last lastWall = some gen) :
    (gen.map fun g => 1 + g.rdates.length).sum = 1 + (Ts.filter fun T => decide (T < last)).length := by
  obtain ⟨segs, hs, hsum⟩ := gen_onset_count info wallOf H first last lastWall gen hgen
  rw [outer_chain info wallOf H last hH Ts first hc _ none (by omega)] at hs
  simp only [Option.some.injEq] at hs
  rw [hsum, ← hs]
  exact segsOf_length info wallOf H last Ts first none hc hfl

/-! ## generating again -/

/-- Generating again gives the same component from ANY zone object that answers like the source
    zone at the clock values `from_tzinfo` reads — the window and the look-ahead up to the horizon
    (`first ≤ x ≤ H`) — and runs on the same clock: `from_tzinfo` depends on nothing else. So the
    regeneration clause holds exactly as far as the conversion back is faithful there. -/
theorem regen_same_if_faithful (Z Z' : Zone) (H first last lastWall : Int) (hlast : last ≤ H + 1)
    (hclock : Z'.wallIsClock = Z.wallIsClock)
    (hinfo : ∀ x, first ≤ x → x ≤ H → Z'.info x = Z.info x) :
    fromTzinfo Z' H first last lastWall = fromTzinfo Z H first last lastWall := by
  unfold fromTzinfo
  apply fromInfo_congr Z'.info Z.info Z'.wall Z.wall H first last lastWall hinfo ?_ hlast
  intro x h1 h2
  unfold Zone.wall
  rw [hclock, hinfo x h1 (by omega)]

/-- The regeneration clause at full strength on the UTC clock (pytz route): `Z'` is any zone that
    answers as the RFC 5545 reading of the generated component (which is what the pytz conversion
    gives, C12 `lookup_is_spec`). FALSE on the code: `regen_shift_witness`. -/
def regen_full : Prop :=
  ∀ (Z Z' : Zone), Z.wallIsClock = false → Z'.wallIsClock = false →
    ∀ (H first last lastWall : Int) (gen : List GenObs), last + maxStep ≤ H →
      fromTzinfo Z H first last lastWall = some gen →
      (∀ t, first ≤ t → Reads gen t (Z'.info t)) →
      fromTzinfo Z' H first last lastWall = some gen

/-- the component generated from `zShift` -/
def genShift : List GenObs := [⟨true, 3600, 3600, CET, 3600, []⟩, ⟨false, 3600, 7200, CEST, 1007200, []⟩]

/-- the zone the RFC reading of `genShift` describes: the change is at 1 003 600, not at 1 000 000 -/
def zBack : Zone := ⟨⟨3600, true, CET⟩, [⟨1003600, ⟨7200, false, CEST⟩⟩], false⟩

/-- finding `tzgen-onset-shift`, regeneration part: the converted zone changes an hour late, and
    generating again moves DTSTART of the DAYLIGHT observance by another hour (1 007 200 → 1 010 800). -/
theorem regen_shift_witness :
    fromTzinfo zShift 8529600 0 3000000 3000000 = some genShift ∧
    (∀ t, 0 ≤ t → Reads genShift t (zBack.info t)) ∧
    fromTzinfo zBack 8529600 0 3000000 3000000 =
      some [⟨true, 3600, 3600, CET, 3600, []⟩, ⟨false, 3600, 7200, CEST, 1010800, []⟩] := by
  refine ⟨onset_shift_witness.1, ?_, by decide +kernel⟩
  intro t ht
  have hinfo : zBack.info t = if 1003600 ≤ t then ⟨7200, false, CEST⟩ else ⟨3600, true, CET⟩ := by
    simp [Zone.info, zBack, infoAt]
  have hspec : specAt (genShift.map toObs) t =
      if 1003600 ≤ t then some (1003600, toObs ⟨false, 3600, 7200, CEST, 1007200, []⟩)
      else some (0, toObs ⟨true, 3600, 3600, CET, 3600, []⟩) := by
    have he : specEntries (genShift.map toObs) =
        [(0, toObs ⟨true, 3600, 3600, CET, 3600, []⟩), (1003600, toObs ⟨false, 3600, 7200, CEST, 1007200, []⟩)] := by
      decide
    unfold specAt
    rw [he]
    by_cases h : (1003600 : Int) ≤ t
    · simp [ICal.Tz.better, ht, h]
    · simp [ICal.Tz.better, ht, h]
  unfold Reads
  rw [hinfo, hspec]
  by_cases h : (1003600 : Int) ≤ t
  · simp only [h, if_true]
    exact ⟨_, rfl, rfl, rfl, rfl⟩
  · simp only [h, if_false]
    exact ⟨_, rfl, rfl, rfl, rfl⟩

theorem regen_full_false : ¬ regen_full := by
  intro h
  obtain ⟨w1, w2, w3⟩ := regen_shift_witness
  have := h zShift zBack rfl rfl 8529600 0 3000000 3000000 genShift (by decide) w1 w2
  rw [w3] at this
  revert this
  decide

/-- non-vacuity of `regen_same_if_faithful`: a table with a redundant row describes the same zone -/
example : ∀ x, (0 : Int) ≤ x → x ≤ 8529600 →
    (⟨⟨3600, true, CET⟩, [⟨500000, ⟨3600, true, CET⟩⟩, ⟨1000000, ⟨7200, false, CEST⟩⟩], false⟩ : Zone).info x =
      zShift.info x := by
  intro x _ _
  simp only [Zone.info, zShift, infoAt]
  by_cases h1 : (500000 : Int) ≤ x <;> by_cases h2 : (1000000 : Int) ≤ x <;> simp [h1, h2] <;> omega

example : (genShift.map fun g => 1 + g.rdates.length).sum = 1 + ([1000000].filter fun T => decide (T < (3000000 : Int))).length := by
  decide

/-! Non-vacuity: the zone of `onset_shift_witness` has a chain in the sense of the theorems, and the
    applicability check of the driver agrees. -/
example : Chain zShift.info 8529600 3000000 0 [1000000] := by
  have hinfo : ∀ t, zShift.info t = if 1000000 ≤ t then ⟨7200, false, CEST⟩ else ⟨3600, true, CET⟩ := by
    intro t; simp [Zone.info, zShift, infoAt]
  refine Chain.step (by decide) ?_ ?_ (by decide) (Chain.const ?_)
  · intro t h1 h2; rw [hinfo, hinfo]; simp; omega
  · intro t h1 h2; rw [hinfo, hinfo]; simp [show (1000000 : Int) ≤ t from h1]
  · intro t h1 h2; rw [hinfo, hinfo]; simp [show (1000000 : Int) ≤ t from h1]
example : chainOK zShift.init zShift.rows 0 3000000 = true := by decide

end ICal.C13
