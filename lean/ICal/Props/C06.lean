/-
  C06 — Folding: physical lines of at most 75 octets, no split characters, exact unfolding.
  `foldline` is the model of parser.foldline with the *generated* limit, separator and slice
  width (ICal.Gen, regenerated from /repo on every run); `unfold` models `uFOLD.sub('', ·)`.
  Octets are UTF-8 octets (`Char.utf8Size`); a segment is a list of whole characters, so a
  multi-octet character is never split and every physical line is valid UTF-8 by construction
  (`utf8_append` makes the byte-level statement).
-/
import ICal.Lemmas.Fold
import ICal.Lemmas.FoldLines
import ICal.Lemmas.FoldBytes
import ICal.Lemmas.BodiesFold
import ICal.Lemmas.FoldMore
import ICal.Model.Ser
namespace ICal.C06

/-- Master statement, generic in the limit (`5 ≤ limit`: a 4-octet character must fit): the
    folded line is its segments joined by CR LF SP, the segments concatenate to the original
    line (no character lost, split or added), and every segment has at most `limit - 1` octets. -/
theorem fold_segments_generic (limit : Nat) (hl : 5 ≤ limit) (l : Str) :
    ∃ segs, foldlineWith limit sep3 l = joinSegs sep3 segs ∧ segs.flatten = l ∧
      ∀ s ∈ segs, octets s ≤ limit - 1 := by
  unfold foldlineWith
  split
  · next hasc =>
    have hn : limit - Gen.foldSliceMinus ≠ 0 := by simp [Gen.foldSliceMinus]; omega
    refine ⟨chunks (limit - Gen.foldSliceMinus) l, rfl, chunks_flatten _ _ hn, ?_⟩
    intro s hs
    have hlen := chunks_len _ _ s hs
    have hsa : isAscii s = true := by
      apply isAscii_of_mem_flatten (chunks (limit - Gen.foldSliceMinus) l) _ s hs
      rw [chunks_flatten _ _ hn]; exact hasc
    rw [octets_ascii s hsa]
    simp [Gen.foldSliceMinus] at hlen ⊢; exact hlen
  · exact ⟨segsUni limit 0 l, foldUni_eq_join _ _ _ _, segsUni_flatten _ _ _, segsUni_all_width limit hl l⟩

/-- The same for the constants of the source: at most 74 octets per segment, hence first
    physical line ≤ 74 and every continuation line (one added space + segment) ≤ 75 octets. -/
theorem fold_segments (l : Str) :
    ∃ segs, foldline l = joinSegs [CR, LF, SP] segs ∧ segs.flatten = l ∧ ∀ s ∈ segs, octets s ≤ 74 := by
  have h := fold_segments_generic Gen.foldLimit (by decide) l
  simpa [foldline, foldSep_eq, sep3, Gen.foldLimit] using h

/-- Width of the physical lines: a continuation line is SP followed by a segment. -/
theorem fold_width (l : Str) :
    ∃ segs, foldline l = joinSegs [CR, LF, SP] segs ∧ ∀ s ∈ segs, octets (SP :: s) ≤ 75 := by
  obtain ⟨segs, h1, _, h3⟩ := fold_segments l
  refine ⟨segs, h1, ?_⟩
  intro s hs
  have := h3 s hs
  rw [octets_cons]
  have : w SP = 1 := by decide
  omega

/-- Exact unfolding: removing each CRLF + whitespace restores the original line. -/
theorem unfold_fold (l : Str) (h : LF ∉ l) : unfold (foldline l) = l := by
  obtain ⟨segs, h1, h2, _⟩ := fold_segments l
  rw [h1]
  have : joinSegs [CR, LF, SP] segs = joinSegs sep3 segs := rfl
  rw [this, unfold_join, h2]
  intro s hs hmem
  apply h
  rw [← h2]
  exact List.mem_flatten.mpr ⟨s, hs, hmem⟩

/-- Unfolding is exact for *any* placement of folds between characters (used by C09). -/
theorem unfold_any_folding (segs : List Str) (h : ∀ s ∈ segs, LF ∉ s) :
    unfold (joinSegs [CR, LF, SP] segs) = segs.flatten := by
  have : joinSegs [CR, LF, SP] segs = joinSegs sep3 segs := rfl
  rw [this]; exact unfold_join segs h

/-- Byte level: encoding distributes over concatenation, so cutting between characters never
    cuts inside a character's octets and each physical line is the UTF-8 of its own characters. -/
theorem utf8_append (a b : Str) : utf8 (a ++ b) = utf8 a ++ utf8 b := by
  simp [utf8]

/-- The number of octets of the encoding is the octet count used by the folder. -/
theorem utf8_length (l : Str) : (utf8 l).length = octets l := by
  induction l with
  | nil => simp [utf8, octets]
  | cons c cs ih =>
    have : utf8 (c :: cs) = String.utf8EncodeChar c ++ utf8 cs := by simp [utf8]
    rw [this, List.length_append, ih, octets_cons]
    simp [w]

/-! Non-vacuity: the only hypothesis used above (`LF ∉ l`) is what `Contentline.__new__`
    asserts of every content line; e.g. a line made of multi-octet characters satisfies it. -/
example : LF ∉ List.replicate 40 'é' := by decide
example : (5 : Nat) ≤ Gen.foldLimit := by decide

/-- Component level, with empty lines allowed: `Contentlines.to_ical` skips empty lines, folds
    the others, joins them with CR LF and appends CR LF; `Contentlines.from_ical` unfolds the
    whole text, splits it on line breaks and drops empty lines.  Every non-empty line that has no
    raw line feed and does not start with SP or HT is recovered exactly, in order. -/
theorem lines_roundtrip_filter (ls : List Str)
    (h : ∀ l ∈ ls, LF ∉ l ∧ l.head? ≠ some SP ∧ l.head? ≠ some HT ∧ l.head? ≠ some BOM) :
    linesFromIcal (linesToIcal ls) = ls.filter (· ≠ []) := by
  have hbom : stripBOM (linesToIcal ls) = linesToIcal ls :=
    stripBOM_linesToIcal ls (fun l hl => ⟨(h l hl).2.2.2, (h l hl).1⟩)
  have h : ∀ l ∈ ls, LF ∉ l ∧ l.head? ≠ some SP ∧ l.head? ≠ some HT :=
    fun l hl => ⟨(h l hl).1, (h l hl).2.1, (h l hl).2.2.1⟩
  unfold linesFromIcal; rw [hbom]
  have hf : ls.filter (· ≠ []) = ls.filter (fun l => !l.isEmpty) := by
    apply List.filter_congr; intro l _; cases l <;> simp
  rw [hf]
  generalize hk : ls.filter (fun l => !l.isEmpty) = ks
  have hks : ∀ l ∈ ks, RealLine l := by
    intro l hl
    rw [← hk, List.mem_filter] at hl
    obtain ⟨h1, h2, h3⟩ := h l hl.1
    refine ⟨?_, h1, h2, h3⟩
    intro e; subst e; simp at hl
  have hlf : ∀ l ∈ ks, LF ∉ l := fun l hl => (hks l hl).2.1
  have hne : ks.filter (fun l => !l.isEmpty) = ks := by
    rw [List.filter_eq_self]; intro l hl
    have := (hks l hl).1
    cases l with
    | nil => exact absurd rfl this
    | cons c cs => rfl
  unfold linesFromText linesToIcal
  rw [hk]
  cases hks' : ks with
  | nil =>
    have e : unfold [CR, LF] = [CR, LF] := by
      have := unfold_break [] trivial
      simpa [unfold] using this
    simp only [List.map_nil, joinWith, List.nil_append, e]
    have : splitNewline [CR, LF] = [[], []] := by
      have := splitNewline_line [] [] (by simp)
      simpa [splitNewline] using this
    rw [this]; rfl
  | cons k ks' =>
    rw [← hks']
    have hmap : ks.map foldline ≠ [] := by rw [hks']; simp
    have hb : joinWith [CR, LF] (ks.map foldline) ++ [CR, LF] = body (ks.map foldline) :=
      joinWith_append_sep [CR, LF] _ hmap
    rw [hb, (unfold_body ks hks).2, splitNewline_body ks hlf, List.filter_append, hne]
    simp

/-- Component level of C06: every content line of a serialised component is recovered exactly
    by unfolding and splitting.  The hypotheses are what holds of real content lines: they are
    non-empty, contain no raw line feed (`Contentline.__new__` asserts it) and start with a
    property name, hence not with a space, a tab or a byte-order mark (a leading U+FEFF of the
    text is dropped by the reader). -/
theorem lines_roundtrip (ls : List Str)
    (h : ∀ l ∈ ls, l ≠ [] ∧ LF ∉ l ∧ l.head? ≠ some SP ∧ l.head? ≠ some HT ∧ l.head? ≠ some BOM) :
    linesFromIcal (linesToIcal ls) = ls := by
  rw [lines_roundtrip_filter ls (fun l hl => (h l hl).2), List.filter_eq_self]
  intro l hl
  simpa using (h l hl).1

/-! Non-vacuity of the line hypotheses, including a line that ends with CR and one that starts
    with CR (both are handled: `CR CR LF` breaks after the second CR only). -/
example : ∀ l ∈ [['A', ':', 'b', CR], [CR, 'x'], List.replicate 80 'é'],
    l ≠ [] ∧ LF ∉ l ∧ l.head? ≠ some SP ∧ l.head? ≠ some HT ∧ l.head? ≠ some BOM := by decide

/-- Octet level, exact form: the UTF-8 octets of a folded non-empty line, split on the octet
    pair 13 10, are the encoding of the first segment followed by the encodings of SP + segment
    for the further segments; the segments concatenate to the line and have at most 74 octets.
    No `CR ∉ l` hypothesis is needed: a segment ending in CR gives 13 13 10, which splits after
    the second 13 only. -/
theorem fold_bytes_lines (l : Str) (hne : l ≠ []) (h : LF ∉ l) :
    ∃ s ss, (s :: ss).flatten = l ∧ (∀ x ∈ s :: ss, octets x ≤ 74) ∧
      splitCRLF (utf8 (foldline l)) = utf8 s :: ss.map (fun x => utf8 (SP :: x)) := by
  obtain ⟨segs, h1, h2, h3⟩ := fold_segments l
  have hseg : ∀ x ∈ segs, LF ∉ x := by
    intro x hx hmem; apply h; rw [← h2]
    exact List.mem_flatten.mpr ⟨x, hx, hmem⟩
  cases segs with
  | nil => exact absurd h2.symm hne
  | cons s ss =>
    refine ⟨s, ss, h2, h3, ?_⟩
    have := splitCRLF_join s ss hseg [] (by simp)
    rw [h1]
    simpa [sep3] using this

/-- Width clause of C06 on the octets that are written: every physical line (the octets between
    two CR LF pairs) of a folded line has at most 75 octets. -/
theorem fold_bytes_width (l : Str) (h : LF ∉ l) :
    ∀ p ∈ splitCRLF (utf8 (foldline l)), p.length ≤ 75 := by
  obtain ⟨segs, h1, h2, h3⟩ := fold_segments l
  have hseg : ∀ x ∈ segs, LF ∉ x := by
    intro x hx hmem; apply h; rw [← h2]
    exact List.mem_flatten.mpr ⟨x, hx, hmem⟩
  intro p hp
  rw [h1] at hp
  rcases splitCRLF_join_mem segs hseg p hp with rfl | ⟨x, hx, rfl | rfl⟩
  · simp
  · rw [utf8_len]; have := h3 x hx; omega
  · rw [utf8_len, octets_cons]
    have := h3 x hx
    have : w SP = 1 := by decide
    omega

/-- Every physical line of a folded line is the UTF-8 encoding of whole characters: no
    character's octets are separated by a fold. -/
theorem fold_bytes_utf8 (l : Str) (h : LF ∉ l) :
    ∀ p ∈ splitCRLF (utf8 (foldline l)), ∃ s : Str, p = utf8 s := by
  obtain ⟨segs, h1, h2, _⟩ := fold_segments l
  have hseg : ∀ x ∈ segs, LF ∉ x := by
    intro x hx hmem; apply h; rw [← h2]
    exact List.mem_flatten.mpr ⟨x, hx, hmem⟩
  intro p hp
  rw [h1] at hp
  rcases splitCRLF_join_mem segs hseg p hp with rfl | ⟨x, _, rfl | rfl⟩
  · exact ⟨[], rfl⟩
  · exact ⟨x, rfl⟩
  · exact ⟨SP :: x, rfl⟩

/-! Non-vacuity and a concrete instance: 40 two-octet characters are written as physical lines
    of 74 and 7 octets. -/
example : (splitCRLF (utf8 (foldline (List.replicate 40 'é')))).map List.length = [74, 7] := by
  decide

/-! ## Clause pass (round 10) -/

/-- Folding is the identity on every line of at most 74 octets (the code folds before the 75th
    octet: the first physical line has at most 74, see `fold_75_is_folded`). -/
theorem fold_short_identity (l : Str) (h : octets l ≤ 74) : foldline l = l := by
  unfold foldline foldlineWith
  split
  · next hasc =>
    rw [octets_ascii l hasc] at h
    by_cases hne : l = []
    · subst hne; rw [chunks.eq_1]; simp [joinSegs]
    · rw [chunks_short _ l hne (by simpa [Gen.foldLimit, Gen.foldSliceMinus] using h)]; rfl
  · exact foldUni_short _ _ l 0 (by simpa [Gen.foldLimit] using Nat.lt_succ_of_le h)

example : octets (List.replicate 37 'é') ≤ 74 := by decide

/-- … and a line of exactly 75 octets IS folded (allowed by RFC 5545, which only bounds lines by
    75 octets): 37 two-octet characters and one ASCII character become lines of 74 and 2 octets. -/
theorem fold_75_is_folded :
    octets (List.replicate 37 'é' ++ ['a']) = 75 ∧
    (splitCRLF (utf8 (foldline (List.replicate 37 'é' ++ ['a'])))).map List.length = [74, 2] := by
  decide

/-- "Exactly one added space": the folded line is longer than the line by exactly the three
    characters CR LF SP per fold — nothing else is added, nothing is removed, whatever character
    (space, tab, CR) stands at a fold point. -/
theorem fold_adds_exactly (l : Str) :
    ∃ segs, foldline l = joinSegs [CR, LF, SP] segs ∧ segs.flatten = l ∧
      (foldline l).length = l.length + 3 * (segs.length - 1) := by
  obtain ⟨segs, h1, h2, _⟩ := fold_segments l
  refine ⟨segs, h1, h2, ?_⟩
  rw [h1, joinSegs_length, h2]; rfl

/-- The restored text does not depend on the characters at the fold points: a segment that
    starts with a space or a tab keeps it (only the ONE added space is removed). -/
theorem unfold_keeps_own_space (a b : Str) (ha : LF ∉ a) (hb : LF ∉ b) (x : Char)
    (hx : x = SP ∨ x = HT) :
    unfold (joinSegs [CR, LF, SP] [a, x :: b]) = a ++ x :: b := by
  have := unfold_any_folding [a, x :: b] (by
    intro s hs
    simp only [List.mem_cons, List.not_mem_nil, or_false] at hs
    rcases hs with rfl | rfl
    · exact ha
    · intro hm
      rcases List.mem_cons.mp hm with e | hm
      · rcases hx with rfl | rfl <;> exact absurd e (by decide)
      · exact hb hm)
  simpa using this

example : unfold (joinSegs [CR, LF, SP] [['a', SP], [SP, 'b']]) = ['a', SP, SP, 'b'] :=
  unfold_keeps_own_space ['a', SP] ['b'] (by decide) (by decide) SP (Or.inl rfl)

/-- Component level on the written octets: for every list of content lines without LF, every
    physical line of `Contentlines.to_ical` (octets between two CR LF pairs) has at most 75
    octets and is the UTF-8 of whole characters. -/
theorem lines_bytes (ls : List Str) (h : ∀ l ∈ ls, LF ∉ l) :
    ∀ p ∈ splitCRLF (utf8 (linesToIcal ls)), p.length ≤ 75 ∧ ∃ s : Str, p = utf8 s := by
  intro p hp
  unfold linesToIcal at hp
  generalize hk : ls.filter (fun l => !l.isEmpty) = ks at hp
  have hks : ∀ k ∈ ks, LF ∉ k := by
    intro k hk'; rw [← hk] at hk'; exact h k (List.mem_filter.mp hk').1
  cases ks with
  | nil =>
    have e : splitCRLF (utf8 (joinWith [CR, LF] (([] : List Str).map foldline) ++ [CR, LF])) = [[], []] := by
      decide
    rw [e] at hp
    have : p = [] := by simpa using hp
    subst this; exact ⟨by simp, [], rfl⟩
  | cons k ks' =>
    rw [joinWith_append_sep [CR, LF] _ (by simp)] at hp
    rcases splitCRLF_body_mem _ p hp with rfl | ⟨f, hf, hpf⟩
    · exact ⟨by simp, [], rfl⟩
    · obtain ⟨l, hl, rfl⟩ := List.mem_map.mp hf
      exact ⟨fold_bytes_width l (hks l hl) p hpf, fold_bytes_utf8 l (hks l hl) p hpf⟩

/-- "The same holds for every line of every serialised component": whenever `to_ical` of ANY
    component tree succeeds (either value of `sorted`), every physical line of the written octets
    has at most 75 octets and is valid UTF-8 on its own. -/
theorem component_bytes (sorted : Bool) (c : Comp) (t : Str) (h : toIcal sorted c = .ok t) :
    ∀ p ∈ splitCRLF (utf8 t), p.length ≤ 75 ∧ ∃ s : Str, p = utf8 s := by
  unfold toIcal at h
  cases hc : contentLines sorted c with
  | error e => rw [hc] at h; cases h
  | ok ls =>
    rw [hc] at h
    have ht : t = linesToIcal ls := by cases h; rfl
    subst ht
    apply lines_bytes
    intro l hl
    obtain ⟨it, _, hit⟩ := mapM_ok_mem (itemLine sorted) _ ls hc l hl
    have hm : ∀ u, mkLine u = .ok l → LF ∉ l := by
      intro u hu
      unfold mkLine at hu
      split at hu
      · cases hu
      · next hcn =>
        injection hu with e; subst e
        intro hmem; apply hcn; simpa using hmem
    unfold itemLine fromParts at hit
    split at hit <;> exact hm _ hit

example : ∃ t, toIcal false (.mk ['X'] [] []) = .ok t := by
  have : contentLines false (.mk ['X'] [] []) = .ok [['B','E','G','I','N',':','X'], ['E','N','D',':','X']] := by
    rfl
  exact ⟨_, by unfold toIcal; rw [this]; rfl⟩

/-! ## Regenerated function body = hand model

  `ICal.Gen.BodiesFold.foldline` is written by tools/py2lean.py from the current source text of
  `parser.foldline` on every run: the `try: line.encode('ascii')` test, the ASCII path
  `fold_sep.join(line[i:i + limit - 1] for i in range(0, len(line), limit - 1))` and the
  per-character loop with `byte_count` and `len(char.encode(DEFAULT_ENCODING))`.  The two `assert`s
  are preconditions (not evaluated; python -O is not modelled).  The theorems prove it equal to the
  model `foldlineWith` / `foldline` that every theorem above is about, for every `limit >= 2`
  (`limit == 1` raises ValueError in the source: `range()` step 0) and with the defaults read from the source. -/

theorem body_foldline_with (limit : Nat) (hl : 2 ≤ limit) (sep line : Str) :
    Gen.BodiesFold.foldline line (limit : Int) sep = .ok (foldlineWith limit sep line) :=
  Bodies.foldline_eq limit hl sep line

theorem body_foldline (line : Str) :
    Gen.BodiesFold.foldline line (Gen.foldLimit : Int) Gen.foldSep = .ok (foldline line) :=
  Bodies.foldline_default_eq line

example : (Gen.BodiesFold.foldline (List.replicate 4 'é') 5 ['|']).toOption = some "éé|éé".toList := by decide
example : (Gen.BodiesFold.foldline "abcdefg".toList 4 ['|']).toOption = some "abc|def|g".toList := by decide
example : (Gen.BodiesFold.foldline ['a'] 1 Gen.foldSep).toOption = none := by decide

end ICal.C06
