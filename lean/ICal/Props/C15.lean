/-
  C15 — an alarm time is active iff it is not acknowledged at/after its (snoozed) trigger.
  Property theorems only; the model is ICal/Model/Alarm.lean (AlarmTime.acknowledged / is_active /
  trigger, Alarms.active / _alarm_time / add_component), helper lemmas are in ICal/Lemmas/Alarm.lean.
  Instants are arbitrary integers (UTC seconds): every ordering, ties included, of trigger,
  alarm ACKNOWLEDGED, component acknowledgement and snooze is covered, each possibly absent.
  `localize` is the local time zone as an arbitrary function from wall seconds to instants.
-/
import ICal.Lemmas.Alarm
import ICal.Lemmas.BodiesAlarm
namespace ICal.C15
open ICal.Alarms

/-- acknowledged-until is the later of the alarm's ACKNOWLEDGED and the component-level
    acknowledgement: absent iff both are absent, otherwise one of them and not earlier than either. -/
theorem acknowledged_is_later (a : AlarmTime) :
    (a.acknowledged = none ↔ a.alarm.acknowledged = none ∧ a.lastAck = none) ∧
    ∀ k, a.acknowledged = some k →
      (a.alarm.acknowledged = some k ∨ a.lastAck = some k) ∧
      (∀ x, a.alarm.acknowledged = some x → x ≤ k) ∧ (∀ x, a.lastAck = some x → x ≤ k) :=
  ⟨optMax_none_iff _ _, fun k h => optMax_some _ _ k h⟩

/-- The component-level acknowledgement is DTSTAMP, or X-MOZ-LASTACK when the component carries any
    X-MOZ- property; only Thunderbird components carry a snooze (X-MOZ-SNOOZE-TIME). -/
theorem component_ack_wiring (localize : Int → Int) (p : Parent) (start end_ : Option Trig)
    (as : List VAlarm) (tz : Bool) (ts : List AlarmTime)
    (h : times localize (componentState p start end_ as tz) = .ok ts) (x : AlarmTime) (hx : x ∈ ts) :
    x.lastAck = (if p.isThunderbird then p.lastack else p.dtstamp) ∧
    x.snooze = (if p.isThunderbird then p.snoozeTime else none) := by
  have := times_mem localize _ ts h x hx
  rw [componentState_eq] at this
  exact ⟨this.1, this.2.1⟩

/-- Whenever `is_active` answers, the answer is: nothing is acknowledged, or the snooze is later than
    the acknowledgement, or the trigger is later than the acknowledgement. -/
theorem active_iff (a : AlarmTime) (b : Bool) (h : a.isActive = .ok b) :
    (b = true ↔
      a.acknowledged = none ∨
      (∃ s k, a.snooze = some s ∧ a.acknowledged = some k ∧ s > k) ∨
      (∃ t k, a.trig = .aware t ∧ a.acknowledged = some k ∧ t > k)) := by
  rw [isActive_eq_spec] at h
  unfold isActiveSpec at h
  cases hk : a.acknowledged with
  | none => rw [hk] at h; injection h with h; simp [← h]
  | some k =>
    rw [hk] at h
    cases hs : a.snooze with
    | none =>
      rw [hs] at h
      cases ht : a.trig with
      | aware t => rw [ht] at h; injection h with h; simp [← h]
      | floating w => rw [ht] at h; cases h
      | date d => rw [ht] at h; cases h
    | some s =>
      rw [hs] at h
      cases ht : a.trig with
      | aware t => rw [ht] at h; injection h with h; simp [← h]
      | floating w =>
        rw [ht] at h
        by_cases h1 : s > k
        · simp [h1] at h; simp [← h, h1]
        · simp [h1] at h
      | date d =>
        rw [ht] at h
        by_cases h1 : s > k
        · simp [h1] at h; simp [← h, h1]
        · simp [h1] at h

/-- The same with the *reported* trigger (the snooze time when the alarm is snoozed past its trigger):
    the two readings of "its trigger" agree. -/
theorem active_iff_reported (a : AlarmTime) (b : Bool) (h : a.isActive = .ok b) :
    (b = true ↔
      a.acknowledged = none ∨
      (∃ s k, a.snooze = some s ∧ a.acknowledged = some k ∧ s > k) ∨
      (∃ t k, a.trigger = .ok (.aware t) ∧ a.acknowledged = some k ∧ t > k)) := by
  rw [active_iff a b h]
  constructor
  · rintro (h0 | h1 | ⟨t, k, ht, hk, hgt⟩)
    · exact Or.inl h0
    · exact Or.inr (Or.inl h1)
    · cases hs : a.snooze with
      | none => exact Or.inr (Or.inr ⟨t, k, by simp [AlarmTime.trigger, hs, ht], hk, hgt⟩)
      | some s =>
        by_cases hst : s > t
        · exact Or.inr (Or.inl ⟨s, k, rfl, hk, by omega⟩)
        · exact Or.inr (Or.inr ⟨t, k, by simp [AlarmTime.trigger, hs, ht, toDatetime, hst], hk, hgt⟩)
  · rintro (h0 | h1 | ⟨t, k, ht, hk, hgt⟩)
    · exact Or.inl h0
    · exact Or.inr (Or.inl h1)
    · unfold AlarmTime.trigger at ht
      cases hs : a.snooze with
      | none =>
        rw [hs] at ht
        injection ht with ht
        exact Or.inr (Or.inr ⟨t, k, ht, hk, hgt⟩)
      | some s =>
        rw [hs] at ht
        cases htr : a.trig with
        | aware t0 =>
          rw [htr] at ht
          simp only [toDatetime] at ht
          by_cases hst : s > t0
          · simp [hst] at ht
            subst ht
            exact Or.inr (Or.inl ⟨s, k, rfl, hk, hgt⟩)
          · simp [hst] at ht
            subst ht
            exact Or.inr (Or.inr ⟨t0, k, rfl, hk, hgt⟩)
        | floating w => rw [htr] at ht; simp [toDatetime] at ht
        | date d => rw [htr] at ht; simp [toDatetime] at ht

/-- A snooze later than the trigger moves the reported trigger to the snooze time; otherwise the
    reported trigger is the computed one. -/
theorem snooze_moves (a : AlarmTime) (s t : Int) (hs : a.snooze = some s) (ht : a.trig = .aware t) :
    a.trigger = .ok (.aware (if s > t then s else t)) := by
  unfold AlarmTime.trigger
  rw [hs, ht]
  by_cases h : s > t <;> simp [toDatetime, h]

/-- Without a snooze the reported trigger is the computed one, whatever its kind. -/
theorem unsnoozed_trigger (a : AlarmTime) (hs : a.snooze = none) : a.trigger = .ok a.trig := by
  unfold AlarmTime.trigger
  rw [hs]

/-- The only error of the `trigger` accessor is LocalTimezoneMissing, for a snoozed alarm whose
    computed trigger is floating or a date. -/
theorem trigger_only_error (a : AlarmTime) (e : AErr) (h : a.trigger = .error e) :
    e = .localTimezoneMissing ∧ a.snooze ≠ none ∧ a.trig.isAware = false := by
  unfold AlarmTime.trigger at h
  cases hs : a.snooze with
  | none => rw [hs] at h; cases h
  | some s =>
    rw [hs] at h
    cases ht : a.trig with
    | aware t => rw [ht] at h; simp only [toDatetime] at h; split at h <;> cases h
    | floating w => rw [ht] at h; simp [toDatetime] at h; simp [← h, Trig.isAware]
    | date d => rw [ht] at h; simp [toDatetime] at h; simp [← h, Trig.isAware]

/-- The active list is a sub-list of all times. -/
theorem active_sublist (localize : Int → Int) (s : State) (l : List AlarmTime)
    (h : active localize s = .ok l) :
    ∃ ts, times localize s = .ok ts ∧ l.Sublist ts ∧ ∀ x, x ∈ l ↔ x ∈ ts ∧ x.isActive = .ok true := by
  unfold active at h
  cases ht : times localize s with
  | error e => rw [ht] at h; cases h
  | ok ts =>
    rw [ht] at h
    exact ⟨ts, rfl, filterE_sublist _ _ _ h, filterE_mem _ _ _ h⟩

/-- Moving the acknowledgement later never activates an alarm (and never produces an error that was
    not there): per alarm time, for the effective acknowledgement. -/
theorem ack_monotone (a a' : AlarmTime) (htrig : a.trig = a'.trig) (hsn : a.snooze = a'.snooze)
    (hle : ackLe a.acknowledged a'.acknowledged) (b' : Bool) (h : a'.isActive = .ok b') :
    ∃ b, a.isActive = .ok b ∧ (b' = true → b = true) := by
  rw [isActive_eq_spec] at h ⊢
  rw [htrig, hsn]
  unfold isActiveSpec at h ⊢
  cases hk : a.acknowledged with
  | none => exact ⟨true, rfl, fun _ => rfl⟩
  | some k =>
    cases hk' : a'.acknowledged with
    | none => rw [hk, hk'] at hle; exact hle.elim
    | some k' =>
      rw [hk, hk'] at hle
      rw [hk'] at h
      have hle' : k ≤ k' := hle
      cases hs : a'.snooze with
      | none =>
        rw [hs] at h
        cases ht : a'.trig with
        | aware t =>
          rw [ht] at h
          injection h with h
          refine ⟨_, rfl, ?_⟩
          subst h
          simp only [decide_eq_true_eq]
          omega
        | floating w => rw [ht] at h; cases h
        | date d => rw [ht] at h; cases h
      | some s =>
        rw [hs] at h
        cases ht : a'.trig with
        | aware t =>
          rw [ht] at h
          injection h with h
          refine ⟨_, rfl, ?_⟩
          subst h
          simp only [Bool.or_eq_true, decide_eq_true_eq]
          omega
        | floating w =>
          rw [ht] at h
          by_cases h1 : s > k'
          · have h2 : s > k := by omega
            simp only [h2, if_true]
            exact ⟨true, rfl, fun _ => rfl⟩
          · simp [h1] at h
        | date d =>
          rw [ht] at h
          by_cases h1 : s > k'
          · have h2 : s > k := by omega
            simp only [h2, if_true]
            exact ⟨true, rfl, fun _ => rfl⟩
          · simp [h1] at h

/-- Moving the component-level acknowledgement (DTSTAMP / X-MOZ-LASTACK / `acknowledge_until`) later:
    every alarm time active afterwards was active before, in the same order. -/
theorem ack_monotone_component (localize : Int → Int) (s : State) (k' : Option Int)
    (hle : ackLe s.lastAck k') (l' : List AlarmTime)
    (h : active localize (acknowledgeUntil s k') = .ok l') :
    ∃ l, active localize s = .ok l ∧ (l'.map AlarmTime.key).Sublist (l.map AlarmTime.key) := by
  unfold active at h ⊢
  rw [times_acknowledgeUntil] at h
  cases ht : times localize s with
  | error e => rw [ht] at h; cases h
  | ok ts =>
    rw [ht] at h
    simp only [Except.map] at h
    -- every element of `ts` carries `s.lastAck`
    have hmem := times_mem localize s ts ht
    -- restrict the element-wise relation to members of `ts` by working on the attached list
    suffices hgen : ∀ (l0 : List AlarmTime), (∀ x ∈ l0, x.lastAck = s.lastAck) → ∀ r',
        filterE AlarmTime.isActive (l0.map (fun x => { x with lastAck := k' })) = .ok r' →
        ∃ r, filterE AlarmTime.isActive l0 = .ok r ∧
          (r'.map AlarmTime.key).Sublist (r.map AlarmTime.key) from
      hgen ts (fun x hx => (hmem x hx).1) l' h
    intro l0
    induction l0 with
    | nil =>
      intro _ r' hr'
      simp [filterE] at hr'
      subst hr'
      exact ⟨[], by simp [filterE], List.Sublist.refl _⟩
    | cons x xs ih =>
      intro hall r' hr'
      rw [List.map_cons] at hr'
      obtain ⟨b', r1, hb', hr1, hr⟩ := filterE_cons_ok hr'
      subst hr
      obtain ⟨r, hr, hsub⟩ := ih (fun y hy => hall y (List.mem_cons_of_mem _ hy)) r1 hr1
      have hx := hall x List.mem_cons_self
      obtain ⟨b, hb, himp⟩ := ack_monotone x { x with lastAck := k' } rfl rfl
        (by
          unfold AlarmTime.acknowledged
          rw [hx]
          exact optMax_mono_right _ _ _ hle) b' hb'
      refine ⟨if b then x :: r else r, ?_, ?_⟩
      · unfold filterE; rw [hb]; simp only; rw [hr]
      · cases b' <;> cases b
        · simpa using hsub
        · simp only [Bool.false_eq_true, if_false, if_true, List.map_cons]
          exact List.Sublist.cons _ hsub
        · simp at himp
        · simp only [if_true, List.map_cons]
          exact List.Sublist.cons_cons _ hsub

/-- Moving an alarm's own ACKNOWLEDGED later never activates its alarm times either. -/
theorem ack_monotone_alarm (a : AlarmTime) (k' : Option Int) (hle : ackLe a.alarm.acknowledged k')
    (b' : Bool) (h : ({ a with alarm := { a.alarm with acknowledged := k' } } : AlarmTime).isActive = .ok b') :
    ∃ b, a.isActive = .ok b ∧ (b' = true → b = true) :=
  ack_monotone a { a with alarm := { a.alarm with acknowledged := k' } } rfl rfl
    (by unfold AlarmTime.acknowledged; exact optMax_mono_left _ _ _ hle) b' h

/-- The only error of `is_active` is LocalTimezoneMissing, and only for an acknowledged alarm whose
    computed trigger is floating or a date (no local time zone was applied). -/
theorem only_error (a : AlarmTime) (e : AErr) (h : a.isActive = .error e) :
    e = .localTimezoneMissing ∧ a.trig.isAware = false ∧ a.acknowledged ≠ none := by
  rw [isActive_eq_spec] at h
  unfold isActiveSpec at h
  cases hk : a.acknowledged with
  | none => rw [hk] at h; cases h
  | some k =>
    rw [hk] at h
    cases hs : a.snooze with
    | none =>
      rw [hs] at h
      cases ht : a.trig with
      | aware t => rw [ht] at h; cases h
      | floating w => rw [ht] at h; injection h with h; simp [← h, Trig.isAware]
      | date d => rw [ht] at h; injection h with h; simp [← h, Trig.isAware]
    | some s =>
      rw [hs] at h
      cases ht : a.trig with
      | aware t => rw [ht] at h; cases h
      | floating w => rw [ht] at h; simp only at h; split at h <;> simp_all [Trig.isAware]
      | date d => rw [ht] at h; simp only at h; split at h <;> simp_all [Trig.isAware]

/-- `Alarms.active` fails only where `times` fails (C14's documented errors), or with
    LocalTimezoneMissing when no local time zone is set and some alarm time is floating or a date. -/
theorem only_error_alarms (localize : Int → Int) (s : State) (e : AErr)
    (h : active localize s = .error e) :
    times localize s = .error e ∨
    (e = .localTimezoneMissing ∧ s.localTz = false ∧
      ∃ ts, times localize s = .ok ts ∧ ∃ x ∈ ts, x.trig.isAware = false) := by
  unfold active at h
  cases ht : times localize s with
  | error e' => rw [ht] at h; exact Or.inl h
  | ok ts =>
    rw [ht] at h
    obtain ⟨x, hx, hp⟩ := filterE_error _ _ _ h
    obtain ⟨he, hna, _⟩ := only_error x e hp
    refine Or.inr ⟨he, ?_, ts, rfl, x, hx, hna⟩
    have := (times_mem localize s ts ht x hx).2.2
    cases hl : s.localTz with
    | false => rfl
    | true => rw [this hl] at hna; cases hna

/-- With a local time zone set, `active` answers whenever `times` does. -/
theorem local_timezone_suffices (localize : Int → Int) (s : State) (hl : s.localTz = true)
    (ts : List AlarmTime) (h : times localize s = .ok ts) : ∃ l, active localize s = .ok l := by
  cases ha : active localize s with
  | ok l => exact ⟨l, rfl⟩
  | error e =>
    rcases only_error_alarms localize s e ha with h1 | ⟨_, h2, _⟩
    · rw [h] at h1; cases h1
    · rw [hl] at h2; cases h2

/-! Non-vacuity: every branch of the decision table is inhabited, ties included. -/
-- acknowledged exactly at the trigger: not active (the comparison is strict)
example : ({ alarm := { acknowledged := some 10 }, trig := .aware 10 } : AlarmTime).isActive = .ok false := by decide
-- the later of the two acknowledgements counts
example : ({ alarm := { acknowledged := some 5 }, trig := .aware 10, lastAck := some 12 } : AlarmTime).isActive = .ok false := by decide
example : ({ alarm := { acknowledged := some 5 }, trig := .aware 10, lastAck := some 7 } : AlarmTime).isActive = .ok true := by decide
-- snoozed past the acknowledgement: active although the trigger is acknowledged, reported at the snooze time
example : ({ alarm := {}, trig := .aware 10, lastAck := some 12, snooze := some 13 } : AlarmTime).isActive = .ok true := by decide
example : ({ alarm := {}, trig := .aware 10, lastAck := some 12, snooze := some 13 } : AlarmTime).trigger = .ok (.aware 13) := by decide
-- snooze equal to the acknowledgement does not reactivate
example : ({ alarm := {}, trig := .aware 10, lastAck := some 12, snooze := some 12 } : AlarmTime).isActive = .ok false := by decide
-- floating and date triggers without a local time zone
example : ({ alarm := {}, trig := .floating 10, lastAck := some 12 } : AlarmTime).isActive = .error .localTimezoneMissing := by decide
example : ({ alarm := {}, trig := .date 3, lastAck := some 12 } : AlarmTime).isActive = .error .localTimezoneMissing := by decide
example : ({ alarm := {}, trig := .date 3 } : AlarmTime).isActive = .ok true := by decide
-- a Thunderbird component uses X-MOZ-LASTACK, not DTSTAMP; with a local time zone the date trigger is decided
example : (active (fun w => w - 3600)
    (componentState { dtstamp := some 0, lastack := some 400000 } (some (.date 5)) none
      [{ trigger := some (.rel (-86400)) }, { trigger := some (.rel 0) }] true)).map (·.map AlarmTime.key)
    = .ok [({ trigger := some (.rel 0) }, .aware 428400)] := by decide
example : ackLe (some 3) (some 3) ∧ ackLe none (some 0) := by simp [ackLe]

/-! ## Clause pass (round 10) -/

/-- The decision table as ONE total function of the four optional instants, for every ordering
    (equalities included): with an aware computed trigger `t`, `is_active` never fails and answers
    exactly "nothing acknowledged, or snoozed strictly after the later acknowledgement, or triggered
    strictly after it". -/
theorem active_decision_table (a : AlarmTime) (t : Int) (ht : a.trig = .aware t) :
    a.isActive = .ok (match optMax a.alarm.acknowledged a.lastAck with
      | none => true
      | some k => (match a.snooze with | some s => decide (s > k) | none => false) || decide (t > k)) := by
  rw [isActive_eq_spec, ht]
  unfold isActiveSpec AlarmTime.acknowledged
  cases optMax a.alarm.acknowledged a.lastAck with
  | none => rfl
  | some k => cases a.snooze <;> simp

/-- The boundary rows of the table: an acknowledgement AT the trigger, or a snooze that ends AT the
    acknowledgement, leaves the alarm inactive. -/
theorem active_equalities (a : AlarmTime) (t k : Int) (ht : a.trig = .aware t)
    (hk : a.acknowledged = some k) :
    (t = k → a.snooze = none → a.isActive = .ok false) ∧
    (t ≤ k → a.snooze = some k → a.isActive = .ok false) ∧
    (∀ s, a.snooze = some s → k < s → a.isActive = .ok true) ∧
    (k < t → a.isActive = .ok true) := by
  have h := active_decision_table a t ht
  unfold AlarmTime.acknowledged at hk
  rw [hk] at h
  refine ⟨?_, ?_, ?_, ?_⟩
  · intro e hs; rw [h, hs]; simp [e]
  · intro e hs; rw [h, hs]; simp; omega
  · intro s hs hlt; rw [h, hs]; simp; left; omega
  · intro hlt; rw [h]; cases a.snooze <;> simp <;> omega

example : ({ alarm := { acknowledged := some 10 }, trig := .aware 10, lastAck := some 10, snooze := some 10 } : AlarmTime).isActive
    = .ok false := by decide

/-- "Moving an acknowledgement later never activates an alarm", for both acknowledgements at
    once: the alarm's own ACKNOWLEDGED and the component-level one may both move later (or appear);
    what was inactive stays inactive, what is active afterwards was active before. -/
theorem ack_monotone_both (a : AlarmTime) (x' y' : Option Int)
    (hx : ackLe a.alarm.acknowledged x') (hy : ackLe a.lastAck y') (b' : Bool)
    (h : ({ a with alarm := { a.alarm with acknowledged := x' }, lastAck := y' } : AlarmTime).isActive = .ok b') :
    ∃ b, a.isActive = .ok b ∧ (b' = true → b = true) := by
  refine ack_monotone a { a with alarm := { a.alarm with acknowledged := x' }, lastAck := y' } rfl rfl ?_ b' h
  unfold AlarmTime.acknowledged
  have h1 := optMax_mono_left a.lastAck _ _ hx
  have h2 := optMax_mono_right x' _ _ hy
  revert h1 h2
  simp only
  cases optMax a.alarm.acknowledged a.lastAck <;> cases optMax x' a.lastAck <;> cases optMax x' y' <;>
    simp [ackLe] <;> omega

example : ackLe (some 3) (some 4) ∧ ackLe none (some 1) := by simp [ackLe]

/-- Snooze clause, complete: the reported trigger of an aware alarm is the later of trigger and
    snooze; in particular a snooze not later than the trigger changes nothing. -/
theorem snooze_reported (a : AlarmTime) (t : Int) (ht : a.trig = .aware t) :
    a.trigger = .ok (.aware (match a.snooze with | some s => max s t | none => t)) := by
  cases hs : a.snooze with
  | none => rw [unsnoozed_trigger a hs, ht]
  | some s =>
    rw [snooze_moves a s t hs ht]
    by_cases h : s > t
    · simp [h]; omega
    · simp [h]; omega

example : ({ alarm := {}, trig := .aware 10, snooze := some 7 } : AlarmTime).trigger = .ok (.aware 10) := by decide

/-! ## Regenerated function bodies = hand model

  `ICal.Gen.BodiesAlarm.AlarmTime_*` are written by tools/py2lean.py from the current source text of
  `AlarmTime.acknowledged`, `.trigger` and `.is_active` on every run.  The translated code works on
  date/datetime OBJECTS (the hand model's `Trig`): `>`, `max`, `.tzinfo is None` are Python's partial
  operations (ICal/Model/PyRTAlarm.lean), a test for None is a `match`, `raise LocalTimezoneMissing`
  is an exception value.  Parameters: `self._last_ack`, `self._snooze_until`, `self._trigger`,
  `self.alarm.ACKNOWLEDGED` (cal.Alarm, external) and the function `tools.to_datetime`.  The theorems
  prove them equal to the model's `acknowledged`, `trigger`, `isActive` (every theorem above is about
  these), with the optional UTC instants of the model given as aware datetimes (`Bodies.awareO`) and
  the model's errors as the Python exception classes (`Bodies.liftA`). -/

theorem body_alarmtime_acknowledged (a : AlarmTime) :
    Gen.BodiesAlarm.AlarmTime_acknowledged (alarm_acknowledged := Bodies.awareO a.alarm.acknowledged) (last_ack := Bodies.awareO a.lastAck) =
      .ok (Bodies.awareO a.acknowledged) :=
  Bodies.AlarmTime_acknowledged_eq a

theorem body_alarmtime_trigger (a : AlarmTime) :
    Gen.BodiesAlarm.AlarmTime_trigger (snooze_until := Bodies.awareO a.snooze) (trigger_raw := a.trig) (to_datetime := toDatetime) = Bodies.liftA a.trigger :=
  Bodies.AlarmTime_trigger_eq a

theorem body_alarmtime_is_active (a : AlarmTime) :
    Gen.BodiesAlarm.AlarmTime_is_active (alarm_acknowledged := Bodies.awareO a.alarm.acknowledged) (last_ack := Bodies.awareO a.lastAck)
        (snooze_until := Bodies.awareO a.snooze) (trigger_raw := a.trig) (to_datetime := toDatetime) = Bodies.liftA a.isActive :=
  Bodies.AlarmTime_is_active_eq a

/-- `Alarms.active`: the comprehension `[t for t in self.times if t.is_active()]` (its list and the
    method are parameters) is the model's `filterE` -/
theorem body_alarms_active (ts : List AlarmTime) :
    Gen.BodiesAlarm.Alarms_active ts (fun x => Bodies.liftA x.isActive) = Bodies.liftA (filterE AlarmTime.isActive ts) :=
  Bodies.Alarms_active_eq ts

end ICal.C15
