/-
  C09 — Parsing is invariant under the rewrites RFC 5545 declares insignificant.

  `parseText tzok dec m t = parseLines tzok dec m (linesFromIcal t)`: the reader first turns the text into
  content lines (`stripBOM`, `unfold` = `uFOLD.sub('', ·)`, `splitNewline` = `NEWLINE.split`, empty
  lines dropped) and then runs the line loop of `Component.from_ical` (`pstep`/`prun`).  So a
  rewrite of the *text* is insignificant as soon as it preserves `linesFromIcal`, and a rewrite of
  the *lines* (letter case) as soon as it preserves every `pstep`.

  Text rewrites (`Rewrite`, `Rewrite.apply` in Lemmas/Rewrite.lean):
    crlfToLf          every CR LF becomes LF                      `rep2 CR LF [LF] t`
    addBOM            a byte-order mark in front                  `BOM :: t`
    addBlank(LF)      a trailing blank line                       `t ++ [CR, LF]`, `t ++ [LF]`
    insertFold k kind a fold (CR LF SP, CR LF HT, LF SP, LF HT) inserted at position `k`, if
                      the character before position `k` is neither CR nor LF
  and, not as a function but as a description of the text, `PhysLine`: a content line written
  as a first segment, continuation segments each preceded by its own fold separator, and a
  CR LF or LF terminator — every fold placement at once.

  Well-formedness (`WFLine l`): `RealLine l` (non-empty, no LF, does not start with SP or HT — what
  `Contentline` asserts and what a line that starts with a property name satisfies), does not
  start with U+FEFF, and contains no CR.  The last condition is needed for the LF rewrite and for
  LF-only folds: a line `a CR` written `a CR CR LF` reads back as `a CR`, but after CR LF ↦ LF it
  is `a CR LF` and reads back as `a` (`lf_needs_hypothesis` below).  On texts, the same condition
  is `crOK t`: every CR is immediately followed by LF.
-/
import ICal.Lemmas.Rewrite
import ICal.Lemmas.BodiesParse
namespace ICal.C09

/-! ## 1. LF instead of CR LF -/

/-- On every text in which each CR is immediately followed by LF, replacing CR LF by LF leaves
    the content lines unchanged.  No other assumption on the text: folds, blank lines, a BOM
    and malformed lines are all allowed. -/
theorem lf_invariant (t : Str) (h : crOK t) :
    linesFromIcal (rep2 CR LF [LF] t) = linesFromIcal t :=
  linesFromIcal_lf t h

/-- The hypothesis cannot be dropped: a line that ends with CR loses it. -/
theorem lf_needs_hypothesis :
    linesFromIcal (rep2 CR LF [LF] ['a', CR, CR, LF]) ≠ linesFromIcal ['a', CR, CR, LF] := by
  have e1 : rep2 CR LF [LF] ['a', CR, CR, LF] = ['a', CR] ++ [LF] := by decide
  have e2 : ['a', CR, CR, LF] = ['a', CR] ++ [CR, LF] := rfl
  have hu : unfold (stripBOM ['a', CR]) = ['a', CR] := by
    have h0 : stripBOM ['a', CR] = ['a'] ++ [CR] := by decide
    rw [h0, unfold_plain_seg ['a'] [CR] (by decide),
      unfold_cons_copy CR [] (by intro x rest h; rw [eatNL_none_of CR [] (by decide) (by simp)] at h; cases h),
      unfold_nil]
    rfl
  rw [e1, e2, linesFromIcal_append_crlf]
  intro h
  exact linesFromText_append_lf_ne (stripBOM ['a', CR]) (by rw [hu]; rfl)
    (by unfold linesFromIcal at h; rwa [stripBOM_append _ _ (Or.inl (by simp))] at h)

/-! ## 2. Byte-order mark -/

/-- A byte-order mark in front of a text that does not already start with one is dropped. -/
theorem bom_invariant (t : Str) (h : t.head? ≠ some BOM) :
    linesFromIcal (BOM :: t) = linesFromIcal t :=
  linesFromIcal_bom t h

/-! ## 3. Trailing blank lines -/

/-- A trailing CR LF never changes the content lines — for every text whatsoever. -/
theorem blank_invariant (t : Str) : linesFromIcal (t ++ [CR, LF]) = linesFromIcal t :=
  linesFromIcal_append_crlf t

/-- A trailing bare LF changes nothing if and only if the unfolded text does not end with CR
    (otherwise that CR and the new LF form a CR LF and the last line loses its CR).  This is the
    weakest hypothesis. -/
theorem blank_lf_invariant_iff (t : Str) :
    linesFromIcal (t ++ [LF]) = linesFromIcal t ↔ (unfold (stripBOM t)).getLast? ≠ some CR := by
  constructor
  · intro h hl
    apply linesFromText_append_lf_ne (stripBOM t) hl
    unfold linesFromIcal at h
    rwa [stripBOM_append t _ (Or.inr (by simp [LF, BOM]))] at h
  · exact linesFromIcal_append_lf t

/-- In particular for every text in which each CR is followed by LF. -/
theorem blank_lf_invariant (t : Str) (h : crOK t) : linesFromIcal (t ++ [LF]) = linesFromIcal t :=
  (blank_lf_invariant_iff t).mpr (crOK_getLast _ (crOK_unfold _ (crOK_stripBOM t h)))

/-- Any number of trailing blank lines, each ended by CR LF or by LF. -/
theorem blank_lines_invariant (bs : List Str) (hb : ∀ b ∈ bs, IsBrk b) :
    ∀ (t : Str), crOK t → linesFromIcal (t ++ bs.flatten) = linesFromIcal t := by
  induction bs with
  | nil => intro t _; simp
  | cons b bs ih =>
    intro t h
    have hbs : ∀ x ∈ bs, IsBrk x := fun x hx => hb x (by simp [hx])
    have hbr := hb b (by simp)
    rw [List.flatten_cons, ← List.append_assoc, ih hbs (t ++ b) (crOK_append t b h hbr.crOK)]
    rcases hbr with rfl | rfl
    · exact blank_invariant t
    · exact blank_lf_invariant t h

/-- Only CR LF blank lines: no hypothesis at all. -/
theorem blank_crlf_lines_invariant (n : Nat) (t : Str) :
    linesFromIcal (t ++ (List.replicate n [CR, LF]).flatten) = linesFromIcal t := by
  induction n generalizing t with
  | zero => simp
  | succ n ih =>
    rw [List.replicate_succ, List.flatten_cons, ← List.append_assoc, ih, blank_invariant]

/-! ## 4. Any placement of folds -/

/-- Every way of writing well-formed content lines reads back as those lines: each line is cut
    into a non-empty first segment and any number of continuation segments (empty ones allowed),
    *each* continuation preceded by its own separator — anything the reader takes for a fold
    (`FoldSep`: line breaks followed by exactly one SP or HT; CR LF SP, CR LF HT, LF SP, LF HT are
    instances) — and *each* line ended by CR LF or by LF. -/
theorem physical_lines_invariant (ps : List PhysLine) (h : ∀ p ∈ ps, p.ok) :
    linesFromIcal (physText ps) = ps.map PhysLine.logical :=
  linesFromIcal_physText ps h

/-- The `joinSegs` form with one separator and one terminator: for ANY segmentation of
    well-formed lines (first segment of each line non-empty), not only the one `foldline` chooses.
    Generalises `C06.lines_roundtrip`. -/
theorem refold_invariant (sep brk : Str) (hs : FoldSep sep) (hb : IsBrk brk) (segss : List (List Str))
    (h : ∀ segs ∈ segss, (∃ s0 rest, segs = s0 :: rest ∧ s0 ≠ []) ∧ WFLine segs.flatten) :
    linesFromIcal ((segss.map (fun segs => joinSegs sep segs ++ brk)).flatten) = segss.map List.flatten := by
  have e1 : (segss.map (fun segs => joinSegs sep segs ++ brk)).flatten = physText (segss.map (physOf sep brk)) := by
    unfold physText
    rw [List.map_map]
    congr 1
    apply List.map_congr_left
    intro segs hsegs
    obtain ⟨⟨s0, rest, rfl, _⟩, _⟩ := h segs hsegs
    exact (physOf_text sep brk _ (by simp)).symm
  rw [e1, linesFromIcal_physText]
  · rw [List.map_map]
    apply List.map_congr_left
    intro segs _
    exact physOf_logical sep brk segs
  · intro p hp
    obtain ⟨segs, hsegs, rfl⟩ := List.mem_map.mp hp
    obtain ⟨⟨s0, rest, rfl, hne⟩, hwf⟩ := h segs hsegs
    refine ⟨hne, ?_, hb, ?_⟩
    · intro q hq
      simp only [physOf, List.mem_map] at hq
      obtain ⟨s, _, rfl⟩ := hq
      exact hs
    · rw [physOf_logical]; exact hwf

/-- One more fold, anywhere: in ANY text (well-formed or not) a fold may be inserted after any
    character that is neither CR nor LF. -/
theorem fold_insert_invariant (a b sep : Str) (c : Char) (hc : a.getLast? = some c) (h1 : c ≠ CR)
    (h2 : c ≠ LF) (hs : FoldSep sep) :
    linesFromIcal (a ++ sep ++ b) = linesFromIcal (a ++ b) :=
  linesFromIcal_insert a b sep (by intro e; subst e; simp at hc) (plainEnd_of_getLast a c hc h1 h2) hs

/-! ## 5. Letter case -/

/-- One step of the line loop on a property line: a line whose `parts()` differ from those of `l`
    only in the case of the name (parameter names are upper-cased by `parts()`, so equal
    parameter maps cover any casing of them), with the same value as written. -/
theorem case_invariant_step (tzok : Comp → Bool) (dec : Dec) (st : PState) (l l' n n' : Str) (p : Params)
    (v : Str) (h : parts l = some (n, p, v)) (h' : parts l' = some (n', p, v)) (hn : upper n' = upper n)
    (hr : rawValue l' = rawValue l) :
    pstep tzok dec st l' = pstep tzok dec st l := by
  apply pstep_caseVariant
  refine ⟨?_, ?_⟩
  · constructor
    · intro e; subst e; rw [show parts [] = none by decide] at h; cases h
    · intro e; subst e; rw [show parts [] = none by decide] at h'; cases h'
  · rw [h, h']; exact ⟨rfl, hn, Or.inl ⟨rfl, hr⟩⟩

/-- The same for BEGIN and END lines, where the value (the component name) may change case
    as well (the loop only looks at `upper` of it). -/
theorem case_invariant_step_begin_end (tzok : Comp → Bool) (dec : Dec) (st : PState) (l l' n n' : Str)
    (p : Params) (v v' : Str)
    (h : parts l = some (n, p, v)) (h' : parts l' = some (n', p, v')) (hn : upper n' = upper n)
    (hb : upper n = ['B','E','G','I','N'] ∨ upper n = ['E','N','D']) (hv : upper v' = upper v) :
    pstep tzok dec st l' = pstep tzok dec st l := by
  apply pstep_caseVariant
  refine ⟨?_, ?_⟩
  · constructor
    · intro e; subst e; rw [show parts [] = none by decide] at h; cases h
    · intro e; subst e; rw [show parts [] = none by decide] at h'; cases h'
  · rw [h, h']; exact ⟨rfl, hn, Or.inr ⟨hb, hv⟩⟩

/-- Whole parse: lines related pointwise by `CaseVariant` give the same components and the same
    error log. -/
theorem case_invariant (tzok : Comp → Bool) (dec : Dec) (m : Bool) (ls ls' : List Str)
    (h : Pointwise CaseVariant ls ls') :
    parseLines tzok dec m ls' = parseLines tzok dec m ls :=
  parseLines_caseVariant tzok dec m ls ls' h

/-- Syntactic instance: any casing of the name in front of the first `:` or `;` — for every rest
    of the line (parameters, value, even an unparseable one). -/
theorem case_variant_name (n n' : Str) (hn : validToken n = true) (hn' : validToken n' = true)
    (hu : upper n' = upper n) (c : Char) (hc : c = ':' ∨ c = ';') (r : Str) :
    CaseVariant (n ++ c :: r) (n' ++ c :: r) :=
  caseVariant_name n n' hn hn' hu c hc r

/-- Syntactic instance: any casing of BEGIN/END and of the component name. -/
theorem case_variant_begin_end (n n' w w' : Str) (hn : validToken n = true) (hn' : validToken n' = true)
    (hu : upper n' = upper n) (hw : validToken w = true) (hw' : validToken w' = true)
    (huw : upper w' = upper w) (hb : upper n = ['B','E','G','I','N'] ∨ upper n = ['E','N','D']) :
    CaseVariant (n ++ ':' :: w) (n' ++ ':' :: w') :=
  caseVariant_begin_end n n' w w' hn hn' hu hw hw' huw hb

/-! ## 6. Any composition -/

/-- Any sequence of text rewrites, with at most one `addBOM`, applied to any text in which each
    CR is followed by LF and which does not start with a BOM, preserves the content lines.
    (Two BOMs are not insignificant: the reader drops one, the second becomes part of the first
    line.  Each rewrite re-establishes what the next one needs: `crOK` is preserved by all five,
    and no rewrite other than `addBOM` creates a leading BOM.) -/
theorem compose_invariant_text (rs : List Rewrite) (t : Str) (h : crOK t) (hb : t.head? ≠ some BOM)
    (hc : rs.countP Rewrite.isBOM ≤ 1) :
    linesFromIcal (applyAll rs t) = linesFromIcal t :=
  linesFromIcal_applyAll rs t h hc (fun e => absurd e hb)

/-- From the canonical text of well-formed lines (each line followed by CR LF). -/
theorem compose_invariant (rs : List Rewrite) (ls : List Str) (h : ∀ l ∈ ls, WFLine l)
    (hc : rs.countP Rewrite.isBOM ≤ 1) :
    linesFromIcal (applyAll rs (body ls)) = ls := by
  rw [compose_invariant_text rs _ (crOK_body ls (fun l hl => (h l hl).2.2)) (body_head ls h) hc,
    linesFromIcal_body ls h]

/-! ## The property -/

/-- C09.  Take well-formed content lines `ls` and their canonical text `body ls`.  Take any
    case variant of the lines, write it down in any physical form (`ps`: any fold placement,
    any fold separators, CR LF or LF per line), then apply any sequence of text rewrites
    (CR LF ↦ LF, a BOM, trailing blank lines, further folds).  The parse — components and error
    log, or the failure — is the same, for every value decoder `dec`, every time zone cache
    behaviour `tzok` and both values of `multiple`. -/
theorem parse_invariant (tzok : Comp → Bool) (dec : Dec) (m : Bool) (ls : List Str) (ps : List PhysLine)
    (rs : List Rewrite)
    (hls : ∀ l ∈ ls, WFLine l) (hps : ∀ p ∈ ps, p.ok)
    (hcv : Pointwise CaseVariant ls (ps.map PhysLine.logical))
    (hc : rs.countP Rewrite.isBOM ≤ 1) :
    parseText tzok dec m (applyAll rs (physText ps)) = parseText tzok dec m (body ls) := by
  unfold parseText
  rw [compose_invariant_text rs _ (crOK_physText ps hps) (physText_head ps hps) hc,
    physical_lines_invariant ps hps, linesFromIcal_body ls hls]
  exact case_invariant tzok dec m ls _ hcv

/-! ## Non-vacuity -/

/-- every CR followed by LF: a folded, LF-terminated, blank-line-carrying text -/
example : crOK ['A', ':', '1', CR, LF, SP, '2', LF, CR, LF] := by
  simp [crOK, CR, LF, SP]

/-- the four standard separators are fold separators; so is a doubled line break before SP -/
example : FoldSep [CR, LF, SP] ∧ FoldSep [CR, LF, HT] ∧ FoldSep [LF, SP] ∧ FoldSep [LF, HT] :=
  ⟨foldSep_crlf_sp, foldSep_crlf_ht, foldSep_lf_sp, foldSep_lf_ht⟩

/-- well-formed lines -/
example : ∀ l ∈ ["BEGIN:VEVENT".toList, "SUMMARY;LANGUAGE=en:a b".toList, "END:VEVENT".toList], WFLine l := by
  intro l hl
  simp only [List.mem_cons, List.mem_nil_iff, or_false] at hl
  rcases hl with rfl | rfl | rfl <;> exact ⟨⟨by decide, by decide, by decide, by decide⟩, by decide, by decide⟩

/-- a physical line with an empty continuation segment, two different separators and an LF end -/
example : (PhysLine.mk "SUM".toList [([CR, LF, HT], "MARY:a".toList), ([LF, SP], []), ([LF, SP], " b".toList)] [LF]).ok := by
  refine ⟨by decide, ?_, Or.inr rfl, ⟨⟨by decide, by decide, by decide, by decide⟩, by decide, by decide⟩⟩
  intro q hq
  simp only [List.mem_cons, List.mem_nil_iff, or_false] at hq
  rcases hq with rfl | rfl | rfl
  · exact foldSep_crlf_ht
  · exact foldSep_lf_sp
  · exact foldSep_lf_sp

/-- the hypotheses of `case_invariant_step` hold for a line with lower-case property and
    parameter names -/
example : ∃ n n' p v, parts "DTSTART;TZID=X:1".toList = some (n, p, v) ∧
    parts "dtstart;tzid=X:1".toList = some (n', p, v) ∧ upper n' = upper n ∧
    rawValue "dtstart;tzid=X:1".toList = rawValue "DTSTART;TZID=X:1".toList :=
  ⟨"DTSTART".toList, "dtstart".toList, [("TZID".toList, PVal.one "X".toList)], "1".toList,
    by decide, by decide, by decide, by decide⟩

/-- `CaseVariant` relates a calendar to its lower-case spelling -/
example : Pointwise CaseVariant
    ["BEGIN:VEVENT".toList, "SUMMARY;LANGUAGE=en:a b".toList, "END:VEVENT".toList]
    ["begin:vevent".toList, "summary;LANGUAGE=en:a b".toList, "End:Vevent".toList] := by
  refine .cons ?_ (.cons ?_ (.cons ?_ .nil))
  · exact caseVariant_begin_end "BEGIN".toList "begin".toList "VEVENT".toList "vevent".toList
      (by decide) (by decide) (by decide) (by decide) (by decide) (by decide) (Or.inl (by decide))
  · exact caseVariant_name "SUMMARY".toList "summary".toList (by decide) (by decide) (by decide) ';'
      (Or.inr rfl) _
  · exact caseVariant_begin_end "END".toList "End".toList "VEVENT".toList "Vevent".toList
      (by decide) (by decide) (by decide) (by decide) (by decide) (by decide) (Or.inr (by decide))

/-- a rewrite sequence with exactly one BOM, and one that actually changes the text -/
example : [Rewrite.insertFold 3 .lfHt, .crlfToLf, .addBlankLF, .addBOM, .addBlank].countP Rewrite.isBOM ≤ 1 := by
  decide

example : applyAll [Rewrite.insertFold 3 .crlfSp, .crlfToLf, .addBOM, .addBlank] ['A', ':', 'x', 'y', CR, LF] =
    [BOM, 'A', ':', 'x', LF, SP, 'y', LF, CR, LF] := by
  decide

/-! ## the regenerated `Component.from_ical` (ICal/Gen/BodiesParse.lean, rewritten from cal.py by tools/py2lean.py on every run) -/

/-- what the caller sees of the translated function is `parseText`, of which `parse_invariant` speaks -/
theorem body_parseText (tzok : Comp → Bool) (dec : Dec) (multiple : Bool) (st : Str) :
    Bodies.fromIcalTrees tzok dec multiple st = parseText tzok dec multiple st :=
  Bodies.fromIcalTrees_parseText tzok dec multiple st

/-- `parse_invariant` on the translated function -/
theorem body_parse_invariant (tzok : Comp → Bool) (dec : Dec) (m : Bool) (ls : List Str) (ps : List PhysLine)
    (rs : List Rewrite)
    (hls : ∀ l ∈ ls, WFLine l) (hps : ∀ p ∈ ps, p.ok)
    (hcv : Pointwise CaseVariant ls (ps.map PhysLine.logical))
    (hc : rs.countP Rewrite.isBOM ≤ 1) :
    Bodies.fromIcalTrees tzok dec m (applyAll rs (physText ps)) = Bodies.fromIcalTrees tzok dec m (body ls) := by
  rw [body_parseText, body_parseText]; exact parse_invariant tzok dec m ls ps rs hls hps hcv hc

end ICal.C09
