/-
  C10 — serialisation is deterministic, pure and insertion-order independent.
  Property theorems only; the model is ICal/Model/Ser.lean (property_items, content_line,
  content_lines, to_ical), ICal/Model/Params.lean (Parameters.to_ical) and ICal/Model/TzUse.lean
  (add_missing_timezones); helper lemmas are in ICal/Lemmas/Ser.lean.

  "Serialising twice gives the same bytes and leaves the tree unchanged": in the model `toIcal`
  is a function of the tree that returns text only, so this clause holds by construction; that
  the implementation is such a function (no hidden state, no write to the tree) is what the
  differential run and the oracle of harness/props/C10.py check.
-/
import ICal.Lemmas.Ser
import ICal.Lemmas.BodiesSer
import ICal.Lemmas.BodiesSerLines
namespace ICal.C10

/-! ### with sorting on, insertion order of distinct names is immaterial -/

/-- `Parameters.to_ical(sorted=True)` does not depend on the order in which the (distinct)
    parameter names were inserted. -/
theorem params_perm (p q : Params) (hp : (p.map Prod.fst).Nodup) (h : p.Perm q) :
    paramsToIcal p true = paramsToIcal q true := by
  simp only [paramsToIcal, if_true, sortByKey_perm_eq p q hp h]

/-- `property_items(sorted=True)` does not depend on the order in which the distinct property
    names of the component were inserted. -/
theorem items_perm_props (n : Str) (props props' : List Entry) (subs : List Comp)
    (hn : (props.map (·.name)).Nodup) (h : props.Perm props') :
    items true (.mk n props subs) = items true (.mk n props' subs) := by
  rw [items_mk, items_mk, propNames_perm n props props' h,
    flatMap_congr' _ _ _ (fun k _ => entryItems_perm props props' hn h k)]

/-- ... and neither do the bytes of `to_ical(sorted=True)`. -/
theorem toIcal_perm_props (n : Str) (props props' : List Entry) (subs : List Comp)
    (hn : (props.map (·.name)).Nodup) (h : props.Perm props') :
    toIcal true (.mk n props subs) = toIcal true (.mk n props' subs) := by
  simp only [toIcal, contentLines, items_perm_props n props props' subs hn h]

/-- The whole-tree statement.  `InsEq t t'`: at every level `t'` has the same component name,
    the same property mapping up to a rearrangement of its (distinct) names, for every name the
    same values in the same order, every value with the same text and the same parameters up
    to a rearrangement, and the same subcomponents in the same order (recursively).
    `dictInv t`: the dictionary invariants (distinct property names per component, distinct
    parameter names per value).  Then `to_ical(sorted=True)` gives the same bytes (or the same
    error). -/
theorem toIcal_insertion_order_free (t t' : Comp) (h : InsEq t t') (hw : dictInv t = true) :
    toIcal true t = toIcal true t' := by
  simp only [toIcal, contentLines]
  rw [mapM_eq_of_map_eq _ _ _ (items_insEq t t' h hw)]

/-! ### what keeps its insertion order -/

/-- With sorting on: the names come in canonical order (`canonsort_keys`, characterised by
    `ICal.C17.canonsort_spec`), and for each name the repeated values keep their order. -/
theorem items_sorted_order (n : Str) (props : List Entry) (subs : List Comp)
    (hn : (props.map (·.name)).Nodup) :
    items true (.mk n props subs) =
      beginItem n :: ((CDict.canonsort (props.map (·.name)) (canonicalOrderOf n)).flatMap (entryItems props)
        ++ itemsList true subs ++ [endItem n])
    ∧ ∀ e ∈ props, entryItems props e.name = e.vals.map (fun v => ⟨e.name, v.text, v.params⟩) :=
  ⟨by rw [items_mk]; simp only [propNames, if_true], fun e he => entryItems_of_mem props hn e he⟩

/-- With sorting off: properties appear exactly in insertion order, the repeated values of one
    name in their order, then the subcomponents in their order. -/
theorem items_unsorted_order (n : Str) (props : List Entry) (subs : List Comp)
    (hn : (props.map (·.name)).Nodup) :
    items false (.mk n props subs) =
      beginItem n :: (props.flatMap (fun e => e.vals.map (fun v => ⟨e.name, v.text, v.params⟩))
        ++ itemsList false subs ++ [endItem n]) := by
  rw [items_mk]
  have : propNames false n props = props.map (·.name) := by simp [propNames]
  rw [this, propItems_unsorted props hn]

/-- Subcomponents are serialised in insertion order after the properties, for both values of
    `sorted`; their blocks are concatenated. -/
theorem items_subs_order (b : Bool) (n : Str) (props : List Entry) (subs : List Comp) :
    items b (.mk n props subs) =
      beginItem n :: ((propNames b n props).flatMap (entryItems props) ++ itemsList b subs ++ [endItem n])
    ∧ itemsList b subs = subs.flatMap (items b)
    ∧ ∀ cs ds, itemsList b (cs ++ ds) = itemsList b cs ++ itemsList b ds :=
  ⟨items_mk b n props subs, itemsList_eq_flatMap b subs, itemsList_append b⟩

/-! ### BEGIN/END nesting -/

/-- The output is a balanced, properly nested sequence of BEGIN/END blocks: scanning the items
    with a stack (push the text of a BEGIN, an END must find its own text on top and pops it)
    never fails and ends with the empty stack.  `WFNames t`: no property is stored under the
    name BEGIN or END. -/
theorem items_balanced (b : Bool) (t : Comp) (hw : WFNames t) : balancedItems [] (items b t) = true := by
  have := balanced_items b t hw [] []
  rw [List.append_nil] at this
  rw [this]; rfl

/-- `WFNames` cannot be dropped: a property stored under the name END closes the block early
    (`property_items` yields it like any other property). -/
theorem items_unbalanced_witness :
    balancedItems [] (items false (.mk ['X'] [⟨['E','N','D'], false, [⟨['v'], ['Y'], []⟩]⟩] [])) = false := by
  decide

/-! ### add_missing_timezones -/

/-- `get_missing_tzids()` returns a `set`; `addMissingFrom knows enum` is `add_missing_timezones`
    with the enumeration `enum` of that set made explicit (the code iterates over
    `sorted(enum)`).  Two enumerations of the same set give the same tree, and every enumeration
    of the set of missing ids gives the result of the model `addMissing` (which the differential
    run compares with the implementation). -/
theorem addMissing_enumeration_free (knows : Str → Bool) (t : Comp) (enum enum' : List Str) :
    (enum.Perm enum' → addMissingFrom knows enum t = addMissingFrom knows enum' t)
    ∧ (enum.Perm (missingTzids t) → addMissingFrom knows enum t = addMissing knows t) :=
  ⟨fun h => addMissingFrom_perm knows enum enum' h t,
   fun h => (addMissingFrom_perm knows enum _ h t).trans (addMissingFrom_missing knows t)⟩

/-- The appended VTIMEZONEs are in code-point order of their ids, without repetition, and the
    set of used ids (hence the result) depends only on which ids occur, not on how often or in
    which order the scan meets them. -/
theorem addMissing_sorted_set (knows : Str → Bool) (n : Str) (p : List Entry) (subs : List Comp) :
    addMissing knows (.mk n p subs) = .mk n p (subs ++ ((missingTzids (.mk n p subs)).filter knows).map genTz)
    ∧ ((missingTzids (.mk n p subs)).filter knows).Pairwise (fun a b => strLe a b = true)
    ∧ ((missingTzids (.mk n p subs)).filter knows).Nodup
    ∧ ∀ l l' : List Str, (∀ k, k ∈ l ↔ k ∈ l') → toSet l = toSet l' :=
  ⟨rfl, List.Pairwise.sublist List.filter_sublist (missingTzids_sorted _),
   (missingTzids_nodup _).sublist List.filter_sublist, toSet_ext⟩

/-! ### Non-vacuity -/

private def s (x : String) : Str := x.toList
private def v (t : String) (p : Params := []) : Val := ⟨s "vText", s t, p⟩
private def alarm : Comp := .mk (s "VALARM") [⟨s "ACTION", false, [v "DISPLAY"]⟩] []
private def eSummary : Entry :=
  ⟨s "SUMMARY", false, [v "hi" [(s "LANGUAGE", .one (s "en")), (s "ALTREP", .one (s "x"))]]⟩
private def eSummary' : Entry :=
  ⟨s "SUMMARY", false, [v "hi" [(s "ALTREP", .one (s "x")), (s "LANGUAGE", .one (s "en"))]]⟩
private def eStart : Entry := ⟨s "DTSTART", false, [v "20200101"]⟩
private def eAtt : Entry := ⟨s "ATTENDEE", true, [v "b", v "a"]⟩
/-- two distinct single properties, a repeated property, a subcomponent -/
private def t1 : Comp := .mk (s "VEVENT") [eSummary, eStart, eAtt] [alarm]
/-- the same event, built in another order of properties and of parameters -/
private def t2 : Comp := .mk (s "VEVENT") [eAtt, eSummary', eStart] [alarm]

-- hypotheses of `items_perm_props` / `items_unsorted_order` hold of `t1`
example : ([eSummary, eStart, eAtt].map (·.name)).Nodup := by decide
example : [eSummary, eStart, eAtt].Perm [eAtt, eSummary, eStart] := by decide
example : items true t1 = items true (.mk (s "VEVENT") [eAtt, eSummary, eStart] [alarm]) :=
  items_perm_props _ _ _ _ (by decide) (by decide)
-- hypotheses of the whole-tree theorem hold of `t1`, `t2` (parameters rearranged as well)
example : dictInv t1 = true := by decide
private theorem insEq_t1_t2 : InsEq t1 t2 := by
  refine ⟨rfl, ⟨[eAtt, eSummary, eStart], by decide, ?_⟩, ⟨⟨rfl, insEq_refl_props _, trivial⟩, trivial⟩⟩
  refine ⟨⟨rfl, rfl, ⟨rfl, rfl, .refl _⟩, ⟨rfl, rfl, .refl _⟩, trivial⟩, ⟨rfl, rfl, ⟨rfl, rfl, ?_⟩, trivial⟩,
    ⟨rfl, rfl, ⟨rfl, rfl, .refl _⟩, trivial⟩, trivial⟩
  exact List.Perm.swap _ _ _
example : toIcal true t1 = toIcal true t2 := toIcal_insertion_order_free t1 t2 insEq_t1_t2 (by decide)
-- with sorting off the order of insertion shows (so the `sorted` hypothesis matters)
example : items false t1 ≠ items false t2 := by decide
example : (items false t1).map (·.name) =
    [s "BEGIN", s "SUMMARY", s "DTSTART", s "ATTENDEE", s "ATTENDEE", s "BEGIN", s "ACTION", s "END", s "END"] := by
  decide
-- repeated values keep their order: swapping them is visible
example : items false (.mk (s "VEVENT") [⟨s "ATTENDEE", true, [v "b", v "a"]⟩] []) ≠
    items false (.mk (s "VEVENT") [⟨s "ATTENDEE", true, [v "a", v "b"]⟩] []) := by decide
-- parameters: two insertion orders, one text
example : paramsToIcal [(s "LANGUAGE", .one (s "en")), (s "ALTREP", .one (s "x"))] true
    = paramsToIcal [(s "ALTREP", .one (s "x")), (s "LANGUAGE", .one (s "en"))] true := by decide
example : paramsToIcal [(s "LANGUAGE", .one (s "en")), (s "ALTREP", .one (s "x"))] false
    ≠ paramsToIcal [(s "ALTREP", .one (s "x")), (s "LANGUAGE", .one (s "en"))] false := by decide
-- balance
example : WFNames t1 := by unfold WFNames; decide
example : balancedItems [] (items false t1) = true := by decide
-- time zones: two enumerations of a two-element set
example : addMissingFrom (fun _ => true) [s "Europe/Berlin", s "America/New_York"] (.mk (s "VCALENDAR") [] [])
    = addMissingFrom (fun _ => true) [s "America/New_York", s "Europe/Berlin"] (.mk (s "VCALENDAR") [] []) :=
  (addMissing_enumeration_free _ _ _ _).1 (List.Perm.swap _ _ _)

/-! ## Regenerated function body = hand model

  `ICal.Gen.BodiesSer.Component_property_items` is written by tools/py2lean.py from the current source of
  `Component.property_items` on every run: `self` is the tree `Comp` (definition by pattern matching), the
  loops over the property names, over a list of values and over `self.subcomponents` are separate
  definitions in one `mutual` block, and the recursive call `subcomponent.property_items(sorted=sorted)` has
  its arguments BOUND BY THE SIGNATURE as Python binds them (`recursive` takes its default `True`, `sorted`
  the keyword) - a call `property_items(sorted)` would bind `recursive`.  External pieces are parameters:
  `vText(self.name).to_ical()`, `self.sorted_keys()`, `self.keys()`, `self[name]` (ICal/Lemmas/BodiesSer.lean
  instantiates them with what the hand model says: `escapeChar`, `canonsort` of the keys by the class's
  canonical order, the stored names, the entry of that name or KeyError).  The theorem: the translated
  method does not raise and what the serialiser observes of its result (`Bodies.ivItem`) is the model's
  `items`, which every theorem above is about. -/

theorem body_property_items (sorted : Bool) (c : Comp) :
    ∃ l, Gen.BodiesSer.Component_property_items (name_to_ical := Bodies.nameToIcalP) (sorted_keys := Bodies.sortedKeysP) (keys := Bodies.keysP) (getitem := Bodies.getitemP)
        c true sorted = .ok l ∧ l.map Bodies.ivItem = items sorted c :=
  Bodies.property_items_items sorted c

/-- the regenerated `Component.content_line(name, value, sorted)` is the model's line of the item the serialiser sees -/
theorem body_content_line (c : Comp) (n : Str) (v : PyRT.PyIV) (sorted : Bool) :
    Bodies.contentLineP c n v sorted = Bodies.liftL (itemLine sorted (Bodies.ivItem (n, v))) :=
  Bodies.content_line_eq c n v sorted

/-- the regenerated `Component.content_lines(sorted)` is the model's `contentLines` followed by the empty line -/
theorem body_content_lines (c : Comp) (sorted : Bool) :
    Bodies.contentLinesP c sorted = Bodies.liftL ((contentLines sorted c).map (fun ls => ls ++ [[]])) :=
  Bodies.content_lines_eq c sorted

/-- the regenerated `Component.to_ical(sorted)` is the model's `toIcal`, which every theorem above is about -/
theorem body_to_ical (c : Comp) (sorted : Bool) : Bodies.toIcalP c sorted = Bodies.liftL (toIcal sorted c) :=
  Bodies.to_ical_eq c sorted

end ICal.C10
