/-
  C04 — Parsing is total; a component that ignores exceptions (VEVENT) isolates bad lines.
  `pstep tzok dec st line` is one iteration of the line loop of `Component.from_ical`
  (Model/Parse.lean); `prun` is the loop; `none` = a ValueError escapes. `dec` abstracts the
  typed decoders (`none` = ValueError), so every statement holds for every decoder. `tzok c`
  abstracts "building / caching the time zone object of the VTIMEZONE `c` does not fail"
  (`tzp.cache_timezone_component` in the END branch), so every statement holds for every provider.
  Property theorems only; the definitions `PState.eraseErrs` (every `errors` list of every open
  and finished component set to `[]`), `BadPropertyLine`, `errName`, `decodeStep`,
  `PState.topName`, `PState.topErrs` and the helper lemmas are in ICal/Lemmas/Parse.lean.

  What a Lean model cannot show (exception classes raised inside CPython / library calls,
  recursion limits, CPU time) is the search half of this property (harness).
-/
import ICal.Lemmas.Parse
import ICal.Lemmas.BodiesParse
namespace ICal.C04

/-- On the current source exactly one registered component class sets `ignore_exceptions`:
    "lenient" means VEVENT (read off the generated tables). -/
theorem lenient_only_vevent (n : Str) : lenientName n = true ↔ n = nVEVENT := by
  constructor
  · intro h
    by_cases hm : n ∈ Gen.componentFactory.map Prod.fst
    · simp only [Gen.componentFactory, List.map_cons, List.map_nil, List.mem_cons,
        List.not_mem_nil, or_false] at hm
      rcases hm with e | e | e | e | e | e | e | e | e <;> subst e <;> first | rfl | (revert h; decide)
    · have : Gen.componentFactory.find? (fun kv => kv.1 == n) = none := by
        rw [List.find?_eq_none]
        intro kv hkv hc
        apply hm
        have : kv.1 = n := by simpa using hc
        rw [← this]
        exact List.mem_map_of_mem hkv
      simp [lenientName, classOfName, this] at h
  · intro h; subst h; decide

/-- The step never reads an `errors` list: stepping and then forgetting the error lists is the
    same as forgetting them first. -/
theorem step_ignores_errors (tzok : Comp → Bool) (dec : Dec) (st : PState) (x : Str) :
    (pstep tzok dec st x).map PState.eraseErrs = (pstep tzok dec st.eraseErrs x).map PState.eraseErrs :=
  eraseErrs_step tzok dec st x

/-- The same for the whole loop. -/
theorem run_ignores_errors (tzok : Comp → Bool) (dec : Dec) (st : PState) (ls : List Str) :
    (prun tzok dec st ls).map PState.eraseErrs = (prun tzok dec st.eraseErrs ls).map PState.eraseErrs :=
  prun_eraseErrs tzok dec st ls

/-- A bad line inside a lenient component: the step succeeds, nothing changes except the error
    lists, and exactly one entry (the upper-cased property name, "" for an unparseable line) is
    appended to the `errors` of the innermost open component. -/
theorem lenient_step (tzok : Comp → Bool) (dec : Dec) (st : PState) (l : Str) (hbad : BadPropertyLine dec st l)
    (hl : lenientName st.topName = true) (hs : st.stopped = false) :
    ∃ st', pstep tzok dec st l = some st' ∧ st'.eraseErrs = st.eraseErrs ∧
      st' = logToTop st (errName l) ∧ st'.topErrs = st.topErrs ++ [errName l] ∧
      st'.stopped = false := by
  refine ⟨logToTop st (errName l), ?_, eraseErrs_logToTop st _, rfl, topErrs_logToTop st _ hbad.2.1, ?_⟩
  · rw [pstep_bad tzok dec st l hbad hs, if_pos hl]
  · rcases st with ⟨stack, comps, stopped⟩
    rcases stack with _ | ⟨⟨n, p, s, e⟩, r⟩ <;> exact hs

/-- VEVENT isolation: a bad property line inside a lenient component changes nothing but error
    lists — parsing the remaining lines `post` gives the same stack and the same finished
    components (every property, every subcomponent) as if the line were absent, and fails iff it
    fails without the line. -/
theorem vevent_isolation (tzok : Comp → Bool) (dec : Dec) (st : PState) (l : Str) (post : List Str)
    (hbad : BadPropertyLine dec st l) (hl : lenientName st.topName = true) (hs : st.stopped = false) :
    (prun tzok dec st (l :: post)).map PState.eraseErrs = (prun tzok dec st post).map PState.eraseErrs := by
  obtain ⟨st', h1, h2, _⟩ := lenient_step tzok dec st l hbad hl hs
  rw [prun_of_step_some tzok dec st st' l post h1]
  exact prun_eraseErrs_congr tzok dec post st' st h2

/-- The same from the start of the input: `pre ++ [l] ++ post` against `pre ++ post`. -/
theorem vevent_isolation_parse (tzok : Comp → Bool) (dec : Dec) (pre post : List Str) (l : Str) (st : PState)
    (hpre : prun tzok dec PState.init pre = some st)
    (hbad : BadPropertyLine dec st l) (hl : lenientName st.topName = true) (hs : st.stopped = false) :
    (prun tzok dec PState.init (pre ++ l :: post)).map PState.eraseErrs =
      (prun tzok dec PState.init (pre ++ post)).map PState.eraseErrs := by
  rw [prun_append, prun_append, hpre]
  exact vevent_isolation tzok dec st l post hbad hl hs

/-- The trees returned are equal: `from_ical` of the input with the bad line and of the input
    without it give the same components once the error lists are dropped (`PComp.toComps`
    forgets them), for both values of `multiple`. -/
theorem vevent_isolation_trees (tzok : Comp → Bool) (dec : Dec) (multiple : Bool) (pre post : List Str) (l : Str) (st : PState)
    (hpre : prun tzok dec PState.init pre = some st)
    (hbad : BadPropertyLine dec st l) (hl : lenientName st.topName = true) (hs : st.stopped = false) :
    (parseLines tzok dec multiple (pre ++ l :: post)).map Prod.fst =
      (parseLines tzok dec multiple (pre ++ post)).map Prod.fst := by
  have h := vevent_isolation_parse tzok dec pre post l st hpre hbad hl hs
  unfold parseLines parseLinesP
  cases h1 : prun tzok dec PState.init (pre ++ l :: post) with
  | none =>
    cases h2 : prun tzok dec PState.init (pre ++ post) with
    | none => rfl
    | some b => rw [h1, h2] at h; simp at h
  | some a =>
    cases h2 : prun tzok dec PState.init (pre ++ post) with
    | none => rw [h1, h2] at h; simp at h
    | some b =>
      rw [h1, h2] at h
      simp only [Option.map_some, Option.some.injEq] at h
      have hc : PComp.eraseErrsL a.comps = PComp.eraseErrsL b.comps := congrArg PState.comps h
      have hlen : a.comps.length = b.comps.length := by
        have := congrArg List.length hc
        simpa [eraseErrsL_eq_map] using this
      have ht : PComp.toComps a.comps = PComp.toComps b.comps := by
        rw [← toComps_eraseErrsL a.comps, ← toComps_eraseErrsL b.comps, hc]
      simp only [hlen]
      cases multiple
      · by_cases h1 : b.comps.length = 1 <;> simp [h1, ht]
      · simp [ht]

/-- Outside a lenient component the same line makes `from_ical` raise. -/
theorem strict_fails (tzok : Comp → Bool) (dec : Dec) (st : PState) (l : Str) (post : List Str)
    (hbad : BadPropertyLine dec st l) (hl : lenientName st.topName = false) (hs : st.stopped = false) :
    prun tzok dec st (l :: post) = none := by
  apply prun_of_step_none
  rw [pstep_bad tzok dec st l hbad hs, hl]
  rfl

/-- ... whatever precedes and follows it. -/
theorem strict_fails_parse (tzok : Comp → Bool) (dec : Dec) (multiple : Bool) (pre post : List Str) (l : Str) (st : PState)
    (hpre : prun tzok dec PState.init pre = some st)
    (hbad : BadPropertyLine dec st l) (hl : lenientName st.topName = false) (hs : st.stopped = false) :
    parseLines tzok dec multiple (pre ++ l :: post) = none := by
  unfold parseLines parseLinesP
  rw [prun_append, hpre]
  simp [strict_fails tzok dec st l post hbad hl hs]

/-- A property line outside every component raises, unless it is X-COMMENT (which ends the loop). -/
theorem orphan_property_fails (tzok : Comp → Bool) (dec : Dec) (st : PState) (l name : Str) (params : Params) (vals : Str)
    (post : List Str) (hs : st.stopped = false) (hst : st.stack = []) (hl : l ≠ [])
    (hp : parts l = some (name, params, vals))
    (hb : upper name ≠ nBEGIN) (he : upper name ≠ nEND) (hx : upper name ≠ nXCOMMENT) :
    prun tzok dec st (l :: post) = none := by
  apply prun_of_step_none
  rw [pstep_orphan tzok dec st l name params vals hs hl hp hb he hst, if_neg]
  simpa using hx

/-- An unparseable line outside every component raises. -/
theorem orphan_garbage_fails (tzok : Comp → Bool) (dec : Dec) (st : PState) (l : Str) (post : List Str)
    (hs : st.stopped = false) (hst : st.stack = []) (hl : l ≠ []) (hp : parts l = none) :
    prun tzok dec st (l :: post) = none := by
  apply prun_of_step_none
  rw [pstep_noparts tzok dec st l hs hl hp, hst]

/-- `END` with no open component raises. -/
theorem end_without_begin_fails (tzok : Comp → Bool) (dec : Dec) (st : PState) (l name : Str) (params : Params) (vals : Str)
    (post : List Str) (hs : st.stopped = false) (hst : st.stack = []) (hl : l ≠ [])
    (hp : parts l = some (name, params, vals)) (he : upper name = nEND) :
    prun tzok dec st (l :: post) = none := by
  apply prun_of_step_none
  rw [pstep_end tzok dec st l name params vals hs hl hp he, hst]

/-- After a top-level X-COMMENT (`break`) and for blank lines nothing happens. -/
theorem skipped_lines (tzok : Comp → Bool) (dec : Dec) (st : PState) (l : Str) (h : st.stopped = true ∨ l = []) :
    pstep tzok dec st l = some st := by
  apply pstep_skip
  rcases h with h | h <;> simp [h]

/-- `multiple=False` returns exactly one component or raises. -/
theorem single_requires_one (tzok : Comp → Bool) (dec : Dec) (ls : List Str) (cs : List PComp)
    (h : parseLinesP tzok dec false ls = some cs) : cs.length = 1 := by
  unfold parseLinesP at h
  cases hp : prun tzok dec PState.init ls with
  | none => rw [hp] at h; simp at h
  | some st =>
    rw [hp] at h
    simp only [Bool.false_eq_true, if_false] at h
    by_cases hlen : st.comps.length = 1
    · simp [hlen] at h; rw [← h]; exact hlen
    · simp [hlen] at h

/-- Error inventory of the model: the only failure of the loop is `none` (= ValueError), and a
    failing run has a first failing line — one of the cases above. -/
theorem failure_has_first_line (tzok : Comp → Bool) (dec : Dec) (ls : List Str) (st : PState) (h : prun tzok dec st ls = none) :
    ∃ pre l post st', ls = pre ++ l :: post ∧ prun tzok dec st pre = some st' ∧ pstep tzok dec st' l = none := by
  induction ls generalizing st with
  | nil => simp [prun] at h
  | cons l ls ih =>
    cases hp : pstep tzok dec st l with
    | none => exact ⟨[], l, ls, st, rfl, rfl, hp⟩
    | some st1 =>
      rw [prun_of_step_some tzok dec st st1 l ls hp] at h
      obtain ⟨pre, l', post, st', e, h1, h2⟩ := ih st1 h
      refine ⟨l :: pre, l', post, st', by rw [e]; rfl, ?_, h2⟩
      rw [prun_of_step_some tzok dec st st1 l pre hp, h1]

/-- `END:VTIMEZONE` closing a VTIMEZONE that has a TZID whose time zone object cannot be built
    (`tzok` false: `cache_timezone_component` raises, re-raised as ValueError "Invalid VTIMEZONE"). -/
theorem bad_vtimezone_fails (tzok : Comp → Bool) (dec : Dec) (st : PState) (l name : Str) (params : Params)
    (vals : Str) (c : PComp) (rest : List PComp) (post : List Str)
    (hs : st.stopped = false) (hst : st.stack = c :: rest) (hl : l ≠ [])
    (hp : parts l = some (name, params, vals)) (he : upper name = nEND)
    (htz : tzFails tzok (upper vals) c = true) :
    prun tzok dec st (l :: post) = none := by
  apply prun_of_step_none
  rw [pstep_end tzok dec st l name params vals hs hl hp he, hst]
  simp [htz]

/-- What `tzFails` says: the END value is VTIMEZONE, the closed component is a VTIMEZONE with a
    TZID entry, and `tzok` is false of it. -/
theorem tzFails_iff (tzok : Comp → Bool) (en n : Str) (props : List Entry) (subs : List PComp) (errs : List Str) :
    tzFails tzok en (.mk n props subs errs) = true ↔
      en = nVTIMEZONE ∧ n = nVTIMEZONE ∧ (∃ e ∈ props, e.name = nTZID) ∧
      tzok (.mk n props (PComp.toComps subs)) = false := by
  simp [tzFails, PComp.toComp, nVTIMEZONE, nTZID, and_assoc]

/-- With `tzok` constantly true (every time zone can be built) an END line never fails on an open
    component. -/
theorem tzFails_of_ok (en : Str) (c : PComp) : tzFails (fun _ => true) en c = false := by
  obtain ⟨n, p, s, e⟩ := c
  simp [tzFails]

/-- A failing step is one of: unparseable line / failed decoding in a strict component
    (`BadPropertyLine`); a line outside every component that is not BEGIN or X-COMMENT; or the END
    of a VTIMEZONE with TZID whose time zone cannot be built. -/
theorem step_failure_cases (tzok : Comp → Bool) (dec : Dec) (st : PState) (l : Str) (h : pstep tzok dec st l = none) :
    (BadPropertyLine dec st l ∧ lenientName st.topName = false) ∨
    (st.stack = [] ∧ l ≠ [] ∧ ∀ name params vals, parts l = some (name, params, vals) →
        upper name ≠ nBEGIN ∧ upper name ≠ nXCOMMENT) ∨
    (∃ c rest name params vals, st.stack = c :: rest ∧ parts l = some (name, params, vals) ∧
        upper name = nEND ∧ tzFails tzok (upper vals) c = true) := by
  by_cases hskip : (st.stopped || l.isEmpty) = true
  · rw [pstep_skip tzok dec st l hskip] at h; simp at h
  · have hs : st.stopped = false := by
      cases h' : st.stopped <;> simp [h'] at hskip ⊢
    have hl : l ≠ [] := by
      intro h'; subst h'; simp at hskip
    cases hst : st.stack with
    | nil =>
      right; left
      refine ⟨rfl, hl, ?_⟩
      intro name params vals hp
      constructor
      · intro hb
        rw [pstep_begin tzok dec st l name params vals hs hl hp hb] at h; simp at h
      · intro hx
        have hb : upper name ≠ nBEGIN := by rw [hx]; decide
        have he : upper name ≠ nEND := by rw [hx]; decide
        rw [pstep_orphan tzok dec st l name params vals hs hl hp hb he hst, if_pos (by simp [hx])] at h
        simp at h
    | cons c r =>
      have hne : st.stack ≠ [] := by rw [hst]; simp
      cases hp : parts l with
      | none =>
        left
        have hbad : BadPropertyLine dec st l := ⟨hl, hne, Or.inl hp⟩
        refine ⟨hbad, ?_⟩
        rw [pstep_bad tzok dec st l hbad hs] at h
        cases hlen : lenientName st.topName <;> simp [hlen] at h ⊢
      | some t =>
        obtain ⟨name, params, vals⟩ := t
        by_cases hb : upper name = nBEGIN
        · rw [pstep_begin tzok dec st l name params vals hs hl hp hb] at h; simp at h
        · by_cases he : upper name = nEND
          · right; right
            rw [pstep_end tzok dec st l name params vals hs hl hp he, hst] at h
            refine ⟨c, r, name, params, vals, rfl, rfl, he, ?_⟩
            cases htz : tzFails tzok (upper vals) c
            · simp [htz] at h
            · rfl
          · left
            obtain ⟨n, p, s, e⟩ := c
            rw [pstep_prop tzok dec st l name params vals n p s e r hs hl hp hb he hst] at h
            cases hd : decodeStep dec l name params vals with
            | none =>
              have hbad : BadPropertyLine dec st l :=
                ⟨hl, hne, Or.inr ⟨name, params, vals, hp, hb, he, hd⟩⟩
              refine ⟨hbad, ?_⟩
              rw [hd] at h
              simp only [propResult] at h
              have : st.topName = n := by simp [PState.topName, hst]
              rw [this]
              cases hlen : lenientName n <;> simp [hlen] at h ⊢
            | some texts => rw [hd] at h; simp [propResult] at h

/-! Non-vacuity: inside `BEGIN:VEVENT` the line `DTSTART:x` with a decoder that refuses
    everything is a bad property line in a lenient component; inside `BEGIN:VTODO` it is a bad
    line in a strict one; `:x` is refused by `parts()`. -/

private def decNone : Dec := fun _ _ _ => none
private def inEvent : PState := ⟨[.mk nVEVENT [] [] []], [], false⟩
private def inTodo : PState := ⟨[.mk ['V','T','O','D','O'] [] [] []], [], false⟩
private def lBad : Str := ['D','T','S','T','A','R','T',':','x']

example : prun (fun _ => true) decNone PState.init [['B','E','G','I','N',':','V','E','V','E','N','T']] = some inEvent := by rfl
example : BadPropertyLine decNone inEvent lBad :=
  ⟨by decide, by decide, Or.inr ⟨['D','T','S','T','A','R','T'], [], ['x'], by decide, by decide, by decide, by decide⟩⟩
example : BadPropertyLine decNone inEvent [':','x'] := ⟨by decide, by decide, Or.inl (by decide)⟩
example : lenientName inEvent.topName = true ∧ inEvent.stopped = false := by decide
example : lenientName inTodo.topName = false ∧ inTodo.stopped = false := by decide
example : pstep (fun _ => true) decNone inEvent lBad = some ⟨[.mk nVEVENT [] [] [['D','T','S','T','A','R','T']]], [], false⟩ := by rfl
example : pstep (fun _ => true) decNone inTodo lBad = none := by decide

/-- the third failure class is inhabited: `END:VTIMEZONE` on a VTIMEZONE with TZID, `tzok` false -/
example : prun (fun _ => false) decNone
    ⟨[.mk nVTIMEZONE [⟨nTZID, false, [⟨['v','T','e','x','t'], ['X'], []⟩]⟩] [] []], [], false⟩
    [['E','N','D',':','V','T','I','M','E','Z','O','N','E']] = none := by decide

/-! ## the regenerated `Component.from_ical` (ICal/Gen/BodiesParse.lean, rewritten from cal.py by tools/py2lean.py on every run) -/

/-- one iteration of the translated loop is `pstep`, of which the theorems above speak -/
theorem body_from_ical_step (tzok : Comp → Bool) (dec : Dec) (st : PState) (hst : st.stopped = false) (line : Str) (rest : List Str) :
    Bodies.loopP tzok dec st.stack.reverse st.comps (line :: rest) = Bodies.liftStep tzok dec rest (pstep tzok dec st line) :=
  Bodies.loop_cons tzok dec st hst line rest

/-- the translated loop is `prun` -/
theorem body_from_ical_loop (tzok : Comp → Bool) (dec : Dec) (lines : List Str) (st : PState) (hst : st.stopped = false) :
    Bodies.loopP tzok dec st.stack.reverse st.comps lines =
      match prun tzok dec st lines with
      | none => .error .valueError
      | some st' => .ok (st'.stack.reverse, st'.comps) :=
  Bodies.loop_prun tzok dec lines st hst

/-- the only exception that leaves the translated `from_ical` is ValueError (the IndexError of `comps[0]`,
    of `stack.pop()` and of `stack[-1]` cannot happen) -/
theorem body_raises_only_valueError (tzok : Comp → Bool) (dec : Dec) (st : Str) (multiple : Bool) (e : PyRT.Exc)
    (h : Bodies.fromIcalP tzok dec st multiple = .error e) : e = .valueError :=
  Bodies.fromIcal_raises_only_valueError tzok dec st multiple e h

/-- the translated function raises exactly when the model's parse fails -/
theorem body_fails_iff (tzok : Comp → Bool) (dec : Dec) (st : Str) (multiple : Bool) :
    Bodies.fromIcalTrees tzok dec multiple st = none ↔ parseText tzok dec multiple st = none := by
  rw [Bodies.fromIcalTrees_parseText]

end ICal.C04
