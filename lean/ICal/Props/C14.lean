/-
  C14 — alarm times = anchor ⊕ TRIGGER ⊕ k·DURATION.
  Property theorems only; the model is ICal/Model/Alarm.lean (Alarm.triggers, Alarms.add_component /
  add_alarm / _add / _repeat / _alarm_time / times), the vocabulary (`series`, `expected`, `expectedRel`,
  `expectedAbs`, `componentState`) and the helper lemmas are in ICal/Lemmas/Alarm.lean.

  `add x td` (`x ⊕ td`) is date arithmetic for a date and a whole-day delta, wall-clock arithmetic on
  the naive midnight for a date and any other delta, wall-clock arithmetic for a floating time and
  exact elapsed time for an aware one. The component's start and end are inputs (C16 derives them).
  Time arithmetic on aware values is exact elapsed time; `wallclock_exact_iff` says when zoneinfo's
  wall-clock `+` gives the same instant, `zoneinfo_dst_witness` is the known finding
  zoneinfo-wallclock-dst (Europe/Berlin, 2020-03-29T03:30 with TRIGGER -PT2H).
-/
import ICal.Lemmas.Alarm
import ICal.Lemmas.BodiesAlarm
import ICal.Lemmas.BodiesAlarmTimes
namespace ICal.C14
open ICal.Alarms

/-- `_repeat`: the first time, then REPEAT further times spaced by DURATION, when both are present
    (a zero DURATION counts as present, REPEAT 0 or negative gives none). -/
theorem repeat_spec (first : Trig) (a : VAlarm) :
    repeatTimes first a = (List.range (a.reps + 1)).map (fun (k : Nat) => add first (a.dur * (k : Int))) :=
  repeatTimes_eq_series first a

/-- The computed times are, alarm by alarm and in the order end-relative / start-relative / absolute,
    `[a ⊕ k·D | k ≤ R]` with `a = end ⊕ T`, `start ⊕ T` or the absolute `T`, and `R = REPEAT` if both
    REPEAT and DURATION are present, else 0; a set local time zone is then applied to floating and date
    results. (`expected` is spelled out by `expected_def`.) -/
theorem times_spec (localize : Int → Int) (p : Parent) (start end_ : Option Trig) (as : List VAlarm)
    (tz : Bool) (ts : List AlarmTime)
    (h : times localize (componentState p start end_ as tz) = .ok ts) :
    ts.map AlarmTime.key =
      (expected start end_ as).map (fun q => (q.1, applyLocal localize tz q.2)) := by
  have hk := times_key localize (componentState p start end_ as tz) ts
  rw [componentState_eq] at hk h
  have := hk (by intro a ha; exact (List.mem_filter.mp ha).2) h
  simpa [expected] using this

/-- what `expected` is: the contribution of each alarm -/
theorem expected_def (start end_ : Option Trig) (as : List VAlarm) :
    expected start end_ as =
      (as.filter VAlarm.isEndRel).flatMap (expectedRel end_) ++
      (as.filter VAlarm.isStartRel).flatMap (expectedRel start) ++
      (as.filter VAlarm.isAbsolute).flatMap expectedAbs ∧
    (∀ (x : Trig) (a : VAlarm) (td : Int), a.trigger = some (.rel td) →
      expectedRel (some x) a =
        (List.range (a.reps + 1)).map (fun (k : Nat) => (a, add (add x td) (a.dur * (k : Int))))) ∧
    (∀ (a : VAlarm) (t : TriggerV), a.trigger = some t → t.isAbs = true →
      expectedAbs a =
        (List.range (a.reps + 1)).map (fun (k : Nat) => (a, add t.toTrig (a.dur * (k : Int))))) := by
  refine ⟨rfl, ?_, ?_⟩
  · intro x a td h
    simp [expectedRel, h, series, List.map_map, Function.comp_def]
  · intro a t h habs
    simp [expectedAbs, h, habs, series, List.map_map, Function.comp_def]

/-- Alarms without a TRIGGER contribute nothing; every computed time belongs to an alarm of the
    component that has a TRIGGER. -/
theorem no_trigger_no_time (localize : Int → Int) (p : Parent) (start end_ : Option Trig)
    (as : List VAlarm) (tz : Bool) (ts : List AlarmTime)
    (h : times localize (componentState p start end_ as tz) = .ok ts) (x : AlarmTime) (hx : x ∈ ts) :
    x.alarm ∈ as ∧ x.alarm.trigger ≠ none := by
  have hs := times_spec localize p start end_ as tz ts h
  have hm : x.key ∈ ts.map AlarmTime.key := List.mem_map_of_mem hx
  rw [hs, List.mem_map] at hm
  obtain ⟨q, hq, hqx⟩ := hm
  have hq1 : q.1 = x.alarm := by
    have := congrArg Prod.fst hqx
    simpa [AlarmTime.key] using this
  rw [← hq1]
  unfold expected at hq
  rw [List.mem_append, List.mem_append] at hq
  rcases hq with (hq | hq) | hq
  · rw [List.mem_flatMap] at hq
    obtain ⟨a, ha, hqa⟩ := hq
    have ha' := List.mem_filter.mp ha
    rw [expectedRel_fst _ _ _ hqa]
    exact ⟨ha'.1, trigger_of_class a (Or.inl ha'.2)⟩
  · rw [List.mem_flatMap] at hq
    obtain ⟨a, ha, hqa⟩ := hq
    have ha' := List.mem_filter.mp ha
    rw [expectedRel_fst _ _ _ hqa]
    exact ⟨ha'.1, trigger_of_class a (Or.inr (Or.inl ha'.2))⟩
  · rw [List.mem_flatMap] at hq
    obtain ⟨a, ha, hqa⟩ := hq
    have ha' := List.mem_filter.mp ha
    rw [expectedAbs_fst _ _ hqa]
    exact ⟨ha'.1, trigger_of_class a (Or.inr (Or.inr ha'.2))⟩

/-- `Alarm.triggers` (cumulative sums `add[-1] + DURATION`) is the multiplicative sequence
    `T + k·D`, `k ≤ R`, in the list selected by the kind of TRIGGER and its RELATED parameter. -/
theorem triggers_agree (a : VAlarm) :
    a.triggers =
      match a.trigger with
      | none => ⟨[], [], []⟩
      | some (.rel td) =>
        let seq := (List.range (a.reps + 1)).map (fun (k : Nat) => td + a.dur * (k : Int))
        if a.triggerRelated = START then ⟨seq, [], []⟩ else ⟨[], seq, []⟩
      | some t => ⟨[], [], series t.toTrig a⟩ := by
  unfold VAlarm.triggers
  cases ht : a.trigger with
  | none => rfl
  | some t =>
    cases t with
    | rel td => simp only [cumul_int]; rfl
    | absAware i =>
      simp only [cumul_trig _ (toTrig_not_date _)]; rfl
    | absFloating w =>
      simp only [cumul_trig _ (toTrig_not_date _)]; rfl

/-- The two code paths agree: for a start or end that is a date-time, the times `Alarms` computes for a
    relative alarm are the anchor plus each entry of `Alarm.triggers`. -/
theorem triggers_times_agree (x : Trig) (hx : x.isDate = false) (a : VAlarm) (td : Int) :
    series (add x td) a =
      ((List.range (a.reps + 1)).map (fun (k : Nat) => td + a.dur * (k : Int))).map (add x) := by
  unfold series
  rw [List.map_map]
  apply List.map_congr_left
  intro k _
  have h1 : (add x td).isDate = false := by cases x <;> simp_all [add, pyAdd, Trig.isDate]
  simp only [Function.comp]
  rw [add_eq_pyAdd _ h1, add_eq_pyAdd _ hx, add_eq_pyAdd _ hx, pyAdd_pyAdd _ hx]

/-- Absolute alarms do not depend on the component's times: the absolute part of `times` is the same
    for any two starts/ends for which `times` answers. -/
theorem absolute_independent (localize : Int → Int) (p : Parent) (start end_ start' end' : Option Trig)
    (as : List VAlarm) (tz : Bool) (ts ts' : List AlarmTime)
    (h : times localize (componentState p start end_ as tz) = .ok ts)
    (h' : times localize (componentState p start' end' as tz) = .ok ts') :
    ts.filter (fun x => x.alarm.isAbsolute) = ts'.filter (fun x => x.alarm.isAbsolute) := by
  have part : ∀ (st en : Option Trig) (l : List AlarmTime),
      times localize (componentState p st en as tz) = .ok l →
      l.filter (fun x => x.alarm.isAbsolute) =
        absoluteTimes localize (componentState p none none as tz) := by
    intro st en l hl
    obtain ⟨es, ss, he, hs, rfl⟩ := times_ok_form _ _ _ hl
    have hrel : ∀ (anchor : Trig) (al : List VAlarm) (y : AlarmTime),
        y ∈ relativeTimes localize (componentState p st en as tz) anchor al → y.alarm.isAbsolute = false := by
      intro anchor al y hy
      unfold relativeTimes at hy
      rw [List.mem_flatMap] at hy
      obtain ⟨a, _, hy⟩ := hy
      split at hy
      · rename_i htr
        rw [List.mem_map] at hy
        obtain ⟨_, _, rfl⟩ := hy
        simp [alarmTime, VAlarm.isAbsolute, htr, TriggerV.isAbs]
      · cases hy
    have hes : es.filter (fun x => x.alarm.isAbsolute) = [] := by
      rw [List.filter_eq_nil_iff]
      intro y hy
      unfold endTimes at he
      split at he
      · split at he
        · injection he with he; subst he; cases hy
        · cases he
      · injection he with he; subst he; simp [hrel _ _ y hy]
    have hss : ss.filter (fun x => x.alarm.isAbsolute) = [] := by
      rw [List.filter_eq_nil_iff]
      intro y hy
      unfold startTimes at hs
      split at hs
      · split at hs
        · injection hs with hs; subst hs; cases hy
        · cases hs
      · injection hs with hs; subst hs; simp [hrel _ _ y hy]
    have habs : (absoluteTimes localize (componentState p st en as tz)).filter (fun x => x.alarm.isAbsolute)
        = absoluteTimes localize (componentState p st en as tz) := by
      rw [List.filter_eq_self]
      intro y hy
      unfold absoluteTimes at hy
      rw [List.mem_flatMap] at hy
      obtain ⟨a, ha, hy⟩ := hy
      rw [componentState_eq] at ha
      have := (List.mem_filter.mp ha).2
      split at hy
      · rw [List.mem_map] at hy
        obtain ⟨_, _, rfl⟩ := hy
        simpa [alarmTime] using this
      · cases hy
    rw [List.filter_append, List.filter_append, hes, hss, habs]
    simp only [List.nil_append]
    rw [componentState_eq, componentState_eq]
    rfl
  rw [part _ _ _ h, part _ _ _ h']

/-- A component with only absolute (or TRIGGER-less) alarms needs neither start nor end. -/
theorem absolute_only_total (localize : Int → Int) (p : Parent) (start end_ : Option Trig)
    (as : List VAlarm) (tz : Bool)
    (habs : ∀ a ∈ as, a.isStartRel = false ∧ a.isEndRel = false) :
    ∃ ts, times localize (componentState p start end_ as tz) = .ok ts := by
  rw [times_ok_iff, componentState_eq]
  constructor
  · right
    rw [List.filter_eq_nil_iff]
    intro a ha; simp [(habs a ha).2]
  · right
    rw [List.filter_eq_nil_iff]
    intro a ha; simp [(habs a ha).1]

/-- Missing start or end information is reported by the documented errors only, and exactly when an
    alarm needs the missing anchor: ComponentEndMissing when the end is missing and some alarm is
    end-relative; otherwise ComponentStartMissing when the start is missing and some alarm is
    start-relative. -/
theorem errors_documented (localize : Int → Int) (p : Parent) (start end_ : Option Trig)
    (as : List VAlarm) (tz : Bool) (e : AErr)
    (h : times localize (componentState p start end_ as tz) = .error e) :
    (e = .componentEndMissing ∧ end_ = none ∧ ∃ a ∈ as, a.isEndRel = true) ∨
    (e = .componentStartMissing ∧ start = none ∧ ∃ a ∈ as, a.isStartRel = true) := by
  have := times_error localize _ e h
  rw [componentState_eq] at this
  rcases this with ⟨he, hen, hne⟩ | ⟨he, hst, hne, _⟩
  · left
    refine ⟨he, hen, ?_⟩
    obtain ⟨a, ha⟩ := List.exists_mem_of_ne_nil _ hne
    exact ⟨a, (List.mem_filter.mp ha).1, (List.mem_filter.mp ha).2⟩
  · right
    refine ⟨he, hst, ?_⟩
    obtain ⟨a, ha⟩ := List.exists_mem_of_ne_nil _ hne
    exact ⟨a, (List.mem_filter.mp ha).1, (List.mem_filter.mp ha).2⟩

/-- `times` answers exactly when every anchor that some alarm needs is present. -/
theorem times_defined_iff (localize : Int → Int) (p : Parent) (start end_ : Option Trig)
    (as : List VAlarm) (tz : Bool) :
    (∃ ts, times localize (componentState p start end_ as tz) = .ok ts) ↔
      (end_ ≠ none ∨ ∀ a ∈ as, a.isEndRel = false) ∧ (start ≠ none ∨ ∀ a ∈ as, a.isStartRel = false) := by
  rw [times_ok_iff, componentState_eq]
  simp only [List.filter_eq_nil_iff]
  constructor
  · rintro ⟨h1, h2⟩
    refine ⟨h1.imp id (fun h a ha => by simpa using h a ha), h2.imp id (fun h a ha => by simpa using h a ha)⟩
  · rintro ⟨h1, h2⟩
    refine ⟨h1.imp id (fun h a ha => by simp [h a ha]), h2.imp id (fun h a ha => by simp [h a ha])⟩

/-- zoneinfo's wall-clock `aware + timedelta` gives the exact-elapsed-time instant iff the zone assigns
    the same UTC offset to the wall time of the result as to the wall time of the anchor. -/
theorem wallclock_exact_iff (offW : Int → Int) (w td : Int) :
    wallAdd offW w td = instantOf offW w + td ↔ offW (w + td) = offW w := by
  unfold wallAdd instantOf
  constructor <;> intro h <;> omega

/-- Known finding zoneinfo-wallclock-dst: Europe/Berlin, start 2020-03-29T03:30 (+02:00), TRIGGER -PT2H.
    Wall-clock arithmetic gives 01:30 (+01:00) = 00:30Z, one hour after the exact 23:30Z. -/
theorem zoneinfo_dst_witness :
    wallAdd berlinSpring2020 1585452600 (-7200) = instantOf berlinSpring2020 1585452600 + (-7200) + 3600 := by
  decide

/-! Non-vacuity. -/
-- date start, whole-day trigger stays a date; a 12 h DURATION alternates floating / date; lower-case
-- "end" (any value but START in any case) is end-relative; an absolute alarm; REPEAT 2 with a zero DURATION;
-- an alarm without TRIGGER contributes nothing
example : (times (fun w => w) (componentState {} (some (.date 10)) (some (.date 11))
      [ { trigger := some (.rel (-86400)), rep := 2, duration := some 43200 },
        { trigger := none, rep := 3, duration := some 60 },
        { trigger := some (.rel 3600), related := some ['e', 'n', 'd'] },
        { trigger := some (.absAware 5), rep := 2, duration := some 0 } ] false)).map
      (·.map (·.trig))
    = .ok [ .floating (11 * 86400 + 3600),
            .date 9, .floating (9 * 86400 + 43200), .date 10,
            .aware 5, .aware 5, .aware 5 ] := by decide
-- RELATED is compared case-insensitively with START; every other value counts as END
example : ({ trigger := some (.rel 0), related := some ['s', 't', 'a', 'r', 't'] } : VAlarm).isStartRel = true := by decide
example : ({ trigger := some (.rel 0), related := some ['S', 't', 'a', 'r', 't'] } : VAlarm).isStartRel = true := by decide
example : ({ trigger := some (.rel 0), related := some ['e', 'n', 'd'] } : VAlarm).isEndRel = true := by decide
example : ({ trigger := some (.rel 0), related := some ['x'] } : VAlarm).isEndRel = true := by decide
example : ({ trigger := some (.rel 0) } : VAlarm).isStartRel = true := by decide
-- the documented errors, end first
example : times (fun w => w) (componentState {} none none
      [ { trigger := some (.rel 0) }, { trigger := some (.rel 0), related := some ['E', 'N', 'D'] } ] false)
    = .error .componentEndMissing := by decide
example : times (fun w => w) (componentState {} none (some (.aware 0))
      [ { trigger := some (.rel 0) }, { trigger := some (.rel 0), related := some ['E', 'N', 'D'] } ] false)
    = .error .componentStartMissing := by decide
-- REPEAT without DURATION, and DURATION without REPEAT: no repeats
example : series (.aware 100) { trigger := some (.rel 0), rep := 3 } = [.aware 100] := by decide
example : series (.aware 100) { trigger := some (.rel 0), duration := some 60 } = [.aware 100] := by decide
example : series (.aware 100) { trigger := some (.rel 0), rep := 2, duration := some 60 }
    = [.aware 100, .aware 160, .aware 220] := by decide
example : ({ trigger := some (.rel (-14400)), rep := 2, duration := some 3600 } : VAlarm).triggers
    = ⟨[-14400, -10800, -7200], [], []⟩ := by decide

/-! ## Regenerated function bodies = hand model

  `ICal.Gen.BodiesAlarm.*` (tools/py2lean.py, from the current source on every run): `tools.is_date`,
  `tools.is_datetime` (`isinstance(dt, date) and not isinstance(dt, datetime)` on the value type `Trig`),
  `Alarms._add` (a timedelta is the model's `Int` of seconds, `td.seconds` its remainder mod 86400;
  `to_datetime`, `normalize_pytz` are function parameters, the latter the identity on the model's
  values) and `Alarms._repeat` (a generator: the list of what it yields; `for i in range(1, repeat + 1)`
  as a fold over the range; `alarm.REPEAT`, `alarm.DURATION` are parameters). -/

theorem body_is_date (t : Trig) : Gen.BodiesAlarm.is_date t = t.isDate := Bodies.is_date_eq t

theorem body_is_datetime (t : Trig) : Gen.BodiesAlarm.is_datetime t = !t.isDate := Bodies.is_datetime_eq t

theorem body_alarms_add (dt : Trig) (td : Int) : Gen.BodiesAlarm.Alarms_add (dt := dt) (td := td) (to_datetime := toDatetime) (normalize_pytz := id) = add dt td :=
  Bodies.Alarms_add_eq dt td

theorem body_alarms_repeat (first : Trig) (a : VAlarm) :
    Gen.BodiesAlarm.Alarms_repeat (first := first) (alarm_repeat := a.rep) (alarm_duration := a.duration) (to_datetime := toDatetime)
      (normalize_pytz := id) = .ok (repeatTimes first a) :=
  Bodies.Alarms_repeat_eq first a

/-- the regenerated `Alarms._alarm_time` is the model's `alarmTime` (the local time zone applied to a trigger without tzinfo) -/
theorem body_alarms_alarm_time (loc : Int → Int) (s : State) (a : VAlarm) (t : Trig) :
    Gen.BodiesAlarm.Alarms_alarm_time (alarm := a) (trigger := t) (local_tzinfo := Bodies.localTzP s) (to_datetime := toDatetime)
      (localize := Bodies.localizeP loc) (normalize_pytz := id) (last_ack := Bodies.awareOpt s.lastAck)
      (snooze_until := Bodies.awareOpt s.snooze) (parent := ()) (mk_alarm_time := Bodies.mkATP) = Bodies.toATup (alarmTime loc s a t) :=
  Bodies.alarm_time_eq loc s a t

/-- the regenerated `Alarms.times` (with `_get_end_alarm_times`, `_get_start_alarm_times`, `_get_absolute_alarm_times`,
    `_alarm_time`, `_repeat`, `_add`) is the model's `times`, on every state whose lists are sorted as `add_alarm` sorts them -/
theorem body_alarms_times (loc : Int → Int) (s : State) (h : Bodies.Sorted s) :
    Bodies.timesP loc s = Bodies.liftA ((times loc s).map (List.map Bodies.toATup)) :=
  Bodies.times_eq loc s h

/-- every state `Alarms(component)` builds is sorted so -/
theorem body_alarms_sorted (p : Parent) (start end_ : Option Trig) (alarms : List VAlarm) :
    Bodies.Sorted (ofComponent p start end_ alarms) :=
  Bodies.sorted_ofComponent p start end_ alarms

/-- and the setters called afterwards keep it -/
theorem body_alarms_sorted_setters (s : State) (h : Bodies.Sorted s) (b : Bool) (o o' : Option Int) :
    Bodies.Sorted (snoozeUntil (acknowledgeUntil (setLocalTimezone s b) o) o') :=
  ⟨h.abs, h.start, h.end_⟩

/-- the regenerated `Alarms.add_alarm` is the model's `addAlarm` (which list an alarm goes to) -/
theorem body_alarms_add_alarm (s : State) (a : VAlarm) :
    Bodies.addAlarmP a s.absoluteAlarms s.startAlarms s.endAlarms =
      ((addAlarm s a).absoluteAlarms, (addAlarm s a).startAlarms, (addAlarm s a).endAlarms) :=
  Bodies.add_alarm_eq s a

/-- the regenerated `Alarms.add_component` (with `set_parent`, `set_start`, `set_end`, `acknowledge_until`, `snooze_until`,
    `add_alarm`: functions from the attributes before to the attributes after) is the model's `addComponent` -/
theorem body_alarms_add_component (s : State) (par : Option Bodies.CompView) (c : Bodies.CompView) :
    Bodies.alarmsAddComponentP c (Bodies.fieldsOf s par) =
      .ok (Bodies.fieldsOf (addComponent s c.parent c.start c.end_ c.alarms) (some c)) :=
  Bodies.add_component_eq s par c

/-- the chain as translated, `Alarms(component).times`: `add_component` on the empty object, then `times`, is the model's -/
theorem body_alarms_component_times (loc : Int → Int) (c : Bodies.CompView) :
    (Bodies.alarmsAddComponentP c (Bodies.fieldsOf {} none) >>= Bodies.timesF loc false) =
      Bodies.liftA ((times loc (ofComponent c.parent c.start c.end_ c.alarms)).map (List.map Bodies.toATup)) :=
  Bodies.add_component_times loc {} none c Bodies.sorted_empty

end ICal.C14
