/-
  C17 — components and parameter maps are dictionaries keyed by upper-cased names.
  Property theorems only; the model is ICal/Model/CDict.lean (CaselessDict as the code writes it),
  helper lemmas are in ICal/Lemmas/CDict.lean.

  `up` stands for `to_unicode(key).upper()`.  Python's `str.upper` is Unicode; the theorems use
  only `up (up k) = up k` (checked by the harness for every code point of the running
  interpreter), and `upper_idem` proves it for the ASCII instance the driver runs.
-/
import ICal.Lemmas.CDict
import ICal.Lemmas.BodiesCDict
import ICal.Lemmas.BodiesCDictMeta
import ICal.Lemmas.BodiesCDictSort
import ICal.Lemmas.BodiesCDictInit
namespace ICal.C17
open ICal.CDict

/-- The law assumed of `up`, for the instance used by the driver. -/
theorem upper_idem (k : Str) : upper (upper k) = upper k := upper_idem' k

/-- Invariant: stored keys are pairwise distinct and folded.  It holds of the empty map and
    every call (overridden or inherited) preserves it. -/
theorem cd_inv {V : Type} [DecidableEq V] (up : Str → Str) (up_idem : ∀ k, up (up k) = up k) :
    Inv up ([] : Store V) ∧ ∀ (s : Store V) (op : Op V), Inv up s → Inv up (step up s op).1 :=
  ⟨inv_nil, fun _ op h => inv_step up_idem h op⟩

/-- Only upper-case keys are stored, after every history. -/
theorem cd_inv_run {V : Type} [DecidableEq V] (up : Str → Str) (up_idem : ∀ k, up (up k) = up k)
    (ops : List (Op V)) :
    (odKeys (run up ([] : Store V) ops).1).Nodup ∧ ∀ k ∈ odKeys (run up ([] : Store V) ops).1, up k = k :=
  inv_run up_idem ops inv_nil

/-- The driver's per-step trace (what the correspondence run compares with the implementation)
    shows the outputs of `run`, and every key list in it is duplicate-free and folded. -/
theorem cd_trace_keys_upper {V : Type} [DecidableEq V] (up : Str → Str) (up_idem : ∀ k, up (up k) = up k)
    (ops : List (Op V)) :
    (trace up ([] : Store V) ops).map Prod.fst = (run up [] ops).2 ∧
    ∀ r ∈ trace up ([] : Store V) ops, r.2.Nodup ∧ ∀ k ∈ r.2, up k = k :=
  ⟨trace_fst ops [], trace_keys_inv up_idem ops inv_nil⟩

/-- `__init__`: `OrderedDict.__init__` already stores every pair through the folding
    `__setitem__`, so the re-keying loop that follows never finds a key to change. -/
theorem cd_init_is_sequential_setitem {V : Type} (up : Str → Str) (up_idem : ∀ k, up (up k) = up k)
    (args : List (Str × V)) : cdInit up args = cdUpdate up [] args := by
  unfold cdInit; exact cdRekey_noop (inv_cdUpdate up_idem args inv_nil).2

/-- `copy()` (two nested constructor calls) reproduces the store, order included. -/
theorem cd_copy_identity {V : Type} (up : Str → Str) (up_idem : ∀ k, up (up k) = up k)
    (s : Store V) (h : Inv up s) : cdCopy up s = s := cdCopy_self up_idem h

/-- First-insertion order: assigning to a name that is present (in any case) leaves the key list
    unchanged, assigning to a new name appends its folded form. -/
theorem cd_first_insertion_order {V : Type} (up : Str → Str) (s : Store V) (k : Str) (v : V) :
    odKeys (cdSetitem up s k v) = if up k ∈ odKeys s then odKeys s else odKeys s ++ [up k] :=
  odKeys_odSet s (up k) v

/-- FULL statement of the refinement: every history gives the outputs and the stored entries
    (in order) of a plain ordered dictionary on which the caller folds the keys.
    It is FALSE of the code (recorded finding, see the witness below). -/
def cd_refines_full (up : Str → Str) : Prop :=
  ∀ (ops : List (Op Nat)), run up ([] : Store Nat) ops = runSpec [] (ops.map (foldOp up))

/-- One call refines the dictionary call on the folded key unless it is the recorded deviation
    (`excluded`: `pop` of an absent name without default). -/
theorem cd_step_refines {V : Type} [DecidableEq V] (up : Str → Str) (up_idem : ∀ k, up (up k) = up k)
    (s : Store V) (h : Inv up s) (op : Op V) (hx : excluded up s op = false) :
    step up s op = stepSpec s (foldOp up op) :=
  step_refines up_idem h op hx

/-- Refinement for all histories that never make an excluded call: equal outputs at every step
    and equal final stores — same keys, same values, same (first-insertion) order. -/
theorem cd_refines_partial {V : Type} [DecidableEq V] (up : Str → Str) (up_idem : ∀ k, up (up k) = up k)
    (ops : List (Op V)) (hx : runExcluded up ([] : Store V) ops = false) :
    run up ([] : Store V) ops = runSpec [] (ops.map (foldOp up)) :=
  run_refines up_idem ops inv_nil hx

/-- The exclusion is exactly the finding class: only `pop` without default on an absent name. -/
theorem excluded_only_pop {V : Type} [DecidableEq V] (up : Str → Str) (s : Store V) (op : Op V)
    (h : excluded up s op = true) : ∃ k, op = .pop k none ∧ up k ∉ odKeys s := by
  cases op with
  | pop k d =>
    cases d with
    | some d => simp [excluded] at h
    | none =>
      refine ⟨k, rfl, ?_⟩
      simp only [excluded, Bool.not_eq_eq_eq_not, Bool.not_true] at h
      intro hm; rw [(odHas_iff s (up k)).mpr hm] at h; cases h
  | _ => simp [excluded] at h

/-- Recorded finding: `pop` of a missing key returns `None`; a dictionary raises KeyError. -/
theorem pop_witness : ¬ cd_refines_full upper :=
  fun h => absurd (h [.pop ['a'] none]) (by decide)

/-- `move_to_end` folds its key (repaired in 991e646; formerly a finding): any spelling of a
    present name moves it, exactly as the dictionary call on the folded key. -/
theorem move_to_end_folded {V : Type} [DecidableEq V] (up : Str → Str) (s : Store V) (k : Str) (last : Bool) :
    step up s (.moveToEnd k last) = stepSpec s (.moveToEnd (up k) last) := rfl

/-- Equal to any mapping with the same upper-cased content, whatever the order and the letter
    case of the other mapping's keys. -/
theorem cd_eq_mapping {V : Type} [DecidableEq V] (up : Str → Str) (up_idem : ∀ k, up (up k) = up k)
    (s : Store V) (h : Inv up s) (other : List (Str × V))
    (hp : (other.map (foldPair up)).Perm s) : cdEq up s other = true := by
  have hn : (odKeys (other.map (foldPair up))).Nodup := (hp.map Prod.fst).nodup_iff.mpr h.1
  unfold cdEq
  rw [cdInit_eq up_idem, odSetAll_nodup _ hn]
  exact dictEq_of_perm hn hp

/-- Equality is exactly equality of upper-cased content (a later entry of `other` overrides an
    earlier one whose name folds to the same key, as in `CaselessDict(other)`). -/
theorem cd_eq_iff {V : Type} [DecidableEq V] (up : Str → Str) (up_idem : ∀ k, up (up k) = up k)
    (s : Store V) (h : Inv up s) (other : List (Str × V)) :
    cdEq up s other = true ↔ ∀ k, odGet s k = odGet (odSetAll [] (other.map (foldPair up))) k := by
  unfold cdEq
  rw [cdInit_eq up_idem]
  exact dictEq_iff h.1 (inv_odSetAll_fold up_idem other inv_nil).1

/-- What `canonsort_keys(keys, order)` computes for distinct keys: the declared names that occur,
    in declared order (a name declared twice counts at its LAST position, because the index map
    is built by a dict comprehension), then all other names sorted by code point. -/
theorem canonsort_spec (keys order : List Str) (hk : keys.Nodup) :
    canonsort keys order =
      (dedupLast order).filter (fun k => decide (k ∈ keys)) ++
      (keys.filter (fun k => decide (k ∉ order))).mergeSort strLe :=
  canonsort_spec' keys order hk

/-- With a duplicate-free declaration (all `canonical_order` tuples in the library):
    priority names first in their declared order, the rest alphabetically. -/
theorem canonsort_spec_nodup (keys order : List Str) (hk : keys.Nodup) (ho : order.Nodup) :
    canonsort keys order =
      order.filter (fun k => decide (k ∈ keys)) ++
      (keys.filter (fun k => decide (k ∉ order))).mergeSort strLe := by
  rw [canonsort_spec keys order hk, dedupLast_of_nodup order ho]

/-- "alphabetically": the tail is sorted by code-point order and is a rearrangement of the
    undeclared names. -/
theorem canonsort_tail_sorted (l : List Str) :
    (l.mergeSort strLe).Pairwise (fun a b => strLe a b = true) ∧ (l.mergeSort strLe).Perm l :=
  ⟨List.pairwise_mergeSort strLe_trans strLe_total l, List.mergeSort_perm l strLe⟩

/-- The canonical order does not depend on the insertion order of the keys. -/
theorem canonsort_perm (order keys keys' : List Str) (h : keys.Perm keys') :
    canonsort keys order = canonsort keys' order :=
  canonsort_perm' order keys keys' h

/-- `sorted_keys()` returns exactly the stored keys, rearranged. -/
theorem canonsort_is_rearrangement (keys order : List Str) : (canonsort keys order).Perm keys :=
  canonsort_perm_keys keys order

/-! Non-vacuity. -/
-- the hypothesis `up_idem` is satisfiable (by the driver's instance), and so is `Inv`
example : ∀ k, upper (upper k) = upper k := upper_idem
example : Inv upper ([(['A'], 1), (['B'], 2)] : Store Nat) := by
  refine ⟨by decide, ?_⟩
  intro k hk; simp at hk; rcases hk with rfl | rfl <;> decide
-- a history with case variants, bytes/str-agnostic keys, every kind of call; not excluded
example : runExcluded upper ([] : Store Nat)
    [.init [(['a'], 1), (['A'], 2), (['b'], 3)], .setitem ['a', 'b'] 4, .pop ['B'] none, .pop ['B'] (some 7),
     .setdefault ['b'] 5, .moveToEnd ['a'] false, .or [(['a'], 9)], .copy, .delitem ['a']] = false := by decide
example : (run upper ([] : Store Nat)
    [.init [(['a'], 1), (['A'], 2), (['b'], 3)], .setitem ['a', 'b'] 4, .pop ['B'] none, .getitem ['a'],
     .eq [(['a', 'B'], 4), (['a'], 2)], .keys]).2
    = [.none, .none, .val 3, .val 2, .bool true, .keys [['A'], ['A', 'B']]] := by decide
-- the excluded region is inhabited (the findings are real calls)
example : excluded upper ([] : Store Nat) (.pop ['a'] none) = true := by decide
-- the former move_to_end witness now behaves like the dictionary
example : run upper ([] : Store Nat) [.setitem ['a'] 1, .setitem ['b'] 2, .moveToEnd ['a'] true, .keys]
    = ([(['B'], 2), (['A'], 1)], [.none, .none, .none, .keys [['B'], ['A']]]) := by decide
-- `cd_eq_mapping` applies to a mapping in another order and another letter case
example : cdEq upper ([(['A'], 1), (['B'], 2)] : Store Nat) [(['b'], 2), (['a'], 1)] = true := by decide
-- canonsort: declared names first (last index wins for a repeated declaration), rest sorted
example : canonsort [['Z'], ['B'], ['A'], ['C']] [['C'], ['B'], ['C']] = [['B'], ['C'], ['A'], ['Z']] := by
  rw [canonsort_spec _ _ (by decide)]
  simp [dedupLast, List.mergeSort, List.MergeSort.Internal.splitInTwo, strLe, strLt]

/-! ## Regenerated function bodies = steps of the hand model

  `ICal.Gen.BodiesCDict.cd_*` are written by tools/py2lean.py from the current source of the delegating methods of
  `CaselessDict` on every run: `key = to_unicode(key); [return] super().<m>(key.upper(), ..)`.  `self` is the state of
  the underlying ordered dict; each `super().<m>` is a parameter, given here the corresponding step of the plain
  ordered dict of the model (`Bodies.sGetitem` ..; for `setdefault` the `OrderedDict.setdefault` that goes back
  through the subclass methods).  The theorems: each translated method is the model's `step` on that operation, for
  the key folding `up k = upper (to_unicode k)`.  Which `super()` method is called, with which arguments in which
  order, what is returned (a method without `return` returns None but lets the step's exception through) and the
  defaults of the keyword parameters (`cd_defaults`) are part of the translated code. -/

section bodies
variable {V : Type} [DecidableEq V]
theorem body_cd_getitem (tu : Str → Str) (s : Store V) (k : Str) :
    Gen.BodiesCDict.cd_getitem tu Bodies.sGetitem s k = step (Bodies.upOf tu) s (.getitem k) := Bodies.cd_getitem_eq tu s k
theorem body_cd_setitem (tu : Str → Str) (s : Store V) (k : Str) (v : V) :
    Gen.BodiesCDict.cd_setitem tu Bodies.sSetitem s k v = step (Bodies.upOf tu) s (.setitem k v) := Bodies.cd_setitem_eq tu s k v
theorem body_cd_delitem (tu : Str → Str) (s : Store V) (k : Str) :
    Gen.BodiesCDict.cd_delitem tu Bodies.sDelitem s k = step (Bodies.upOf tu) s (.delitem k) := Bodies.cd_delitem_eq tu s k
theorem body_cd_contains (tu : Str → Str) (s : Store V) (k : Str) :
    Gen.BodiesCDict.cd_contains tu Bodies.sContains s k = step (Bodies.upOf tu) s (.contains k) := Bodies.cd_contains_eq tu s k
theorem body_cd_has_key (tu : Str → Str) (s : Store V) (k : Str) :
    Gen.BodiesCDict.cd_has_key tu Bodies.sContains s k = step (Bodies.upOf tu) s (.hasKey k) := Bodies.cd_has_key_eq tu s k
theorem body_cd_get (tu : Str → Str) (s : Store V) (k : Str) (d : Option V) :
    Gen.BodiesCDict.cd_get tu Bodies.sGet s k d = step (Bodies.upOf tu) s (.get k d) := Bodies.cd_get_eq tu s k d
theorem body_cd_setdefault (tu : Str → Str) (s : Store V) (k : Str) (v : V) :
    Gen.BodiesCDict.cd_setdefault tu (Bodies.sSetdefault (Bodies.upOf tu)) s k v = step (Bodies.upOf tu) s (.setdefault k v) :=
  Bodies.cd_setdefault_eq tu s k v
theorem body_cd_pop (tu : Str → Str) (s : Store V) (k : Str) (d : Option V) :
    Gen.BodiesCDict.cd_pop tu Bodies.sPop s k d = step (Bodies.upOf tu) s (.pop k d) := Bodies.cd_pop_eq tu s k d
theorem body_cd_popitem (tu : Str → Str) (s : Store V) :
    Gen.BodiesCDict.cd_popitem cdPopitem s = step (Bodies.upOf tu) s .popitem := Bodies.cd_popitem_eq tu s
theorem body_cd_move_to_end (tu : Str → Str) (s : Store V) (k : Str) (last : Bool) :
    Gen.BodiesCDict.cd_move_to_end tu Bodies.sMoveToEnd s k last = step (Bodies.upOf tu) s (.moveToEnd k last) :=
  Bodies.cd_move_to_end_eq tu s k last
end bodies

theorem body_cd_defaults :
    Gen.BodiesCDict.cd_get_default_default = none ∧ Gen.BodiesCDict.cd_pop_default_default = none ∧
      Gen.BodiesCDict.cd_move_to_end_default_last = true := Bodies.cd_defaults

/-! ### `__ne__`, `__eq__`, `sorted_keys`, `sorted_items` as regenerated (wave 7)

Thin methods: what they compare and sort with is given as the model has it.  The translation pins their shape and their
presence - a method removed from the class makes `tools/extract.py` fail, which breaks this property's tie. -/

theorem body_cd_ne {V : Type} [DecidableEq V] (up : Str → Str) (s : Store V) (other : List (Str × V)) :
    Gen.BodiesCDictMeta.cd_ne (self_ := s) (other := other) (eq_other := fun s o => cdEq up s o) = !cdEq up s other :=
  Bodies.cd_ne_eq up s other

theorem body_cd_eq {V : Type} [DecidableEq V] (up : Str → Str) (s : Store V) (other : List (Str × V)) :
    Gen.BodiesCDictMeta.cd_eq (self_ := s) (other := other) (same_object := fun _ _ => false) (has_items := fun _ => true)
      (dict_eq := fun s o => cdEq up s o) = some (cdEq up s other) := Bodies.cd_eq_mapping up s other

/-- the same object is equal; an operand without `items` gives NotImplemented (`none`) -/
theorem body_cd_eq_shape {S O : Type} (s : S) (o : O) (hi : O → Bool) (de : S → O → Bool) :
    Gen.BodiesCDictMeta.cd_eq (self_ := s) (other := o) (same_object := fun _ _ => true) (has_items := hi) (dict_eq := de) = some true ∧
    Gen.BodiesCDictMeta.cd_eq (self_ := s) (other := o) (same_object := fun _ _ => false) (has_items := fun _ => false) (dict_eq := de) = none :=
  Bodies.cd_eq_shape s o hi de

theorem body_cd_sorted_keys {V : Type} (s : Store V) (order : List Str) :
    Gen.BodiesCDictMeta.cd_sorted_keys (self_ := s) (keys := fun s => odKeys s) (canonical_order := fun _ => order)
      (canonsort_keys := fun ks o => canonsort ks o) = canonsort (odKeys s) order := rfl

theorem body_cd_sorted_items {V : Type} (up : Str → Str) (s : Store V) (order : List Str) :
    Gen.BodiesCDictMeta.cd_sorted_items (self_ := s) (canonical_order := fun _ => order)
      (canonsort_items := fun s o => cdSortedItems up s o) = cdSortedItems up s order := rfl

/-- regenerated `canonsort_keys` (wave 8: dict comprehension over `enumerate(canonical_order or [])`, the filtered
    comprehensions, `sorted(head, key=lambda k: canonical_map[k]) + sorted(tail)`): the call never raises (the key
    function meets only keys of the map) and returns the model's `canonsort`; `None` is the empty order -/
theorem body_canonsort_keys (keys : List Str) (order : Option (List Str)) :
    Gen.BodiesCDictSort.canonsort_keys keys order = .ok (canonsort keys (order.getD [])) :=
  Bodies.canonsort_keys_eq keys order

/-- regenerated `CaselessDict.update(*args, **kwargs)` (wave 8): `self[key] = value` for every pair of the positional
    mappings in order, then of the keywords - the model's `cdUpdate`; whether a mapping is asked for `.items()` does not
    matter for the pairs; `up = upper ∘ to_unicode` -/
theorem body_cd_update {V : Type} (tu : Str → Str) (s : Store V) (args : List (Bodies.MapArg V)) (kw : Bodies.MapArg V) :
    Bodies.cdUpdateP tu s args kw = .ok (cdUpdate (Bodies.foldKey tu) s (Bodies.allPairs args kw)) :=
  Bodies.cdUpdateP_eq tu s args kw

/-- regenerated `CaselessDict.__init__`: after `super().__init__`, the re-keying loop over the entries IS the model's
    (`if key != key_upper: super().__delitem__(key); self[key_upper] = value`), stated with a deletion that finds its
    key; no hypothesis on `up` -/
theorem body_cd_init_rekey {V : Type} (tu : Str → Str) (args : List (Bodies.MapArg V)) (kw : Bodies.MapArg V) :
    Gen.BodiesCDictMeta.cd_init (self_ := ([] : Store V)) (args := args) (kwargs := kw) (super_init := Bodies.superInitP tu)
      (items := fun s => s) (to_unicode := tu) (super_delitem := fun s k => .ok (odErase s k))
      (set_item := cdSetitem (Bodies.foldKey tu)) = .ok (cdInit (Bodies.foldKey tu) (Bodies.allPairs args kw)) :=
  Bodies.cd_init_model tu args kw

/-- regenerated `CaselessDict.__init__` with the dict's own deletion (KeyError without the key): for an idempotent
    `up` the call never raises and leaves the model's `cdInit` -/
theorem body_cd_init {V : Type} (tu : Str → Str) (up_idem : ∀ k, Bodies.foldKey tu (Bodies.foldKey tu k) = Bodies.foldKey tu k)
    (args : List (Bodies.MapArg V)) (kw : Bodies.MapArg V) :
    Bodies.cdInitP tu args kw = .ok (cdInit (Bodies.foldKey tu) (Bodies.allPairs args kw)) :=
  Bodies.cdInitP_eq tu up_idem args kw

/-- regenerated `CaselessDict.copy` = `type(self)(super().copy())`, the constructor being the regenerated `__init__`:
    the model's `cdCopy` -/
theorem body_cd_copy {V : Type} (tu : Str → Str) (up_idem : ∀ k, Bodies.foldKey tu (Bodies.foldKey tu k) = Bodies.foldKey tu k)
    (s : Store V) : Bodies.cdCopyP tu s = .ok (cdCopy (Bodies.foldKey tu) s) :=
  Bodies.cdCopyP_eq tu up_idem s

end ICal.C17
