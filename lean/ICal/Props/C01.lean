/-
  C01 — parse ∘ serialise is the identity on canonical trees: the tree layer (L4).
  `items sorted t` is `Component.property_items(recursive=True, sorted)` (Model/Ser.lean);
  `pstep`/`prun`/`parseLines` are the line loop of `Component.from_ical` (Model/Parse.lean);
  `dec` abstracts the typed decoders, so every statement holds for every decoder.

  The line layer is ABSTRACT here: `ln : Item → Str` is any function from items to content lines
  of which `LineOK ln it` holds for the items of the tree.  That is what C05 / C08 prove of
  `Contentline.from_parts` for hazard-free items; `lineOK_itemLine` below instantiates `ln` with
  the serialiser's own `itemLine`, and `parse_toIcal` composes all layers (C06 folding included).

  Property theorems only; the definitions `LineOK`, `readValue`, `NameOK`, `ValOK`, `EntryOK`,
  `PropsOK`, `WF`, `TzOK`, `tzArg`, `Comp.toP`, `sortedProps`, `sortedTree`, `attach`, `attachL` and the
  helper lemmas are in ICal/Lemmas/Parse.lean.  The three small definitions of the concrete line
  layer (`lnOf`, `rawRead`, `ItemOK`) are stated here, next to the C05 / C06 results they use.

  `LineOK ln it`: `ln it ≠ []`, `parts (ln it)` reads back `it.name` and `it.params`, and the
  value text the loop uses (`readValue`: the `parts()` value for BEGIN / END and non-TEXT
  properties, `raw_value()` for properties whose class is vText / vCategory) is `it.text`.
  `lineOK_of_parts_raw` (Lemmas) gives it from `parts = some (name, params, text)` and
  `rawValue = text`.

  `tzok c` abstracts "building / caching the time zone object of the VTIMEZONE `c` does not
  fail" (`tzp.cache_timezone_component` in the END branch of `from_ical`); the round trip needs
  `TzOK tzok b t`: `tzok` holds of every VTIMEZONE of the tree that has a TZID (as the parser
  sees it, i.e. in serialisation order).

  Domain `WF dec t` (every component of the tree):
  * the component name is upper-cased and unchanged by TEXT escaping (it is written as a TEXT
    value on the BEGIN line and read back through `.upper()`);
  * every stored property name is upper-cased (always true of a `CaselessDict`), is not BEGIN /
    END (such a "property" would be read as structure) and is not FREEBUSY (the parser splits a
    FREEBUSY value on commas into several values: excluded here);
  * property names are pairwise distinct (a dictionary), every entry has at least one value, and
    an entry holds a list exactly when it has two values or more — a one-element list is
    indistinguishable from a scalar after serialisation (recorded finding D25);
  * every value of property `k` is an instance of `for_property(k)` and a fixpoint of its
    decoder: `dec (forProperty k) text tz = some text` with the `tz` the loop passes.
-/
import ICal.Lemmas.Parse
import ICal.Lemmas.Line
import ICal.Props.C06
import ICal.Props.C09
import ICal.Lemmas.BodiesParse
namespace ICal.C01

/-- Key lemma: from any running state, the lines of a well-formed tree push the tree — with the
    entries of every component in serialisation order and empty error lists — onto the parent's
    subcomponents (or onto the result list when no component is open). Unbounded in depth, width,
    number of properties and values. -/
theorem run_items (tzok : Comp → Bool) (dec : Dec) (ln : Item → Str) (b : Bool) (t : Comp) (st : PState)
    (hwf : WF dec t) (htz : TzOK tzok b t) (hl : ∀ it ∈ items b t, LineOK ln it) (hs : st.stopped = false) :
    prun tzok dec st ((items b t).map ln) = some (attach st (sortedTree b t).toP) :=
  run_items_aux tzok dec ln b t st hwf htz hl hs

/-- The same for a sequence of trees. -/
theorem run_itemsList (tzok : Comp → Bool) (dec : Dec) (ln : Item → Str) (b : Bool) (ts : List Comp) (st : PState)
    (hwf : WFs dec ts) (htz : TzOKs tzok b ts) (hl : ∀ it ∈ itemsList b ts, LineOK ln it) (hs : st.stopped = false) :
    prun tzok dec st ((itemsList b ts).map ln) = some (attachL st (Comp.toPs (sortedTrees b ts))) :=
  run_itemsList_aux tzok dec ln b ts st hwf htz hl hs

/-- `from_ical(lines of t)` returns exactly one component, the tree in serialisation order, and
    records no error. -/
theorem parse_ser_lines (tzok : Comp → Bool) (dec : Dec) (ln : Item → Str) (b : Bool) (t : Comp)
    (hwf : WF dec t) (htz : TzOK tzok b t) (hl : ∀ it ∈ items b t, LineOK ln it) :
    parseLines tzok dec false ((items b t).map ln) = some ([sortedTree b t], []) := by
  unfold parseLines parseLinesP
  rw [run_items tzok dec ln b t PState.init hwf htz hl rfl]
  simp [attach, PState.init, PComp.toComps, PComp.errLogs, toComp_toP, errLog_toP]

/-- `sorted=False`: the tree itself comes back, entry order included. -/
theorem parse_ser_lines_unsorted (tzok : Comp → Bool) (dec : Dec) (ln : Item → Str) (t : Comp)
    (hwf : WF dec t) (htz : TzOK tzok false t) (hl : ∀ it ∈ items false t, LineOK ln it) :
    parseLines tzok dec false ((items false t).map ln) = some ([t], []) := by
  rw [parse_ser_lines tzok dec ln false t hwf htz hl, sortedTree_false dec t hwf]

/-- `multiple=True`: a stream of several top-level components comes back in order. -/
theorem parse_ser_lines_multiple (tzok : Comp → Bool) (dec : Dec) (ln : Item → Str) (b : Bool) (ts : List Comp)
    (hwf : WFs dec ts) (htz : TzOKs tzok b ts) (hl : ∀ it ∈ itemsList b ts, LineOK ln it) :
    parseLines tzok dec true ((itemsList b ts).map ln) = some (sortedTrees b ts, []) := by
  unfold parseLines parseLinesP
  rw [run_itemsList tzok dec ln b ts PState.init hwf htz hl rfl]
  simp [PState.init, attachL_init, toComps_toPs, errLogs_toPs]

/-- What `sortedTree` is: the same entries (a permutation), visited in the order of
    `sorted_keys()` / `keys()`. -/
theorem sorted_entries (b : Bool) (n : Str) (props : List Entry) (h : (props.map (·.name)).Nodup) :
    (sortedProps b n props).map (·.name) = propNames b n props ∧ (sortedProps b n props).Perm props :=
  ⟨map_name_sortedProps b n props, sortedProps_perm b n props h⟩

/-- The canonical order is idempotent (for every tree, no hypothesis): parsing the serialisation
    of a parsed tree cannot reorder it again. -/
theorem reparse_fixpoint (b : Bool) (t : Comp) : sortedTree b (sortedTree b t) = sortedTree b t :=
  sortedTree_idem b t

/-- The parsed tree serialises to the same items (hence the same lines, the same bytes) as the
    original tree (for every tree, no hypothesis). -/
theorem reserialise_same (b : Bool) (t : Comp) : items b (sortedTree b t) = items b t :=
  items_sortedTree b t

/-- The parsed tree is again in the domain. -/
theorem parsed_wf (dec : Dec) (b : Bool) (t : Comp) (hwf : WF dec t) : WF dec (sortedTree b t) :=
  WF_sortedTree dec b t hwf

/-- ... also with respect to the time zone hypothesis. -/
theorem parsed_tzok (tzok : Comp → Bool) (b : Bool) (t : Comp) (h : TzOK tzok b t) :
    TzOK tzok b (sortedTree b t) :=
  TzOK_sortedTree tzok b t h

/-- The time zone hypothesis is void for a provider that can build every time zone, and for a
    tree without a VTIMEZONE that has a TZID (`TzOK` only speaks about those). -/
theorem tzok_of_total (b : Bool) (t : Comp) : TzOK (fun _ => true) b t := TzOK_true b t

/-- Stability: parse ∘ serialise ∘ parse ∘ serialise = parse ∘ serialise on the tree level —
    the second round trip returns the tree of the first, unchanged. -/
theorem parse_ser_stable (tzok : Comp → Bool) (dec : Dec) (ln : Item → Str) (b : Bool) (t : Comp)
    (hwf : WF dec t) (htz : TzOK tzok b t) (hl : ∀ it ∈ items b t, LineOK ln it) :
    ∃ t', parseLines tzok dec false ((items b t).map ln) = some ([t'], []) ∧
      items b t' = items b t ∧
      parseLines tzok dec false ((items b t').map ln) = some ([t'], []) := by
  refine ⟨sortedTree b t, parse_ser_lines tzok dec ln b t hwf htz hl, items_sortedTree b t, ?_⟩
  rw [items_sortedTree b t]
  exact parse_ser_lines tzok dec ln b t hwf htz hl

/-! ### the concrete line layer: `ln` := `Component.content_line` -/

/-- the line `content_line` builds for an item ("" when `from_parts` refuses) -/
def lnOf (b : Bool) (it : Item) : Str :=
  match itemLine b it with
  | .ok s => s
  | .error _ => []

/-- the loop reads the value of this property with `raw_value()` (TEXT-typed properties) -/
def rawRead (name : Str) : Bool :=
  decide (name ≠ nBEGIN) && decide (name ≠ nEND) && Gen.fromIcalTextRaw && textKinds.contains (forProperty name)

/-- an item whose line reads back exactly (C05 `parts_fromParts`, `rawValue_fromParts`): NAME
    token; parameters in the C08 domain, hazard-free (D02 / D03) and already in the form the
    parser stores (`canon`: keys sorted, a one-element list as a string); value text without raw
    line feed, and hazard-free unless the property is TEXT-typed (read with `raw_value()`, so
    `\,` `\;` `\\` and `%2C` in a TEXT value are inside the domain) -/
def ItemOK (it : Item) : Prop :=
  validToken it.name = true ∧ ParamDomain it.params ∧ ParamsHazardless it.params ∧
  canon it.params = it.params ∧ LF ∉ it.text ∧ (rawRead it.name = true ∨ Hazardless it.text)

instance (it : Item) : Decidable (ItemOK it) := by unfold ItemOK; infer_instance

/-- C05 instantiates the abstract line layer. -/
theorem lineOK_itemLine (it : Item) (h : ItemOK it) : LineOK (lnOf true) it := by
  obtain ⟨hn, hp, hpz, hc, hv, hz⟩ := h
  have e : lnOf true it = lineText it.name it.params it.text true := by
    unfold lnOf itemLine
    rw [fromParts_ok it.name it.params it.text true hn hp hv]
  have hraw := rawValue_lineText it.name it.params it.text true hn hp
  unfold LineOK
  rw [e, parts_lineText it.name it.params it.text hn hp hpz]
  refine ⟨?_, by rw [hc]; rfl, ?_⟩
  · have hne : it.name ≠ [] := by
      intro h0; rw [h0] at hn; simp [validToken] at hn
    unfold lineText
    split <;> simp [hne]
  · simp only [Option.map_some, Option.some.injEq, readValue, hraw]
    rcases hz with hz | hz
    · simp only [rawRead, Bool.and_eq_true, decide_eq_true_eq] at hz
      rw [if_neg (by simp [hz.1.1.1, hz.1.1.2]), if_pos (by rw [hz.1.2, hz.2]; rfl)]
    · rw [ICal.escapeString_id it.text hz.1, ICal.unescapeString_id it.text hz.2]
      simp

/-- `content_lines()` of a tree of the domain succeeds and gives the lines `lnOf`. -/
theorem contentLines_ok (t : Comp) (h : ∀ it ∈ items true t, ItemOK it) :
    contentLines true t = .ok ((items true t).map (lnOf true)) := by
  unfold contentLines
  generalize items true t = its at h
  induction its with
  | nil => rfl
  | cons it its ih =>
    obtain ⟨hn, hp, _, _, hv, _⟩ := h it List.mem_cons_self
    have e : itemLine true it = .ok (lnOf true it) := by
      unfold lnOf itemLine
      rw [fromParts_ok it.name it.params it.text true hn hp hv]
    rw [List.mapM_cons, e, ih (fun x hx => h x (List.mem_cons_of_mem _ hx))]
    rfl

/-- L2–L4 composed: `from_ical` of the content lines of a tree of the domain returns the tree
    (in canonical order) and no error. -/
theorem parse_contentLines (tzok : Comp → Bool) (dec : Dec) (t : Comp) (hwf : WF dec t) (htz : TzOK tzok true t) (h : ∀ it ∈ items true t, ItemOK it) :
    ∃ ls, contentLines true t = .ok ls ∧ parseLines tzok dec false ls = some ([sortedTree true t], []) :=
  ⟨_, contentLines_ok t h, parse_ser_lines tzok dec (lnOf true) true t hwf htz
    (fun it hit => lineOK_itemLine it (h it hit))⟩

/-- a serialised line of the domain is a real content line: not empty, no raw line feed, and it
    starts with a NAME character (not SP, HT or a byte-order mark) -/
theorem lnOf_real_line (it : Item) (h : ItemOK it) :
    lnOf true it ≠ [] ∧ LF ∉ lnOf true it ∧ (lnOf true it).head? ≠ some SP ∧
      (lnOf true it).head? ≠ some HT ∧ (lnOf true it).head? ≠ some BOM := by
  obtain ⟨name, text, params⟩ := it
  obtain ⟨hn, hp, _, _, hv, _⟩ := h
  simp only at hn hp hv
  have e : lnOf true ⟨name, text, params⟩ = lineText name params text true := by
    unfold lnOf itemLine
    simp only
    rw [fromParts_ok name params text true hn hp hv]
  rw [e]
  have hlf := lineText_noLF name params text true hn hp hv
  have htok := validToken_tok name hn
  cases name with
  | nil => simp [validToken] at hn
  | cons c cs =>
    have hc := htok c List.mem_cons_self
    have hhead : (lineText (c :: cs) params text true).head? = some c := by
      unfold lineText; split <;> rfl
    refine ⟨?_, hlf, ?_, ?_, ?_⟩
    · unfold lineText; split <;> simp
    · rw [hhead]; intro h0; injection h0 with h0; subst h0; revert hc; decide
    · rw [hhead]; intro h0; injection h0 with h0; subst h0; revert hc; decide
    · rw [hhead]; intro h0; injection h0 with h0; subst h0; revert hc; decide

/-- L1–L4 composed (C06 folding, C05 / C08 lines, this file's tree layer): `to_ical()` of a tree
    of the domain succeeds, and `from_ical` of that text returns the tree (in canonical order)
    and records no error. -/
theorem parse_toIcal (tzok : Comp → Bool) (dec : Dec) (t : Comp) (hwf : WF dec t) (htz : TzOK tzok true t) (h : ∀ it ∈ items true t, ItemOK it) :
    ∃ text, toIcal true t = .ok text ∧ parseText tzok dec false text = some ([sortedTree true t], []) := by
  refine ⟨linesToIcal ((items true t).map (lnOf true)), ?_, ?_⟩
  · unfold toIcal; rw [contentLines_ok t h]; rfl
  · unfold parseText
    rw [ICal.C06.lines_roundtrip]
    · exact parse_ser_lines tzok dec (lnOf true) true t hwf htz (fun it hit => lineOK_itemLine it (h it hit))
    · intro l hl
      obtain ⟨it, hit, rfl⟩ := List.mem_map.mp hl
      exact lnOf_real_line it (h it hit)

/-! ### first parse of well-formed text in any layout (with C09) -/

/-- First-parse exactness, any physical layout: take a tree of the domain and write its content
    lines down in ANY physical form `ps` — every line cut anywhere into a first segment and
    continuation segments, each continuation preceded by its own fold separator (CR LF or LF,
    then SP or HT), every line ended by CR LF or by LF — not only the layout `to_ical()` chooses.
    `from_ical` of that text returns exactly the tree the text denotes (entries in canonical
    order) and records no error. (`p.ok` contains that the logical line has no CR, see C09.) -/
theorem parse_any_layout (tzok : Comp → Bool) (dec : Dec) (t : Comp) (hwf : WF dec t)
    (htz : TzOK tzok true t) (h : ∀ it ∈ items true t, ItemOK it)
    (ps : List PhysLine) (hps : ∀ p ∈ ps, p.ok)
    (hlog : ps.map PhysLine.logical = (items true t).map (lnOf true)) :
    parseText tzok dec false (physText ps) = some ([sortedTree true t], []) := by
  unfold parseText
  rw [ICal.C09.physical_lines_invariant ps hps, hlog]
  exact parse_ser_lines tzok dec (lnOf true) true t hwf htz (fun it hit => lineOK_itemLine it (h it hit))

/-- a serialised line of the domain without CR is a well-formed line in the sense of C09 -/
theorem lnOf_wfLine (it : Item) (h : ItemOK it) (hcr : CR ∉ lnOf true it) : WFLine (lnOf true it) := by
  obtain ⟨h1, h2, h3, h4, h5⟩ := lnOf_real_line it h
  exact ⟨⟨h1, h2, h3, h4⟩, h5, hcr⟩

/-- The same through every insignificant rewrite (C09 `parse_invariant`): the lines may be any
    case variant of the tree's content lines (BEGIN / END, component names, property names in any
    letter case; parameter names are upper-cased by `parts()`), written in any physical layout
    `ps`, and the text may then go through any sequence `rs` of text rewrites (CR LF ↦ LF, one
    byte-order mark, trailing blank lines, further folds).  Extra hypothesis, explicit: no content
    line holds a CR (needed by the LF rewrite and LF-only folds, see C09 `lf_needs_hypothesis`). -/
theorem parse_any_text (tzok : Comp → Bool) (dec : Dec) (t : Comp) (hwf : WF dec t)
    (htz : TzOK tzok true t) (h : ∀ it ∈ items true t, ItemOK it)
    (hcr : ∀ it ∈ items true t, CR ∉ lnOf true it)
    (ps : List PhysLine) (rs : List Rewrite) (hps : ∀ p ∈ ps, p.ok)
    (hcv : Pointwise CaseVariant ((items true t).map (lnOf true)) (ps.map PhysLine.logical))
    (hc : rs.countP Rewrite.isBOM ≤ 1) :
    parseText tzok dec false (applyAll rs (physText ps)) = some ([sortedTree true t], []) := by
  have hls : ∀ l ∈ (items true t).map (lnOf true), WFLine l := by
    intro l hl
    obtain ⟨it, hit, rfl⟩ := List.mem_map.mp hl
    exact lnOf_wfLine it (h it hit) (hcr it hit)
  rw [ICal.C09.parse_invariant tzok dec false _ ps rs hls hps hcv hc]
  unfold parseText
  rw [linesFromIcal_body _ hls]
  exact parse_ser_lines tzok dec (lnOf true) true t hwf htz (fun it hit => lineOK_itemLine it (h it hit))

/-! ### non-vacuity: a calendar with VERSION, an event with SUMMARY, two ATTENDEEs (one with
    parameters), a nested alarm; the identity decoder. -/

private def decId : Dec := fun _ t _ => some t
private def vtext (s : String) : Val := ⟨"vText".toList, s.toList, []⟩
private def sample : Comp :=
  .mk "VCALENDAR".toList [⟨"VERSION".toList, false, [vtext "2.0"]⟩]
    [.mk "VEVENT".toList
      [⟨"ATTENDEE".toList, true,
          [⟨"vCalAddress".toList, "mailto:a@example.com".toList, [("CN".toList, .one "A, B".toList)]⟩,
           ⟨"vCalAddress".toList, "mailto:b@example.com".toList, []⟩]⟩,
       ⟨"SUMMARY".toList, false, [vtext "x\\, y"]⟩]
      [.mk "VALARM".toList [⟨"ACTION".toList, false, [vtext "DISPLAY"]⟩] []]]

example : WF decId sample := by
  simp only [sample, WF, WFs, and_true]
  decide
example : ∀ it ∈ items true sample, ItemOK it := by decide +kernel
example : ∀ it ∈ items true sample, LineOK (lnOf true) it := by decide +kernel
/-- the event's entries are reordered (SUMMARY is in VEVENT's canonical order, ATTENDEE is not) -/
example : (sortedTree true sample).subs.map (fun c => c.props.map (·.name)) =
    [["SUMMARY".toList, "ATTENDEE".toList]] := by decide +kernel
/-- the theorem applies -/
example : parseLines (fun _ => true) decId false ((items true sample).map (lnOf true)) =
    some ([sortedTree true sample], []) :=
  parse_ser_lines (fun _ => true) decId (lnOf true) true sample (by simp only [sample, WF, WFs, and_true]; decide)
    (TzOK_true true sample) (by decide +kernel)
/-- and, independently, evaluation of the model gives that result (`Comp` has no decidable
    equality: compared through the unsorted item stream, which shows names, values, parameters,
    nesting and order) -/
example : (parseLines (fun _ => true) decId false ((items true sample).map (lnOf true))).map
      (fun r => (r.1.map (items false), r.2)) = some ([items false (sortedTree true sample)], []) := by
  decide +kernel
/-- no content line of the sample holds a CR -/
example : ∀ it ∈ items true sample, CR ∉ lnOf true it := by decide +kernel
/-- `parse_any_layout` applies to a layout `to_ical()` never produces: every line ended by a bare
    LF, and the first line folded with LF HT after `BEG` -/
example : parseText (fun _ => true) decId false
    (physText (⟨"BEG".toList, [([LF, HT], "IN:VCALENDAR".toList)], [LF]⟩ ::
      ((items true sample).drop 1).map (fun it => ⟨lnOf true it, [], [LF]⟩))) =
    some ([sortedTree true sample], []) := by
  have hok : ∀ it ∈ items true sample, ItemOK it := by decide +kernel
  have hcr : ∀ it ∈ items true sample, CR ∉ lnOf true it := by decide +kernel
  apply parse_any_layout (fun _ => true) decId sample (by simp only [sample, WF, WFs, and_true]; decide)
    (TzOK_true true sample) hok
  · intro p hp
    rcases List.mem_cons.mp hp with rfl | hp
    · refine ⟨by decide, ?_, Or.inr rfl, ?_⟩
      · intro q hq
        simp only [List.mem_cons, List.not_mem_nil, or_false] at hq
        subst hq
        exact foldSep_lf_ht
      · exact lnOf_wfLine (beginItem "VCALENDAR".toList) (hok _ (by decide +kernel)) (hcr _ (by decide +kernel))
    · obtain ⟨it, hit, rfl⟩ := List.mem_map.mp hp
      have hit' : it ∈ items true sample := List.mem_of_mem_drop hit
      refine ⟨(lnOf_real_line it (hok it hit')).1, by simp, Or.inr rfl, ?_⟩
      simpa [PhysLine.logical] using lnOf_wfLine it (hok it hit') (hcr it hit')
  · have e : items true sample = beginItem "VCALENDAR".toList :: (items true sample).drop 1 := by
      decide +kernel
    conv => rhs; rw [e]
    simp only [List.map_cons, List.map_map]
    congr 1
    apply List.map_congr_left
    intro it _
    simp [PhysLine.logical]

/-- `x\, y` in SUMMARY (TEXT) is inside the domain; in a URL it is not (D02) -/
example : ItemOK ⟨"SUMMARY".toList, "x\\, y".toList, []⟩ ∧ ¬ ItemOK ⟨"URL".toList, "x\\, y".toList, []⟩ := by
  decide +kernel

/-! ### the regenerated `Component.from_ical` (ICal/Gen/BodiesParse.lean, rewritten from cal.py by tools/py2lean.py on every run)

`Bodies.loopP` / `Bodies.fromIcalP` are the translated loop / function with the external pieces of
ICal/Model/ParsePieces.lean; `Bodies.fromIcalTrees` is what the caller sees of the result. The theorems above speak
of `pstep` / `prun` / `parseText`; these say that the code, as translated, is that model. -/

/-- one iteration of the translated loop is `pstep` (the Python list has its top at the end) -/
theorem body_from_ical_step (tzok : Comp → Bool) (dec : Dec) (st : PState) (hst : st.stopped = false) (line : Str) (rest : List Str) :
    Bodies.loopP tzok dec st.stack.reverse st.comps (line :: rest) = Bodies.liftStep tzok dec rest (pstep tzok dec st line) :=
  Bodies.loop_cons tzok dec st hst line rest

/-- the translated loop is `prun` -/
theorem body_from_ical_loop (tzok : Comp → Bool) (dec : Dec) (lines : List Str) (st : PState) (hst : st.stopped = false) :
    Bodies.loopP tzok dec st.stack.reverse st.comps lines =
      match prun tzok dec st lines with
      | none => .error .valueError
      | some st' => .ok (st'.stack.reverse, st'.comps) :=
  Bodies.loop_prun tzok dec lines st hst

/-- the translated `Component.from_ical(st, multiple)` is `parseLinesP` on the unfolded lines -/
theorem body_from_ical (tzok : Comp → Bool) (dec : Dec) (st : Str) (multiple : Bool) :
    Bodies.fromIcalP tzok dec st multiple =
      match parseLinesP tzok dec multiple (linesFromIcal st) with
      | none => .error .valueError
      | some cs => if multiple then .ok (.many cs) else match cs with
        | c :: _ => .ok (.one c)
        | [] => .error .indexError :=
  Bodies.fromIcal_parseLinesP tzok dec st multiple

/-- what the caller sees of the translated function is `parseText` -/
theorem body_parseText (tzok : Comp → Bool) (dec : Dec) (multiple : Bool) (st : Str) :
    Bodies.fromIcalTrees tzok dec multiple st = parseText tzok dec multiple st :=
  Bodies.fromIcalTrees_parseText tzok dec multiple st

/-- `parse_toIcal` on the translated function: it reads `to_ical()` of a tree of the domain back as that tree -/
theorem body_parse_toIcal (tzok : Comp → Bool) (dec : Dec) (t : Comp) (hwf : WF dec t) (htz : TzOK tzok true t) (h : ∀ it ∈ items true t, ItemOK it) :
    ∃ text, toIcal true t = .ok text ∧ Bodies.fromIcalTrees tzok dec false text = some ([sortedTree true t], []) := by
  obtain ⟨text, h1, h2⟩ := parse_toIcal tzok dec t hwf htz h
  exact ⟨text, h1, by rw [body_parseText]; exact h2⟩

/-- `parse_any_text` on the translated function -/
theorem body_parse_any_text (tzok : Comp → Bool) (dec : Dec) (t : Comp) (hwf : WF dec t)
    (htz : TzOK tzok true t) (h : ∀ it ∈ items true t, ItemOK it)
    (hcr : ∀ it ∈ items true t, CR ∉ lnOf true it)
    (ps : List PhysLine) (rs : List Rewrite) (hps : ∀ p ∈ ps, p.ok)
    (hcv : Pointwise CaseVariant ((items true t).map (lnOf true)) (ps.map PhysLine.logical))
    (hc : rs.countP Rewrite.isBOM ≤ 1) :
    Bodies.fromIcalTrees tzok dec false (applyAll rs (physText ps)) = some ([sortedTree true t], []) := by
  rw [body_parseText]; exact parse_any_text tzok dec t hwf htz h hcr ps rs hps hcv hc

end ICal.C01
