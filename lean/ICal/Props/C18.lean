/-
  C18 — Used-timezone discovery is complete; the missing set is "used minus present" and total;
  add_missing_timezones closes the known part of it and is idempotent.

  Property theorems only; helper lemmas are in ICal/Lemmas/TzUse.lean.
  `usedTzids`, `missingTzids`, `tzNames`, `addMissing` are the models of Calendar.get_used_tzids,
  get_missing_tzids, `[tz.tz_name for tz in timezones if 'TZID' in tz]` and add_missing_timezones
  (Model/TzUse.lean).  Sets are duplicate-free lists (`used_nodup`), compared by membership.

  `knows : Str → Bool` is the provider: `knows k` iff `Timezone.from_tzid(k)` returns a component
  (it raises ValueError otherwise and the id is skipped); the component it returns is a VTIMEZONE
  whose TZID is `k` — its inner content is property C13.
-/
import ICal.Lemmas.TzUse
import ICal.Lemmas.BodiesTzUse
namespace ICal.C18

/-- The used set is exactly the set of TZID parameters found on any value (every element of a
    list-valued property, every element of a multi-valued TZID parameter) of any property of
    any nested component. -/
theorem used_complete (t : Comp) (k : Str) :
    k ∈ usedTzids t ↔
      ∃ c ∈ preorder t, ∃ e ∈ c.props, ∃ v ∈ e.vals,
        v.params.get? TZID = some (.one k) ∨ ∃ l, v.params.get? TZID = some (.many l) ∧ k ∈ l := by
  rw [usedTzids, mem_toSet, mem_rawTzids]
  simp only [mem_valTzids]

/-- it is a set: no id is reported twice -/
theorem used_nodup (t : Comp) : (usedTzids t).Nodup := toSet_nodup _

/-- The names the calendar defines: the TZID of every VTIMEZONE (at any depth) that has one. -/
theorem tznames_spec (t : Comp) (k : Str) :
    k ∈ tzNames t ↔ ∃ c ∈ preorder t, c.name = VTIMEZONE ∧ tzName? c = some k := by
  have h : upper VTIMEZONE = VTIMEZONE := by decide
  have hf : walkTest (some VTIMEZONE) (fun _ => true) = (fun c => c.name == VTIMEZONE) := by
    funext c; simp [walkTest]
  simp only [tzNames, timezones, walk, Option.map, h, walkAux_filter, hf, List.mem_filterMap,
    List.mem_filter, beq_iff_eq]
  constructor
  · rintro ⟨c, ⟨hc, hn⟩, hk⟩; exact ⟨c, hc, hn, hk⟩
  · rintro ⟨c, hc, hn, hk⟩; exact ⟨c, ⟨hc, hn⟩, hk⟩

/-- The missing set is the used ids that no VTIMEZONE of the calendar carries.  `missingTzids`
    is a total function: whatever VTIMEZONEs the calendar contains (unused, repeated, without
    TZID), there is no failure case. -/
theorem missing_spec (t : Comp) (k : Str) :
    k ∈ missingTzids t ↔ k ∈ usedTzids t ∧ k ∉ tzNames t :=
  mem_missingTzids t k

theorem missing_nodup (t : Comp) : (missingTzids t).Nodup := missingTzids_nodup t

/-- add_missing_timezones does not change the used set -/
theorem add_missing_used (knows : Str → Bool) (t : Comp) :
    usedTzids (addMissing knows t) = usedTzids t :=
  usedTzids_addMissing knows t

/-- After the call: the VTIMEZONE names are the old ones followed by the missing ids the provider
    knows; so an id that already had VTIMEZONEs keeps exactly those, a missing id the provider
    knows has exactly one, and every other id has none. -/
theorem add_missing_closes (knows : Str → Bool) (t : Comp) (k : Str) :
    (tzNames (addMissing knows t)).count k =
      (tzNames t).count k + (if k ∈ missingTzids t ∧ knows k = true then 1 else 0) := by
  rw [tzNames_addMissing, List.count_append]
  congr 1
  have hn : (addedIds knows t).Nodup := (missingTzids_nodup t).sublist List.filter_sublist
  rw [hn.count]
  simp [addedIds, List.mem_filter]

/-- in the property's words: every used id the provider knows and that had no VTIMEZONE has
    exactly one afterwards -/
theorem add_missing_exactly_one (knows : Str → Bool) (t : Comp) (k : Str)
    (hu : k ∈ usedTzids t) (hk : knows k = true) (hm : k ∉ tzNames t) :
    (tzNames (addMissing knows t)).count k = 1 := by
  rw [add_missing_closes]
  have : k ∈ missingTzids t := (mem_missingTzids t k).2 ⟨hu, hm⟩
  simp [this, hk, List.count_eq_zero_of_not_mem hm]

/-- ids that already had one or more VTIMEZONEs are untouched -/
theorem add_missing_keeps_present (knows : Str → Bool) (t : Comp) (k : Str) (hp : k ∈ tzNames t) :
    (tzNames (addMissing knows t)).count k = (tzNames t).count k := by
  rw [add_missing_closes]
  have : k ∉ missingTzids t := fun h => ((mem_missingTzids t k).1 h).2 hp
  simp [this]

/-- what is still missing afterwards is exactly the missing ids the provider does not know -/
theorem add_missing_rest (knows : Str → Bool) (t : Comp) :
    missingTzids (addMissing knows t) = (missingTzids t).filter (fun k => !knows k) :=
  missingTzids_addMissing knows t

/-- so every used id the provider knows is defined afterwards -/
theorem add_missing_known_defined (knows : Str → Bool) (t : Comp) (k : Str)
    (hu : k ∈ usedTzids t) (hk : knows k = true) : k ∈ tzNames (addMissing knows t) := by
  apply Classical.byContradiction
  intro hn
  have : k ∈ missingTzids (addMissing knows t) :=
    (mem_missingTzids _ k).2 ⟨by rw [usedTzids_addMissing]; exact hu, hn⟩
  rw [add_missing_rest] at this
  simp [hk] at this

/-- repeating the call adds nothing -/
theorem add_missing_idem (knows : Str → Bool) (t : Comp) :
    addMissing knows (addMissing knows t) = addMissing knows t := by
  have h : addedIds knows (addMissing knows t) = [] := by
    simp only [addedIds, add_missing_rest, List.filter_filter]
    apply List.filter_eq_nil_iff.2
    intro k _
    cases knows k <;> simp
  rw [addMissing_eq knows (addMissing knows t), h]
  cases t
  simp [addMissing, Comp.name, Comp.props, Comp.subs]

/-! ### the regenerated bodies (tools/py2lean.py, Gen/BodiesTzUse.lean) are the models

  `Bodies.usedTzidsP`, `missingTzidsP`, `addMissingP` are the regenerated `Calendar.get_used_tzids`,
  `get_missing_tzids`, `add_missing_timezones` with the external pieces of Model/TzUsePieces.lean given by name (the
  same definitions the driver runs against icalendar).  A Python set is returned as a duplicate-free list in insertion
  order; Python leaves the iteration order of a set unspecified, so the statements compare SORTED lists (the model is
  sorted by construction).  `t.WF`: property keys are distinct (they are keys of a dict).  `tzDomainP t`: the model's
  domain - no VTIMEZONE has a list-valued TZID. -/

/-- regenerated `Calendar.timezones` (= `self.walk("VTIMEZONE")` with the default `select`) -/
theorem body_timezones (t : Comp) : Gen.BodiesTzUse.Calendar_timezones t = timezones t :=
  Bodies.timezones_eq t

/-- regenerated `Calendar.get_used_tzids`: never raises; what it returns is a set (no duplicates) whose sorted
    listing is the model's `usedTzids` -/
theorem body_get_used_tzids (t : Comp) (hw : t.WF) :
    ∃ l, Bodies.usedTzidsP t = .ok l ∧ l.Nodup ∧ sortStr l = usedTzids t :=
  ⟨_, Bodies.usedTzidsP_eq t, Bodies.usedList_nodup t, Bodies.sort_usedList t hw⟩

/-- regenerated `Calendar.get_missing_tzids`: never raises (KeyError of `tz_name` is guarded by `'TZID' in timezone`,
    `discard` has no failure case); sorted it is the model's `missingTzids` -/
theorem body_get_missing_tzids (t : Comp) (hw : t.WF) (hd : Bodies.tzDomainP t = true) :
    ∃ l, Bodies.missingTzidsP t = .ok l ∧ l.Nodup ∧ sortStr l = missingTzids t :=
  ⟨_, Bodies.missingTzidsP_eq t, Bodies.missingList_nodup t, Bodies.sort_missingList t hw hd⟩

/-- regenerated `Calendar.add_missing_timezones`: for every provider `knows` the call does not raise (the ValueError
    of `Timezone.from_tzid` is caught and the id skipped) and leaves the model's `addMissing knows t`: the ids are
    visited in sorted order, each known one appended once -/
theorem body_add_missing_timezones (knows : Str → Bool) (t : Comp) (hw : t.WF) (hd : Bodies.tzDomainP t = true) :
    Bodies.addMissingP knows t = .ok (addMissing knows t) :=
  Bodies.addMissingP_eq knows t hw hd

/-! ## Clause pass (round 10) -/

/-- "Repeating the call adds nothing", for ANY number of repeated calls: `n + 1` calls leave the
    calendar that one call leaves. -/
theorem add_missing_repeat (knows : Str → Bool) (t : Comp) (n : Nat) :
    Nat.repeat (addMissing knows) (n + 1) t = addMissing knows t := by
  induction n with
  | zero => rfl
  | succ n ih =>
    show addMissing knows (Nat.repeat (addMissing knows) (n + 1) t) = addMissing knows t
    rw [ih, add_missing_idem]

/-- "Ids it does not know are still reported missing", after any number of calls (also none):
    the missing set after `n + 1` calls is the set of missing ids the provider does not know, and
    such an id is in it after every number of calls. -/
theorem unknown_stay_missing (knows : Str → Bool) (t : Comp) (n : Nat) :
    missingTzids (Nat.repeat (addMissing knows) (n + 1) t) = (missingTzids t).filter (fun k => !knows k) ∧
    ∀ k, k ∈ missingTzids t → knows k = false → ∀ m, k ∈ missingTzids (Nat.repeat (addMissing knows) m t) := by
  refine ⟨by rw [add_missing_repeat, add_missing_rest], ?_⟩
  intro k hk hkn m
  cases m with
  | zero => exact hk
  | succ m =>
    rw [add_missing_repeat, add_missing_rest, List.mem_filter]
    exact ⟨hk, by simp [hkn]⟩

/-- After any positive number of calls every used id the provider knows has a VTIMEZONE, and it
    has EXACTLY one if it had none before. -/
theorem add_missing_repeat_closes (knows : Str → Bool) (t : Comp) (n : Nat) (k : Str)
    (hu : k ∈ usedTzids t) (hk : knows k = true) :
    k ∈ tzNames (Nat.repeat (addMissing knows) (n + 1) t) ∧
    (k ∉ tzNames t → (tzNames (Nat.repeat (addMissing knows) (n + 1) t)).count k = 1) := by
  rw [add_missing_repeat]
  exact ⟨add_missing_known_defined knows t k hu hk, add_missing_exactly_one knows t k hu hk⟩

/-! ### non-vacuity -/

section examples

private def zoned (s z : String) : Val :=
  { kind := "vDDDTypes".toList, text := s.toList, params := [("TZID".toList, .one z.toList)] }
private def tzc (z : String) : Comp :=
  .mk VTIMEZONE [{ name := TZID, isList := false, vals := [{ kind := vTextKind, text := z.toList, params := [] }] }] []
private def ev : Comp :=
  .mk VEVENT [{ name := "DTSTART".toList, isList := false, vals := [zoned "20200101T120000" "Europe/Berlin"] },
              { name := "RDATE".toList, isList := true,
                vals := [{ kind := "vDDDLists".toList, text := "20200102T120000".toList,
                           params := [("TZID".toList, .one "Asia/Tokyo".toList)] },
                         { kind := "vDDDLists".toList, text := "20200103T120000".toList,
                           params := [("TZID".toList, .many ["X/Unknown".toList, "Europe/Berlin".toList])] }] }]
    [.mk "VALARM".toList [{ name := "TRIGGER".toList, isList := false, vals := [zoned "20200101T110000" "America/New_York"] }] []]
/-- a calendar with an unused, a repeated and a TZID-less VTIMEZONE -/
private def cal : Comp :=
  .mk "VCALENDAR".toList [] [tzc "Asia/Tokyo", tzc "Asia/Tokyo", tzc "Unused/Zone", .mk VTIMEZONE [] [], ev]
private def knows (k : Str) : Bool := k != "X/Unknown".toList

example : usedTzids cal = ["America/New_York", "Asia/Tokyo", "Europe/Berlin", "X/Unknown"].map String.toList := by decide
example : missingTzids cal = ["America/New_York", "Europe/Berlin", "X/Unknown"].map String.toList := by decide
example : tzNames (addMissing knows cal) =
    ["Asia/Tokyo", "Asia/Tokyo", "Unused/Zone", "America/New_York", "Europe/Berlin"].map String.toList := by decide
example : missingTzids (addMissing knows cal) = ["X/Unknown".toList] := by decide
example : missingTzids (Nat.repeat (addMissing knows) 3 cal) = ["X/Unknown".toList] := by decide
example : Bodies.tzDomainP cal = true := by decide
example : (Bodies.usedTzidsP cal).toOption.map sortStr = some (usedTzids cal) := by decide
example : (Bodies.addMissingP knows cal).toOption.map tzNames = some (tzNames (addMissing knows cal)) := by decide

end examples

end ICal.C18
