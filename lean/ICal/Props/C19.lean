import ICal.Lemmas.Recur
namespace ICal.C19
theorem types_known : Gen.recurTypes.all (fun p => p.2 ∈ [['v','I','n','t']]) = false := by decide
end ICal.C19
