/-
  C19 — recurrence rules: the encoded text is in the RECUR grammar with FREQ (after an optional RSCALE)
  first; decoding it yields every part with the same typed values in the order of the text and encodes
  again to the same text; any expander that is a function of the typed parts computes the same
  occurrences from the decoded rule as from the caller's rule.

  Property theorems only.  Model: ICal/Model/Recur.lean (`vRecur.__init__/to_ical/parse_type/from_ical`
  as written, over the part codecs of C03, the TEXT codec of C07, `CaselessDict`/`canonsort_keys` of C17
  and the generated tables `Gen.recurCanonicalOrder`, `Gen.recurTypes`).  Helper lemmas and the
  definitions used in the statements (`RecurDomain`, `ItemOk`, `partOk`, `encode`, `GrammarDomain`,
  `rfcValOk`): ICal/Lemmas/Recur.lean.

  A rule `r : Rule` is the state of the `vRecur` dictionary: insertion-ordered (key, value list).
  `recurCanon r` = the same parts in the order `to_ical` writes them (`sorted_items`), values
  unchanged (`canon_is_rearrangement`, `canon_values`, `canon_order`).  `normRule r` = what the part
  classes make of the caller's values: vFrequency and vWeekday upper-case their text, everything
  else is kept (`normRule r = r` for a caller that writes FREQ and weekdays in upper case).

  Domain (`RecurDomain`): the `CaselessDict` invariant (keys distinct, upper-cased), keys without `=`
  and `;`, value lists non-empty, every value in the domain of the class `vRecur.types` gives its key:
  any integer; any month number >= 0, leap or not; a weekday string the constructor accepts whose
  upper-case form is an RFC weekdaynum; one of the seven frequencies in any case; a valid date or a
  floating / UTC date-time; a vSkip member; for text-typed parts (RSCALE, unknown keys) a string
  without `,` `;` `=` that is already normalised.  The `_witness` theorems show that each of these
  clauses is needed: outside them the code does NOT round-trip (text with a comma is split into two
  values, with a semicolon it is truncated, with `=` the whole part disappears, an empty list turns
  into a ValueError or a list with one empty string).  None of these inputs is a rule "built from
  RFC 5545/7529 rule parts" (RSCALE values are iana-tokens), so they bound the theorem, they are not
  violations of the property.

  Occurrence clause: `recur_same_occurrences` holds for ANY expander that is a function of the typed
  parts (as a dictionary: insensitive to the order of the keys and to the letter case of FREQ /
  weekday texts).  The remaining assumption (DESIGN section 4) is that `dateutil.rrule.rrulestr` is
  such a function of the text; harness/props/C19.py compares `rrulestr(text)` with
  `rrule(**parts)` on every generated rule.
-/
import ICal.Lemmas.Recur
import ICal.Lemmas.BodiesRecur
namespace ICal.C19
open ICal.Recur ICal.CDict

/-! ## the generated tables are the ones the model understands -/

/-- every class named in `vRecur.types` is one of the six the model implements (vText is the default) -/
theorem types_known :
    Gen.recurTypes.all (fun p => p.2 ∈ [['v', 'I', 'n', 't'], ['v', 'M', 'o', 'n', 't', 'h'],
      ['v', 'W', 'e', 'e', 'k', 'd', 'a', 'y'], ['v', 'F', 'r', 'e', 'q', 'u', 'e', 'n', 'c', 'y'],
      ['v', 'D', 'D', 'D', 'T', 'y', 'p', 'e', 's'], ['v', 'S', 'k', 'i', 'p']]) = true := by decide

/-- the keys of `vRecur.types` are written upper-case in the source: `CaselessDict(...)` keeps them -/
theorem types_table_caseless : recurTypesTable = Gen.recurTypes := types_table

/-- `canonical_order` starts RSCALE, FREQ and names nothing twice -/
theorem order_starts_rscale_freq :
    Gen.recurCanonicalOrder.take 2 = [['R', 'S', 'C', 'A', 'L', 'E'], ['F', 'R', 'E', 'Q']] ∧
      Gen.recurCanonicalOrder.Nodup := ⟨by decide, order_nodup⟩

/-- the class of each RFC part is the one its value grammar needs -/
theorem types_of_rfc_parts :
    recurTypeOf "FREQ".toList = .freq ∧ recurTypeOf "UNTIL".toList = .ddd ∧ recurTypeOf "COUNT".toList = .int ∧
    recurTypeOf "INTERVAL".toList = .int ∧ recurTypeOf "BYSECOND".toList = .int ∧ recurTypeOf "BYMINUTE".toList = .int ∧
    recurTypeOf "BYHOUR".toList = .int ∧ recurTypeOf "BYDAY".toList = .weekday ∧ recurTypeOf "BYMONTHDAY".toList = .int ∧
    recurTypeOf "BYYEARDAY".toList = .int ∧ recurTypeOf "BYWEEKNO".toList = .int ∧ recurTypeOf "BYMONTH".toList = .month ∧
    recurTypeOf "BYSETPOS".toList = .int ∧ recurTypeOf "WKST".toList = .weekday ∧ recurTypeOf "SKIP".toList = .skip ∧
    recurTypeOf "RSCALE".toList = .text ∧ recurTypeOf "byday".toList = .weekday ∧ recurTypeOf "X-FOO".toList = .text := by
  decide

/-! ## `sorted_items`: the order of the text -/

/-- the parts are only rearranged -/
theorem canon_is_rearrangement (r : Rule) (h : Inv upper r) : (recurCanon r).Perm r := canon_perm h

/-- values unchanged -/
theorem canon_values (r : Rule) (h : Inv upper r) (k : Str) : odGet (recurCanon r) k = odGet r k := canon_get h k

/-- keys in canonical order: the names of `canonical_order` that occur, in that order, then the
    other names sorted by code point (`canonsort_spec` of C17) -/
theorem canon_order (r : Rule) (h : Inv upper r) :
    odKeys (recurCanon r) =
      Gen.recurCanonicalOrder.filter (fun k => decide (k ∈ odKeys r)) ++
      ((odKeys r).filter (fun k => decide (k ∉ Gen.recurCanonicalOrder))).mergeSort strLe := by
  show odKeys (cdSortedItems upper r Gen.recurCanonicalOrder) = _
  rw [keys_sortedItems _ h, canonsort_spec' _ _ h.1, dedupLast_of_nodup _ order_nodup]

/-! ## encode, decode -/

/-- `to_ical` succeeds on the domain and writes `KEY=v,v;KEY=v...` in canonical order -/
theorem recur_to_defined (r : Rule) (h : RecurDomain r) : recurTo r = .ok (encode r) := recurTo_eq h

/-- Round trip: decoding the encoded text yields every part, in the order of the text, with the
    typed values the caller supplied (as the part classes normalise them). -/
theorem recur_rt (r : Rule) (h : RecurDomain r) :
    (recurTo r).bind recurFrom = .ok (recurCanon (normRule r)) := by
  rw [recurTo_eq h]
  exact recurFrom_encode h

/-- for a caller that writes frequency and weekday texts in upper case the values are unchanged -/
theorem recur_rt_exact (r : Rule) (h : RecurDomain r) (hn : normRule r = r) :
    (recurTo r).bind recurFrom = .ok (recurCanon r) := by
  rw [recur_rt r h, hn]

/-- the part names of the decoded rule are the part names of the text, in the same order -/
theorem recur_decoded_order (r : Rule) (h : RecurDomain r) (hne : r ≠ []) :
    odKeys (recurCanon (normRule r)) = partNames (encode r) := by
  rw [partNames_encode h hne, canon_normRule]
  exact odKeys_mapVals (fun vs : List PartVal => vs.map normVal) (recurCanon r)

/-- Text fixpoint: the decoded rule encodes again to the same text. -/
theorem recur_text_fixpoint (r : Rule) (h : RecurDomain r) :
    ((recurTo r).bind recurFrom).bind recurTo = recurTo r := by
  rw [recur_rt r h]
  show recurTo (recurCanon (normRule r)) = recurTo r
  rw [recurTo_eq (domain_decoded h), recurTo_eq h, encode_decoded h]

/-- decoding is stable: decode (encode (decode (encode r))) = decode (encode r) -/
theorem recur_decode_stable (r : Rule) (h : RecurDomain r) :
    (((recurTo r).bind recurFrom).bind recurTo).bind recurFrom = (recurTo r).bind recurFrom := by
  rw [recur_text_fixpoint r h]

/-! ## FREQ first, RECUR grammar -/

/-- If the rule has a FREQ part, the first part of the text is `FREQ=...`, or the first is
    `RSCALE=...` and the second `FREQ=...` (from the generated order and `canonsort_spec`). -/
theorem recur_freq_first (r : Rule) (h : RecurDomain r) (hf : "FREQ".toList ∈ odKeys r) :
    recurTo r = .ok (encode r) ∧ freqFirstNames (partNames (encode r)) = true :=
  ⟨recurTo_eq h, freqFirst_encode h hf⟩

/-- The same fact on keys alone, for every dictionary with distinct keys (no domain condition). -/
theorem recur_freq_first_keys (keys : List Str) (hk : keys.Nodup) (hf : "FREQ".toList ∈ keys) :
    freqFirstNames (canonsort keys Gen.recurCanonicalOrder) = true :=
  freqFirst_canonsort keys hk hf

/-- Rules made of RFC 5545 / RFC 7529 parts with admissible values (FREQ present, UNTIL and COUNT not
    both, SKIP only with RSCALE) are written as a text of the RECUR grammar whose first part is FREQ
    (after an optional RSCALE). -/
theorem recur_grammar (r : Rule) (h : GrammarDomain r) :
    recurTo r = .ok (encode r) ∧ rfcRecur (encode r) = true ∧ rfcRecurFreqFirst (encode r) = true :=
  ⟨recurTo_eq h.1, freqFirst_imp_grammar _ (grammar_encode h), grammar_encode h⟩

/-- every typed value the RFC admits for a part is written in that part's value grammar -/
theorem recur_value_grammar (k : Str) (v : PartVal) (isList : Bool) (g : Str → Bool)
    (hs : rfcPartSpec k = some (isList, g)) (hv : rfcValOk k v = true) : g (valText v) = true :=
  val_grammar k v isList g hs hv

/-! ## occurrences -/

/-- Any function of the decoded rule gives the same result as on the sorted, normalised rule of the
    caller: the immediate corollary of `recur_rt`. -/
theorem recur_same_occurrences_canon {α : Type} (expand : Rule → α) (r : Rule) (h : RecurDomain r) :
    ((recurTo r).bind recurFrom).map expand = .ok (expand (recurCanon (normRule r))) := by
  rw [recur_rt r h]; rfl

/-- Same occurrences: for ANY expander that reads the rule as a dictionary of typed parts (the
    order of the keys does not matter) and reads FREQ / weekday texts caselessly, expanding the decoded
    rule gives what expanding the caller's rule gives. -/
theorem recur_same_occurrences {α : Type} (expand : Rule → α)
    (horder : ∀ a b : Rule, a.Perm b → expand a = expand b)
    (hcase : ∀ a : Rule, expand (normRule a) = expand a)
    (r : Rule) (h : RecurDomain r) :
    ((recurTo r).bind recurFrom).map expand = .ok (expand r) := by
  rw [recur_same_occurrences_canon expand r h]
  have hn : Inv upper (normRule r) := by
    have hk : odKeys (normRule r) = odKeys r := odKeys_mapVals (fun vs : List PartVal => vs.map normVal) r
    exact ⟨by rw [hk]; exact h.1.1, by rw [hk]; exact h.1.2⟩
  rw [horder _ _ (canon_perm hn), hcase]

/-! ## the boundary of the domain: what the code does outside it (by evaluation) -/

/-- a text-typed value with a comma: written `a\,b`, read back as the TWO values `a\` and `b` -/
theorem text_comma_witness :
    recurTo [("X-FOO".toList, [.text "a,b".toList])] = .ok "X-FOO=a\\,b".toList ∧
    recurFrom "X-FOO=a\\,b".toList = .ok [("X-FOO".toList, [.text "a\\".toList, .text "b".toList])] := by
  constructor
  · rw [recurTo_single _ _ (by decide)]; decide
  · decide

/-- with a semicolon: written `a\;b`, read back truncated to `a\` (the rest is a pair without `=`, skipped) -/
theorem text_semicolon_witness :
    recurTo [("X-FOO".toList, [.text "a;b".toList])] = .ok "X-FOO=a\\;b".toList ∧
    recurFrom "X-FOO=a\\;b".toList = .ok [("X-FOO".toList, [.text "a\\".toList])] := by
  constructor
  · rw [recurTo_single _ _ (by decide)]; decide
  · decide

/-- with `=`: the pair splits into three and the whole part is dropped -/
theorem text_equals_witness :
    recurTo [("X-FOO".toList, [.text "a=b".toList])] = .ok "X-FOO=a=b".toList ∧
    recurFrom "X-FOO=a=b".toList = .ok [] := by
  constructor
  · rw [recurTo_single _ _ (by decide)]; decide
  · decide

/-- CRLF inside a text value comes back as LF (the normalisation of C07) -/
theorem text_crlf_witness :
    recurTo [("X-FOO".toList, [.text "a\r\nb".toList])] = .ok "X-FOO=a\\nb".toList ∧
    recurFrom "X-FOO=a\\nb".toList = .ok [("X-FOO".toList, [.text "a\nb".toList])] := by
  constructor
  · rw [recurTo_single _ _ (by decide)]; decide
  · decide

/-- an empty value list: `BYDAY=` is refused on decoding, `RSCALE=` decodes to one empty string -/
theorem empty_list_witness :
    recurTo [("BYDAY".toList, [])] = .ok "BYDAY=".toList ∧ recurFrom "BYDAY=".toList = .error .valueError ∧
    recurTo [("RSCALE".toList, [])] = .ok "RSCALE=".toList ∧
    recurFrom "RSCALE=".toList = .ok [("RSCALE".toList, [.text []])] := by
  refine ⟨?_, by decide, ?_, by decide⟩
  · rw [recurTo_single _ _ (by decide)]; decide
  · rw [recurTo_single _ _ (by decide)]; decide

/-- the decoder is lenient: lower-case names and values, `+` signs, a trailing `;`, a part without
    `=` and a repeated key (the last value wins, at the first position) are all accepted -/
theorem lenient_decode_witness :
    recurFrom "freq=daily;count=+3;;byday=-1su;COUNT;FREQ=weekly;".toList =
      .ok [("FREQ".toList, [.freq "WEEKLY".toList]), ("COUNT".toList, [.int 3]),
           ("BYDAY".toList, [.weekday "-1SU".toList])] := by decide

/-! ## Non-vacuity: the hypotheses hold of rules with every kind of part -/

/-- ordinal weekdays with both signs, negative BYxxx values, leap months, UTC UNTIL, RSCALE/SKIP,
    given in non-canonical order -/
def ex1 : Rule :=
  [("BYDAY".toList, [.weekday "-1SU".toList, .weekday "+2TH".toList, .weekday "MO".toList, .weekday "53FR".toList]),
   ("SKIP".toList, [.skip "FORWARD".toList]),
   ("FREQ".toList, [.freq "YEARLY".toList]),
   ("BYMONTH".toList, [.month 5 true, .month 12 false]),
   ("UNTIL".toList, [.until (.atom (.dt ⟨⟨2030, 2, 28⟩, 23, 59, 59, true⟩))]),
   ("RSCALE".toList, [.text "CHINESE".toList]),
   ("BYMONTHDAY".toList, [.int (-1), .int 31]),
   ("BYYEARDAY".toList, [.int (-366), .int 1]),
   ("BYSETPOS".toList, [.int (-1)]),
   ("WKST".toList, [.weekday "SU".toList]),
   ("INTERVAL".toList, [.int 2])]

example : GrammarDomain ex1 := grammar_of_check (by decide)
example : RecurDomain ex1 := (grammar_of_check (by decide : grammarB ex1 = true)).1
example : normRule ex1 = ex1 := by decide

/-- the text the theorems speak about, computed -/
theorem ex1_text :
    encode ex1 = ("RSCALE=CHINESE;FREQ=YEARLY;UNTIL=20300228T235959Z;INTERVAL=2;BYDAY=-1SU,+2TH,MO,53FR;" ++
      "BYMONTHDAY=-1,31;BYYEARDAY=-366,1;BYMONTH=5L,12;BYSETPOS=-1;WKST=SU;SKIP=FORWARD").toList := by
  unfold encode
  rw [canon_known (domain_of_check (by decide : domainB ex1 = true)).1 (by decide)]
  decide +kernel

/-- UNTIL as a date, COUNT-free, caller writes lower case and scalars-as-one-element lists -/
def ex2 : Rule :=
  [("FREQ".toList, [.freq "weekly".toList]), ("UNTIL".toList, [.until (.atom (.date ⟨2024, 2, 29⟩))]),
   ("BYDAY".toList, [.weekday "mo".toList, .weekday "-2fr".toList]), ("BYSECOND".toList, [.int 60, .int 0]),
   ("BYWEEKNO".toList, [.int (-53)])]

example : GrammarDomain ex2 := grammar_of_check (by decide)
example : normRule ex2 ≠ ex2 := by decide
example : encode ex2 = "FREQ=WEEKLY;UNTIL=20240229;BYSECOND=60,0;BYDAY=MO,-2FR;BYWEEKNO=-53".toList := by
  unfold encode
  rw [canon_known (domain_of_check (by decide : domainB ex2 = true)).1 (by decide)]
  decide
example : recurFrom "FREQ=WEEKLY;UNTIL=20240229;BYSECOND=60,0;BYDAY=MO,-2FR;BYWEEKNO=-53".toList =
    .ok [("FREQ".toList, [.freq "WEEKLY".toList]), ("UNTIL".toList, [.until (.atom (.date ⟨2024, 2, 29⟩))]),
         ("BYSECOND".toList, [.int 60, .int 0]), ("BYDAY".toList, [.weekday "MO".toList, .weekday "-2FR".toList]),
         ("BYWEEKNO".toList, [.int (-53)])] := by decide

/-- floating UNTIL with COUNT-less rule and an unknown X- part: in the codec domain, not in the grammar -/
def ex3 : Rule :=
  [("X-CUSTOM".toList, [.text "abc".toList]), ("FREQ".toList, [.freq "DAILY".toList]),
   ("UNTIL".toList, [.until (.atom (.dt ⟨⟨1, 1, 1⟩, 0, 0, 0, false⟩))])]

example : RecurDomain ex3 := domain_of_check (by decide)
example : grammarB ex3 = false := by decide

-- the recogniser rejects what the RFC rejects
example : rfcRecur "COUNT=2".toList = false := by decide                                  -- FREQ missing
example : rfcRecur "FREQ=DAILY;COUNT=2;UNTIL=20200102".toList = false := by decide        -- COUNT and UNTIL
example : rfcRecur "FREQ=DAILY;FREQ=DAILY".toList = false := by decide                    -- twice
example : rfcRecur "FREQ=DAILY;BYSECOND=61".toList = false := by decide                   -- range
example : rfcRecur "FREQ=DAILY;BYMONTHDAY=0".toList = false := by decide
example : rfcRecur "FREQ=DAILY;BYHOUR=-1".toList = false := by decide                     -- no sign allowed
example : rfcRecur "FREQ=DAILY;BYDAY=54MO".toList = false := by decide
example : rfcRecur "FREQ=DAILY;WKST=1MO".toList = false := by decide
example : rfcRecur "FREQ=DAILY;SKIP=OMIT".toList = false := by decide                     -- SKIP without RSCALE
example : rfcRecur "FREQ=DAILY;".toList = false := by decide                              -- trailing ';'
example : rfcRecur "COUNT=2;FREQ=DAILY".toList = true ∧ rfcRecurFreqFirst "COUNT=2;FREQ=DAILY".toList = false := by
  decide                                                                                   -- grammar allows any order
example : rfcRecurFreqFirst "RSCALE=HEBREW;FREQ=YEARLY;BYMONTH=5L;SKIP=BACKWARD".toList = true := by decide

/-! ### `vRecur.parse_type` / `from_ical` / `to_ical` as regenerated (wave 6)

`Bodies.recurParseTypeP` / `recurFromP` / `recurToP` are the translated functions with the pieces of
ICal/Model/RecurPieces.lean. -/

/-- the part class is looked up by the key (caseless, default vText), every part of `values.split(',')` is decoded -/
theorem body_vRecur_parse_type (k v : Str) : Bodies.recurParseTypeP k v = Bodies.liftCR (parseType k v) :=
  Bodies.parse_type_eq k v

theorem body_vRecur_from_ical (t : Str) : Bodies.recurFromP t = Bodies.liftCR (recurFrom t) := Bodies.from_ical_eq t

theorem body_vRecur_to_ical (r : Rule) : Bodies.recurToP r = Bodies.liftCR (recurTo r) := Bodies.to_ical_eq_recur r

/-- a value that is no sequence is wrapped before it is encoded -/
theorem body_vRecur_to_ical_wraps (k : Str) (v : PartVal) (rest : List (Str × PyRT.PyOneMany PartVal)) :
    Bodies.recurToItemsP ((k, .one v) :: rest) = Bodies.recurToItemsP ((k, .many [v]) :: rest) :=
  Bodies.to_ical_wraps k v rest

end ICal.C19
