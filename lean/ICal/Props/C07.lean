/-
  C07 — TEXT escaping is lossless for every string: alone, as property value, in lists.
  Property theorems only; helper lemmas are in ICal/Lemmas/Text.lean.
  `escapeChar`, `unescapeChar`, `catsToIcal`, `catsFromIcal` are the models of
  escape_char / unescape_char / vCategory.to_ical / vCategory.from_ical built from the
  *generated* replace chain and decoder class (ICal.Gen, regenerated from /repo each run).
-/
import ICal.Lemmas.Text
import ICal.Lemmas.TextMore
import ICal.Props.C05
import ICal.Props.C06
import ICal.Lemmas.BodiesText
namespace ICal.C07

/-- The encoder is "normalise, then escape each character on its own". -/
theorem escape_tokens (s : Str) : escapeChar s = (norm s).flatMap escC := by
  rw [escapeChar_eq_lit, ICal.escape_tokens]

/-- Direct codec: decoding the encoding of any string gives the string after the documented
    normalisation (literal backslash-N -> LF, CRLF -> LF). Unbounded in `s`. -/
theorem text_roundtrip (s : Str) : vTextFromIcal (vTextToIcal s) = norm s := by
  unfold vTextFromIcal vTextToIcal
  rw [unescapeChar_eq_tok, escape_tokens, unesc_esc]

/-- The encoded form lies in the escaped-token language: tokens `\\ \; \, \n` and plain
    characters other than backslash, `;`, `,` and LF. -/
theorem escape_wellformed (s : Str) : wellEscaped (vTextToIcal s) = true := by
  unfold vTextToIcal; rw [escape_tokens]; exact wellEscaped_tokens _

/-- No raw line feed in the encoded form. -/
theorem escape_no_linebreak (s : Str) : LF ∉ vTextToIcal s := by
  unfold vTextToIcal; rw [escape_tokens]
  intro h
  rw [List.mem_flatMap] at h
  obtain ⟨c, _, hc⟩ := h
  unfold escC at hc
  split at hc
  · simp [BS, LF] at hc
  · split at hc
    · simp [BS, LF] at hc
    · split at hc
      · simp [BS, LF] at hc
      · split at hc
        · simp [BS, LF] at hc
        · simp at hc; next h => exact h hc.symm

/-- CATEGORIES: a non-empty list of arbitrary strings survives join-and-split item by item. -/
theorem categories_roundtrip (xs : List Str) (hne : xs ≠ []) :
    catsFromIcal (catsToIcal xs) = xs.map norm := by
  unfold catsFromIcal catsToIcal vTextToIcal
  have e : xs.map escapeChar = (xs.map norm).map (fun u => u.flatMap escC) := by
    simp [List.map_map, Function.comp_def, escape_tokens]
  rw [e, split_join_tokens _ (by simpa using hne), List.map_map]
  simp only [Function.comp_def, unescapeChar_eq_tok, unesc_esc]
  simp

/-- An item never leaks into its neighbours: the number of items is preserved. -/
theorem categories_arity (xs : List Str) (hne : xs ≠ []) :
    (catsFromIcal (catsToIcal xs)).length = xs.length := by
  rw [categories_roundtrip xs hne]; simp

/-- Property route: a TEXT value written as a property line (`Event.add(name, s)` then
    `to_ical`), folded, unfolded and read back through `raw_value()` and `vText.from_ical` - what
    `Component.from_ical` does for TEXT-typed properties - is `norm s`, for EVERY string `s` and
    every parameter map of the domain (no escape-hazard hypothesis: the raw value route does not
    pass through the placeholder pass). -/
theorem text_property_route (n : Str) (p : Params) (s : Str) (sorted : Bool)
    (hn : validToken n = true) (hp : ParamDomain p) :
    ∃ l, fromParts n p (vTextToIcal s) sorted = .ok l ∧ unfold (foldline l) = l ∧
      vTextFromIcal (rawValue l) = norm s := by
  obtain ⟨l, hl⟩ := C05.fromParts_succeeds n p (vTextToIcal s) sorted hn hp (escape_no_linebreak s)
  refine ⟨l, hl, ?_, ?_⟩
  · apply C06.unfold_fold
    -- the line was accepted by `mkLine`, hence holds no LF
    intro hlf
    have hm : ∀ t, mkLine t = .ok l → LF ∉ l := by
      intro t ht
      unfold mkLine at ht
      split at ht
      · cases ht
      · next hc =>
        injection ht with e; subst e
        intro hmem; apply hc; simpa using hmem
    unfold fromParts at hl
    split at hl <;> exact hm _ hl hlf
  · rw [C05.rawValue_fromParts n p (vTextToIcal s) sorted hn hp l hl]
    exact text_roundtrip s

/-! Non-vacuity: the statements apply to strings made of every critical character. -/
example : vTextFromIcal (vTextToIcal ['\\', 'n', ';', ',', ':', '"', '%', '2', 'C', '\r', '\n', '\\', 'N', ' ', 'a'])
    = ['\\', 'n', ';', ',', ':', '"', '%', '2', 'C', '\n', '\n', ' ', 'a'] := by decide
example : catsFromIcal (catsToIcal [['a', ',', 'b'], ['\\'], [], [';']]) = [['a', ',', 'b'], ['\\'], [], [';']] := by decide

/-! ## Clause pass (round 10) -/

/-- "No unescaped semicolon or comma", positionally: wherever a `;` or `,` stands in the encoded
    form of ANY string, the run of backslashes that ends just before it has odd length (so a reader
    that pairs backslashes from the left sees it as escaped). -/
theorem escape_delims_escaped (s pre post : Str) (c : Char)
    (h : vTextToIcal s = pre ++ c :: post) (hc : c = ';' ∨ c = ',') : bsRun pre % 2 = 1 := by
  have := wellEscaped_delim_par _ (escape_wellformed s) pre c post h hc
  rw [escPar_eq_odd] at this
  simpa using this

example : vTextToIcal ['a', '\\', ';', ','] = ['a', '\\', '\\', '\\', ';', '\\'] ++ ',' :: [] ∧
    bsRun ['a', '\\', '\\', '\\', ';', '\\'] = 1 ∧ bsRun ['a', '\\', '\\', '\\'] = 3 := by decide

/-- "No raw line break" is about LF (§5.3/2): the encoded form holds no LF, hence no CRLF pair;
    a bare CR is kept as it is (second component: it does occur). -/
theorem escape_no_crlf_bare_cr_kept :
    (∀ s, noPair CR LF (vTextToIcal s) = true) ∧ vTextToIcal [CR] = [CR] := by
  refine ⟨fun s => ?_, by decide⟩
  have h := escape_no_linebreak s
  generalize vTextToIcal s = t at h
  fun_induction noPair CR LF t with
  | case1 => rfl
  | case2 c => rfl
  | case3 c d cs ih =>
    have hd : d ≠ LF := fun e => h (by simp [e])
    have := ih (fun hm => h (List.mem_cons_of_mem _ hm))
    simp [hd, this]

/-- The encoder identifies exactly the strings with the same normal form: it is injective on
    normalised strings and loses nothing else. -/
theorem escape_injective_iff (s t : Str) : vTextToIcal s = vTextToIcal t ↔ norm s = norm t := by
  constructor
  · intro h
    have := congrArg vTextFromIcal h
    rwa [text_roundtrip, text_roundtrip] at this
  · intro h; unfold vTextToIcal; rw [escape_tokens, escape_tokens, h]

example : vTextToIcal ['\\', 'N', 'a'] = vTextToIcal ['\r', '\n', 'a'] ∧ norm ['\\', 'N', 'a'] = ['\n', 'a'] := by decide

/-- Is the documented normalisation a projection (is a decoded text a fixed point of the round
    trip)?  Full statement: -/
def norm_idem_full : Prop := ∀ s : Str, norm (norm s) = norm s

/-- It is, exactly when the normal form holds no CRLF pair and no backslash-N pair … -/
theorem norm_idem_partial (s : Str)
    (h1 : noPair BS 'N' (norm s) = true) (h2 : noPair CR LF (norm s) = true) :
    norm (norm s) = norm s := by
  show rep2 CR LF [LF] (rep2 BS 'N' [LF] (norm s)) = norm s
  rw [rep2_noPair _ _ _ _ h1, rep2_noPair _ _ _ _ h2]

example : noPair BS 'N' (norm ['\\', '\\', 'N', 'N', '\r', '\n']) = true ∧
    noPair CR LF (norm ['\\', '\\', 'N', 'N', '\r', '\n']) = true := by decide

/-- … and the code's normalisation is NOT a projection: `CR CR LF` normalises to `CR LF`, which
    normalises to `LF`. A value read back from a file changes again on the next write/read
    (replayed on the code: SUMMARY "\r\r\n" reads back as "\r\n", and after one more
    serialise/parse as "\n"). -/
theorem norm_idem_full_false : ¬ norm_idem_full := by
  intro h; exact absurd (h [CR, CR, LF]) (by decide)

theorem second_roundtrip_witness :
    vTextFromIcal (vTextToIcal [CR, CR, LF]) = [CR, LF] ∧
    vTextFromIcal (vTextToIcal (vTextFromIcal (vTextToIcal [CR, CR, LF]))) = [LF] := by decide

/-- CATEGORIES for EVERY list length: the full statement fails exactly at the empty list (the
    empty list is written as the empty text, which reads back as one empty item); all other lengths
    are `categories_roundtrip`, whose items may be empty or end in a backslash. -/
def categories_roundtrip_full : Prop := ∀ xs : List Str, catsFromIcal (catsToIcal xs) = xs.map norm

theorem categories_roundtrip_iff (xs : List Str) :
    catsFromIcal (catsToIcal xs) = xs.map norm ↔ xs ≠ [] := by
  constructor
  · rintro h rfl; exact absurd h (by decide)
  · exact categories_roundtrip xs

theorem categories_empty_witness : ¬ categories_roundtrip_full ∧ catsFromIcal (catsToIcal []) = [[]] :=
  ⟨fun h => absurd (h []) (by decide), by decide⟩

example : catsFromIcal (catsToIcal [[], ['a', '\\'], ['\\', '\\'], []]) = [[], ['a', '\\'], ['\\', '\\'], []] := by decide

/-! ## Regenerated function body = hand model

  `ICal.Gen.BodiesText.split_on_unescaped_comma` is written by tools/py2lean.py from the current
  source text on every run (a `for` loop with a string builder, a result list and the `escaped`
  flag); the theorem proves it equal to the model `splitUnescComma` that the theorems above are about. -/

theorem body_split_on_unescaped_comma (text : Str) :
    Gen.BodiesText.split_on_unescaped_comma text = splitUnescComma text :=
  Bodies.split_on_unescaped_comma_eq text

example : Gen.BodiesText.split_on_unescaped_comma "a\\,b,c\\".toList = ["a\\,b".toList, "c\\".toList] := by decide

end ICal.C07
