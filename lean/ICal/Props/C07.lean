/-
  C07 — TEXT escaping is lossless for every string: alone, as property value, in lists.
  Property theorems only; helper lemmas are in ICal/Lemmas/Text.lean.
  `escapeChar`, `unescapeChar`, `catsToIcal`, `catsFromIcal` are the models of
  escape_char / unescape_char / vCategory.to_ical / vCategory.from_ical built from the
  *generated* replace chain and decoder class (ICal.Gen, regenerated from /repo each run).
-/
import ICal.Lemmas.Text
import ICal.Props.C05
import ICal.Props.C06
import ICal.Lemmas.BodiesText
namespace ICal.C07

/-- The encoder is "normalise, then escape each character on its own". -/
theorem escape_tokens (s : Str) : escapeChar s = (norm s).flatMap escC := by
  rw [escapeChar_eq_lit, ICal.escape_tokens]

/-- Direct codec: decoding the encoding of any string gives the string after the documented
    normalisation (literal backslash-N -> LF, CRLF -> LF). Unbounded in `s`. -/
theorem text_roundtrip (s : Str) : vTextFromIcal (vTextToIcal s) = norm s := by
  unfold vTextFromIcal vTextToIcal
  rw [unescapeChar_eq_tok, escape_tokens, unesc_esc]

/-- The encoded form lies in the escaped-token language: tokens `\\ \; \, \n` and plain
    characters other than backslash, `;`, `,` and LF. -/
theorem escape_wellformed (s : Str) : wellEscaped (vTextToIcal s) = true := by
  unfold vTextToIcal; rw [escape_tokens]; exact wellEscaped_tokens _

/-- No raw line feed in the encoded form. -/
theorem escape_no_linebreak (s : Str) : LF ∉ vTextToIcal s := by
  unfold vTextToIcal; rw [escape_tokens]
  intro h
  rw [List.mem_flatMap] at h
  obtain ⟨c, _, hc⟩ := h
  unfold escC at hc
  split at hc
  · simp [BS, LF] at hc
  · split at hc
    · simp [BS, LF] at hc
    · split at hc
      · simp [BS, LF] at hc
      · split at hc
        · simp [BS, LF] at hc
        · simp at hc; next h => exact h hc.symm

/-- CATEGORIES: a non-empty list of arbitrary strings survives join-and-split item by item. -/
theorem categories_roundtrip (xs : List Str) (hne : xs ≠ []) :
    catsFromIcal (catsToIcal xs) = xs.map norm := by
  unfold catsFromIcal catsToIcal vTextToIcal
  have e : xs.map escapeChar = (xs.map norm).map (fun u => u.flatMap escC) := by
    simp [List.map_map, Function.comp_def, escape_tokens]
  rw [e, split_join_tokens _ (by simpa using hne), List.map_map]
  simp only [Function.comp_def, unescapeChar_eq_tok, unesc_esc]
  simp

/-- An item never leaks into its neighbours: the number of items is preserved. -/
theorem categories_arity (xs : List Str) (hne : xs ≠ []) :
    (catsFromIcal (catsToIcal xs)).length = xs.length := by
  rw [categories_roundtrip xs hne]; simp

/-- Property route: a TEXT value written as a property line (`Event.add(name, s)` then
    `to_ical`), folded, unfolded and read back through `raw_value()` and `vText.from_ical` - what
    `Component.from_ical` does for TEXT-typed properties - is `norm s`, for EVERY string `s` and
    every parameter map of the domain (no escape-hazard hypothesis: the raw value route does not
    pass through the placeholder pass). -/
theorem text_property_route (n : Str) (p : Params) (s : Str) (sorted : Bool)
    (hn : validToken n = true) (hp : ParamDomain p) :
    ∃ l, fromParts n p (vTextToIcal s) sorted = .ok l ∧ unfold (foldline l) = l ∧
      vTextFromIcal (rawValue l) = norm s := by
  obtain ⟨l, hl⟩ := C05.fromParts_succeeds n p (vTextToIcal s) sorted hn hp (escape_no_linebreak s)
  refine ⟨l, hl, ?_, ?_⟩
  · apply C06.unfold_fold
    -- the line was accepted by `mkLine`, hence holds no LF
    intro hlf
    have hm : ∀ t, mkLine t = .ok l → LF ∉ l := by
      intro t ht
      unfold mkLine at ht
      split at ht
      · cases ht
      · next hc =>
        injection ht with e; subst e
        intro hmem; apply hc; simpa using hmem
    unfold fromParts at hl
    split at hl <;> exact hm _ hl hlf
  · rw [C05.rawValue_fromParts n p (vTextToIcal s) sorted hn hp l hl]
    exact text_roundtrip s

/-! Non-vacuity: the statements apply to strings made of every critical character. -/
example : vTextFromIcal (vTextToIcal ['\\', 'n', ';', ',', ':', '"', '%', '2', 'C', '\r', '\n', '\\', 'N', ' ', 'a'])
    = ['\\', 'n', ';', ',', ':', '"', '%', '2', 'C', '\n', '\n', ' ', 'a'] := by decide
example : catsFromIcal (catsToIcal [['a', ',', 'b'], ['\\'], [], [';']]) = [['a', ',', 'b'], ['\\'], [], [';']] := by decide

/-! ## Regenerated function body = hand model

  `ICal.Gen.BodiesText.split_on_unescaped_comma` is written by tools/py2lean.py from the current
  source text on every run (a `for` loop with a string builder, a result list and the `escaped`
  flag); the theorem proves it equal to the model `splitUnescComma` that the theorems above are about. -/

theorem body_split_on_unescaped_comma (text : Str) :
    Gen.BodiesText.split_on_unescaped_comma text = splitUnescComma text :=
  Bodies.split_on_unescaped_comma_eq text

example : Gen.BodiesText.split_on_unescaped_comma "a\\,b,c\\".toList = ["a\\,b".toList, "c\\".toList] := by decide

end ICal.C07
