/-
  C11 — zoned date-times keep wall time, zone id and offset; UTC stays an instant.
  Property theorems only.  Model: ICal/Model/Zoned.lean; lemmas: ICal/Lemmas/Zoned.lean; the DATE-TIME text
  codec is C03's (`C03.datetime_rt` is what every read-back below rests on).

  The theorems hold for EVERY provider `P` (zoneinfo, pytz, anything else) that satisfies the explicit
  `ProviderLaws P ids`: for the ids it lists, asking for an id gives a zone with that id, ids need no
  cleaning and are not empty, the `localize_utc` zone is called UTC and has offset 0.  The laws are
  hypotheses, not axioms; they are facts about the tz database and are checked for every id of both
  providers by harness/props/C11.py.  "The offset the provider assigns to the wall time" is `P.off z w`:
  a value reads back as the same `(w, z)`, so its offset is `P.off z w` by construction (fold = 0).

  Recorded findings: (mixed-zone-list) a date list holds ONE TZID — the last zoned item's; the full statement
  is `list_roundtrip_full`, refuted at a concrete two-zone list by `mixed_zone_witness`.  (mixed-zone-period) a
  period is written under the TZID of its start: `period_roundtrip_full`, refuted by `mixed_period_witness`.
-/
import ICal.Lemmas.Zoned
import ICal.Lemmas.Civil
import ICal.Lemmas.BodiesDDDListsCodec
namespace ICal.C11
open ICal ICal.Zoned ICal.Codec

/-- a date-time as a property value -/
abbrev dtItem {Z : Type} (v : ZDT Z) : Item Z := .val (.dt v)

def RDATE : Str := ['R', 'D', 'A', 'T', 'E']
def DTSTART : Str := ['D', 'T', 'S', 'T', 'A', 'R', 'T']

/-- `TZP.timezone` under the laws: a listed id, written as it is or wrapped in one leading `/`,
    resolves to the provider's zone of that id. -/
theorem listed_id_resolves {Z : Type} (P : Provider Z) (ids : Str → Prop) (hl : ProviderLaws P ids)
    (k : Str) (hk : ids k) :
    ∃ z, P.key z = k ∧ tzpTimezone P k = some z ∧ tzpTimezone P ('/' :: k) = some z := by
  obtain ⟨z, hz, hkey, ht⟩ := tzpTimezone_ids hl k hk
  refine ⟨z, hkey, ht, tzpTimezone_clean P _ z ?_⟩
  have hc : cleanTzid ('/' :: k) = cleanTzid k := by simp [cleanTzid, List.dropWhile]
  rw [hc, hl.ids_clean k hk]
  exact hz

/-- Single value, the provider's own zone with a listed id other than UTC, in a property whose TZID the
    parser honours (DTSTART, DTEND, DUE, RECURRENCE-ID, RDATE, EXDATE, FREEBUSY): the line is
    `;TZID=<id>:` + the wall fields without `Z`, and it reads back as the same wall time in the same zone —
    hence with the same id and the offset `P.off z w` the provider assigns to that wall time.
    The same for `vDatetime` used directly (`dtToIcal` / `dtFromIcal`). -/
theorem zoned_roundtrip {Z : Type} (P : Provider Z) (ids : Str → Prop) (hl : ProviderLaws P ids)
    (uname : Str) (hu : passesTzid uname = true) (z : Z) (hown : Own P z) (hk : ids (P.key z))
    (hne : P.key z ≠ UTC) (w : Wall) (hw : w.valid = true) :
    dddLine P (dtItem ⟨w, some z⟩) = ⟨⟨none, some (P.key z)⟩, vDatetimeTo (w.toP false)⟩ ∧
    readDdd P uname (dddLine P (dtItem ⟨w, some z⟩)) = .ok (dtItem ⟨w, some z⟩) ∧
    dtToIcal P ⟨w, some z⟩ = (vDatetimeTo (w.toP false), some (P.key z)) ∧
    dtFromIcal P (dtToIcal P ⟨w, some z⟩).1 (dtToIcal P ⟨w, some z⟩).2 = .ok ⟨w, some z⟩ := by
  have htz : tzpTimezone P (P.key z) = some z :=
    tzpTimezone_clean P _ z (by rw [hl.ids_clean _ hk]; exact hown)
  have hline : dddLine P (dtItem ⟨w, some z⟩) = ⟨⟨none, some (P.key z)⟩, vDatetimeTo (w.toP false)⟩ := by
    simp [dddLine, itemParams, itemText, valText, dtText, dddTzid_zoned P w z hne, isUtc_zoned P w z hne]
  have hne' : P.key z ≠ [] := by
    obtain ⟨z', _, hk'⟩ := hl.ids_zone _ hk
    exact hl.ids_nonempty _ hk
  have hto : dtToIcal P ⟨w, some z⟩ = (vDatetimeTo (w.toP false), some (P.key z)) := by
    simp [dtToIcal, dtText, vdtTzid, tzidFromDt, hne, hne', isUtc_zoned P w z hne]
  refine ⟨hline, ?_, hto, ?_⟩
  · rw [hline]
    simp only [readDdd, readZone, hu, if_true, Option.bind, htz, dddFromZ]
    exact dddCoreZ_dtText P _ (some z) w false hw
  · rw [hto]
    simp only [dtFromIcal, Option.bind, htz]
    exact dtFrom_some P z w false hw

/-- A tzinfo object of ANOTHER library (pytz object under the zoneinfo provider, dateutil, ...) whose id is
    listed: same line; it reads back as the provider's zone of the same id, so the offset is the one the
    provider assigns (`P.off z' w`). -/
theorem foreign_zone_roundtrip {Z : Type} (P : Provider Z) (ids : Str → Prop) (hl : ProviderLaws P ids)
    (uname : Str) (hu : passesTzid uname = true) (z : Z) (hk : ids (P.key z))
    (hne : P.key z ≠ UTC) (w : Wall) (hw : w.valid = true) :
    dddLine P (dtItem ⟨w, some z⟩) = ⟨⟨none, some (P.key z)⟩, vDatetimeTo (w.toP false)⟩ ∧
    ∃ z', P.zone (P.key z) = some z' ∧ P.key z' = P.key z ∧
      readDdd P uname (dddLine P (dtItem ⟨w, some z⟩)) = .ok (dtItem ⟨w, some z'⟩) := by
  obtain ⟨z', hz', hkey, htz⟩ := tzpTimezone_ids hl _ hk
  have hline : dddLine P (dtItem ⟨w, some z⟩) = ⟨⟨none, some (P.key z)⟩, vDatetimeTo (w.toP false)⟩ := by
    simp [dddLine, itemParams, itemText, valText, dtText, dddTzid_zoned P w z hne, isUtc_zoned P w z hne]
  refine ⟨hline, z', hz', hkey, ?_⟩
  rw [hline]
  simp only [readDdd, readZone, hu, if_true, Option.bind, htz, dddFromZ]
  exact dddCoreZ_dtText P _ (some z') w false hw

/-- UTC (any tzinfo whose id is `UTC`): the wall fields with `Z`, no TZID; in any property it reads back
    as the same wall time in the provider's UTC zone, whose id is `UTC` and whose offset is 0. -/
theorem utc_roundtrip {Z : Type} (P : Provider Z) (ids : Str → Prop) (hl : ProviderLaws P ids)
    (uname : Str) (z : Z) (hz : P.key z = UTC) (w : Wall) (hw : w.valid = true) :
    dddLine P (dtItem ⟨w, some z⟩) = ⟨⟨none, none⟩, vDatetimeTo (w.toP false) ++ ['Z']⟩ ∧
    readDdd P uname (dddLine P (dtItem ⟨w, some z⟩)) = .ok (dtItem ⟨w, some P.utc⟩) ∧
    dtToIcal P ⟨w, some z⟩ = (vDatetimeTo (w.toP false) ++ ['Z'], none) ∧
    dtFromIcal P (dtToIcal P ⟨w, some z⟩).1 (dtToIcal P ⟨w, some z⟩).2 = .ok ⟨w, some P.utc⟩ ∧
    tzidFromDt P ⟨w, some P.utc⟩ = some UTC ∧ P.off P.utc w = 0 := by
  have hline : dddLine P (dtItem ⟨w, some z⟩) = ⟨⟨none, none⟩, vDatetimeTo (w.toP true)⟩ := by
    simp [dddLine, itemParams, itemText, valText, dtText, dddTzid_utc P w z hz, isUtc_utc P w z hz]
  have hto : dtToIcal P ⟨w, some z⟩ = (vDatetimeTo (w.toP true), none) := by
    simp [dtToIcal, dtText, vdtTzid, tzidFromDt, hz, isUtc_utc P w z hz]
  refine ⟨by rw [hline, dtText_Z w hw], ?_, by rw [hto, dtText_Z w hw], ?_, by simp [tzidFromDt, hl.utc_key],
    hl.utc_off w⟩
  · rw [hline]
    have hzone : readZone P uname ⟨⟨none, none⟩, vDatetimeTo (w.toP true)⟩ = none := by
      simp [readZone, Option.bind]
    simp only [readDdd, hzone, dddFromZ]
    exact dddCoreZ_dtText P _ none w true hw
  · rw [hto]
    simp only [dtFromIcal, Option.bind]
    exact dtFrom_none P w true hw

/-- A floating time: the wall fields, no `Z`, no TZID; reads back floating. -/
theorem floating_roundtrip {Z : Type} (P : Provider Z) (uname : Str) (w : Wall) (hw : w.valid = true) :
    dddLine P (dtItem (⟨w, none⟩ : ZDT Z)) = ⟨⟨none, none⟩, vDatetimeTo (w.toP false)⟩ ∧
    readDdd P uname (dddLine P (dtItem (⟨w, none⟩ : ZDT Z))) = .ok (dtItem ⟨w, none⟩) ∧
    dtFromIcal P (dtToIcal P (⟨w, none⟩ : ZDT Z)).1 (dtToIcal P (⟨w, none⟩ : ZDT Z)).2 = .ok ⟨w, none⟩ := by
  have hline : dddLine P (dtItem (⟨w, none⟩ : ZDT Z)) = ⟨⟨none, none⟩, vDatetimeTo (w.toP false)⟩ := by
    simp [dddLine, itemParams, itemText, valText, dtText, dddTzid, tzidFromDt, isUtc_floating]
  have hto : dtToIcal P (⟨w, none⟩ : ZDT Z) = (vDatetimeTo (w.toP false), none) := by
    simp [dtToIcal, dtText, vdtTzid, tzidFromDt, isUtc_floating]
  refine ⟨hline, ?_, ?_⟩
  · rw [hline]
    have hzone : readZone P uname ⟨⟨none, none⟩, vDatetimeTo (w.toP false)⟩ = none := by
      simp [readZone, Option.bind]
    simp only [readDdd, hzone, dddFromZ]
    exact dddCoreZ_dtText P _ none w false hw
  · rw [hto]
    simp only [dtFromIcal, Option.bind]
    exact dtFrom_none P w false hw

/-! ## date lists (RDATE, EXDATE) -/

/-- FULL statement (false on the code): every list of date-times in the provider's own listed non-UTC zones
    reads back item by item as written. -/
def list_roundtrip_full : Prop :=
  ∀ {Z : Type} (P : Provider Z) (ids : Str → Prop), ProviderLaws P ids →
    ∀ vs : List (ZDT Z), vs ≠ [] →
      (∀ v ∈ vs, v.wall.valid = true ∧ ∃ z, v.zone = some z ∧ Own P z ∧ ids (P.key z) ∧ P.key z ≠ UTC) →
      readList P RDATE (listLine P (vs.map dtItem)) = .ok (vs.map dtItem)

/-- A list whose items share ONE zone (the provider's own, listed, not UTC): one `TZID=<id>`, no VALUE,
    the wall fields joined by commas; every item reads back as the same wall time in that zone. -/
theorem list_roundtrip_partial {Z : Type} (P : Provider Z) (ids : Str → Prop) (hl : ProviderLaws P ids)
    (uname : Str) (hu : passesTzid uname = true) (z : Z) (hown : Own P z) (hk : ids (P.key z))
    (hne : P.key z ≠ UTC) (ws : List Wall) (hws : ws ≠ []) (hw : ∀ w ∈ ws, w.valid = true) :
    let items : List (Item Z) := ws.map fun w => dtItem ⟨w, some z⟩
    listLine P items = ⟨⟨none, some (P.key z)⟩, joinWith [','] (ws.map fun w => vDatetimeTo (w.toP false))⟩ ∧
    readList P uname (listLine P items) = .ok items := by
  intro items
  have htz : tzpTimezone P (P.key z) = some z :=
    tzpTimezone_clean P _ z (by rw [hl.ids_clean _ hk]; exact hown)
  have hne' : P.key z ≠ [] := hl.ids_nonempty _ hk
  have hitems : items = (ws.map fun w => (⟨w, some z⟩ : ZDT Z)).map fun v => .val (.dt v) := by
    simp [items, List.map_map, Function.comp]
  have hpar : listParams P items = ⟨none, some (P.key z)⟩ := by
    have h1 : ∀ p ∈ items.map (itemParams P), p.tzid = some (P.key z) := by
      intro p hp
      simp only [items, List.map_map, List.mem_map, Function.comp] at hp
      obtain ⟨w, _, rfl⟩ := hp
      simp [itemParams, dddTzid_zoned P w z hne]
    have h2 : ∀ p ∈ items.map (itemParams P), p.value = none := by
      intro p hp
      simp only [items, List.map_map, List.mem_map, Function.comp] at hp
      obtain ⟨w, _, rfl⟩ := hp
      simp [itemParams]
    have hne2 : items.map (itemParams P) ≠ [] := by simpa [items] using hws
    simp only [listParams, lastTzid_const _ (P.key z) none hne2 h1, uniformValue_const _ none hne2 h2,
      hne', if_false]
  have htext : listText P items = joinWith [','] (ws.map fun w => vDatetimeTo (w.toP false)) := by
    simp only [listText, items, List.map_map]
    congr 1
    apply List.map_congr_left
    intro w _
    simp [Function.comp, itemText, valText, dtText, isUtc_zoned P w z hne]
  refine ⟨by simp only [listLine, hpar, htext], ?_⟩
  have hzone : readZone P uname (listLine P items) = some z := by
    simp [readZone, hu, listLine, hpar, Option.bind, htz]
  simp only [readList, hzone]
  show listFromZ P (some z) (listText P items) = .ok items
  rw [hitems, listFromZ_dts P (some z) _ (by simpa using hws) (by
    intro v hv
    simp only [List.mem_map] at hv
    obtain ⟨w, hm, rfl⟩ := hv
    exact hw w hm)]
  simp [List.map_map, Function.comp, reread]

/-- A list of UTC and floating date-times (no item carries a TZID): no TZID parameter; every UTC item is
    written with `Z` and reads back in the provider's UTC zone, every floating item reads back floating. -/
theorem list_roundtrip_utc_floating {Z : Type} (P : Provider Z) (uname : Str) (vs : List (ZDT Z))
    (hvs : vs ≠ []) (hv : ∀ v ∈ vs, v.wall.valid = true)
    (hz : ∀ v ∈ vs, ∀ z, v.zone = some z → P.key z = UTC) :
    (listLine P (vs.map dtItem)).params = ⟨none, none⟩ ∧
    readList P uname (listLine P (vs.map dtItem)) =
      .ok (vs.map fun v => dtItem ⟨v.wall, v.zone.map fun _ => P.utc⟩) := by
  have hpar : listParams P (vs.map dtItem) = ⟨none, none⟩ := by
    have h1 : ∀ p ∈ (vs.map dtItem).map (itemParams P), p.tzid = none := by
      intro p hp
      simp only [List.map_map, List.mem_map, Function.comp] at hp
      obtain ⟨v, hm, rfl⟩ := hp
      obtain ⟨w, zo⟩ := v
      cases zo with
      | none => simp [itemParams, dddTzid, tzidFromDt]
      | some z => simp [itemParams, dddTzid_utc P w z (hz _ hm z rfl)]
    have h2 : ∀ p ∈ (vs.map dtItem).map (itemParams P), p.value = none := by
      intro p hp
      simp only [List.map_map, List.mem_map, Function.comp] at hp
      obtain ⟨v, _, rfl⟩ := hp
      simp [itemParams]
    have hne2 : (vs.map dtItem).map (itemParams P) ≠ [] := by simpa using hvs
    simp only [listParams, lastTzid_none _ h1, uniformValue_const _ none hne2 h2]
  refine ⟨by simp only [listLine, hpar], ?_⟩
  have hzone : readZone P uname (listLine P (vs.map dtItem)) = none := by
    simp [readZone, listLine, hpar, Option.bind]
  simp only [readList, hzone]
  show listFromZ P none (listText P (vs.map dtItem)) = _
  rw [listFromZ_dts P none vs hvs hv]
  congr 1
  apply List.map_congr_left
  intro v hm
  obtain ⟨w, zo⟩ := v
  cases zo with
  | none => simp [reread, isUtc_floating]
  | some z => simp [reread, isUtc_utc P w z (hz _ hm z rfl)]

/-! the recorded finding: one TZID per list, the last zoned item wins -/

def demoIds (k : Str) : Prop := k = Z3.berlin.name ∨ k = Z3.newYork.name ∨ k = UTC

theorem demo_laws : ProviderLaws demo demoIds where
  ids_zone k hk := by
    rcases hk with rfl | rfl | rfl
    · exact ⟨.berlin, by decide, by decide⟩
    · exact ⟨.newYork, by decide, by decide⟩
    · exact ⟨.utc, by decide, by decide⟩
  ids_clean k hk := by rcases hk with rfl | rfl | rfl <;> decide
  ids_nonempty k hk := by rcases hk with rfl | rfl | rfl <;> decide
  utc_key := by decide
  utc_off _ := rfl

def w10 : Wall := ⟨⟨2020, 1, 1⟩, 10, 0, 0⟩
def w11 : Wall := ⟨⟨2020, 1, 2⟩, 11, 30, 0⟩

/-- RDATE with 2020-01-01T10:00 Europe/Berlin and 2020-01-02T11:30 America/New_York is written as
    `RDATE;TZID=America/New_York:20200101T100000,20200102T113000`; the first item reads back as 10:00 in
    New York (−05:00 instead of +01:00: six hours off). -/
theorem mixed_zone_witness_values :
    listLine demo [dtItem ⟨w10, some .berlin⟩, dtItem ⟨w11, some .newYork⟩] =
      ⟨⟨none, some "America/New_York".toList⟩, "20200101T100000,20200102T113000".toList⟩ ∧
    readList demo RDATE (listLine demo [dtItem ⟨w10, some .berlin⟩, dtItem ⟨w11, some .newYork⟩]) =
      .ok [dtItem ⟨w10, some .newYork⟩, dtItem ⟨w11, some .newYork⟩] ∧
    instant demo ⟨w10, some .berlin⟩ ≠ instant demo ⟨w10, some .newYork⟩ := by decide

theorem mixed_zone_witness : ¬ list_roundtrip_full := by
  intro h
  have := h demo demoIds demo_laws [⟨w10, some .berlin⟩, ⟨w11, some .newYork⟩] (by simp) (by
    intro v hv
    simp only [List.mem_cons, List.not_mem_nil, or_false] at hv
    rcases hv with rfl | rfl
    · exact ⟨by decide, .berlin, rfl, by unfold Own; decide, Or.inl rfl, by decide⟩
    · exact ⟨by decide, .newYork, rfl, by unfold Own; decide, Or.inr (Or.inl rfl), by decide⟩)
  revert this
  decide

/-- The same finding reaches UTC and floating items: in a list with one zoned item a UTC item keeps
    its `Z` in the text (`RDATE;TZID=Europe/Berlin:20200101T100000Z,20200102T113000`) but is read in the
    list's zone — 10:00 Berlin instead of 10:00 UTC, another instant — and a floating item comes back
    zoned. So `list_roundtrip_partial` (one zone for all items) and `list_roundtrip_utc_floating` (no
    zoned item) cannot be merged: every mixture of the two kinds is outside the property. -/
theorem mixed_utc_zoned_witness :
    listLine demo [dtItem ⟨w10, some .utc⟩, dtItem ⟨w11, some .berlin⟩] =
      ⟨⟨none, some "Europe/Berlin".toList⟩, "20200101T100000Z,20200102T113000".toList⟩ ∧
    readList demo RDATE (listLine demo [dtItem ⟨w10, some .utc⟩, dtItem ⟨w11, some .berlin⟩]) =
      .ok [dtItem ⟨w10, some .berlin⟩, dtItem ⟨w11, some .berlin⟩] ∧
    instant demo ⟨w10, some .utc⟩ ≠ instant demo ⟨w10, some .berlin⟩ ∧
    readList demo RDATE (listLine demo [dtItem ⟨w10, none⟩, dtItem ⟨w11, some .berlin⟩]) =
      .ok [dtItem ⟨w10, some .berlin⟩, dtItem ⟨w11, some .berlin⟩] := by decide

/-- "The same UTC offset the provider assigns to that wall time", spelled out: the value a zoned
    single property reads back as has the zone id it was written with, and its instant is the wall
    time minus `P.off z w` — the provider's own offset for that wall time in that zone; the same for
    every item of a one-zone list. -/
theorem zoned_roundtrip_offset {Z : Type} (P : Provider Z) (ids : Str → Prop) (hl : ProviderLaws P ids)
    (uname : Str) (hu : passesTzid uname = true) (z : Z) (hown : Own P z) (hk : ids (P.key z))
    (hne : P.key z ≠ UTC) (w : Wall) (hw : w.valid = true) :
    ∃ v : ZDT Z, readDdd P uname (dddLine P (dtItem ⟨w, some z⟩)) = .ok (dtItem v) ∧ v.wall = w ∧
      tzidFromDt P v = some (P.key z) ∧ instant P v = some (toSec w - P.off z w) ∧
      readList P uname (listLine P [dtItem ⟨w, some z⟩]) = .ok [dtItem v] := by
  refine ⟨⟨w, some z⟩, (zoned_roundtrip P ids hl uname hu z hown hk hne w hw).2.1, rfl, rfl, rfl, ?_⟩
  have := (list_roundtrip_partial P ids hl uname hu z hown hk hne [w] (by simp) (by simpa using hw)).2
  simpa using this

example : instant demo ⟨w10, some .berlin⟩ = some (toSec w10 - 3600) := by decide

/-! ## periods (FREEBUSY, RDATE;VALUE=PERIOD) -/

/-- the period `(start in zone z, e)` -/
abbrev perItem {Z : Type} (w : Wall) (z : Z) (e : Val Z) : Item Z := .period (.dt ⟨w, some z⟩) e

/-- the end of a period as it reads back without TZID: a UTC date-time in the provider's UTC zone -/
def endUtc {Z : Type} (P : Provider Z) : Val Z → Val Z
  | .dt v => .dt ⟨v.wall, some P.utc⟩
  | x => x

/-- the end of a period in the zone of its start, or a duration -/
def endIn {Z : Type} (z : Z) : Val Z → Prop
  | .dt v => v.wall.valid = true ∧ v.zone = some z
  | .dur s => 0 ≤ s
  | _ => False

/-- A period whose start is in the provider's own listed non-UTC zone (explicit end in the same zone, or a
    duration): `TZID=<id of the start>;VALUE=PERIOD`, start and end written with their wall fields; start and
    explicit end read back as the same wall times in that zone, a duration as itself — through FREEBUSY
    (`vPeriod`) and as the item of an RDATE list (`vDDDTypes`). -/
theorem period_roundtrip {Z : Type} (P : Provider Z) (ids : Str → Prop) (hl : ProviderLaws P ids)
    (z : Z) (hown : Own P z) (hk : ids (P.key z)) (hne : P.key z ≠ UTC)
    (w : Wall) (hw : w.valid = true) (e : Val Z) (he : endIn z e) :
    (periodLine P (perItem w z e)).params = ⟨some sPERIOD, some (P.key z)⟩ ∧
    (periodLine P (perItem w z e)).text = vDatetimeTo (w.toP false) ++ '/' :: valText P e ∧
    readFreebusy P (periodLine P (perItem w z e)) = .ok [perItem w z e] ∧
    (listLine P [perItem w z e]).params = ⟨some sPERIOD, some (P.key z)⟩ ∧
    readList P RDATE (listLine P [perItem w z e]) = .ok [perItem w z e] := by
  generalize hit : perItem w z e = it
  have htz : tzpTimezone P (P.key z) = some z :=
    tzpTimezone_clean P _ z (by rw [hl.ids_clean _ hk]; exact hown)
  have hne' : P.key z ≠ [] := hl.ids_nonempty _ hk
  have heok : endOk e := by
    cases e with
    | dt v => exact he.1
    | dur s => trivial
    | date d => exact he.elim
    | time t => exact he.elim
  have hkind : periodKindOk it = true := by
    rw [← hit]
    cases e with
    | dt v => simp only [endIn] at he; simp [periodKindOk, he.2]
    | dur s => simp only [endIn] at he; simp [periodKindOk, he]
    | date d => exact he.elim
    | time t => exact he.elim
  have hback : rereadVal P (some z) e = e := by
    cases e with
    | dt v => obtain ⟨wv, zv⟩ := v; simp only [endIn] at he; simp [rereadVal, reread, he.2]
    | dur s => rfl
    | date d => exact he.elim
    | time t => exact he.elim
  have hpp : periodParams P it = ⟨some sPERIOD, some (P.key z)⟩ := by
    simp [← hit, periodParams, vdtTzid, tzidFromDt, hne, hne']
  have hlp : listParams P [it] = ⟨some sPERIOD, some (P.key z)⟩ := by
    simp [← hit, listParams, itemParams, dddTzid_zoned P w z hne, lastTzid, uniformValue, hne']
  have htext : itemText P it = vDatetimeTo (w.toP false) ++ '/' :: valText P e := by
    rw [← hit, itemText_period]; simp [isUtc_zoned P w z hne]
  have hnc : ',' ∉ itemText P it := by rw [← hit]; exact nocomma_period P ⟨w, some z⟩ e hw heok
  have hper : periodFromZ P (some z) (itemText P it) = .ok it := by
    rw [← hit, periodFromZ_text P (some z) ⟨w, some z⟩ e hw heok, hback]; simp [reread]
  have hddd : dddFromZ P (some z) (itemText P it) = .ok it := by
    rw [← hit, dddFromZ_period P (some z) ⟨w, some z⟩ e hw heok, hback]; simp [reread]
  refine ⟨by simp only [periodLine, hpp], by simp only [periodLine, htext], ?_, by simp only [listLine, hlp], ?_⟩
  · have hzone : readZone P sFREEBUSY (periodLine P it) = some z := by
      simp [readZone, passesTzid, periodLine, hpp, Option.bind, htz]
    unfold readFreebusy
    rw [hzone]
    simp only [periodLine]
    rw [splitOnChar_nosep ',' _ hnc]
    simp only [mapE, hper, hkind, if_true]
  · have hzone : readZone P RDATE (listLine P [it]) = some z := by
      have : passesTzid RDATE = true := by decide
      simp [readZone, this, listLine, hlp, Option.bind, htz]
    unfold readList
    rw [hzone]
    simp only [listLine, listFromZ, listText, List.map, joinWith]
    rw [splitOnChar_nosep ',' _ hnc]
    simp only [mapE, hddd]

/-- FULL statement (false on the code): a period whose explicit end is in ANOTHER listed zone than its start
    reads back with both date-times as written. -/
def period_roundtrip_full : Prop :=
  ∀ {Z : Type} (P : Provider Z) (ids : Str → Prop), ProviderLaws P ids →
    ∀ (z z2 : Z) (w w2 : Wall), Own P z → Own P z2 → ids (P.key z) → ids (P.key z2) → P.key z ≠ UTC →
      P.key z2 ≠ UTC → w.valid = true → w2.valid = true →
      readFreebusy P (periodLine P (perItem w z (.dt ⟨w2, some z2⟩))) = .ok [perItem w z (.dt ⟨w2, some z2⟩)]

/-- Recorded finding (mixed-zone-period): 10:00 Europe/Berlin to 10:00 America/New_York (six hours) is written
    `FREEBUSY;TZID=Europe/Berlin;VALUE=PERIOD:20200101T100000/20200101T100000` — the end keeps its own wall
    fields under the start's TZID — and reads back as the empty period 10:00 to 10:00 Berlin. -/
theorem mixed_period_witness : ¬ period_roundtrip_full := by
  intro h
  have := h demo demoIds demo_laws .berlin .newYork w10 w10 (by unfold Own; decide) (by unfold Own; decide)
    (Or.inl rfl) (Or.inr (Or.inl rfl)) (by decide) (by decide) (by decide) (by decide)
  revert this
  decide

/-- A period that starts in UTC (end in UTC or a duration): `Z` on both date-times, VALUE=PERIOD and no
    TZID (no `TZID=UTC`); it reads back in the provider's UTC zone. -/
theorem period_roundtrip_utc {Z : Type} (P : Provider Z) (z : Z) (hz : P.key z = UTC)
    (w : Wall) (hw : w.valid = true) (e : Val Z) (he : endIn z e) :
    (periodLine P (perItem w z e)).params = ⟨some sPERIOD, none⟩ ∧
    readFreebusy P (periodLine P (perItem w z e)) = .ok [perItem w P.utc (endUtc P e)] := by
  generalize hit : perItem w z e = it
  have heok : endOk e := by
    cases e with
    | dt v => exact he.1
    | dur s => trivial
    | date d => exact he.elim
    | time t => exact he.elim
  have hpp : periodParams P it = ⟨some sPERIOD, none⟩ := by
    simp [← hit, periodParams, vdtTzid, tzidFromDt, hz]
  have hnc : ',' ∉ itemText P it := by rw [← hit]; exact nocomma_period P ⟨w, some z⟩ e hw heok
  have hper : periodFromZ P none (itemText P it) = .ok (perItem w P.utc (endUtc P e)) := by
    rw [← hit, periodFromZ_text P none ⟨w, some z⟩ e hw heok]
    cases e with
    | dt v =>
      obtain ⟨wv, zv⟩ := v
      simp only [endIn] at he
      simp [reread, rereadVal, endUtc, isUtc_utc P w z hz, he.2, isUtc_utc P wv z hz]
    | dur s => simp [reread, rereadVal, endUtc, isUtc_utc P w z hz]
    | date d => exact he.elim
    | time t => exact he.elim
  have hkind : periodKindOk (perItem w P.utc (endUtc P e)) = true := by
    cases e with
    | dt v => simp [periodKindOk, endUtc]
    | dur s => simp only [endIn] at he; simp [periodKindOk, endUtc, he]
    | date d => exact he.elim
    | time t => exact he.elim
  refine ⟨by simp only [periodLine, hpp], ?_⟩
  have hzone : readZone P sFREEBUSY (periodLine P it) = none := by
    simp [readZone, periodLine, hpp, Option.bind]
  unfold readFreebusy
  rw [hzone]
  simp only [periodLine]
  rw [splitOnChar_nosep ',' _ hnc]
  simp only [mapE, hper, hkind, if_true]

/-! ## DTSTAMP, CREATED, LAST-MODIFIED (`Component.add`) and the UTC property setters -/

/-- `Component.add` with a name of the generated tuple `Gen.addUtcNames` — DTSTAMP, CREATED, LAST-MODIFIED and
    (since the fix of finding acknowledged-add-not-utc) ACKNOWLEDGED, in any letter case — and an aware value,
    and the setters made by `create_utc_property` (DTSTAMP, LAST_MODIFIED, ACKNOWLEDGED, X_MOZ_*): the stored
    value is in the provider's UTC zone at the same instant, wall' = wall − offset (whenever that is a
    `datetime`, i.e. `localizeUtc` answers); the line is the `Z` form of wall' without TZID, and reads back
    as (wall', UTC) — the same instant.
    (`localizeUtc` re-checks the day-count formula on its own answer, so this needs no trust in the formula.
    That it answers for every instant of the years 1..9999, and for no other, is `instant_conversion_total` /
    `instant_conversion_exact` below; the correspondence run in addition compares the day count with CPython
    for every day 1899-2101 and a stride over 0001-9999.) -/
theorem utc_props_instant {Z : Type} (P : Provider Z) (ids : Str → Prop) (hl : ProviderLaws P ids)
    (name : Str) (hn : forcedUtcName name = true) (z : Z) (w : Wall) (v : ZDT Z)
    (hv : localizeUtc P ⟨w, some z⟩ = some v) :
    addValue P name ⟨w, some z⟩ = some v ∧ setUtcProperty P ⟨w, some z⟩ = some v ∧
    v.zone = some P.utc ∧ toSec v.wall = toSec w - P.off z w ∧
    instant P v = instant P ⟨w, some z⟩ ∧
    addLine P name ⟨w, some z⟩ = some ⟨⟨none, none⟩, vDatetimeTo (v.wall.toP false) ++ ['Z']⟩ ∧
    readDdd P (upper name) ⟨⟨none, none⟩, vDatetimeTo (v.wall.toP false) ++ ['Z']⟩ = .ok (dtItem v) := by
  obtain ⟨hzone, hsec, hvalid⟩ := localizeUtc_aware P w z v hv
  obtain ⟨vw, vz⟩ := v
  simp only [] at hzone hsec hvalid
  subst hzone
  have hadd : addValue P name ⟨w, some z⟩ = some ⟨vw, some P.utc⟩ := by simp [addValue, hn, hv]
  have hr := utc_roundtrip P ids hl (upper name) P.utc hl.utc_key vw hvalid
  refine ⟨hadd, hv, rfl, hsec, ?_, ?_, ?_⟩
  · simp [instant, hsec, hl.utc_off]
  · simp only [addLine, hadd, Option.map, hr.1]
  · have := hr.2.1
    rw [hr.1] at this
    exact this

/-- A naive value in those properties is declared UTC: same wall fields, written with `Z`. -/
theorem utc_props_naive {Z : Type} (P : Provider Z) (ids : Str → Prop) (hl : ProviderLaws P ids)
    (name : Str) (hn : forcedUtcName name = true) (w : Wall) (hw : w.valid = true) :
    addValue P name (⟨w, none⟩ : ZDT Z) = some ⟨w, some P.utc⟩ ∧
    setUtcProperty P (⟨w, none⟩ : ZDT Z) = some ⟨w, some P.utc⟩ ∧
    addLine P name (⟨w, none⟩ : ZDT Z) = some ⟨⟨none, none⟩, vDatetimeTo (w.toP false) ++ ['Z']⟩ := by
  have hadd : addValue P name (⟨w, none⟩ : ZDT Z) = some ⟨w, some P.utc⟩ := by
    simp [addValue, hn, localizeUtc]
  have hr := utc_roundtrip P ids hl name P.utc hl.utc_key w hw
  exact ⟨hadd, by simp [setUtcProperty, localizeUtc], by simp only [addLine, hadd, Option.map, hr.1]⟩

/-- Every other name keeps the value as given (DTSTART, DTEND, TRIGGER, COMPLETED, ...). -/
theorem other_names_unchanged {Z : Type} (P : Provider Z) (name : Str) (hn : forcedUtcName name = false)
    (v : ZDT Z) : addValue P name v = some v := by
  simp [addValue, hn]

/-! ## the conversion to UTC always answers inside `datetime.min .. datetime.max` -/

/-- `datetime.min` and `datetime.max` (to the second) -/
def wallMin : Wall := ⟨⟨1, 1, 1⟩, 0, 0, 0⟩
def wallMax : Wall := ⟨⟨9999, 12, 31⟩, 23, 59, 59⟩

/-- TOTALITY of the UTC conversion.  `Component.add` with a forced-UTC name (DTSTAMP, CREATED, LAST-MODIFIED,
    ACKNOWLEDGED) and the `create_utc_property` setters, on an aware value `(w, z)` whose instant
    `wall − offset` lies from 0001-01-01T00:00:00 to 9999-12-31T23:59:59 (the `datetime` range of CPython):
    `localizeUtc` ANSWERS — there is a stored value `v`; it is a valid `datetime` in the provider's UTC zone at
    the same instant, and the line is its `Z` form without TZID, which reads back as `v`.
    No assumption on the wall time itself is needed (a valid one is the case of interest: `hw` would be unused),
    none on the offset beyond the range of the shifted instant.  Rests on `Zoned.ofSec_total`
    (Lemmas/Civil.lean): the closed day-count formulas `ofDays` / `toDays` are inverse on every day number and
    `ofDays` yields a valid date on every day of the years 1..9999 — proved, no longer tied by correspondence. -/
theorem instant_conversion_total {Z : Type} (P : Provider Z) (ids : Str → Prop) (hl : ProviderLaws P ids)
    (name : Str) (hn : forcedUtcName name = true) (z : Z) (w : Wall)
    (h1 : toSec wallMin ≤ toSec w - P.off z w) (h2 : toSec w - P.off z w ≤ toSec wallMax) :
    ∃ v : ZDT Z, localizeUtc P ⟨w, some z⟩ = some v ∧ addValue P name ⟨w, some z⟩ = some v ∧
      setUtcProperty P ⟨w, some z⟩ = some v ∧
      v.zone = some P.utc ∧ v.wall.valid = true ∧ toSec v.wall = toSec w - P.off z w ∧
      instant P v = instant P ⟨w, some z⟩ ∧
      addLine P name ⟨w, some z⟩ = some ⟨⟨none, none⟩, vDatetimeTo (v.wall.toP false) ++ ['Z']⟩ ∧
      readDdd P (upper name) ⟨⟨none, none⟩, vDatetimeTo (v.wall.toP false) ++ ['Z']⟩ = .ok (dtItem v) := by
  have hmin : toSec wallMin = (toDays 1 1 1 * 86400 : Int) := by decide
  have hmax : toSec wallMax + 1 = (toDays 10000 1 1 * 86400 : Int) := by decide
  obtain ⟨w', hw'⟩ := ofSec_total (toSec w - P.off z w) (by omega) (by omega)
  have hv : localizeUtc P ⟨w, some z⟩ = some ⟨w', some P.utc⟩ := by
    simp only [localizeUtc, hw']
  obtain ⟨a1, a2, a3, a4, a5, a6, a7⟩ := utc_props_instant P ids hl name hn z w _ hv
  exact ⟨_, hv, a1, a2, a3, (ofSec_spec _ _ hw').2, a4, a5, a6, a7⟩

/-- ... and it answers ONLY there: for an aware value, `localize_utc` (hence `Component.add` with a forced-UTC
    name) yields a value exactly when the shifted instant lies in `datetime.min .. datetime.max`; outside,
    CPython raises OverflowError and the model answers `none`. -/
theorem instant_conversion_exact {Z : Type} (P : Provider Z) (name : Str) (hn : forcedUtcName name = true)
    (z : Z) (w : Wall) :
    ((∃ v, localizeUtc P ⟨w, some z⟩ = some v) ↔
      toSec wallMin ≤ toSec w - P.off z w ∧ toSec w - P.off z w ≤ toSec wallMax) ∧
    ((∃ ln, addLine P name ⟨w, some z⟩ = some ln) ↔ ∃ v, localizeUtc P ⟨w, some z⟩ = some v) := by
  have hmin : toSec wallMin = (toDays 1 1 1 * 86400 : Int) := by decide
  have hmax : toSec wallMax + 1 = (toDays 10000 1 1 * 86400 : Int) := by decide
  have hiff := ofSec_isSome_iff (toSec w - P.off z w)
  constructor
  · constructor
    · rintro ⟨v, hv⟩
      have : ∃ w', ofSec (toSec w - P.off z w) = some w' := by
        simp only [localizeUtc] at hv
        cases ho : ofSec (toSec w - P.off z w) with
        | none => rw [ho] at hv; cases hv
        | some w' => exact ⟨w', rfl⟩
      have := hiff.1 this
      omega
    · intro ⟨h1, h2⟩
      obtain ⟨w', hw'⟩ := hiff.2 ⟨by omega, by omega⟩
      exact ⟨⟨w', some P.utc⟩, by simp only [localizeUtc, hw']⟩
  · simp only [addLine, addValue, hn, if_true]
    cases localizeUtc P ⟨w, some z⟩ with
    | none => simp
    | some v => simp

/-! ## non-vacuity: the hypotheses are satisfiable, the branches are inhabited -/

example : ProviderLaws demo demoIds := demo_laws
example : Own demo .berlin ∧ demoIds (demo.key .berlin) ∧ demo.key .berlin ≠ UTC ∧ w10.valid = true := by
  refine ⟨by unfold Own; decide, Or.inl rfl, by decide, by decide⟩
example : passesTzid DTSTART = true ∧ passesTzid RDATE = true ∧ passesTzid sFREEBUSY = true ∧
    passesTzid "TRIGGER".toList = false ∧ passesTzid "ACKNOWLEDGED".toList = false := by decide
example : forcedUtcName "DTSTAMP".toList = true ∧ forcedUtcName "created".toList = true ∧
    forcedUtcName "Last-Modified".toList = true ∧ forcedUtcName "ACKNOWLEDGED".toList = true ∧
    forcedUtcName DTSTART = false ∧ forcedUtcName "COMPLETED".toList = false := by decide
-- the old witness of acknowledged-add-not-utc: add('acknowledged', 10:00 Berlin) is now written 09:00Z
example : addLine demo "acknowledged".toList ⟨w10, some .berlin⟩ = some ⟨⟨none, none⟩, "20200101T090000Z".toList⟩ := by
  decide
-- DTSTART;TZID=Europe/Berlin:20200101T100000
example : dddLine demo (dtItem ⟨w10, some .berlin⟩) =
    ⟨⟨none, some "Europe/Berlin".toList⟩, "20200101T100000".toList⟩ := by decide
example : readDdd demo DTSTART (dddLine demo (dtItem ⟨w10, some .berlin⟩)) = .ok (dtItem ⟨w10, some .berlin⟩) := by
  decide
-- a TZID the parser does not honour (TRIGGER): the value comes back floating (finding absolute-trigger-loses-zone)
example : readDdd demo "TRIGGER".toList (dddLine demo (dtItem ⟨w10, some .berlin⟩)) = .ok (dtItem ⟨w10, none⟩) := by
  decide
-- ids that need cleaning, Windows names
example : tzpTimezone demo "/Europe/Berlin".toList = some .berlin ∧
    tzpTimezone demo "W. Europe Standard Time".toList = some .berlin ∧
    tzpTimezone demo "Europe/Nowhere".toList = none := by decide
-- an unknown TZID: `Z` still gives UTC, otherwise floating
example : dtFromIcal demo "20200101T100000Z".toList (some "Europe/Nowhere".toList) = .ok ⟨w10, some .utc⟩ ∧
    dtFromIcal demo "20200101T100000".toList (some "Europe/Nowhere".toList) = .ok ⟨w10, none⟩ ∧
    dtFromIcal demo "20200101T100000Z".toList (some "Europe/Berlin".toList) = .ok ⟨w10, some .berlin⟩ := by decide
-- DTSTAMP 10:00 Berlin is written 09:00Z; CREATED 10:00 New York is written 15:00Z
example : addLine demo "dtstamp".toList ⟨w10, some .berlin⟩ = some ⟨⟨none, none⟩, "20200101T090000Z".toList⟩ ∧
    addLine demo "CREATED".toList ⟨w10, some .newYork⟩ = some ⟨⟨none, none⟩, "20200101T150000Z".toList⟩ := by decide
example : localizeUtc demo ⟨⟨⟨2020, 1, 1⟩, 0, 30, 0⟩, some .berlin⟩ = some ⟨⟨⟨2019, 12, 31⟩, 23, 30, 0⟩, some .utc⟩ := by
  decide
-- before 0001-01-01T00:00Z there is no `datetime` (CPython: OverflowError): `localizeUtc` does not answer
example : localizeUtc demo ⟨⟨⟨1, 1, 1⟩, 0, 30, 0⟩, some .berlin⟩ = none := by decide
-- the hypotheses of `instant_conversion_total` at both ends of the range: 0001-01-01T01:00 Berlin is
-- datetime.min in UTC, 9999-12-31T18:59:59 New York is datetime.max; one second later there is no answer
example : forcedUtcName "DTSTAMP".toList = true ∧
    toSec wallMin ≤ toSec ⟨⟨1, 1, 1⟩, 1, 0, 0⟩ - demo.off .berlin ⟨⟨1, 1, 1⟩, 1, 0, 0⟩ ∧
    toSec ⟨⟨1, 1, 1⟩, 1, 0, 0⟩ - demo.off .berlin ⟨⟨1, 1, 1⟩, 1, 0, 0⟩ ≤ toSec wallMax ∧
    toSec wallMin ≤ toSec ⟨⟨9999, 12, 31⟩, 18, 59, 59⟩ - demo.off .newYork ⟨⟨9999, 12, 31⟩, 18, 59, 59⟩ ∧
    toSec ⟨⟨9999, 12, 31⟩, 18, 59, 59⟩ - demo.off .newYork ⟨⟨9999, 12, 31⟩, 18, 59, 59⟩ ≤ toSec wallMax := by
  decide
example : localizeUtc demo ⟨⟨⟨1, 1, 1⟩, 1, 0, 0⟩, some .berlin⟩ = some ⟨wallMin, some .utc⟩ ∧
    localizeUtc demo ⟨⟨⟨9999, 12, 31⟩, 18, 59, 59⟩, some .newYork⟩ = some ⟨wallMax, some .utc⟩ ∧
    localizeUtc demo ⟨⟨⟨9999, 12, 31⟩, 19, 0, 0⟩, some .newYork⟩ = none ∧
    ¬ (toSec ⟨⟨9999, 12, 31⟩, 19, 0, 0⟩ - demo.off .newYork ⟨⟨9999, 12, 31⟩, 19, 0, 0⟩ ≤ toSec wallMax) := by
  decide
-- a leap day far from the tested window: 2400-03-01T00:30 Berlin is 2400-02-29T23:30Z
example : addLine demo "dtstamp".toList ⟨⟨⟨2400, 3, 1⟩, 0, 30, 0⟩, some .berlin⟩ =
    some ⟨⟨none, none⟩, "24000229T233000Z".toList⟩ := by decide
-- FREEBUSY;TZID=Europe/Berlin;VALUE=PERIOD:20200101T100000/PT2H
example : periodLine demo (perItem w10 Z3.berlin (.dur 7200)) =
    ⟨⟨some sPERIOD, some "Europe/Berlin".toList⟩, "20200101T100000/PT2H".toList⟩ := by decide
example : endIn Z3.berlin (.dur 7200) ∧ endIn Z3.berlin (.dt ⟨w11, some .berlin⟩) := by
  exact ⟨by show (0 : Int) ≤ 7200; decide, by decide, rfl⟩
-- a list of dates gets VALUE=DATE, a mixed list no VALUE
example : (listLine demo [.val (.date ⟨2020, 1, 1⟩), .val (.date ⟨2020, 1, 2⟩)]).params = ⟨some sDATE, none⟩ ∧
    (listLine demo [.val (.date ⟨2020, 1, 1⟩), dtItem ⟨w10, none⟩]).params = ⟨none, none⟩ := by decide

/-! ### the regenerated bodies of `vDDDLists.from_ical` / `to_ical` (tools/py2lean.py wave 8) are the models

  `Bodies.dddListsFromP lu` is the regenerated `vDDDLists.from_ical(t)` (no zone given) with the pieces of
  Model/DDDPieces.lean - the same definition the driver runs against icalendar; `lu` is `tzp.localize_utc`.
  `listFromZ P tz t` is by definition `mapE (dddFromZ P tz) (splitOnChar ',' t)`: the list structure is the same,
  and the element decoder without a zone is `dddFrom` (C03 `body_vDDDTypes_from_ical`). -/

/-- regenerated `vDDDLists.from_ical`: split at every comma, every part through the (regenerated) dispatcher, the first
    failure ends it - the model's `mapE` over `splitOnChar ','` -/
theorem body_vDDDLists_from_ical (lu : PyRT.PyDateTime → PyRT.PyDateTime) (t : Str) :
    Bodies.dddListsFromP lu t = Bodies.liftRes (List.map (Bodies.dddPy lu)) (mapE dddFrom (splitOnChar ',' t)) :=
  Bodies.ddl_from_eq lu t

/-- regenerated `vDDDLists.to_ical`: on elements whose own `to_ical()` is `itemText P`, the model's `listText P` -/
theorem body_vDDDLists_to_ical {Z : Type} (P : Provider Z) (items : List (Item Z)) :
    Bodies.dddListsToP (fun it => .ok (itemText P it)) items = .ok (listText P items) :=
  Bodies.ddl_to_eq (itemText P) items

end ICal.C11
