/-
  C02 — a calendar built through the API survives serialise and parse: the encoding side.
  Model: ICal/Model/Encode.lean (`Component._encode` / `add`, item assignment, descriptors,
  `add_component`, the constructors that derive VALUE / TZID), tied to /repo by correspondence
  (harness/props/C02.py) and, for the tables, by translation (`Gen.typesMap`, `Gen.typeRegistry`,
  `Gen.addUtcNames`, `Gen.addListNames`, regenerated every run).  Spec side: `rfc5545Props`,
  written from RFC 5545 sections 3.7-3.8.

  Property theorems only; helper lemmas and `addAll`, `Stored.vals`, `Stored.isMany` are in
  ICal/Lemmas/Encode.lean.

  Recorded findings (full statement as a `def`, proved `_partial`, refuted by a `_witness`):
    * absolute-trigger-no-value     `value_param_full`  (TRIGGER with a datetime carries no VALUE=DATE-TIME;
                                     a bare (start, end) tuple given to RDATE is iterated as two values)
    * mixed-zone-list               `tzid_list_full`    (one TZID for the whole list: the last zone wins)
    * one-element-list-vs-scalar    `islist_full`       (a single add of a one-element list stores a list)
    * value-param-ignored-on-parse  `encode_class_full`, `types_alternatives_full`
                                    (an already-typed value keeps its class, the parser picks the class by
                                     name only: ATTACH;VALUE=BINARY is read as URI)
  Oracle-only findings (outside this model): value-unescape-nontext (the line layer, C05) and
  tzname-param-rejected (VTIMEZONE interpretation by the zoneinfo provider, C12).

  `api_roundtrip` composes the encoding side with C01 (`parse_toIcal`): trees built by scalar
  `add` calls lie in C01's domain, so parsing their serialisation returns them.
-/
import ICal.Lemmas.Encode
import ICal.Props.C01
import ICal.Lemmas.BodiesAdd
import ICal.Lemmas.BodiesDDDLists
import ICal.Lemmas.BodiesDDDInit
import ICal.Lemmas.BodiesPeriodInit
namespace ICal.C02
open ICal.Enc

/-! ## Clause 2: every RFC 5545 property name is decoded with the value type the RFC assigns -/

/-- For each of the 46 property names of RFC 5545 sections 3.7-3.8: the key `types_map` gives the
    name IS the RFC's default value type (`date-time-list` / `categories` / `geo` read as
    DATE-TIME / TEXT / FLOAT), and the class registered under the key reads and writes that type
    (vDDDTypes and vDDDLists cover DATE, DATE-TIME, TIME, DURATION and PERIOD, told apart by the
    shape of the text).  Kernel-checked over the generated tables. -/
theorem types_table : ∀ r ∈ rfc5545Props,
    keyType (typeKey r.name) = some r.default ∧ r.default ∈ classTypes (forProperty r.name) := by
  decide +kernel

/-- Names outside the table (IANA and X- properties) get TEXT, the RFC's default for them. -/
theorem types_default (n : Str) (h : ∀ kv ∈ Gen.typesMap, (upper kv.1 == upper n) = false) :
    keyType (typeKey n) = some .text := by
  unfold typeKey
  rw [List.find?_eq_none.mpr]
  · decide
  · intro kv hkv; simp [h kv (List.mem_reverse.mp hkv)]

/-- full statement: the class also reads every alternative value type the RFC allows -/
def types_alternatives_full : Prop :=
  ∀ r ∈ rfc5545Props, ∀ τ ∈ r.alts, τ ∈ classTypes (forProperty r.name)

/-- ... true for every alternative except BINARY (DATE for DTSTART DTEND DUE RECURRENCE-ID EXDATE
    RDATE, PERIOD for RDATE, DATE-TIME for TRIGGER) -/
theorem types_alternatives_partial :
    ∀ r ∈ rfc5545Props, ∀ τ ∈ r.alts, τ ≠ .binary → τ ∈ classTypes (forProperty r.name) := by
  decide +kernel

/-- ATTACH is always read by vUri: an `ATTACH;VALUE=BINARY` comes back as a URI
    (finding value-param-ignored-on-parse) -/
theorem types_alternatives_witness : ¬ types_alternatives_full := by
  intro h
  exact absurd (h ⟨"ATTACH".toList, .uri, [.binary], false⟩ (by decide) .binary (by decide)) (by decide)

/-! ## Which class encodes a value -/

/-- A value that is not already typed is encoded by the class of its property name — the same
    `for_property(name)` the parser uses for the line (`pstep`), so it is read back by the class
    that wrote it.  (`ValOK`'s first half in C01.) -/
theorem encode_class (n : Str) (v : PyVal) (upd : List (Str × Option PVal)) (val : Val)
    (hv : keptTyped v = none) (h : encodeOne n v upd = .ok val) : val.kind = forProperty n :=
  encodeOne_kind n v upd val hv h

/-- full statement: every encoded value is an instance of its name's class -/
def encode_class_full : Prop :=
  ∀ (n : Str) (v : PyVal) (upd : List (Str × Option PVal)) (val : Val),
    encodeOne n v upd = .ok val → val.kind = forProperty n

/-- an already-typed value is kept: `add('attach', vBinary(...))` stores a vBinary under a name
    the parser reads with vUri -/
theorem encode_class_witness : ¬ encode_class_full := by
  intro h
  exact absurd (h "attach".toList (.binary "aGk=".toList) [] (binaryVal "aGk=".toList) (by decide)) (by decide)

/-! ## Clause 3a: a value that is not of the default type carries VALUE -/

def HasParam (val : Val) (k x : Str) : Prop := Params.get? val.params k = some (.one x)
instance (val : Val) (k x : Str) : Decidable (HasParam val k x) := by unfold HasParam; infer_instance

/-- full statement, for scalar values: whenever a value of an alternative type τ of property r is
    encoded, the result carries VALUE=τ -/
def value_param_full : Prop :=
  ∀ r ∈ rfc5545Props, ∀ τ ∈ r.alts, ∀ (v : PyVal) (val : Val),
    (valueKind v).rfcType = some τ → encodeOne r.name v [] = .ok val → HasParam val kVALUE τ.valueName

/-- Proved part: every alternative of every RFC property except the absolute TRIGGER and the
    bare-tuple PERIOD: a DATE under DTSTART DTEND DUE RECURRENCE-ID (vDDDTypes) and under
    EXDATE RDATE (vDDDLists, one value) carries VALUE=DATE; a vBinary under ATTACH carries
    VALUE=BINARY. -/
theorem value_param_partial : ∀ r ∈ rfc5545Props, ∀ τ ∈ r.alts, r.name ≠ nTRIGGER → τ ≠ .period →
    ∀ (v : PyVal) (val : Val), (valueKind v).rfcType = some τ → encodeOne r.name v [] = .ok val →
      HasParam val kVALUE τ.valueName := by
  intro r hr τ hτ hn hp v val hk h
  rcases alt_cases r hr τ hτ hn hp with ⟨rfl, hc⟩ | rfl
  · obtain ⟨d, rfl⟩ := kind_date_inv v hk
    rcases hc with hc | hc
    · simp only [encodeOne, keptTyped, hc, construct1_cDDD, mkDDD] at h
      injection h with h; subst h; rfl
    · simp only [encodeOne, keptTyped, hc, construct1_cDDDLists] at h
      injection h with h; subst h; rfl
  · obtain ⟨b, rfl⟩ := kind_binary_inv v hk
    simp only [encodeOne, keptTyped] at h
    injection h with h; subst h; rfl

private def utcNoon : DT := ⟨⟨⟨2020, 1, 1⟩, 12, 0, 0⟩, some UTC, ⟨⟨2020, 1, 1⟩, 12, 0, 0⟩⟩
private def naiveNoon : DT := ⟨⟨⟨2020, 1, 1⟩, 12, 0, 0⟩, none, ⟨⟨2020, 1, 1⟩, 12, 0, 0⟩⟩

/-- `alarm.add('trigger', datetime(2020, 1, 1, 12, tzinfo=UTC))` is written `TRIGGER:20200101T120000Z`,
    without VALUE=DATE-TIME (finding absolute-trigger-no-value) -/
theorem value_param_witness : ¬ value_param_full := by
  intro h
  have := h ⟨"TRIGGER".toList, .duration, [.dateTime], false⟩ (by decide) .dateTime (by decide)
    (.atom (.dt utcNoon)) ⟨cDDD, "20200101T120000Z".toList, []⟩ (by decide) (by decide)
  revert this; decide

/-- The other excluded case: a bare `(start, duration)` tuple given to RDATE is iterated by
    vDDDLists as two values; the line is `RDATE:20200101T120000,PT1H` without VALUE. -/
theorem value_param_witness_tuple :
    encodeOne "RDATE".toList (.period (.dt naiveNoon) (.dur 3600)) [] =
      .ok ⟨cDDDLists, "20200101T120000,PT1H".toList, []⟩ := by decide

/-- Lists (RDATE / EXDATE): a non-empty list of dates carries VALUE=DATE. -/
theorem value_param_date_list (n : Str) (hc : forProperty n = cDDDLists)
    (hl : Gen.addListNames.contains (lower n) = true) (ds : List PDate) (hne : ds ≠ []) :
    ∃ val, addValue n (.list ((ds.map PyAtom.date).map PyVal.atom)) [] = .ok (.one val) ∧
      val.kind = cDDDLists ∧ HasParam val kVALUE "DATE".toList := by
  refine ⟨_, add_list_atoms n hc hl _, rfl, ?_⟩
  apply listParams_value
  · simpa [atomVals] using hne
  · intro v hv
    simp only [atomVals, List.mem_map] at hv
    obtain ⟨a, ⟨d, _, rfl⟩, rfl⟩ := hv
    rfl

/-- A non-empty list of periods carries VALUE=PERIOD. -/
theorem value_param_period_list (n : Str) (hc : forProperty n = cDDDLists)
    (hl : Gen.addListNames.contains (lower n) = true) (ps : List (PyAtom × PyAtom)) (hne : ps ≠ []) :
    ∃ val, addValue n (.list (ps.map (fun p => .period p.1 p.2))) [] = .ok (.one val) ∧
      val.kind = cDDDLists ∧ HasParam val kVALUE "PERIOD".toList := by
  refine ⟨_, add_list_periods n hc hl _, rfl, ?_⟩
  apply listParams_value
  · simpa [periodVals] using hne
  · intro v hv
    simp only [periodVals, List.mem_map] at hv
    obtain ⟨p, _, rfl⟩ := hv
    rfl

/-- A list mixing DATE and DATE-TIME has no uniform VALUE: nothing is written (RFC 5545 has no
    such list; outside the property's domain, shown for the record). -/
theorem value_param_mixed_list :
    addValue "rdate".toList (.list [.atom (.date ⟨2020, 1, 1⟩), .atom (.dt naiveNoon)]) [] =
      .ok (.one ⟨cDDDLists, "20200101,20200101T120000".toList, []⟩) := by decide

/-! ## Clause 3b: every zoned value carries its own TZID -/

/-- A zoned datetime (zone id `z`, not UTC) under a vDDDTypes name that is not UTC-forced: local
    time without `Z`, and TZID=z as the only parameter. -/
theorem tzid_param (n : Str) (hc : forProperty n = cDDD) (hu : Gen.addUtcNames.contains (lower n) = false)
    (t : DT) (z : Str) (hz : t.tzid = some z) (hne : z ≠ UTC) :
    addValue n (.one (.atom (.dt t))) [] =
      .ok (.one ⟨cDDD, vDatetimeTo (t.wall.toP false), [(kTZID, .one z)]⟩) := by
  have h1 : (z != UTC) = true := by simpa using hne
  have h2 : t.isUtc = false := by
    unfold DT.isUtc; rw [hz]
    cases hb : (some z == some UTC) with
    | false => rfl
    | true => exact absurd (by simpa using hb) hne
  simp only [addValue, forceUtc, hu, Bool.false_eq_true, if_false, encodeOne, keptTyped, hc, construct1_cDDD, mkDDD,
    atomText, atomParams, tzParamDDD, hz, h1, h2, if_true, mergeParams, List.foldl, Except.map]

/-- A period whose start is zoned carries the zone of its start (vDDDTypes names; FREEBUSY's
    vPeriod the same for a non-empty id). -/
theorem tzid_param_period (n : Str) (hc : forProperty n = cDDD ∨ forProperty n = cPeriod)
    (t : DT) (b : PyAtom) (z : Str) (hz : t.tzid = some z) (hne : z ≠ UTC) (hne' : z ≠ [])
    (val : Val) (h : encodeOne n (.period (.dt t) b) [] = .ok val) :
    HasParam val kVALUE "PERIOD".toList ∧ HasParam val kTZID z := by
  have h1 : (z != UTC) = true := by simpa using hne
  have h3 : (!z.isEmpty) = true := by cases z with | nil => exact absurd rfl hne' | cons _ _ => rfl
  rcases hc with hc | hc
  · simp only [encodeOne, keptTyped, hc, construct1_cDDD, mkDDD, mergeParams, List.foldl] at h
    injection h with h; subst h
    simp [HasParam, periodParamsDDD, tzParamDDD, hz, h1, Params.get?, List.find?, kVALUE_ne_kTZID]
  · simp only [encodeOne, keptTyped, hc, construct1_cPeriod, mkPeriod, mergeParams, List.foldl] at h
    cases hp : Enc.periodText (.dt t) b with
    | none => rw [hp] at h; cases h
    | some txt =>
      rw [hp] at h
      injection h with h; subst h
      simp [HasParam, periodParamsV, tzParamTruthy, hz, h1, h3, Params.get?, List.find?, kVALUE_ne_kTZID]

/-- full statement for lists: the TZID of the line names the zone of every zoned element -/
def tzid_list_full : Prop :=
  ∀ (ts : List DT) (val : Val),
    addValue "rdate".toList (.list ((ts.map PyAtom.dt).map PyVal.atom)) [] = .ok (.one val) →
    ∀ t ∈ ts, ∀ z, t.tzid = some z → z ≠ UTC → HasParam val kTZID z

/-- Proved part: a non-empty list whose elements all lie in one zone `z` carries TZID=z. -/
theorem tzid_list_partial (n : Str) (hc : forProperty n = cDDDLists)
    (hl : Gen.addListNames.contains (lower n) = true) (ts : List DT) (hne : ts ≠ [])
    (z : Str) (hz : ∀ t ∈ ts, t.tzid = some z) (hu : z ≠ UTC) (he : z ≠ []) :
    ∃ val, addValue n (.list ((ts.map PyAtom.dt).map PyVal.atom)) [] = .ok (.one val) ∧ HasParam val kTZID z := by
  have h1 : (z != UTC) = true := by simpa using hu
  refine ⟨_, add_list_atoms n hc hl _, ?_⟩
  apply listParams_tzid
  · simpa [atomVals] using hne
  · cases z with | nil => exact absurd rfl he | cons _ _ => rfl
  · intro v hv
    simp only [atomVals, List.mem_map] at hv
    obtain ⟨a, ⟨t, ht, rfl⟩, rfl⟩ := hv
    simp [atomParams, tzParamDDD, hz t ht, h1, get_cons_same]

private def berlin : DT := ⟨⟨⟨2020, 1, 1⟩, 12, 0, 0⟩, some "Europe/Berlin".toList, ⟨⟨2020, 1, 1⟩, 11, 0, 0⟩⟩
private def newYork : DT := ⟨⟨⟨2020, 1, 2⟩, 12, 0, 0⟩, some "America/New_York".toList, ⟨⟨2020, 1, 2⟩, 17, 0, 0⟩⟩

/-- `add('rdate', [berlin noon, new york noon])` is written
    `RDATE;TZID=America/New_York:20200101T120000,20200102T120000`: the Berlin value is re-read
    in New York time (finding mixed-zone-list) -/
theorem tzid_list_witness : ¬ tzid_list_full := by
  intro h
  have := h [berlin, newYork]
    ⟨cDDDLists, "20200101T120000,20200102T120000".toList, [(kTZID, .one "America/New_York".toList)]⟩
    (by decide) berlin (by decide) "Europe/Berlin".toList (by decide) (by decide)
  revert this; decide

/-! ## UTC forcing -/

/-- `add` of a datetime under DTSTAMP / CREATED / LAST-MODIFIED (any case): the value is
    converted to UTC first — the UTC wall clock with `Z`, no TZID. -/
theorem add_utc_forced (n : Str) (hc : forProperty n = cDDD) (hu : Gen.addUtcNames.contains (lower n) = true)
    (t : DT) :
    addValue n (.one (.atom (.dt t))) [] = .ok (.one ⟨cDDD, vDatetimeTo (t.utcWall.toP true), []⟩) := by
  simp only [addValue, forceUtc, hu, if_true, encodeOne, keptTyped, hc, construct1_cDDD, mkDDD, atomText, atomParams,
    DT.toUtc, DT.isUtc, tzParamDDD, mergeParams, List.foldl, Except.map]
  rfl

/-- the three names, in any case, are vDDDTypes names -/
theorem add_utc_names : ∀ n ∈ Gen.addUtcNames, forProperty n = cDDD ∧ forProperty (upper n) = cDDD := by
  decide +kernel

/-- A datetime inside a list is NOT converted (`isinstance(value, datetime)` is asked of the list). -/
theorem add_utc_not_in_list :
    addValue "dtstamp".toList (.list [.atom (.dt berlin)]) [] =
      .ok (.many [⟨cDDD, "20200101T120000".toList, [(kTZID, .one "Europe/Berlin".toList)]⟩]) := by decide

/-! ## `parameters=` -/

/-- `parameters={key: item}` sets the parameter (under the upper-cased key), whatever the
    constructor derived. -/
theorem merge_sets (ps : Params) (k : Str) (x : PVal) :
    Params.get? (mergeParams ps [(k, some x)]) (upper k) = some x := by
  simp only [mergeParams, List.foldl]; exact get_put_same _ _ _

/-- `parameters={key: None}` deletes it. -/
theorem merge_deletes (ps : Params) (k : Str) : Params.get? (mergeParams ps [(k, none)]) (upper k) = none := by
  simp only [mergeParams, List.foldl, Params.get?]
  rw [List.find?_eq_none.mpr]
  · rfl
  · intro kv hkv
    have := (List.mem_filter.mp hkv).2
    simpa using this

/-! ## Repeated `add`: order and list-ness -/

/-- The values of one name keep their insertion order: after any sequence of adds (scalars and
    lists in any order, list after scalar and scalar after list included) the stored values are
    the old ones followed by the added ones, flattened in order; other names are untouched. -/
theorem add_accumulates (props : List Entry) (k : Str) (ss : List Stored) :
    valuesOf (addAll props k ss) k = valuesOf props k ++ ss.flatMap Stored.vals ∧
    ∀ k', k' ≠ k → valuesOf (addAll props k ss) k' = valuesOf props k' :=
  ⟨valuesOf_addAll ss props k, fun k' hk => valuesOf_addAll_other ss props k k' hk⟩

/-- Exactly when the entry is a Python list: the name was present before, or two or more adds
    were made, or some add passed a list. -/
theorem add_islist (props : List Entry) (k : Str) (ss : List Stored) (hne : ss ≠ []) :
    isListOf (addAll props k ss) k = (hasKey props k || decide (2 ≤ ss.length) || ss.any Stored.isMany) :=
  isListOf_addAll ss props k hne

/-- full statement: on a fresh name the entry is a list iff two or more values were added -/
def islist_full : Prop :=
  ∀ (props : List Entry) (k : Str) (ss : List Stored), hasKey props k = false → ss ≠ [] →
    isListOf (addAll props k ss) k = decide (2 ≤ (ss.flatMap Stored.vals).length)

/-- Proved part: when every add passes a single value. -/
theorem islist_partial (props : List Entry) (k : Str) (ss : List Stored) (hf : hasKey props k = false) (hne : ss ≠ [])
    (hs : ∀ s ∈ ss, s.isMany = false) :
    isListOf (addAll props k ss) k = decide (2 ≤ (ss.flatMap Stored.vals).length) := by
  rw [isListOf_addAll ss props k hne, hf]
  have h1 : ss.any Stored.isMany = false := by
    rw [List.any_eq_false]; intro s hs'; simp [hs s hs']
  have h2 : (ss.flatMap Stored.vals).length = ss.length := by
    clear hne h1
    induction ss with
    | nil => rfl
    | cons s rest ih =>
      have := hs s List.mem_cons_self
      cases s with
      | one v => simp [Stored.vals, ih (fun s hs' => hs s (List.mem_cons_of_mem _ hs'))]
      | many vs => simp [Stored.isMany] at this
  rw [h1, h2]; simp

/-- `add('comment', ['x'])` on a fresh name stores `[vText('x')]`: a list with one value; after
    serialising and parsing it is a single value (finding one-element-list-vs-scalar, D25). -/
theorem islist_witness : ¬ islist_full := by
  intro h
  have := h [] "COMMENT".toList [.many [⟨cText, "x".toList, []⟩]] (by decide) (by decide)
  revert this; decide

/-! ## Nesting -/

/-- `add_component`: the built tree has the component's name and exactly the built
    subcomponents (as many, each built from its own calls), in the order they were handed over. -/
theorem build_nesting (name : Str) (ops : List Op) (subs : List Spec) (c : Comp) (outs : List Outcome)
    (h : build (.mk name ops subs) = some (c, outs)) :
    c.name = name ∧ c.subs.length = subs.length ∧ ∃ o, buildList subs = some (c.subs, o) := by
  unfold build at h
  split at h
  · rename_i props out cs outs' h1 h2
    injection h with h
    injection h with h _
    subst h
    exact ⟨rfl, buildList_length subs cs outs' h2, outs', h2⟩
  · cases h

/-! ## The built tree survives serialise and parse (composition with C01) -/

/-- A tree built by `add(name, value, parameters)` calls with one not-yet-typed value each (any
    number of calls per name, any nesting through `add_component`) lies in C01's domain `WF`:
    names upper-cased and pairwise distinct, every entry non-empty and a list exactly when it
    holds two or more values, every value an instance of `for_property(name)`.  The remaining
    clause of `WF` — each value text is a fixpoint of its decoder (`DecFix`, the C03 inverse laws
    type by type) — is the hypothesis. Unbounded in depth, width and number of calls; calls that
    raise are covered (they leave the mapping unchanged). -/
theorem api_wf (dec : Dec) (s : Spec) (t : Comp) (o : List Outcome)
    (hs : ScalarSpec s) (hb : build s = some (t, o)) (hd : DecFix dec t) : WF dec t :=
  build_wf dec s t o hs hb hd

/-- Hence (C01 `parse_toIcal`: folding C06, lines C05 / C08, tree layer): `to_ical()` of such a
    tree succeeds and `from_ical` of the text returns the same nesting, the same names with the
    values of each name in insertion order, the same parameters and value texts — the tree itself
    in serialisation order — and records no error.  (`ItemOK`: the line-level domain of C05/C08;
    `TzOK`: the VTIMEZONEs of the tree can be turned into time zones, C12.) -/
theorem api_roundtrip (tzok : Comp → Bool) (dec : Dec) (s : Spec) (t : Comp) (o : List Outcome)
    (hs : ScalarSpec s) (hb : build s = some (t, o)) (hd : DecFix dec t)
    (htz : TzOK tzok true t) (hi : ∀ it ∈ items true t, ICal.C01.ItemOK it) :
    ∃ text, toIcal true t = .ok text ∧ parseText tzok dec false text = some ([sortedTree true t], []) :=
  ICal.C01.parse_toIcal tzok dec t (build_wf dec s t o hs hb hd) htz hi

/-! ## Non-vacuity -/

/-- the hypotheses of the theorems above hold for the RFC names they are about -/
example : forProperty "DTSTART".toList = cDDD ∧ Gen.addUtcNames.contains (lower "DTSTART".toList) = false := by decide
example : forProperty "rdate".toList = cDDDLists ∧ Gen.addListNames.contains (lower "rdate".toList) = true := by decide
example : forProperty "ExDate".toList = cDDDLists ∧ Gen.addListNames.contains (lower "ExDate".toList) = true := by decide
example : forProperty "FREEBUSY".toList = cPeriod := by decide
example : forProperty "Last-Modified".toList = cDDD ∧ Gen.addUtcNames.contains (lower "Last-Modified".toList) = true := by decide
example : rfc5545Props.length = 46 := by decide
/-- a DATE under DTSTART -/
example : encodeOne "DTSTART".toList (.atom (.date ⟨2020, 2, 29⟩)) [] =
    .ok ⟨cDDD, "20200229".toList, [(kVALUE, .one "DATE".toList)]⟩ := by decide
/-- a zoned datetime under DTSTART; the same under DTSTAMP -/
example : addValue "dtstart".toList (.one (.atom (.dt berlin))) [] =
    .ok (.one ⟨cDDD, "20200101T120000".toList, [(kTZID, .one "Europe/Berlin".toList)]⟩) := by decide
example : addValue "dtstamp".toList (.one (.atom (.dt berlin))) [] =
    .ok (.one ⟨cDDD, "20200101T110000Z".toList, []⟩) := by decide
/-- RDATE: two dates; one period with a zoned start -/
example : addValue "rdate".toList (.list [.atom (.date ⟨2020, 1, 1⟩), .atom (.date ⟨2020, 1, 2⟩)]) [] =
    .ok (.one ⟨cDDDLists, "20200101,20200102".toList, [(kVALUE, .one "DATE".toList)]⟩) := by decide
example : addValue "rdate".toList (.list [.period (.dt berlin) (.dur 3600)]) [] =
    .ok (.one ⟨cDDDLists, "20200101T120000/PT1H".toList,
      [(kVALUE, .one "PERIOD".toList), (kTZID, .one "Europe/Berlin".toList)]⟩) := by decide
/-- parameters: set, list value, None deletes the derived VALUE -/
example : encodeOne "dtstart".toList (.atom (.date ⟨2020, 2, 29⟩))
      [("x-p".toList, some (.one "v".toList)), ("value".toList, none)] =
    .ok ⟨cDDD, "20200229".toList, [("X-P".toList, .one "v".toList)]⟩ := by decide
/-- scalar then list then scalar: one entry, four values in order, a list -/
example : addAll [] "COMMENT".toList
      [.one ⟨cText, "a".toList, []⟩, .many [⟨cText, "b".toList, []⟩, ⟨cText, "c".toList, []⟩], .one ⟨cText, "d".toList, []⟩] =
    [⟨"COMMENT".toList, true, [⟨cText, "a".toList, []⟩, ⟨cText, "b".toList, []⟩, ⟨cText, "c".toList, []⟩, ⟨cText, "d".toList, []⟩]⟩] := by
  decide
/-- a tree: calendar, event with a descriptor call that removes DURATION, nested alarm (shown as
    the items the serialiser visits) -/
example : (build (.mk "VCALENDAR".toList [.add "version".toList (.one (.text "2.0".toList)) []]
      [.mk "VEVENT".toList
        [.add "duration".toList (.one (.atom (.dur 3600))) [],
         .setSingle "DTEND".toList (some (.atom (.date ⟨2020, 1, 2⟩)))]
        [.mk "VALARM".toList [.setRepeat (.int 2)] []]])).map (fun r => (items false r.1, r.2)) =
    some ([⟨"BEGIN".toList, "VCALENDAR".toList, []⟩, ⟨"VERSION".toList, "2.0".toList, []⟩,
        ⟨"BEGIN".toList, "VEVENT".toList, []⟩, ⟨"DTEND".toList, "20200102".toList, [(kVALUE, .one "DATE".toList)]⟩,
        ⟨"BEGIN".toList, "VALARM".toList, []⟩, ⟨"REPEAT".toList, "2".toList, []⟩, ⟨"END".toList, "VALARM".toList, []⟩,
        ⟨"END".toList, "VEVENT".toList, []⟩, ⟨"END".toList, "VCALENDAR".toList, []⟩],
      [.ok, .ok, .ok, .ok]) := by
  decide +kernel

/-- `api_roundtrip` applies: a calendar with an event holding two COMMENTs (added one by one), a
    DATE start and a nested alarm; the identity decoder -/
private def sampleSpec : Spec :=
  .mk "VCALENDAR".toList [.add "version".toList (.one (.text "2.0".toList)) []]
    [.mk "VEVENT".toList
      [.add "comment".toList (.one (.text "a, b".toList)) [("language".toList, some (.one "en".toList))],
       .add "dtstart".toList (.one (.atom (.date ⟨2020, 2, 29⟩))) [],
       .add "Comment".toList (.one (.text "c".toList)) [],
       .add "dtend".toList (.one (.text "not a date".toList)) []]
      [.mk "VALARM".toList [.add "trigger".toList (.one (.atom (.dur (-900)))) []] []]]
private def decId : Dec := fun _ t _ => some t
example : ScalarSpec sampleSpec := by
  simp only [sampleSpec, ScalarSpec, ScalarSpecs, and_true]
  decide
private def sampleTree : Comp :=
  .mk "VCALENDAR".toList [⟨"VERSION".toList, false, [⟨cText, "2.0".toList, []⟩]⟩]
    [.mk "VEVENT".toList
      [⟨"COMMENT".toList, true, [⟨cText, "a\\, b".toList, [("LANGUAGE".toList, .one "en".toList)]⟩, ⟨cText, "c".toList, []⟩]⟩,
       ⟨"DTSTART".toList, false, [⟨cDDD, "20200229".toList, [(kVALUE, .one "DATE".toList)]⟩]⟩]
      [.mk "VALARM".toList [⟨"TRIGGER".toList, false, [⟨cDDD, "-PT15M".toList, []⟩]⟩] []]]
/-- the fifth call (`add('dtend', 'not a date')`) raises ValueError and leaves the event unchanged -/
example : build sampleSpec = some (sampleTree, [.ok, .ok, .ok, .ok, .valueError, .ok]) := by rfl
example : DecFix decId sampleTree := by
  simp only [sampleTree, DecFix, DecFixs, decId, and_true]
  decide
example : TzOK (fun _ => true) true sampleTree := TzOK_true true _
example : ∀ it ∈ items true sampleTree, ICal.C01.ItemOK it := by decide +kernel
/-- what comes back: DTSTART before COMMENT (VEVENT's canonical order), the two COMMENTs in insertion order -/
example : (items true sampleTree).map (fun it => (it.name, it.text)) =
    [("BEGIN".toList, "VCALENDAR".toList), ("VERSION".toList, "2.0".toList), ("BEGIN".toList, "VEVENT".toList),
     ("DTSTART".toList, "20200229".toList), ("COMMENT".toList, "a\\, b".toList), ("COMMENT".toList, "c".toList),
     ("BEGIN".toList, "VALARM".toList), ("TRIGGER".toList, "-PT15M".toList), ("END".toList, "VALARM".toList),
     ("END".toList, "VEVENT".toList), ("END".toList, "VCALENDAR".toList)] := by decide +kernel

/-! ### `Component.add` as regenerated (wave 6)

`Bodies.componentAddP` is the translated `Component.add(name, value, parameters)` with the pieces of ICal/Model/AddPieces.lean
(`Bodies.liftEnc` carries the model's results, its marker `unmodelled` as `Exc.fuel`). -/

/-- the translated `add` is the model's `addProp`: UTC forcing, element-wise or whole encoding, accumulation -/
theorem body_component_add (props : List Entry) (name : Str) (a : PyArg) (upd : List (Str × Option PVal)) :
    Bodies.componentAddP props name a upd = Bodies.liftEnc (addProp props name a upd) := Bodies.add_eq props name a upd

/-- its "set value" stage alone is the model's `accumulate` -/
theorem body_component_add_accumulate (props : List Entry) (name : Str) (st : Stored) :
    Bodies.setStage props name (Bodies.storedU st) = .ok (accumulate props (upper name) st) := Bodies.setStage_eq props name st

/-- the regenerated `Component._encode(name, value, parameters, 1)` is the model's `encodeOne`: a value of a value class is
    kept, the class of the name makes the object otherwise, then every item of `parameters` is applied - None deletes the
    key, anything else sets it -/
theorem body_component_encode (name : Str) (v : PyVal) (upd : List (Str × Option PVal)) :
    (Bodies.encodeOneP name v upd).map Bodies.EncObj.val = Bodies.liftEnc (encodeOne name v upd) := Bodies.encode_eq name v upd

/-- the regenerated `vDDDLists.__init__` on an iterable: every element through `vDDDTypes(..)`, then the model's `listParams`
    (VALUE when the SET of the elements' VALUEs has one member that is not None; the TZID of the last element that has one,
    when it is true) -/
theorem body_vDDDLists_init_many (xs : List PyVal) :
    Bodies.dddListsInitP (.many xs) = Bodies.liftEnc ((Enc.mapRes mkDDD xs).map (fun vs => (listParams vs, vs))) :=
  Bodies.ddd_lists_init_many xs

/-- an argument without `__iter__` is wrapped in a list first -/
theorem body_vDDDLists_init_one (v : PyVal) :
    Bodies.dddListsInitP (.one v) = Bodies.liftEnc ((Enc.mapRes mkDDD [v]).map (fun vs => (listParams vs, vs))) :=
  Bodies.ddd_lists_init_one v

/-- the regenerated `vDDDTypes.__init__` derives the model's `atomParams` for one object (VALUE=DATE / TIME, the TZID of a
    datetime unless it is UTC) -/
theorem body_vDDDTypes_init_atom (tz : PyRT.PyDDD → Option Str) (a : PyAtom) (h : Bodies.TzOfAtom tz a) :
    Bodies.dddInitParamsP tz (Bodies.atomObjE a) = atomParams a := Bodies.ddd_init_atom tz a h

/-- and `periodParamsDDD` for a pair: VALUE=PERIOD and the zone of a datetime START -/
theorem body_vDDDTypes_init_period (tz : PyRT.PyDDD → Option Str) (a b : PyAtom) (h : Bodies.TzOfAtom tz a) :
    Bodies.dddInitParamsP tz (.period (Bodies.atomObjE a) (Bodies.atomObjE b)) = periodParamsDDD a :=
  Bodies.ddd_init_period tz a b h

/-- the regenerated `vPeriod.__init__((a, b))` accepts the pair exactly when the model's `periodText` does (a start STRICTLY
    after the end, mixed kinds and a TypeError / OverflowError inside all end as ValueError) and derives `periodParamsV` -/
theorem body_vPeriod_init (a b : PyAtom) :
    Bodies.periodInitParamsP a b =
      (match Enc.periodText a b with
       | some _ => .ok (periodParamsV a)
       | none => .error .valueError) := Bodies.period_init_eq a b

end ICal.C02
