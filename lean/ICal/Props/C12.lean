/-
  C12 — a VTIMEZONE is interpreted per RFC 5545 onset rules; a calendar's date-times get the
  calendar's own definition.
  Property theorems only; helper lemmas are in ICal/Lemmas/Tz.lean, the model in ICal/Model/Tz.lean:
    getTransitions = Timezone.get_transitions (sort by LOCAL time, utc = local − from, DST amounts),
    lookup         = the pytz DstTzInfo built from that table (bisect_right),
    specAt         = RFC 5545: the observance with the latest onset (local − TZOFFSETFROM) not after t,
    parseCal / parseAll / endVtz / useTz = the process-wide zone cache driven by Component.from_ical.
  The zoneinfo path hands the definition to dateutil.tz.tzical (external): it is compared with
  `specAt` by the correspondence run only (level: partial, see MANIFEST).
-/
import ICal.Lemmas.Tz
import ICal.Lemmas.TzMore
import ICal.Lemmas.BodiesTz
namespace ICal.C12
open ICal.Tz

/-- the zone object answers at `t` with the offset and name of the RFC observance, and with a zero
    DST amount when that observance is STANDARD -/
def AgreesWithSpec (obs : List Obs) (ts : List Ent) (t : Int) : Prop :=
  ∃ e b, lookup ts t = some e ∧ specAt obs t = some b ∧
    e.utc = b.1 ∧ e.off = b.2.offTo ∧ e.name = b.2.name ∧ (b.2.isDst = false → e.dst = 0)

/-- C12 (interpretation part) at full strength: for every definition with whole-minute offsets,
    names not shared between STANDARD and DAYLIGHT and unambiguous simultaneous onsets, at every
    instant not before the first onset. FALSE on the code (D23): see `sort_witness`. -/
def rfc_onset_full : Prop :=
  ∀ (obs : List Obs) (ts : List Ent), getTransitions obs = some ts →
    WholeMinutes obs → NamesConsistent obs → UniqueOnsets obs →
    ∀ t, (∃ p ∈ specEntries obs, p.1 ≤ t) → AgreesWithSpec obs ts t

/-- If the table that `get_transitions` built is ascending in UTC, the pytz zone object answers
    with the RFC observance at every instant from the first onset on: offset, name, and a zero DST
    amount for STANDARD. -/
theorem lookup_is_spec (obs : List Obs) (ts : List Ent) (hg : getTransitions obs = some ts)
    (hm : WholeMinutes obs) (hn : NamesConsistent obs) (hu : UniqueOnsets obs) (hs : SortedUTC ts)
    (t : Int) (hfirst : ∃ p ∈ specEntries obs, p.1 ≤ t) : AgreesWithSpec obs ts t := by
  unfold getTransitions at hg
  obtain ⟨hmap, hrow⟩ := infoGo_spec (dstOf obs) (sortedTrs obs) [] ts hg
  -- every RFC onset is a row of the table
  have honset : ∀ p ∈ specEntries obs, ∃ e ∈ ts, e.utc = p.1 := by
    intro p hp
    obtain ⟨o, ho, l, hl, rfl⟩ := mem_specEntries.mp hp
    have hc : (⟨l, roundMin o.offFrom, roundMin o.offTo, o.name⟩ : Tr) ∈ sortedTrs obs :=
      mem_sortedTrs.mpr ⟨o, ho, l, hl, rfl⟩
    have : l - roundMin o.offFrom ∈ (sortedTrs obs).map (fun c => c.loc - c.osfrom) :=
      List.mem_map.mpr ⟨_, hc, rfl⟩
    rw [← hmap] at this
    obtain ⟨e, he, heq⟩ := List.mem_map.mp this
    refine ⟨e, he, ?_⟩
    rw [heq, roundMin_id (hm o ho).1]
  -- every row of the table is an RFC onset with the observance's data
  have hrow' : ∀ e ∈ ts, ∃ o ∈ obs, (e.utc, o) ∈ specEntries obs ∧ e.off = o.offTo ∧ e.name = o.name ∧
      (o.isDst = false → e.dst = 0) := by
    intro e he
    obtain ⟨c, hc, h1, h2, h3, h4⟩ := hrow e he
    obtain ⟨o, ho, l, hl, rfl⟩ := mem_sortedTrs.mp hc
    refine ⟨o, ho, ?_, ?_, h3, ?_⟩
    · rw [h1]; simp only; rw [roundMin_id (hm o ho).1]
      exact mem_specEntries.mpr ⟨o, ho, l, hl, rfl⟩
    · rw [h2]; exact roundMin_id (hm o ho).2
    · intro hd; apply h4; simp only; rw [dstOf_eq hn ho]; exact hd
  -- the head of an ascending table is its earliest row
  obtain ⟨p, hp, hpt⟩ := hfirst
  obtain ⟨ep, hep, hepu⟩ := honset p hp
  obtain ⟨e0, h0⟩ : ∃ e0, ts.head? = some e0 := by
    cases ts with
    | nil => simp at hep
    | cons a as => exact ⟨a, rfl⟩
  have h0le : e0.utc ≤ ep.utc := by
    cases ts with
    | nil => simp at hep
    | cons a as =>
      simp at h0; subst h0
      rcases List.mem_cons.mp hep with rfl | hin
      · exact Int.le_refl _
      · have hs' : (a.utc :: as.map Ent.utc).Pairwise (· ≤ ·) := hs
        exact (List.pairwise_cons.mp hs').1 _ (List.mem_map.mpr ⟨ep, hin, rfl⟩)
  obtain ⟨e, hlk, hemem, het, hmax⟩ := lookup_latest ts hs t e0 h0 (by omega)
  obtain ⟨o, ho, hspec, hoff, hname, hdst⟩ := hrow' e hemem
  -- the RFC reading exists and names the same instant
  cases hsp : specAt obs t with
  | none => exact absurd het (specAt_none hsp _ hspec)
  | some b =>
    obtain ⟨hb1, hb2, hb3⟩ := specAt_latest hsp
    obtain ⟨eb, hebm, hebu⟩ := honset b hb1
    have h1 : b.1 ≤ e.utc := by rw [← hebu]; exact hmax eb hebm (by omega)
    have h2 : e.utc ≤ b.1 := hb3 _ hspec het
    have heq : e.utc = b.1 := by omega
    obtain ⟨u1, u2, u3⟩ := hu _ hspec _ hb1 heq
    refine ⟨e, b, hlk, hsp, heq, ?_, ?_, ?_⟩
    · rw [hoff]; exact u1
    · rw [hname]; exact u2
    · intro hd; apply hdst; rw [u3]; exact hd

/-- Sorting by local time is sorting by instant when any two onsets at different instants are
    further apart than the difference of their TZOFFSETFROMs. -/
theorem local_sort_ok (obs : List Obs) (ts : List Ent) (hg : getTransitions obs = some ts)
    (hw : WellSeparated obs) : SortedUTC ts := by
  unfold getTransitions at hg
  obtain ⟨hmap, _⟩ := infoGo_spec (dstOf obs) (sortedTrs obs) [] ts hg
  unfold SortedUTC
  have e : ts.map Ent.utc = (sortedTrs obs).map (fun c => c.loc - c.osfrom) := hmap
  rw [e, List.pairwise_map]
  have hp : (sortedTrs obs).Pairwise LocLe := pairwise_sortTr _
  refine List.Pairwise.imp_of_mem ?_ hp
  intro a b ha hb hab
  obtain ⟨o, ho, l, hl, rfl⟩ := mem_sortedTrs.mp ha
  obtain ⟨o', ho', l', hl', rfl⟩ := mem_sortedTrs.mp hb
  simp only [LocLe] at hab
  simp only
  by_cases hlt : l' - roundMin o'.offFrom < l - roundMin o.offFrom
  · have := hw o' ho' l' hl' o ho l hl hlt
    omega
  · omega

/-- C12 (interpretation part) as it holds of the code: the extra hypothesis `WellSeparated` is
    exactly the complement of the finding class `onsets-closer-than-jump`. -/
theorem rfc_onset_partial (obs : List Obs) (ts : List Ent) (hg : getTransitions obs = some ts)
    (hm : WholeMinutes obs) (hn : NamesConsistent obs) (hu : UniqueOnsets obs) (hw : WellSeparated obs)
    (t : Int) (hfirst : ∃ p ∈ specEntries obs, p.1 ≤ t) : AgreesWithSpec obs ts t :=
  lookup_is_spec obs ts hg hm hn hu (local_sort_ok obs ts hg hw) t hfirst

/-- D23: onsets at 00:00Z (+0 → +2), 00:30Z (+2 → −1), 01:00Z (−1 → +0), written in local time -/
def d23 : List Obs :=
  [⟨false, ['A'], 0, 7200, [0]⟩, ⟨false, ['B'], 7200, -3600, [9000]⟩, ⟨false, ['C'], -3600, 0, [0]⟩]

/-- the table `get_transitions` builds for `d23`: UTC column 01:00, 00:00, 00:30 -/
def d23Table : List Ent :=
  [⟨3600, 0, 0, ['C']⟩, ⟨0, 7200, 0, ['A']⟩, ⟨1800, -3600, 0, ['B']⟩]

/-- Without `WellSeparated` the table is not ascending, and at 01:23:20Z the zone object reports
    −01:00 ('B') where RFC 5545 gives +00:00 ('C'). Replayed on the code it fails in both providers. -/
theorem sort_witness :
    getTransitions d23 = some d23Table ∧ ¬ SortedUTC d23Table ∧
    (lookup d23Table 5000).map (fun e => (e.off, e.name)) = some (-3600, ['B']) ∧
    (specAt d23 5000).map (fun b => (b.2.offTo, b.2.name)) = some (0, ['C']) := by
  decide

/-- the full-strength statement is false of the code -/
theorem rfc_onset_full_false : ¬ rfc_onset_full := by
  intro h
  have hw := sort_witness
  have hm : WholeMinutes d23 := by decide
  have hn : NamesConsistent d23 := by decide
  have hu : UniqueOnsets d23 := by
    intro p hp q hq
    have : specEntries d23 = [((0 : Int), d23[0]), (1800, d23[1]), (3600, d23[2])] := by decide
    rw [this] at hp hq
    simp only [List.mem_cons, List.not_mem_nil, or_false] at hp hq
    rcases hp with rfl | rfl | rfl <;> rcases hq with rfl | rfl | rfl <;> decide
  obtain ⟨e, b, h1, h2, _, h4, _⟩ := h d23 d23Table hw.1 hm hn hu 5000 ⟨(0, d23[0]), by decide, by decide⟩
  have h3 := hw.2.2.1
  have h5 := hw.2.2.2
  rw [h1] at h3
  rw [h2] at h5
  simp at h3 h5
  omega

/-! ## the zone cache -/

/-- C12 (cache part) at full strength: whatever was parsed before (`c`) and wherever the VTIMEZONE
    stands, every date-time whose TZID the calendar defines (and the provider does not serve) gets
    that definition. FALSE on the code (D15): see the two witnesses. -/
def cache_own_def_full : Prop :=
  ∀ (P : Prov) (c : Cache Nat) (cal : List (Item Nat)), ownDefOK P c cal = true

private theorem ownDefGo_ok {δ : Type} [DecidableEq δ] (P : Prov) (c : Cache δ) (cal : List (Item δ)) :
    ∀ (rest done : List (Item δ)) (c' : Cache δ), cal = done ++ rest →
      (∀ k d, firstDef done k = some d → cacheGet c' k = some d) →
      (∀ k, firstDef done k = none → cacheGet c' k = cacheGet c k) →
      vtzBeforeUse cal done rest = true → freshFor P c rest = true →
      ownDefGo P cal c' rest = true := by
  intro rest
  induction rest with
  | nil => intros; simp [ownDefGo]
  | cons it r ih =>
    intro done c' hcal i1 i2 hv hf
    cases it with
    | vtz x d =>
      simp only [ownDefGo]
      simp only [vtzBeforeUse] at hv
      simp only [freshFor, Bool.and_eq_true, Option.isNone_iff_eq_none, Bool.not_eq_true'] at hf
      obtain ⟨⟨⟨hf1, hf2⟩, hf3⟩, hf4⟩ := hf
      have hfd : ∀ k, firstDef (done ++ [Item.vtz x d]) k =
          match firstDef done k with | some d' => some d' | none => if stripSlash x = k then some d else none := by
        intro k; rw [firstDef_append]; cases firstDef done k <;> simp [firstDef]
      apply ih (done ++ [Item.vtz x d]) (endVtz P c' x d) (by simp [hcal]) ?_ ?_ hv hf4
      · intro k d0 h0
        rw [hfd] at h0
        rw [cacheGet_endVtz]
        cases hk : firstDef done k with
        | some d' =>
          rw [hk] at h0; simp only [Option.some.injEq] at h0; subst h0
          rw [i1 k d' hk]
        | none =>
          rw [hk] at h0; simp only at h0
          by_cases hxk : stripSlash x = k
          · simp only [hxk, if_true, Option.some.injEq] at h0; subst h0
            rw [i2 k hk, ← hxk, hf1]; simp [hf2, hf3]
          · simp [hxk] at h0
      · intro k h0
        rw [hfd] at h0
        rw [cacheGet_endVtz]
        cases hk : firstDef done k with
        | some d' => rw [hk] at h0; simp at h0
        | none =>
          rw [hk] at h0; simp only at h0
          have hxk : ¬ stripSlash x = k := by intro h; simp [h] at h0
          rw [← i2 k hk]
          cases cacheGet c' k <;> simp [hxk]
    | use x =>
      simp only [ownDefGo, Bool.and_eq_true, Bool.or_eq_true]
      simp only [vtzBeforeUse, Bool.and_eq_true, Bool.or_eq_true, Option.isNone_iff_eq_none,
        Option.isSome_iff_exists] at hv
      simp only [freshFor] at hf
      have hfd : ∀ k, firstDef (done ++ [Item.use x]) k = firstDef done k := by
        intro k; rw [firstDef_append]; cases firstDef done k <;> simp [firstDef]
      refine ⟨?_, ih (done ++ [Item.use x]) c' (by simp [hcal]) ?_ ?_ hv.2 hf⟩
      · by_cases hp : P.provides x = true
        · left; exact hp
        · right
          cases hc : firstDef cal (stripSlash x) with
          | none => rfl
          | some d =>
            simp only
            rcases hv.1 with h | ⟨d', h⟩
            · rw [hc] at h; simp at h
            · have : firstDef cal (stripSlash x) = some d' := by rw [hcal, firstDef_append, h]
              rw [hc] at this; simp only [Option.some.injEq] at this; subst this
              have hp' : P.provides x = false := by simpa using hp
              simp [useTz, hp', i1 _ _ h]
      · intro k d0 h0; rw [hfd] at h0; exact i1 k d0 h0
      · intro k h0; rw [hfd] at h0; exact i2 k h0

/-- C12 (cache part) as it holds of the code: when every use of a calendar-defined TZID stands
    after its VTIMEZONE (complement of `tz-definition-after-use`) and no defined id is already
    cached or provider-known (complement of `tz-cache-first-wins`), every such date-time gets the
    calendar's own definition. -/
theorem cache_own_def_partial {δ : Type} [DecidableEq δ] (P : Prov) (c : Cache δ) (cal : List (Item δ))
    (hpos : vtzBeforeUse cal [] cal = true) (hfresh : freshFor P c cal = true) :
    ownDefOK P c cal = true :=
  ownDefGo_ok P c cal cal [] c rfl (by intro k d h; simp [firstDef] at h) (by intros; rfl) hpos hfresh

/-- a cached definition is never replaced: the first calendar that defines an id wins for the process -/
theorem cache_first_wins {δ : Type} (P : Prov) (cal : List (Item δ)) :
    ∀ (c : Cache δ) (k : Str) (d : δ), cacheGet c k = some d → cacheGet (cacheAfter P c cal) k = some d := by
  induction cal with
  | nil => intro c k d h; exact h
  | cons it r ih =>
    intro c k d h
    cases it with
    | vtz x d' =>
      simp only [cacheAfter]
      apply ih
      rw [cacheGet_endVtz, h]
    | use x => simpa [cacheAfter] using ih c k d h

/-- a provider that knows no ids -/
def P0 : Prov := ⟨fun _ => false, fun _ => false⟩
def XA : Str := ['X', '/', 'A']

/-- D15, history: the second calendar defines X/A as definition 2, its date-time gets definition 1 -/
theorem cache_history_witness :
    parseAll P0 ([] : Cache Nat) [[.vtz XA 1, .use XA], [.vtz XA 2, .use XA]] = [[.custom 1], [.custom 1]] ∧
    ownDefOK P0 (cacheAfter P0 ([] : Cache Nat) [.vtz XA 1, .use XA]) [.vtz XA 2, .use XA] = false := by
  decide

/-- D15, position: a VTIMEZONE after its use is ignored for that date-time (it stays naive) -/
theorem cache_position_witness :
    parseCal P0 ([] : Cache Nat) [.use XA, .vtz XA 1, .use XA] = [.naive, .custom 1] ∧
    ownDefOK P0 ([] : Cache Nat) [.use XA, .vtz XA 1, .use XA] = false := by
  decide

theorem cache_own_def_full_false : ¬ cache_own_def_full := by
  intro h
  have := h P0 [] [.use XA, .vtz XA 1, .use XA]
  rw [cache_position_witness.2] at this
  exact Bool.noConfusion this

/-! ## clause by clause: rounding, `set(transtimes)`, the sort, the DST amount, names, re-parsing -/

/-- `_extract_offsets` rounds TZOFFSETFROM/TZOFFSETTO to the minute: a whole-minute offset (the
    domain of the property) is kept, any other moves by at most 30 s (half a minute goes up) and the
    result is a whole minute. -/
theorem offsets_rounded_to_minute (x : Int) :
    (x % 60 = 0 → roundMin x = x) ∧ roundMin x % 60 = 0 ∧ x - 30 < roundMin x ∧ roundMin x ≤ x + 30 :=
  ⟨roundMin_id, roundMin_near x⟩

example : roundMin 3600 = 3600 ∧ roundMin 3630 = 3660 ∧ roundMin 3629 = 3600 ∧ roundMin (-3630) = -3600 := by decide

/-- `transitions.sort()`: the list `get_transitions` works on is a permutation of the extracted
    tuples, ascending in the tuple order (local time, then from, to, name), and it is the only such
    list — any correct sort gives it. -/
theorem sort_is_the_sorted_permutation (obs : List Obs) :
    (sortedTrs obs).Perm (obs.flatMap extractOffsets) ∧ (sortedTrs obs).Pairwise TrLe ∧
    ∀ l : List Tr, l.Perm (obs.flatMap extractOffsets) → l.Pairwise TrLe → l = sortedTrs obs := by
  refine ⟨sortTr_perm _, sortTr_sorted _, ?_⟩
  intro l hp hs
  exact List.Perm.eq_of_pairwise (le := TrLe) (fun a b _ _ h1 h2 => trLe_antisymm h1 h2) hs (sortTr_sorted _)
    (hp.trans (sortTr_perm _).symm)

/-- `set(transtimes)`: the whole result of `get_transitions` depends only on the SET of onsets of
    each observance — listing them in another order or several times (an RDATE repeated, DTSTART
    also among the RDATEs) changes nothing. -/
theorem onset_set_semantics (f : List Int → List Int) (hf : ∀ l x, x ∈ f l ↔ x ∈ l) (obs : List Obs) :
    getTransitions (obs.map fun o => { o with onsets := f o.onsets }) = getTransitions obs := by
  unfold getTransitions
  rw [sortedTrs_onset_sets f hf obs]
  have : dstOf (obs.map fun o => { o with onsets := f o.onsets }) = dstOf obs := by
    funext nm; exact dstOf_onset_sets f obs nm
  rw [this]

example : ∀ (l : List Int) x, x ∈ (l ++ l.reverse) ↔ x ∈ l := by intro l x; simp

/-- Under `WellSeparated` sorting by local time IS sorting by instant: the UTC column of the table
    is ascending and a permutation of the onset instants `local − TZOFFSETFROM` of all tuples. -/
theorem local_sort_is_utc_sort (obs : List Obs) (ts : List Ent) (hg : getTransitions obs = some ts)
    (hw : WellSeparated obs) :
    (ts.map Ent.utc).Pairwise (· ≤ ·) ∧
    (ts.map Ent.utc).Perm ((obs.flatMap extractOffsets).map fun c => c.loc - c.osfrom) := by
  refine ⟨local_sort_ok obs ts hg hw, ?_⟩
  unfold getTransitions at hg
  obtain ⟨hmap, _⟩ := infoGo_spec (dstOf obs) (sortedTrs obs) [] ts hg
  have e : ts.map Ent.utc = (sortedTrs obs).map (fun c => c.loc - c.osfrom) := hmap
  rw [e]
  exact (sortTr_perm _).map _

/-- The AssertionError of `get_transitions`, exactly: it is raised iff there is at least one
    transition and the `dst` dict marks the name of every transition as DAYLIGHT. -/
theorem assertion_error_iff (obs : List Obs) :
    getTransitions obs = none ↔ sortedTrs obs ≠ [] ∧ ∀ c ∈ sortedTrs obs, dstOf obs c.name = true := by
  unfold getTransitions
  rw [infoGo_none]
  simp

/-- ... and in terms of the definition, when no TZNAME is shared by a STANDARD and a DAYLIGHT
    observance: iff some observance has an onset and every observance that has one is DAYLIGHT
    (finding `daylight-only-definition`; with a shared name see `tzname-shared-by-standard-and-daylight`). -/
theorem assertion_error_iff_daylight_only (obs : List Obs) (hn : NamesConsistent obs) :
    getTransitions obs = none ↔
      (∃ o ∈ obs, o.onsets ≠ []) ∧ ∀ o ∈ obs, o.onsets ≠ [] → o.isDst = true := by
  rw [assertion_error_iff]
  constructor
  · rintro ⟨hne, hall⟩
    constructor
    · obtain ⟨c, hc⟩ := List.exists_mem_of_ne_nil _ hne
      obtain ⟨o, ho, l, hl, _⟩ := mem_sortedTrs.mp hc
      exact ⟨o, ho, List.ne_nil_of_mem hl⟩
    · intro o ho hons
      obtain ⟨l, hl⟩ := List.exists_mem_of_ne_nil _ hons
      have := hall _ (mem_sortedTrs.mpr ⟨o, ho, l, hl, rfl⟩)
      simpa [dstOf_eq hn ho] using this
  · rintro ⟨⟨o, ho, hons⟩, hall⟩
    constructor
    · obtain ⟨l, hl⟩ := List.exists_mem_of_ne_nil _ hons
      exact List.ne_nil_of_mem (mem_sortedTrs.mpr ⟨o, ho, l, hl, rfl⟩)
    · intro c hc
      obtain ⟨o', ho', l, hl, rfl⟩ := mem_sortedTrs.mp hc
      simp only
      rw [dstOf_eq hn ho']
      exact hall o' ho' (List.ne_nil_of_mem hl)

example : getTransitions [⟨true, ['S'], 3600, 7200, [0]⟩] = none ∧
    NamesConsistent [⟨true, ['S'], 3600, 7200, [0]⟩] := by decide

/-- The DST amount of every row, by cases. Let the sorted tuple list be `pre ++ cur :: post` and
    `dst` the name-keyed dict. The row at that position has `cur`'s instant, TZOFFSETTO and name, and
    * STANDARD `cur`: amount 0;
    * DAYLIGHT `cur`, nearest earlier STANDARD tuple `x` (`pre = a ++ x :: b`, `b` all DAYLIGHT) with a
      different TZOFFSETTO: `cur.osto − x.osto`;
    * DAYLIGHT `cur`, `x` has the SAME TZOFFSETTO, or there is no earlier STANDARD tuple: the nearest
      later STANDARD tuple `y` decides, `cur.osto − y.osto` (`timedelta(0)` is falsy: searched again);
    * DAYLIGHT `cur`, `x` has the same TZOFFSETTO and no STANDARD tuple follows: 0. -/
theorem dst_amount_spec (obs : List Obs) (ts : List Ent) (hg : getTransitions obs = some ts)
    (pre post : List Tr) (cur : Tr) (hsplit : sortedTrs obs = pre ++ cur :: post) :
    ∃ e, ts[pre.length]? = some e ∧ e.utc = cur.loc - cur.osfrom ∧ e.off = cur.osto ∧ e.name = cur.name ∧
    (dstOf obs cur.name = false → e.dst = 0) ∧
    (dstOf obs cur.name = true → ∀ a x b, pre = a ++ x :: b → (∀ y ∈ b, dstOf obs y.name = true) →
      dstOf obs x.name = false →
      (cur.osto ≠ x.osto → e.dst = cur.osto - x.osto) ∧
      (cur.osto = x.osto →
        (∀ a' y b', post = a' ++ y :: b' → (∀ z ∈ a', dstOf obs z.name = true) → dstOf obs y.name = false →
          e.dst = cur.osto - y.osto) ∧
        ((∀ z ∈ post, dstOf obs z.name = true) → e.dst = 0))) ∧
    (dstOf obs cur.name = true → (∀ y ∈ pre, dstOf obs y.name = true) →
      ∀ a' y b', post = a' ++ y :: b' → (∀ z ∈ a', dstOf obs z.name = true) → dstOf obs y.name = false →
        e.dst = cur.osto - y.osto) := by
  unfold getTransitions at hg
  rw [hsplit] at hg
  obtain ⟨d, hd, hnth⟩ := infoGo_nth pre [] cur post ts hg
  rw [List.append_nil] at hd
  obtain ⟨c1, c2, c3⟩ := dstOffset_cases hd
  exact ⟨_, hnth, rfl, rfl, rfl, c1, c2, c3⟩

/-- two winters and two summers: the hypotheses of `dst_amount_spec` at the first summer onset -/
def cet4 : List Obs :=
  [⟨false, ['C', 'E', 'T'], 7200, 3600, [941338800, 972788400]⟩,
   ⟨true, ['C', 'E', 'S', 'T'], 3600, 7200, [954036000, 985485600]⟩]

example : (getTransitions cet4).isSome = true ∧ sortedTrs cet4 = [⟨941338800, 7200, 3600, ['C', 'E', 'T']⟩] ++
    ⟨954036000, 3600, 7200, ['C', 'E', 'S', 'T']⟩ ::
      [⟨972788400, 7200, 3600, ['C', 'E', 'T']⟩, ⟨985485600, 3600, 7200, ['C', 'E', 'S', 'T']⟩] := by decide

/-- The name loop: every component keeps its fields, an explicit TZNAME verbatim; the names
    generated for components without TZNAME are pairwise distinct (and distinct from the names
    `taken` by earlier generated ones); when the candidates `zone_dtstart_from_to` are already
    pairwise distinct they are used as they are. Explicit names never enter the `tznames` set. -/
theorem names_resolved (os : List ObsIn) (taken : List Str) :
    (resolveNames os taken).length = os.length ∧
    (∀ p ∈ os.zip (resolveNames os taken), Resolved p.1 p.2) ∧
    (genNames os (resolveNames os taken)).Nodup ∧
    (∀ n ∈ genNames os (resolveNames os taken), n ∉ taken) ∧
    ((autosOf os).Nodup → (∀ n ∈ autosOf os, n ∉ taken) → genNames os (resolveNames os taken) = autosOf os) :=
  ⟨resolveNames_length os taken, resolveNames_fields os taken, (genNames_fresh os taken).1,
    (genNames_fresh os taken).2, genNames_eq_autos os taken⟩

/-- two name-less components with the same candidate: the second gets `_1` -/
example : (resolveNames [⟨false, none, ['Z'], 0, 0, [0]⟩, ⟨true, some ['D'], [], 0, 3600, [5]⟩,
    ⟨false, none, ['Z'], 3600, 0, [9]⟩] []).map (·.name) = [['Z'], ['D'], ['Z', '_', '1']] := by decide

/-- Parsing a calendar again: the cache after the second parse is the cache after the first
    (`cacheAfter` is idempotent), so from the second parse on the answers never change. -/
theorem cache_reparse_idempotent {δ : Type} (P : Prov) (c : Cache δ) (cal : List (Item δ)) :
    cacheAfter P (cacheAfter P c cal) cal = cacheAfter P c cal :=
  cacheAfter_noop P cal _ (fun x d h => cacheAfter_settles P cal c x d h)

/-- From the second parse of the same calendar on, every date-time is answered from one fixed
    cache, whatever the position of the VTIMEZONEs: the `n` further parses all give
    `useTz` of the settled cache for each TZID use, in file order. -/
theorem reparse_position_independent {δ : Type} (P : Prov) (c : Cache δ) (cal : List (Item δ)) (n : Nat) :
    parseAll P (cacheAfter P c cal) (List.replicate n cal) =
      List.replicate n ((usesOf cal).map (useTz P (cacheAfter P c cal))) := by
  induction n with
  | zero => rfl
  | succ n ih =>
    simp only [List.replicate_succ, parseAll]
    rw [cache_reparse_idempotent, ih,
      parseCal_settled P cal _ (fun x d h => cacheAfter_settles P cal c x d h)]

/-- ... while the FIRST parse may differ from all later ones (finding `tz-definition-after-use`):
    the date-time before its VTIMEZONE is naive the first time and zoned every later time. -/
theorem reparse_differs_witness :
    parseAll P0 ([] : Cache Nat) [[.use XA, .vtz XA 1], [.use XA, .vtz XA 1], [.use XA, .vtz XA 1]] =
      [[.naive], [.custom 1], [.custom 1]] := by decide

/-! Non-vacuity: a two-observance DST definition satisfies every hypothesis of `rfc_onset_partial`,
    and a calendar with the VTIMEZONE first satisfies those of `cache_own_def_partial`. -/
def cetPair : List Obs :=
  [⟨false, ['C', 'E', 'T'], 7200, 3600, [941338800, 972788400]⟩,
   ⟨true, ['C', 'E', 'S', 'T'], 3600, 7200, [954036000, 985485600]⟩]

example : (getTransitions cetPair).isSome = true := by decide
example : WholeMinutes cetPair := by decide
example : NamesConsistent cetPair := by decide
example : WellSeparated cetPair := by decide
example : (specAt cetPair 960000000).map (fun b => b.2.name) = some ['C', 'E', 'S', 'T'] := by decide
example : vtzBeforeUse [Item.vtz XA 1, .use XA] [] [Item.vtz XA 1, .use XA] = true ∧
    freshFor P0 ([] : Cache Nat) [Item.vtz XA 1, .use XA] = true := by decide

/-- wave 8 (tools/py2lean.py, Gen/BodiesTz.lean): the second half of `Timezone.get_transitions` - everything after
    `transitions.sort()`: `transition_times`, the loop over `enumerate(transitions)` with the searches backwards and
    forwards by index, `if not dst_offset` (true for `False` and for `timedelta(0)`), `assert dst_offset is not False` -
    regenerated from the source and run on the model's sorted transitions with the model's `dst` is the model's `infoGo`:
    the same rows, and AssertionError exactly where the model has none -/
theorem body_get_transitions_info (dst : Str → Bool) (trs : List Tr) :
    Bodies.transitionsInfoP dst trs = Bodies.infoView (infoGo dst [] trs) :=
  Bodies.transitionsInfoP_eq dst trs

end ICal.C12
