/-
  C12 — a VTIMEZONE is interpreted per RFC 5545 onset rules; a calendar's date-times get the
  calendar's own definition.
  Property theorems only; helper lemmas are in ICal/Lemmas/Tz.lean, the model in ICal/Model/Tz.lean:
    getTransitions = Timezone.get_transitions (sort by LOCAL time, utc = local − from, DST amounts),
    lookup         = the pytz DstTzInfo built from that table (bisect_right),
    specAt         = RFC 5545: the observance with the latest onset (local − TZOFFSETFROM) not after t,
    parseCal / parseAll / endVtz / useTz = the process-wide zone cache driven by Component.from_ical.
  The zoneinfo path hands the definition to dateutil.tz.tzical (external): it is compared with
  `specAt` by the correspondence run only (level: partial, see MANIFEST).
-/
import ICal.Lemmas.Tz
import ICal.Lemmas.BodiesTz
namespace ICal.C12
open ICal.Tz

/-- the zone object answers at `t` with the offset and name of the RFC observance, and with a zero
    DST amount when that observance is STANDARD -/
def AgreesWithSpec (obs : List Obs) (ts : List Ent) (t : Int) : Prop :=
  ∃ e b, lookup ts t = some e ∧ specAt obs t = some b ∧
    e.utc = b.1 ∧ e.off = b.2.offTo ∧ e.name = b.2.name ∧ (b.2.isDst = false → e.dst = 0)

/-- C12 (interpretation part) at full strength: for every definition with whole-minute offsets,
    names not shared between STANDARD and DAYLIGHT and unambiguous simultaneous onsets, at every
    instant not before the first onset. FALSE on the code (D23): see `sort_witness`. -/
def rfc_onset_full : Prop :=
  ∀ (obs : List Obs) (ts : List Ent), getTransitions obs = some ts →
    WholeMinutes obs → NamesConsistent obs → UniqueOnsets obs →
    ∀ t, (∃ p ∈ specEntries obs, p.1 ≤ t) → AgreesWithSpec obs ts t

/-- If the table that `get_transitions` built is ascending in UTC, the pytz zone object answers
    with the RFC observance at every instant from the first onset on: offset, name, and a zero DST
    amount for STANDARD. -/
theorem lookup_is_spec (obs : List Obs) (ts : List Ent) (hg : getTransitions obs = some ts)
    (hm : WholeMinutes obs) (hn : NamesConsistent obs) (hu : UniqueOnsets obs) (hs : SortedUTC ts)
    (t : Int) (hfirst : ∃ p ∈ specEntries obs, p.1 ≤ t) : AgreesWithSpec obs ts t := by
  unfold getTransitions at hg
  obtain ⟨hmap, hrow⟩ := infoGo_spec (dstOf obs) (sortedTrs obs) [] ts hg
  -- every RFC onset is a row of the table
  have honset : ∀ p ∈ specEntries obs, ∃ e ∈ ts, e.utc = p.1 := by
    intro p hp
    obtain ⟨o, ho, l, hl, rfl⟩ := mem_specEntries.mp hp
    have hc : (⟨l, roundMin o.offFrom, roundMin o.offTo, o.name⟩ : Tr) ∈ sortedTrs obs :=
      mem_sortedTrs.mpr ⟨o, ho, l, hl, rfl⟩
    have : l - roundMin o.offFrom ∈ (sortedTrs obs).map (fun c => c.loc - c.osfrom) :=
      List.mem_map.mpr ⟨_, hc, rfl⟩
    rw [← hmap] at this
    obtain ⟨e, he, heq⟩ := List.mem_map.mp this
    refine ⟨e, he, ?_⟩
    rw [heq, roundMin_id (hm o ho).1]
  -- every row of the table is an RFC onset with the observance's data
  have hrow' : ∀ e ∈ ts, ∃ o ∈ obs, (e.utc, o) ∈ specEntries obs ∧ e.off = o.offTo ∧ e.name = o.name ∧
      (o.isDst = false → e.dst = 0) := by
    intro e he
    obtain ⟨c, hc, h1, h2, h3, h4⟩ := hrow e he
    obtain ⟨o, ho, l, hl, rfl⟩ := mem_sortedTrs.mp hc
    refine ⟨o, ho, ?_, ?_, h3, ?_⟩
    · rw [h1]; simp only; rw [roundMin_id (hm o ho).1]
      exact mem_specEntries.mpr ⟨o, ho, l, hl, rfl⟩
    · rw [h2]; exact roundMin_id (hm o ho).2
    · intro hd; apply h4; simp only; rw [dstOf_eq hn ho]; exact hd
  -- the head of an ascending table is its earliest row
  obtain ⟨p, hp, hpt⟩ := hfirst
  obtain ⟨ep, hep, hepu⟩ := honset p hp
  obtain ⟨e0, h0⟩ : ∃ e0, ts.head? = some e0 := by
    cases ts with
    | nil => simp at hep
    | cons a as => exact ⟨a, rfl⟩
  have h0le : e0.utc ≤ ep.utc := by
    cases ts with
    | nil => simp at hep
    | cons a as =>
      simp at h0; subst h0
      rcases List.mem_cons.mp hep with rfl | hin
      · exact Int.le_refl _
      · have hs' : (a.utc :: as.map Ent.utc).Pairwise (· ≤ ·) := hs
        exact (List.pairwise_cons.mp hs').1 _ (List.mem_map.mpr ⟨ep, hin, rfl⟩)
  obtain ⟨e, hlk, hemem, het, hmax⟩ := lookup_latest ts hs t e0 h0 (by omega)
  obtain ⟨o, ho, hspec, hoff, hname, hdst⟩ := hrow' e hemem
  -- the RFC reading exists and names the same instant
  cases hsp : specAt obs t with
  | none => exact absurd het (specAt_none hsp _ hspec)
  | some b =>
    obtain ⟨hb1, hb2, hb3⟩ := specAt_latest hsp
    obtain ⟨eb, hebm, hebu⟩ := honset b hb1
    have h1 : b.1 ≤ e.utc := by rw [← hebu]; exact hmax eb hebm (by omega)
    have h2 : e.utc ≤ b.1 := hb3 _ hspec het
    have heq : e.utc = b.1 := by omega
    obtain ⟨u1, u2, u3⟩ := hu _ hspec _ hb1 heq
    refine ⟨e, b, hlk, hsp, heq, ?_, ?_, ?_⟩
    · rw [hoff]; exact u1
    · rw [hname]; exact u2
    · intro hd; apply hdst; rw [u3]; exact hd

/-- Sorting by local time is sorting by instant when any two onsets at different instants are
    further apart than the difference of their TZOFFSETFROMs. -/
theorem local_sort_ok (obs : List Obs) (ts : List Ent) (hg : getTransitions obs = some ts)
    (hw : WellSeparated obs) : SortedUTC ts := by
  unfold getTransitions at hg
  obtain ⟨hmap, _⟩ := infoGo_spec (dstOf obs) (sortedTrs obs) [] ts hg
  unfold SortedUTC
  have e : ts.map Ent.utc = (sortedTrs obs).map (fun c => c.loc - c.osfrom) := hmap
  rw [e, List.pairwise_map]
  have hp : (sortedTrs obs).Pairwise LocLe := pairwise_sortTr _
  refine List.Pairwise.imp_of_mem ?_ hp
  intro a b ha hb hab
  obtain ⟨o, ho, l, hl, rfl⟩ := mem_sortedTrs.mp ha
  obtain ⟨o', ho', l', hl', rfl⟩ := mem_sortedTrs.mp hb
  simp only [LocLe] at hab
  simp only
  by_cases hlt : l' - roundMin o'.offFrom < l - roundMin o.offFrom
  · have := hw o' ho' l' hl' o ho l hl hlt
    omega
  · omega

/-- C12 (interpretation part) as it holds of the code: the extra hypothesis `WellSeparated` is
    exactly the complement of the finding class `onsets-closer-than-jump`. -/
theorem rfc_onset_partial (obs : List Obs) (ts : List Ent) (hg : getTransitions obs = some ts)
    (hm : WholeMinutes obs) (hn : NamesConsistent obs) (hu : UniqueOnsets obs) (hw : WellSeparated obs)
    (t : Int) (hfirst : ∃ p ∈ specEntries obs, p.1 ≤ t) : AgreesWithSpec obs ts t :=
  lookup_is_spec obs ts hg hm hn hu (local_sort_ok obs ts hg hw) t hfirst

/-- D23: onsets at 00:00Z (+0 → +2), 00:30Z (+2 → −1), 01:00Z (−1 → +0), written in local time -/
def d23 : List Obs :=
  [⟨false, ['A'], 0, 7200, [0]⟩, ⟨false, ['B'], 7200, -3600, [9000]⟩, ⟨false, ['C'], -3600, 0, [0]⟩]

/-- the table `get_transitions` builds for `d23`: UTC column 01:00, 00:00, 00:30 -/
def d23Table : List Ent :=
  [⟨3600, 0, 0, ['C']⟩, ⟨0, 7200, 0, ['A']⟩, ⟨1800, -3600, 0, ['B']⟩]

/-- Without `WellSeparated` the table is not ascending, and at 01:23:20Z the zone object reports
    −01:00 ('B') where RFC 5545 gives +00:00 ('C'). Replayed on the code it fails in both providers. -/
theorem sort_witness :
    getTransitions d23 = some d23Table ∧ ¬ SortedUTC d23Table ∧
    (lookup d23Table 5000).map (fun e => (e.off, e.name)) = some (-3600, ['B']) ∧
    (specAt d23 5000).map (fun b => (b.2.offTo, b.2.name)) = some (0, ['C']) := by
  decide

/-- the full-strength statement is false of the code -/
theorem rfc_onset_full_false : ¬ rfc_onset_full := by
  intro h
  have hw := sort_witness
  have hm : WholeMinutes d23 := by decide
  have hn : NamesConsistent d23 := by decide
  have hu : UniqueOnsets d23 := by
    intro p hp q hq
    have : specEntries d23 = [((0 : Int), d23[0]), (1800, d23[1]), (3600, d23[2])] := by decide
    rw [this] at hp hq
    simp only [List.mem_cons, List.not_mem_nil, or_false] at hp hq
    rcases hp with rfl | rfl | rfl <;> rcases hq with rfl | rfl | rfl <;> decide
  obtain ⟨e, b, h1, h2, _, h4, _⟩ := h d23 d23Table hw.1 hm hn hu 5000 ⟨(0, d23[0]), by decide, by decide⟩
  have h3 := hw.2.2.1
  have h5 := hw.2.2.2
  rw [h1] at h3
  rw [h2] at h5
  simp at h3 h5
  omega

/-! ## the zone cache -/

/-- C12 (cache part) at full strength: whatever was parsed before (`c`) and wherever the VTIMEZONE
    stands, every date-time whose TZID the calendar defines (and the provider does not serve) gets
    that definition. FALSE on the code (D15): see the two witnesses. -/
def cache_own_def_full : Prop :=
  ∀ (P : Prov) (c : Cache Nat) (cal : List (Item Nat)), ownDefOK P c cal = true

private theorem ownDefGo_ok {δ : Type} [DecidableEq δ] (P : Prov) (c : Cache δ) (cal : List (Item δ)) :
    ∀ (rest done : List (Item δ)) (c' : Cache δ), cal = done ++ rest →
      (∀ k d, firstDef done k = some d → cacheGet c' k = some d) →
      (∀ k, firstDef done k = none → cacheGet c' k = cacheGet c k) →
      vtzBeforeUse cal done rest = true → freshFor P c rest = true →
      ownDefGo P cal c' rest = true := by
  intro rest
  induction rest with
  | nil => intros; simp [ownDefGo]
  | cons it r ih =>
    intro done c' hcal i1 i2 hv hf
    cases it with
    | vtz x d =>
      simp only [ownDefGo]
      simp only [vtzBeforeUse] at hv
      simp only [freshFor, Bool.and_eq_true, Option.isNone_iff_eq_none, Bool.not_eq_true'] at hf
      obtain ⟨⟨⟨hf1, hf2⟩, hf3⟩, hf4⟩ := hf
      have hfd : ∀ k, firstDef (done ++ [Item.vtz x d]) k =
          match firstDef done k with | some d' => some d' | none => if stripSlash x = k then some d else none := by
        intro k; rw [firstDef_append]; cases firstDef done k <;> simp [firstDef]
      apply ih (done ++ [Item.vtz x d]) (endVtz P c' x d) (by simp [hcal]) ?_ ?_ hv hf4
      · intro k d0 h0
        rw [hfd] at h0
        rw [cacheGet_endVtz]
        cases hk : firstDef done k with
        | some d' =>
          rw [hk] at h0; simp only [Option.some.injEq] at h0; subst h0
          rw [i1 k d' hk]
        | none =>
          rw [hk] at h0; simp only at h0
          by_cases hxk : stripSlash x = k
          · simp only [hxk, if_true, Option.some.injEq] at h0; subst h0
            rw [i2 k hk, ← hxk, hf1]; simp [hf2, hf3]
          · simp [hxk] at h0
      · intro k h0
        rw [hfd] at h0
        rw [cacheGet_endVtz]
        cases hk : firstDef done k with
        | some d' => rw [hk] at h0; simp at h0
        | none =>
          rw [hk] at h0; simp only at h0
          have hxk : ¬ stripSlash x = k := by intro h; simp [h] at h0
          rw [← i2 k hk]
          cases cacheGet c' k <;> simp [hxk]
    | use x =>
      simp only [ownDefGo, Bool.and_eq_true, Bool.or_eq_true]
      simp only [vtzBeforeUse, Bool.and_eq_true, Bool.or_eq_true, Option.isNone_iff_eq_none,
        Option.isSome_iff_exists] at hv
      simp only [freshFor] at hf
      have hfd : ∀ k, firstDef (done ++ [Item.use x]) k = firstDef done k := by
        intro k; rw [firstDef_append]; cases firstDef done k <;> simp [firstDef]
      refine ⟨?_, ih (done ++ [Item.use x]) c' (by simp [hcal]) ?_ ?_ hv.2 hf⟩
      · by_cases hp : P.provides x = true
        · left; exact hp
        · right
          cases hc : firstDef cal (stripSlash x) with
          | none => rfl
          | some d =>
            simp only
            rcases hv.1 with h | ⟨d', h⟩
            · rw [hc] at h; simp at h
            · have : firstDef cal (stripSlash x) = some d' := by rw [hcal, firstDef_append, h]
              rw [hc] at this; simp only [Option.some.injEq] at this; subst this
              have hp' : P.provides x = false := by simpa using hp
              simp [useTz, hp', i1 _ _ h]
      · intro k d0 h0; rw [hfd] at h0; exact i1 k d0 h0
      · intro k h0; rw [hfd] at h0; exact i2 k h0

/-- C12 (cache part) as it holds of the code: when every use of a calendar-defined TZID stands
    after its VTIMEZONE (complement of `tz-definition-after-use`) and no defined id is already
    cached or provider-known (complement of `tz-cache-first-wins`), every such date-time gets the
    calendar's own definition. -/
theorem cache_own_def_partial {δ : Type} [DecidableEq δ] (P : Prov) (c : Cache δ) (cal : List (Item δ))
    (hpos : vtzBeforeUse cal [] cal = true) (hfresh : freshFor P c cal = true) :
    ownDefOK P c cal = true :=
  ownDefGo_ok P c cal cal [] c rfl (by intro k d h; simp [firstDef] at h) (by intros; rfl) hpos hfresh

/-- a cached definition is never replaced: the first calendar that defines an id wins for the process -/
theorem cache_first_wins {δ : Type} (P : Prov) (cal : List (Item δ)) :
    ∀ (c : Cache δ) (k : Str) (d : δ), cacheGet c k = some d → cacheGet (cacheAfter P c cal) k = some d := by
  induction cal with
  | nil => intro c k d h; exact h
  | cons it r ih =>
    intro c k d h
    cases it with
    | vtz x d' =>
      simp only [cacheAfter]
      apply ih
      rw [cacheGet_endVtz, h]
    | use x => simpa [cacheAfter] using ih c k d h

/-- a provider that knows no ids -/
def P0 : Prov := ⟨fun _ => false, fun _ => false⟩
def XA : Str := ['X', '/', 'A']

/-- D15, history: the second calendar defines X/A as definition 2, its date-time gets definition 1 -/
theorem cache_history_witness :
    parseAll P0 ([] : Cache Nat) [[.vtz XA 1, .use XA], [.vtz XA 2, .use XA]] = [[.custom 1], [.custom 1]] ∧
    ownDefOK P0 (cacheAfter P0 ([] : Cache Nat) [.vtz XA 1, .use XA]) [.vtz XA 2, .use XA] = false := by
  decide

/-- D15, position: a VTIMEZONE after its use is ignored for that date-time (it stays naive) -/
theorem cache_position_witness :
    parseCal P0 ([] : Cache Nat) [.use XA, .vtz XA 1, .use XA] = [.naive, .custom 1] ∧
    ownDefOK P0 ([] : Cache Nat) [.use XA, .vtz XA 1, .use XA] = false := by
  decide

theorem cache_own_def_full_false : ¬ cache_own_def_full := by
  intro h
  have := h P0 [] [.use XA, .vtz XA 1, .use XA]
  rw [cache_position_witness.2] at this
  exact Bool.noConfusion this

/-! Non-vacuity: a two-observance DST definition satisfies every hypothesis of `rfc_onset_partial`,
    and a calendar with the VTIMEZONE first satisfies those of `cache_own_def_partial`. -/
def cetPair : List Obs :=
  [⟨false, ['C', 'E', 'T'], 7200, 3600, [941338800, 972788400]⟩,
   ⟨true, ['C', 'E', 'S', 'T'], 3600, 7200, [954036000, 985485600]⟩]

example : (getTransitions cetPair).isSome = true := by decide
example : WholeMinutes cetPair := by decide
example : NamesConsistent cetPair := by decide
example : WellSeparated cetPair := by decide
example : (specAt cetPair 960000000).map (fun b => b.2.name) = some ['C', 'E', 'S', 'T'] := by decide
example : vtzBeforeUse [Item.vtz XA 1, .use XA] [] [Item.vtz XA 1, .use XA] = true ∧
    freshFor P0 ([] : Cache Nat) [Item.vtz XA 1, .use XA] = true := by decide

/-- wave 8 (tools/py2lean.py, Gen/BodiesTz.lean): the second half of `Timezone.get_transitions` - everything after
    `transitions.sort()`: `transition_times`, the loop over `enumerate(transitions)` with the searches backwards and
    forwards by index, `if not dst_offset` (true for `False` and for `timedelta(0)`), `assert dst_offset is not False` -
    regenerated from the source and run on the model's sorted transitions with the model's `dst` is the model's `infoGo`:
    the same rows, and AssertionError exactly where the model has none -/
theorem body_get_transitions_info (dst : Str → Bool) (trs : List Tr) :
    Bodies.transitionsInfoP dst trs = Bodies.infoView (infoGo dst [] trs) :=
  Bodies.transitionsInfoP_eq dst trs

end ICal.C12
