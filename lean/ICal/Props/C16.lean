/-
  C16 — start / end / duration of VEVENT, VTODO (and VJOURNAL) after any edit history.
  Property theorems only; the model is ICal/Model/StartEnd.lean, helper lemmas ICal/Lemmas/StartEnd.lean.

  `getStart / getEnd / getDuration` model `.start / .end / .duration`; `getProp`, `getDur` the upper-case
  accessors; `step` one setter / deleter / `add` operation; `run` a whole history (an operation that raises
  leaves the component unchanged).  Values: `date d` (day number), `floating w`, `utc w`, `zoned z w off`
  (wall-clock seconds), durations are whole seconds.
-/
import ICal.Lemmas.StartEnd
import ICal.Lemmas.BodiesSE
import ICal.Lemmas.BodiesSEFull
import ICal.Lemmas.BodiesSEDesc
namespace ICal.C16
open ICal.SE

/-! ## exclusivity over setter / deleter histories -/

/-- The `exclusive` tuples of cal.py as regenerated into `Gen.compClasses` on this run; `excl_step` and `excl_inv`
    are proved through these equations, so a changed group breaks them. -/
theorem exclusive_groups :
    exclusive .event = [.dtend, .duration] ∧ exclusive .todo = [.due, .duration] ∧ exclusive .journal = [] :=
  ⟨exclusive_event, exclusive_todo, exclusive_journal⟩

/-- A new component holds neither an end property nor DURATION. -/
theorem excl_init : Inv St.init := inv_init

/-- One setter or deleter call, whatever its argument and whether or not it raises, keeps
    "not both DTEND and DURATION, not both DUE and DURATION" — from *any* state that has it. -/
theorem excl_step (c : Cls) (s : St) (op : Op) (he : op.isEdit = true) (hi : Inv s) : Inv (next c s op) :=
  inv_step c s op he hi

/-- Every state reachable from a new Event / Todo / Journal by any sequence of DTSTART, DTEND, DUE, DURATION,
    start, end setter calls (with None, wrong-typed, date, date-time or timedelta arguments) and deleter calls
    holds at most one of the end property and DURATION. -/
theorem excl_inv (c : Cls) (ops : List Op) (h : ∀ op ∈ ops, op.isEdit = true) :
    ¬ ((run c St.init ops).dtend.present = true ∧ (run c St.init ops).duration.present = true) ∧
    ¬ ((run c St.init ops).due.present = true ∧ (run c St.init ops).duration.present = true) :=
  inv_run c ops St.init h inv_init

/-- The same from any starting state that satisfies the invariant (e.g. a parsed, valid component). -/
theorem excl_inv_from (c : Cls) (s : St) (ops : List Op) (hi : Inv s) (h : ∀ op ∈ ops, op.isEdit = true) :
    Inv (run c s ops) := inv_run c ops s h hi

/-- Consequently the "both" error never fires after a setter / deleter history. -/
theorem excl_getters (c : Cls) (ops : List Op) (h : ∀ op ∈ ops, op.isEdit = true) :
    ¬ (((run c St.init ops).get (endKey c)).present = true ∧ (run c St.init ops).duration.present = true)
      ∨ c = .journal := by
  have hi := excl_inv c ops h
  cases c
  · exact Or.inl hi.1
  · exact Or.inl hi.2
  · exact Or.inr rfl

/-- `add` is not covered and cannot be: two `add` calls store both.  (That state is reported, see `both_reported`.) -/
theorem excl_add_witness :
    ¬ Inv (run .event St.init [.add .dtend (.val (.date 18262)), .add .duration (.val (.dur 86400))]) := by
  unfold SE.Inv; decide

/-! ## the values the getters return -/

/-- Whenever `.start` and `.end` are defined: with DURATION stored, end = start + DURATION; with only DTSTART
    stored, end = start + 1 day for a date and end = start for a date-time; with DTEND / DUE stored, end is
    that value; and start is the stored DTSTART. -/
theorem end_def (c : Cls) (s : St) (st e : Val) (hc : c ≠ .journal)
    (hs : getStart c s = .ok st) (he : getEnd c s = .ok e) :
    s.dtstart = .one st ∧
    (∀ x, s.duration = .one (.dur x) → e = st.addDur x) ∧
    (s.duration = .absent → s.get (endKey c) = .absent →
        (st.isDate = true → e = st.addDur 86400) ∧ (st.isDate = false → e = st)) ∧
    (∀ v, s.get (endKey c) = .one v → e = v) := by
  cases hh : getSED c s with
  | error err => rw [getStart_err hc hh] at hs; simp at hs
  | ok t =>
    obtain ⟨so, en, du⟩ := t
    obtain ⟨h1, h2, h3, h4⟩ := getSED_ok_iff.mp hh
    rw [getStart_ok hc hh] at hs
    rw [getEnd_ok hc hh] at he
    cases so with
    | none => simp [startOf] at hs
    | some v =>
      simp [startOf] at hs; subst hs
      refine ⟨(getProp_ok_some h1).1, ?_, ?_, ?_⟩
      · intro x hx
        rw [hx] at h3; simp [getDur] at h3; subst h3
        cases en <;> simp [endOf] at he <;> exact he.symm
      · intro hd hen
        rw [hd] at h3; simp [getDur] at h3; subst h3
        rw [hen] at h2; simp [getProp] at h2; subst h2
        simp only [endOf] at he
        constructor
        · intro hdate; simp [hdate] at he; exact he.symm
        · intro hdate; simp [hdate] at he; exact he.symm
      · intro w hw
        rw [hw] at h2
        have : en = some w := getProp_one_ok h2
        subst this
        cases du with
        | some x => simp [forbidden] at h4
        | none => simp [endOf] at he; exact he.symm

/-- "one day later": for a date, adding 86400 seconds is the next day number. -/
theorem date_plus_day (d : Int) : (Val.date d).addDur 86400 = Val.date (d + 1) := by
  simp [Val.addDur]

/-- A defined start always has a defined end and a defined duration: the checks of
    `_get_start_end_duration` leave no pair of values on which `+` or `-` could raise. -/
theorem end_duration_defined (p : Prov) (c : Cls) (s : St) (st : Val) (hc : c ≠ .journal)
    (hs : getStart c s = .ok st) : ∃ e d, getEnd c s = .ok e ∧ getDuration p c s = .ok d := by
  cases hh : getSED c s with
  | error err => rw [getStart_err hc hh] at hs; simp at hs
  | ok t =>
    obtain ⟨so, en, du⟩ := t
    have w := getSED_wf hh
    rw [getStart_ok hc hh] at hs
    cases so with
    | none => simp [startOf] at hs
    | some v =>
      simp [startOf] at hs; subst hs
      obtain ⟨e, he, d, hd⟩ := endOf_defined p w
      refine ⟨e, d, by rw [getEnd_ok hc hh, he], ?_⟩
      rw [getDuration_eq hc, getEnd_ok hc hh, he, getStart_ok hc hh]
      simpa [Except.bind, startOf] using hd

/-- Whenever start and end are defined, duration is defined and is `end - start`. -/
theorem duration_def (p : Prov) (c : Cls) (s : St) (st e : Val) (hc : c ≠ .journal)
    (hs : getStart c s = .ok st) (he : getEnd c s = .ok e) :
    getDuration p c s = Val.sub p e st ∧ ∃ d, getDuration p c s = .ok d := by
  obtain ⟨e', d, he', hd⟩ := end_duration_defined p c s st hc hs
  refine ⟨?_, d, hd⟩
  rw [getDuration_eq hc, he, hs]; rfl

/-- With DURATION stored, the computed duration is DURATION itself: (start + d) - start = d, for dates,
    floating, UTC and zoned date-times under both providers. -/
theorem duration_of_DURATION (p : Prov) (c : Cls) (s : St) (st : Val) (x : Int) (hc : c ≠ .journal)
    (hs : getStart c s = .ok st) (hx : s.duration = .one (.dur x)) : getDuration p c s = .ok x := by
  obtain ⟨e, d, he, _⟩ := end_duration_defined p c s st hc hs
  obtain ⟨h0, h1, _, _⟩ := end_def c s st e hc hs he
  have hde := (duration_def p c s st e hc hs he).1
  rw [hde, h1 x hx]
  cases hh : getSED c s with
  | error err => rw [getStart_err hc hh] at hs; simp at hs
  | ok t =>
    obtain ⟨so, en, du⟩ := t
    have w := getSED_wf hh
    obtain ⟨g1, _, g3, g4⟩ := getSED_ok_iff.mp hh
    rw [getStart_ok hc hh] at hs
    cases so with
    | none => simp [startOf] at hs
    | some v =>
      simp [startOf] at hs; subst hs
      rw [hx] at g3; simp [getDur] at g3; subst g3
      apply sub_addDur p x (w.hs v rfl)
      intro hdate
      cases v <;> simp [Val.isDate] at hdate
      cases en <;> simp [forbidden, dateWithTime, kindMismatch, tzMismatch] at g4 <;> simp [g4]

/-- With only DTSTART stored, duration is one day for a date and zero for a date-time. -/
theorem duration_start_only (p : Prov) (c : Cls) (s : St) (st : Val) (hc : c ≠ .journal)
    (hs : getStart c s = .ok st) (hd : s.duration = .absent) (hen : s.get (endKey c) = .absent) :
    getDuration p c s = .ok (if st.isDate then 86400 else 0) := by
  obtain ⟨e, d, he, _⟩ := end_duration_defined p c s st hc hs
  obtain ⟨h0, _, h2, _⟩ := end_def c s st e hc hs he
  have hde := (duration_def p c s st e hc hs he).1
  have hdt : st.isDT = true := by
    cases hh : getSED c s with
    | error err => rw [getStart_err hc hh] at hs; simp at hs
    | ok t =>
      obtain ⟨so, en, du⟩ := t
      have w := getSED_wf hh
      rw [getStart_ok hc hh] at hs
      cases so with
      | none => simp [startOf] at hs
      | some v => simp [startOf] at hs; subst hs; exact w.hs v rfl
  rw [hde]
  by_cases hdate : st.isDate = true
  · rw [(h2 hd hen).1 hdate]; simp [hdate]; exact sub_addDur p 86400 hdt (by intro; rfl)
  · have hf : st.isDate = false := by simpa using hdate
    rw [(h2 hd hen).2 hf]; simp [hf]; exact sub_self p hdt

/-- The difference of two values of the same kind is exact: day difference for dates, wall-clock difference
    for floating, UTC and (zoneinfo) same-zone date-times, absolute difference otherwise. -/
theorem sub_exact (p : Prov) (a b : Val) (d : Int) (h : Val.sub p a b = .ok d) :
    d = a.wall - b.wall ∨ d = (a.wall - a.offset) - (b.wall - b.offset) := by
  cases a <;> cases b <;> simp [Val.sub, Val.isAware, Val.wall, Val.offset] at h ⊢ <;>
    first
    | (left; omega)
    | (split at h <;> omega)
    | omega

/-! ## errors -/

/-- Every error of a getter is InvalidCalendar or IncompleteComponent — for every state whatsoever (lists,
    values of the wrong type in any entry, any combination), every class, both providers.  In particular
    no TypeError from `end - start` or `start + DURATION` and no AttributeError can escape.  The upper-case
    accessors only ever raise InvalidCalendar. -/
theorem errors_documented (p : Prov) (c : Cls) (s : St) :
    (∀ e, getStart c s = .error e → e = .invalidCalendar ∨ e = .incompleteComponent) ∧
    (∀ e, getEnd c s = .error e → e = .invalidCalendar ∨ e = .incompleteComponent) ∧
    (∀ e, getDuration p c s = .error e → e = .invalidCalendar ∨ e = .incompleteComponent) ∧
    (∀ k e, getProp (s.get k) = .error e → e = .invalidCalendar) ∧
    (∀ e, getDur s.duration = .error e → e = .invalidCalendar) := by
  have hj : ∀ e, getStart .journal s = .error e → e = .invalidCalendar ∨ e = .incompleteComponent := by
    intro e h
    unfold getStart at h
    cases hp : getProp s.dtstart with
    | error e' => simp [hp, bind, Except.bind] at h; subst h; exact Or.inl (getProp_err hp)
    | ok o => cases o <;> simp [hp, bind, Except.bind] at h; exact Or.inr h.symm
  refine ⟨?_, ?_, ?_, fun k e h => getProp_err h, fun e h => getDur_err h⟩
  · intro e h
    by_cases hc : c = .journal
    · subst hc; exact hj e h
    · cases hh : getSED c s with
      | error err => rw [getStart_err hc hh] at h; simp at h; subst h; exact Or.inl (getSED_err hh)
      | ok t =>
        obtain ⟨so, en, du⟩ := t
        rw [getStart_ok hc hh] at h; exact Or.inr (startOf_err h)
  · intro e h
    by_cases hc : c = .journal
    · subst hc; exact hj e h
    · cases hh : getSED c s with
      | error err => rw [getEnd_err hc hh] at h; simp at h; subst h; exact Or.inl (getSED_err hh)
      | ok t =>
        obtain ⟨so, en, du⟩ := t
        rw [getEnd_ok hc hh] at h; exact Or.inr (endOf_err h)
  · intro e h
    by_cases hc : c = .journal
    · subst hc; simp [getDuration] at h
    · cases hh : getSED c s with
      | error err =>
        rw [(sed_error_all p hc hh).2.2] at h; simp at h; exact Or.inl h.symm
      | ok t =>
        obtain ⟨so, en, du⟩ := t
        cases so with
        | none =>
          rw [getDuration_eq hc, getEnd_ok hc hh, getStart_ok hc hh] at h
          cases he : endOf none en du with
          | error e' => rw [he] at h; simp [Except.bind] at h; subst h; exact Or.inr (endOf_err he)
          | ok v => rw [he] at h; simp [Except.bind, startOf] at h; exact Or.inr h.symm
        | some v =>
          have hs : getStart c s = .ok v := by rw [getStart_ok hc hh]; rfl
          obtain ⟨_, d, _, hd⟩ := end_duration_defined p c s v hc hs
          rw [hd] at h; simp at h

/-- Setters raise nothing but TypeError (and then leave the component unchanged, by `next`). -/
theorem setters_documented (c : Cls) (s : St) (a : Acc) (x : Arg) (e : Err)
    (h : step c s (.set a x) = .error e) : e = .typeError := by
  unfold step at h
  cases ht : target c a with
  | none => simp [ht] at h
  | some k =>
    cases k <;> simp [ht] at h <;> cases x <;> (try rename_i v; cases v) <;>
      simp [pSet, setDuration] at h <;> first | exact h.symm | (split at h <;> simp at h; exact h.symm)

/-- Deleters of the class's own accessors never raise (`pop` has a default). -/
theorem deleters_total (c : Cls) (s : St) (k : Key) (h : descr c k = true) :
    step c s (.del k) = .ok (s.put k .absent) := by
  simp [step, h]

/-- `.start = None` / `.end = None` and the upper-case setters given None delete; never an error. -/
theorem set_none_deletes (c : Cls) (s : St) (a : Acc) (k : Key) (h : target c a = some k) :
    step c s (.set a .none) = .ok (s.put k .absent) := by
  cases k <;> simp [step, h, pSet, setDuration]

/-! ## the forbidden states are always reported -/

/-- Both the end property and DURATION stored (possible through `add` or parsing): `.start`, `.end` and
    `.duration` all raise InvalidCalendar, whatever else the component holds. -/
theorem both_reported (p : Prov) (c : Cls) (s : St) (hc : c ≠ .journal)
    (he : (s.get (endKey c)).present = true) (hd : s.duration.present = true) :
    getStart c s = .error .invalidCalendar ∧ getEnd c s = .error .invalidCalendar ∧
      getDuration p c s = .error .invalidCalendar := by
  obtain ⟨e, h⟩ := sed_forbidden (c := c) (s := s) (by
    intro st en du _ h2 h3
    obtain ⟨v, rfl, _⟩ := getProp_present h2 he
    obtain ⟨x, rfl⟩ := getDur_present h3 hd
    simp [forbidden])
  exact sed_error_all p hc h

/-- DTSTART a date and the end property a date-time, or the reverse: reported by all three getters. -/
theorem mismatch_reported (p : Prov) (c : Cls) (s : St) (a b : Val) (hc : c ≠ .journal)
    (hs : s.dtstart = .one a) (he : s.get (endKey c) = .one b) (hm : a.isDate ≠ b.isDate) :
    getStart c s = .error .invalidCalendar ∧ getEnd c s = .error .invalidCalendar ∧
      getDuration p c s = .error .invalidCalendar := by
  obtain ⟨e, h⟩ := sed_forbidden (c := c) (s := s) (by
    intro st en du h1 h2 _
    rw [hs] at h1; rw [he] at h2
    have e1 : st = some a := getProp_one_ok h1
    have e2 : en = some b := getProp_one_ok h2
    subst e1 e2
    have : (a.isDate != b.isDate) = true := by simpa using hm
    simp [forbidden, kindMismatch, this])
  exact sed_error_all p hc h

/-- One of DTSTART and the end property floating, the other UTC or zoned: reported by all three getters
    (commit c5ccc33; before it `.duration` raised TypeError). -/
theorem tz_mismatch_reported (p : Prov) (c : Cls) (s : St) (a b : Val) (hc : c ≠ .journal)
    (hs : s.dtstart = .one a) (he : s.get (endKey c) = .one b)
    (ha : a.isDatetime = true) (hb : b.isDatetime = true) (hm : a.isFloating ≠ b.isFloating) :
    getStart c s = .error .invalidCalendar ∧ getEnd c s = .error .invalidCalendar ∧
      getDuration p c s = .error .invalidCalendar := by
  obtain ⟨e, h⟩ := sed_forbidden (c := c) (s := s) (by
    intro st en du h1 h2 _
    rw [hs] at h1; rw [he] at h2
    have e1 : st = some a := getProp_one_ok h1
    have e2 : en = some b := getProp_one_ok h2
    subst e1 e2
    have : (a.isFloating != b.isFloating) = true := by simpa using hm
    simp [forbidden, tzMismatch, ha, hb, this])
  exact sed_error_all p hc h

/-- DTSTART a date and a DURATION with a time-of-day part: reported by all three getters. -/
theorem date_with_time_duration_reported (p : Prov) (c : Cls) (s : St) (d x : Int) (hc : c ≠ .journal)
    (hs : s.dtstart = .one (.date d)) (hd : s.duration = .one (.dur x)) (hx : x % 86400 ≠ 0) :
    getStart c s = .error .invalidCalendar ∧ getEnd c s = .error .invalidCalendar ∧
      getDuration p c s = .error .invalidCalendar := by
  obtain ⟨e, h⟩ := sed_forbidden (c := c) (s := s) (by
    intro st en du h1 _ h3
    rw [hs] at h1; rw [hd] at h3
    simp [getProp, Val.isDT, Val.isDate] at h1
    simp [getDur] at h3
    subst h1 h3
    simp [forbidden, dateWithTime, hx])
  exact sed_error_all p hc h

/-- A DURATION entry that is not a timedelta (a date, date-time, time or period; commit 6103c08), a list,
    or an entry of the wrong type or a list in DTSTART / the end property: reported by all three getters. -/
theorem invalid_entry_reported (p : Prov) (c : Cls) (s : St) (e : Err) (hc : c ≠ .journal)
    (h : getProp s.dtstart = .error e ∨ getProp (s.get (endKey c)) = .error e ∨ getDur s.duration = .error e) :
    getStart c s = .error .invalidCalendar ∧ getEnd c s = .error .invalidCalendar ∧
      getDuration p c s = .error .invalidCalendar := by
  obtain ⟨e', h'⟩ := sed_forbidden (c := c) (s := s) (by
    intro st en du h1 h2 h3
    rcases h with h | h | h
    · rw [h1] at h; simp at h
    · rw [h2] at h; simp at h
    · rw [h3] at h; simp at h)
  exact sed_error_all p hc h'

/-- No DTSTART: `.start` and `.duration` raise (IncompleteComponent unless the component is also invalid). -/
theorem missing_start_reported (p : Prov) (c : Cls) (s : St) (h : s.dtstart = .absent) (hc : c ≠ .journal) :
    (∃ e, getStart c s = .error e) ∧ (∃ e, getDuration p c s = .error e) ∧
    (∀ st en du, getSED c s = .ok (st, en, du) → getStart c s = .error .incompleteComponent) := by
  have key : ∀ st en du, getSED c s = .ok (st, en, du) → st = none := by
    intro st en du hh
    have h1 := (getSED_ok_iff.mp hh).1
    rw [h] at h1; simp [getProp] at h1; exact h1.symm
  cases hh : getSED c s with
  | error err =>
    obtain ⟨a, _, b⟩ := sed_error_all p hc hh
    exact ⟨⟨_, a⟩, ⟨_, b⟩, by intro st en du h'; simp at h'⟩
  | ok t =>
    obtain ⟨st, en, du⟩ := t
    have := key st en du hh; subst this
    refine ⟨⟨_, getStart_ok hc hh⟩, ?_, ?_⟩
    · rw [getDuration_eq hc, getEnd_ok hc hh, getStart_ok hc hh]
      cases endOf none en du with
      | error e' => exact ⟨e', rfl⟩
      | ok v => exact ⟨.incompleteComponent, rfl⟩
    · intro st' en' du' h'
      simp at h'; obtain ⟨rfl, rfl, rfl⟩ := h'
      exact getStart_ok hc hh

/-! ## VJOURNAL -/

/-- `Journal.end` is `Journal.start`; the duration is always zero. -/
theorem journal_end_is_start (s : St) : getEnd .journal s = getStart .journal s := rfl

theorem journal_duration (p : Prov) (s : St) : getDuration p .journal s = .ok 0 := rfl

/-- `.start` of a journal: the stored DTSTART if it is a date or date-time, IncompleteComponent if absent,
    InvalidCalendar otherwise. -/
theorem journal_start (s : St) :
    (∀ v, s.dtstart = .one v → v.isDT = true → getStart .journal s = .ok v) ∧
    (s.dtstart = .absent → getStart .journal s = .error .incompleteComponent) ∧
    (∀ v, getStart .journal s = .ok v → s.dtstart = .one v) := by
  refine ⟨?_, ?_, ?_⟩
  · intro v h hv; simp [getStart, h, getProp, hv, bind, Except.bind]
  · intro h; simp [getStart, h, getProp, bind, Except.bind]
  · intro v h
    unfold getStart at h
    cases hp : getProp s.dtstart with
    | error e => simp [hp, bind, Except.bind] at h
    | ok o =>
      cases o with
      | none => simp [hp, bind, Except.bind] at h
      | some w => simp [hp, bind, Except.bind] at h; subst h; exact (getProp_ok_some hp).1

/-- Writing `.start`, `.end` or `.DTSTART` of a journal is the same operation; the other upper-case names
    are not accessors of VJOURNAL and leave the stored entries alone. -/
theorem journal_setters (s : St) (x : Arg) :
    step .journal s (.set .end x) = step .journal s (.set (.prop .dtstart) x) ∧
    step .journal s (.set .start x) = step .journal s (.set (.prop .dtstart) x) ∧
    (∀ k, k ≠ .dtstart → step .journal s (.set (.prop k) x) = .ok s) := by
  refine ⟨rfl, rfl, ?_⟩
  intro k hk; cases k <;> simp [step, target, descr] at hk ⊢

/-! ## non-vacuity: the hypotheses are satisfiable and the getters do return -/

private def berlin (w : Int) : Val := .zoned 0 w 3600

-- a setter history with every kind of argument
example : run .event St.init
    [.set .start (.val (.date 18262)), .set (.prop .duration) (.val (.dur 172800)), .set .end (.val (.date 18265)),
     .set (.prop .dtstart) .wrong, .del .dtend, .set (.prop .duration) (.val (.dur 86400))]
    = ⟨.one (.date 18262), .absent, .absent, .one (.dur 86400)⟩ := rfl
-- end = start + DURATION, duration = DURATION
example : getEnd .event ⟨.one (.date 18262), .absent, .absent, .one (.dur 172800)⟩ = .ok (.date 18264) := rfl
example : getDuration .pytz .todo ⟨.one (berlin 1000), .absent, .absent, .one (.dur (-60))⟩ = .ok (-60) := rfl
-- only a start
example : getEnd .todo ⟨.one (.date 18262), .absent, .absent, .absent⟩ = .ok (.date 18263) := rfl
example : getEnd .event ⟨.one (.utc 5), .absent, .absent, .absent⟩ = .ok (.utc 5) := rfl
-- stored end; zoneinfo subtracts wall clocks in one zone, pytz instants
example : getDuration .zoneinfo .event ⟨.one (.zoned 0 0 3600), .one (.zoned 0 86400 7200), .absent, .absent⟩ = .ok 86400 := rfl
example : getDuration .pytz .event ⟨.one (.zoned 0 0 3600), .one (.zoned 0 86400 7200), .absent, .absent⟩ = .ok 82800 := rfl
-- the forbidden states exist and are reported
example : getStart .event ⟨.one (.date 1), .one (.date 2), .absent, .one (.dur 86400)⟩ = .error .invalidCalendar := rfl
example : getDuration .zoneinfo .todo ⟨.one (.floating 1), .absent, .one (.utc 2), .absent⟩ = .error .invalidCalendar := rfl
example : getEnd .event ⟨.one (.date 1), .absent, .absent, .one (.dur 3600)⟩ = .error .invalidCalendar := rfl
example : getEnd .event ⟨.one (.date 1), .absent, .absent, .one (.date 3)⟩ = .error .invalidCalendar := rfl
example : getStart .event ⟨.absent, .one (.date 2), .absent, .absent⟩ = .error .incompleteComponent := rfl
example : step .todo St.init (.set (.prop .due) (.val (.dur 5))) = .error .typeError := rfl

/-! ## Regenerated function bodies = hand model

  `ICal.Gen.BodiesSE.Event_end` / `Todo_end` / `is_date` are written by tools/py2lean.py from the current source of
  `Event.end`, `Todo.end` (cal.py) and `tools.is_date` on every run: the tests for None (as `match`), the day added to
  a date start (`start + timedelta(days=1)`), `start + duration`, `raise IncompleteComponent`.  The call
  `self._get_start_end_duration()` (the validity checks) is external: the three values it returned are parameters,
  as they are the arguments of the model's `endOf`.  `is_date` is `isinstance(dt, date) and not isinstance(dt, datetime)`
  on the model's value type; a body written `type(dt) is date` is outside the translated subset (refused). -/

theorem body_is_date (v : SE.Val) : Gen.BodiesSE.is_date v = v.isDate := Bodies.se_is_date_eq v

theorem body_event_end (st en : Option SE.Val) (du : Option Int) :
    Gen.BodiesSE.Event_end (start := st) (end_ := en) (duration := du) = Bodies.liftSE (SE.endOf st en du) := Bodies.Event_end_eq st en du

theorem body_todo_end (st en : Option SE.Val) (du : Option Int) :
    Gen.BodiesSE.Todo_end (start := st) (end_ := en) (duration := du) = Bodies.liftSE (SE.endOf st en du) := Bodies.Todo_end_eq st en du

/-! ### the checks, `.start`, `.end`, `.duration` as regenerated (wave 5)

`Bodies.seSedP` / `seStartP` / `seEndP` / `seDurationP` are the translated `_get_start_end_duration`, `start`, `end` (calling
the translated checks) and `duration` of Event / Todo with the pieces of ICal/Model/SEPieces.lean: the descriptors are the
model's `getProp` / `getDur` of the stored slots, `end - start` is the model's `Val.sub`. -/

theorem body_get_start_end_duration (c : SE.Cls) (hc : Bodies.seHasEnd c = true) (s : SE.St) :
    Bodies.seSedP c (Bodies.seLift (SE.getProp s.dtstart)) (Bodies.seLift (SE.getProp (s.get (SE.endKey c)))) (Bodies.seLift (SE.getDur s.duration)) =
      Bodies.seLift (SE.getSED c s) := Bodies.sed_eq c hc s

theorem body_start (c : SE.Cls) (hc : Bodies.seHasEnd c = true) (s : SE.St) :
    Bodies.seStartP c (Bodies.seLift (SE.getProp s.dtstart)) (Bodies.seLift (SE.getProp (s.get (SE.endKey c)))) (Bodies.seLift (SE.getDur s.duration)) =
      Bodies.seLift (SE.getStart c s) := Bodies.start_eq_se c hc s

theorem body_end_full (c : SE.Cls) (hc : Bodies.seHasEnd c = true) (s : SE.St) :
    Bodies.seEndP c (Bodies.seLift (SE.getProp s.dtstart)) (Bodies.seLift (SE.getProp (s.get (SE.endKey c)))) (Bodies.seLift (SE.getDur s.duration)) =
      Bodies.seLift ((SE.getEnd c s).map some) := Bodies.end_eq_se c hc s

theorem body_duration (p : SE.Prov) (c : SE.Cls) (hc : Bodies.seHasEnd c = true) (s : SE.St) :
    Bodies.seDurationP p c (Bodies.seLift (SE.getProp s.dtstart)) (Bodies.seLift (SE.getProp (s.get (SE.endKey c)))) (Bodies.seLift (SE.getDur s.duration)) =
      Bodies.seLift (SE.getDuration p c s) := Bodies.duration_eq_se p c hc s

/-! ### the setter / deleter closures of `create_single_property`, `_set_duration`, `_del_duration` as regenerated (wave 9)

`Bodies.pSetB` / `pDelB` / `setDurationB` / `delDurationB` are the translated closures `p_set` / `p_del` (their free variables `prop`,
`value_type`, `vProp` are parameters, instantiated for the descriptor at hand) and the translated `_set_duration` / `_del_duration` with the
pieces of ICal/Model/SEDescPieces.lean: `self` is the model's `St`, `self.pop(k[, None])` empties an entry and never raises,
`self[k] = v` stores one value, `self.exclusive` is the tuple regenerated into `Gen.compClasses`.  What is pinned: the instance test comes
first (TypeError before anything is changed), the new value is stored under `prop`, then - only when `prop` is in the class's `exclusive`
tuple - every OTHER name of the tuple is popped; there is no early exit for an unchanged value; `None` deletes; `_set_duration` pops DTEND
*and* DUE whatever the class. -/

theorem body_p_set (c : SE.Cls) (s : SE.St) (k : SE.Key) (x : SE.Arg) :
    Bodies.pSetB c s k x = Bodies.seLift (SE.pSet c s k x) := Bodies.p_set_eq c s k x

theorem body_p_del (s : SE.St) (k : SE.Key) : Bodies.pDelB s k = s.put k .absent := Bodies.p_del_eq s k

theorem body_set_duration (s : SE.St) (x : SE.Arg) :
    Bodies.setDurationB s x = Bodies.seLift (SE.setDuration s x) := Bodies.set_duration_eq s x

theorem body_del_duration (s : SE.St) : Bodies.delDurationB s = s.put .duration .absent := Bodies.del_duration_eq s

/-- One operation of the model, with every setter and deleter replaced by its regenerated body, is the model's `step`: the histories of
    `excl_inv` run the code as it is written now. -/
theorem body_step (c : SE.Cls) (s : SE.St) (op : SE.Op) : Bodies.stepB c s op = Bodies.seLift (SE.step c s op) :=
  Bodies.step_eq c s op

/-- ... and so keeps the invariant. -/
theorem body_step_excl (c : SE.Cls) (s : SE.St) (op : SE.Op) (he : op.isEdit = true) (hi : SE.Inv s) : SE.Inv (Bodies.nextB c s op) := by
  have h : Bodies.nextB c s op = SE.next c s op := by
    unfold Bodies.nextB SE.next
    rw [Bodies.step_eq]
    cases SE.step c s op <;> rfl
  rw [h]
  exact excl_step c s op he hi
example : Bodies.pSetB .event ⟨.absent, .absent, .absent, .one (.dur 5)⟩ .dtend (.val (.date 3)) = .ok ⟨.absent, .one (.date 3), .absent, .absent⟩ := rfl
example : Bodies.setDurationB ⟨.absent, .one (.date 3), .one (.date 4), .absent⟩ (.val (.dur 5)) = .ok ⟨.absent, .absent, .absent, .one (.dur 5)⟩ := rfl

end ICal.C16
