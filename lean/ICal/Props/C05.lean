import ICal.Model.Line
namespace ICal.C05
end ICal.C05
