/-
  C05 — joining a name, a parameter map and a value text into a content line and splitting the
  line again returns the same name, the same parameters and the same value text; whatever a
  value holds, the line read back has the same name and the same parameters: a value cannot
  inject structure.
  Property theorems only; helper lemmas and the definitions `NoPlaceholderPair`, `NoPercentCode`,
  `Hazardless`, `ParamsHazardless`, `pvalStrs`, `lineText`, `special`, `viaPlaceholders`, `mapPVal`,
  `readBack`, `rawScan`, `RawBal` are in ICal/Lemmas/Line.lean;
  `ParamDomain`, `canon`, `ValueOk` in ICal/Lemmas/Params.lean (C08).
  `fromParts`, `parts`, `escapeString`, `unescapeString` are the models of Contentline.from_parts,
  Contentline.parts, escape_string, unescape_string, built on the *generated* replace chains and
  character classes (ICal.Gen, regenerated from /repo each run).

  Recorded defects the statements respect: D02 (`parts()` turns `\,` `\:` `\;` `\\` of a value or
  parameter value into `,` `:` `;` `\`) and D03 (a literal `%2C` `%3A` `%3B` `%5C` becomes
  `,` `:` `;` `\`): the *equalities on values* carry the hypothesis `Hazardless`; the statements
  on names and parameters (the injection statements) carry none on the value.
-/
import ICal.Lemmas.Line
import ICal.Lemmas.BodiesLine
namespace ICal.C05

/-- `escape_string` leaves a text alone in which no backslash is followed by `,` `:` `;` `\`. -/
theorem escapeString_id (s : Str) (h : NoPlaceholderPair s = true) : escapeString s = s :=
  ICal.escapeString_id s h

/-- `unescape_string` leaves a text alone that holds none of `%2C` `%3A` `%3B` `%5C`. -/
theorem unescapeString_id (s : Str) (h : NoPercentCode s = true) : unescapeString s = s :=
  ICal.unescapeString_id s h

/-- The hypothesis `NoPlaceholderPair`, said with the standard substring relation `<:+:`. -/
theorem noPlaceholderPair_iff (s : Str) : NoPlaceholderPair s = true ↔
    ∀ d, (d = ',' ∨ d = ':' ∨ d = ';' ∨ d = '\\') → ¬ ['\\', d] <:+: s :=
  ICal.noPlaceholderPair_iff s

/-- The hypothesis `NoPercentCode`, said with the standard substring relation `<:+:`. -/
theorem noPercentCode_iff (s : Str) : NoPercentCode s = true ↔
    ¬ ['%', '2', 'C'] <:+: s ∧ ¬ ['%', '3', 'A'] <:+: s ∧ ¬ ['%', '3', 'B'] <:+: s ∧ ¬ ['%', '5', 'C'] <:+: s :=
  ICal.noPercentCode_iff s

/-- Serialisation is refused for a raw line feed in the value. -/
theorem lf_refused (n : Str) (p : Params) (v : Str) (sorted : Bool) (h : LF ∈ v) :
    fromParts n p v sorted = .error .assertion := by
  rw [fromParts_eq]
  apply mkLine_lf
  unfold lineText
  split <;> simp [h]

/-- Serialisation of a NAME, a map of the domain and a value without line feed succeeds. -/
theorem fromParts_succeeds (n : Str) (p : Params) (v : Str) (sorted : Bool) (hn : validToken n = true)
    (hp : ParamDomain p) (hv : LF ∉ v) : ∃ l, fromParts n p v sorted = .ok l :=
  ⟨_, fromParts_ok n p v sorted hn hp hv⟩

/-- The split of a joined line, for EVERY value text `v` and EVERY parameter map of the domain
    (values may hold backslashes, `%XX`, `;X=1:` ...; no hazard hypothesis at all): the name is the
    name written, the parameters are those written — same names, sorted, every value string sent
    through `viaPlaceholders` = `unescape_string ∘ escape_string` (`readBack`) — and the value
    text is `viaPlaceholders v`. D02 and D03 are exactly the fact that `viaPlaceholders` is not
    the identity; nothing else of the line can change. -/
theorem parts_fromParts_any (n : Str) (p : Params) (v : Str) (hn : validToken n = true)
    (hp : ParamDomain p) (hv : LF ∉ v) :
    ∃ l, fromParts n p v true = .ok l ∧ parts l = some (n, readBack p, viaPlaceholders v) :=
  ⟨_, fromParts_ok n p v true hn hp hv, parts_lineText_any n p v hn hp⟩

/-- `viaPlaceholders` is the identity on hazard-free text. -/
theorem viaPlaceholders_id (x : Str) (h : Hazardless x) : viaPlaceholders x = x :=
  ICal.viaPlaceholders_id x h

/-- No injection from the value: for EVERY value text `v` the line splits into exactly the name
    and the parameters that were joined (parameter values hazard-free). -/
theorem value_cannot_inject (n : Str) (p : Params) (v : Str) (hn : validToken n = true)
    (hp : ParamDomain p) (hpz : ParamsHazardless p) (hv : LF ∉ v) :
    ∃ l, fromParts n p v true = .ok l ∧
      parts l = some (n, canon p, unescapeString (escapeString v)) :=
  ⟨_, fromParts_ok n p v true hn hp hv, parts_lineText n p v hn hp hpz⟩

/-- Join/split inverse. Unbounded in the number of parameters, list and string lengths. -/
theorem parts_fromParts (n : Str) (p : Params) (v : Str) (hn : validToken n = true)
    (hp : ParamDomain p) (hpz : ParamsHazardless p) (hv : LF ∉ v) (hz : Hazardless v) :
    ∃ l, fromParts n p v true = .ok l ∧ parts l = some (n, canon p, v) := by
  refine ⟨_, fromParts_ok n p v true hn hp hv, ?_⟩
  rw [parts_lineText n p v hn hp hpz, ICal.escapeString_id v hz.1, ICal.unescapeString_id v hz.2]

/-- Join/split inverse without parameters. -/
theorem parts_fromParts_noparams (n v : Str) (hn : validToken n = true) (hv : LF ∉ v) (hz : Hazardless v) :
    fromParts n [] v = .ok (n ++ ':' :: v) ∧ parts (n ++ ':' :: v) = some (n, [], v) := by
  have h1 := fromParts_ok n [] v true hn (by decide) hv
  have h2 := parts_lineText n [] v hn (by decide) (by decide)
  have e : lineText n [] v true = n ++ ':' :: v := by simp [lineText]
  rw [e] at h1 h2
  rw [ICal.escapeString_id v hz.1, ICal.unescapeString_id v hz.2] at h2
  exact ⟨h1, h2⟩

/-- The full-strength statement (no hazard hypotheses) is FALSE of the code: D03. -/
def parts_fromParts_full : Prop :=
  ∀ (n : Str) (p : Params) (v : Str), validToken n = true → ParamDomain p → LF ∉ v →
    ∃ l, fromParts n p v true = .ok l ∧ parts l = some (n, canon p, v)

theorem parts_fromParts_full_refuted : ¬ parts_fromParts_full := by
  intro h
  obtain ⟨l, h1, h2⟩ := h ['U', 'R', 'L'] [] ['5', '0', '%', '2', 'C'] (by decide) (by decide) (by decide)
  rw [fromParts_eq] at h1
  rw [mkLine_inv _ _ h1] at h2
  revert h2
  decide

/-- The name read back is the name written, whatever the value text and the parameter values are. -/
theorem name_preserved (n : Str) (p : Params) (v : Str) (hn : validToken n = true) (hp : ParamDomain p) :
    ∀ l, fromParts n p v = .ok l → ∀ n' p' v', parts l = some (n', p', v') → n' = n := by
  intro l hl n' p' v' hparts
  rw [fromParts_eq] at hl
  rw [mkLine_inv _ _ hl, parts_lineText_any n p v hn hp] at hparts
  injection hparts with h
  exact (congrArg Prod.fst h).symm

/-- A property written without parameters never acquires one, whatever the value text is. -/
theorem no_param_injection_noparams (n v : Str) (hn : validToken n = true) :
    ∀ l, fromParts n [] v = .ok l → ∀ n' p' v', parts l = some (n', p', v') → p' = [] := by
  intro l hl n' p' v' hparts
  rw [fromParts_eq] at hl
  rw [mkLine_inv _ _ hl, parts_lineText_any n [] v hn (by decide)] at hparts
  injection hparts with h
  exact (congrArg (fun t => t.2.1) h).symm

/-- No parameter is added, lost or renamed, whatever the value text and whatever the parameter
    values (any strings of the C08 value domain: backslashes, `%XX`, delimiters): the names read
    back are the names written, in sorted order, and each value is the written value sent through
    `viaPlaceholders` string by string. -/
theorem no_param_injection (n : Str) (p : Params) (v : Str) (hn : validToken n = true) (hp : ParamDomain p) :
    ∀ l, fromParts n p v = .ok l → ∀ n' p' v', parts l = some (n', p', v') →
      p' = readBack p ∧ p'.map Prod.fst = (canon p).map Prod.fst ∧
      (p'.map Prod.fst).Perm (p.map Prod.fst) ∧ p'.length = p.length := by
  intro l hl n' p' v' hparts
  rw [fromParts_eq] at hl
  rw [mkLine_inv _ _ hl, parts_lineText_any n p v hn hp] at hparts
  injection hparts with h
  have e : p' = readBack p := (congrArg (fun t => t.2.1) h).symm
  subst e
  refine ⟨rfl, readBack_keys p, ?_, ?_⟩
  · rw [readBack_keys, canon_keys]
    exact (sortByKey_perm p).map Prod.fst
  · have := congrArg List.length (readBack_keys p)
    simpa [canon_length] using this

/-- With hazard-free parameter values the parameters read back are exactly those written
    (sorted, `canon`), whatever the value text is. -/
theorem no_param_injection_hazardless (n : Str) (p : Params) (v : Str) (hn : validToken n = true)
    (hp : ParamDomain p) (hpz : ParamsHazardless p) :
    ∀ l, fromParts n p v = .ok l → ∀ n' p' v', parts l = some (n', p', v') → p' = canon p := by
  intro l hl n' p' v' hparts
  rw [← readBack_hazardless p hpz]
  exact (no_param_injection n p v hn hp l hl n' p' v' hparts).1

/-- `raw_value()` — the route TEXT values take since the D02 repair — returns the value text
    exactly as it was written, for EVERY value text and every parameter map of the domain: on
    this route the join/split inverse on the value needs no hazard hypothesis. -/
theorem rawValue_fromParts (n : Str) (p : Params) (v : Str) (sorted : Bool) (hn : validToken n = true)
    (hp : ParamDomain p) : ∀ l, fromParts n p v sorted = .ok l → rawValue l = v := by
  intro l hl
  rw [fromParts_eq] at hl
  rw [mkLine_inv _ _ hl]
  exact rawValue_lineText n p v sorted hn hp

/-! Witnesses of the recorded defects (why `Hazardless` is a hypothesis of the value equalities). -/

/-- D02: the value `a\\,b` (a, backslash, backslash, comma, b) loses a backslash. -/
theorem witness_D02_uri :
    parts ['U', 'R', 'L', ':', 'a', '\\', '\\', ',', 'b'] = some (['U', 'R', 'L'], [], ['a', '\\', ',', 'b']) := by
  decide

/-- D03: a literal `%2C` in a value reads back as a comma. -/
theorem witness_D03 :
    parts ['U', 'R', 'L', ':', '5', '0', '%', '2', 'C'] = some (['U', 'R', 'L'], [], ['5', '0', ',']) := by
  decide

/-- D02 in a parameter value: `K="a\;b"` reads back as `a;b`. -/
theorem witness_D02_param :
    parts ['X', ';', 'K', '=', '"', 'a', '\\', ';', 'b', '"', ':', 'v'] =
      some (['X'], [(['K'], .one ['a', ';', 'b'])], ['v']) := by
  decide

/-! Non-vacuity: the hypotheses are satisfiable; a hostile value text (`;Y=1:"`) and hostile
    parameter values are inside the domain of the injection theorems. -/
example : validToken ['X', '-', 'A'] = true := by decide
example : ParamDomain sampleParams ∧ ParamsHazardless sampleParams := by decide
example : Hazardless "a;X=1:b\"c,%2 \\n\\".toList ∧ LF ∉ "a;X=1:b\"c,%2 \\n\\".toList := by decide
example : ¬ Hazardless ['a', '\\', ',', 'b'] ∧ ¬ Hazardless ['%', '3', 'A'] := by decide
example : fromParts ['X', '-', 'A'] sampleParams ";Y=1:\"".toList =
    .ok "X-A;A.1=one;CN=\"x,;: y\";E=;X-B=\"a,b\",c;Z_=,:;Y=1:\"".toList := by rfl
example : parts "X-A;A.1=one;CN=\"x,;: y\";E=;X-B=\"a,b\",c;Z_=,:;Y=1:\"".toList =
    some (['X', '-', 'A'], canon sampleParams, ";Y=1:\"".toList) := by decide
example : fromParts ['A'] [] ['x', '\n'] = .error .assertion := by rfl
example : rawValue "X;K=\"a\\;L=1:b%3A\";M=\"x\\\\\",\";Y=2:\":a\\\\,b%2C".toList = "a\\\\,b%2C".toList := by decide
/-- a map of the domain with hostile values: not hazard-free, covered by `no_param_injection` -/
example : ParamDomain hostileParams ∧ ¬ ParamsHazardless hostileParams := by decide
example : fromParts ['X'] hostileParams ['v'] = .ok "X;K=\"a\\;L=1:b%3A\";M=\"x\\\",\";Y=2:\":v".toList := by rfl
example : readBack hostileParams =
    [(['K'], .one "a;L=1:b:".toList), (['M'], .many ["x\\".toList, ";Y=2:".toList])] := by decide
example : parts "X;K=\"a\\;L=1:b%3A\";M=\"x\\\",\";Y=2:\":v".toList =
    some (['X'], [(['K'], .one "a;L=1:b:".toList), (['M'], .many ["x\\".toList, ";Y=2:".toList])], ['v']) := by
  decide

/-! ## Regenerated function bodies = hand model

  `ICal.Gen.BodiesLine.*` are written by tools/py2lean.py from the current source text on every run:
  the `.replace` chains `escape_string` / `unescape_string`, `Contentline.raw_value` (the `while`
  loop with its index, `continue` and `return`, as a recursion on fuel `len + 1`) and the scanning
  loop of `Contentline.parts` (a FRAGMENT: the `for i, ch in enumerate(st)` loop and the
  initialisation of `name_split`, `value_split`, `in_quotes`) - and the whole of `parts()` with its
  calls of `Parameters.from_ical`, `validate_token`, `Parameters(...)` as parameters (`body_parts`).  The theorems
  prove them equal to `escapeString`, `unescapeString`, `rawValue` and `scanParts`, which every
  theorem above is about; in particular WHICH string the indices are taken from and applied to is
  part of the translated code (a loop over `escape_string(self)` whose index is used on `self`
  does not have these meanings).  `raw_value` never runs out of fuel and never raises.
  `i` after the loop of `parts()` is the last index: the source reads `i + 1` (the length of the
  escaped line) only behind the test for an empty name, so the unbound case (`none`, empty line)
  is never read; the model writes `st.length` there. -/

theorem body_escape_string (s : Str) : Gen.BodiesLine.escape_string s = escapeString s :=
  Bodies.escape_string_eq s

theorem body_unescape_string (s : Str) : Gen.BodiesLine.unescape_string s = unescapeString s :=
  Bodies.unescape_string_eq s

theorem body_raw_value (line : Str) : Gen.BodiesLine.raw_value line = .ok (rawValue line) :=
  Bodies.raw_value_eq line

theorem body_parts_scan (st : Str) :
    Gen.BodiesLine.parts_scan st =
      (Bodies.optInt (scanParts st 0 false none none).1, Bodies.optInt (scanParts st 0 false none none).2,
        if st = [] then none else some (((st.length - 1 : Nat)) : Int)) :=
  Bodies.parts_scan_eq st

/-- The WHOLE of `Contentline.parts`, regenerated: `escape_string(self)`, the scanning loop, the name, the two
    checks, `value_split = i + 1`, the three slices of the ESCAPED line, `unescape_string`, the `try .. except
    ValueError`.  Its external calls are parameters (`validate_token`, `Parameters.from_ical(.., strict=self.strict)`,
    and the re-keying expression `Parameters((unescape_string(key), unescape_list_or_string(value)) for ..)`);
    given the hand model's `validToken`, `paramsFromIcal` and re-keying fold it IS the model `parts`. -/
theorem body_parts (line : Str) (strict : Bool) :
    Gen.BodiesLine.parts line Bodies.validateTokenP strict Bodies.paramsFromIcalP Bodies.paramsUnescapeP =
      (match parts line strict with
       | some r => .ok r
       | none => .error .valueError) :=
  Bodies.parts_eq line strict

/-- `value_split = i + 1` of the source is the model's `st.length` whenever it is read -/
theorem body_parts_scan_last (st : Str) (h : st ≠ []) :
    (Gen.BodiesLine.parts_scan st).2.2 = some ((st.length : Int) - 1) := by
  rw [body_parts_scan]
  have : 0 < st.length := List.length_pos_iff.mpr h
  simp only [h, if_false]
  congr 1; omega

example : (Gen.BodiesLine.raw_value "A;X=\":\":a\\:b:c".toList).toOption = some "a\\:b:c".toList := by decide
example : Gen.BodiesLine.parts_scan "A;X=\":\":v".toList = (some 1, some 7, some 8) := by decide
example : Gen.BodiesLine.parts_scan [] = (none, none, none) := by decide

end ICal.C05
