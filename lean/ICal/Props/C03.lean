/-
  C03 — value codecs are inverse and emit RFC 5545 grammar; every grammar-valid text decodes to the
  value the RFC assigns to it; `vDDDTypes.from_ical` classifies each text as the right type.

  Property theorems only (helper lemmas: ICal/Lemmas/Codec.lean).  The model (ICal/Model/Codec.lean)
  mirrors `to_ical`/`from_ical` of vDate vDatetime vTime vDuration vPeriod vUTCOffset vInt vBoolean
  vWeekday vFrequency vMonth vDDDTypes as written; `rfcX : Str → Option Value` is the RFC 5545
  section 3.3 recogniser of the type together with the value the RFC assigns (`xText` = `isSome`).
  Every statement is unbounded in the value: all valid dates 0001-9999, all 86 400 seconds of the
  day, all `Int` durations, all offsets below 24 h, all integers, all texts of each grammar.

  Shape of the results per type:
    x_grammar          rfcX (xTo v) = some v      the encoded text is in the grammar AND is the RFC
                                                  text of exactly that value
    decode_grammar_x   rfcX t = some v → xFrom t = ok v     for every text of the grammar
    x_rt               xFrom (xTo v) = ok v

  Recorded defect (DESIGN D08, KNOWN_FINDINGS class time-utc-flag-lost): TIME `HHMMSSZ` decodes to a
  naive time and `vTime.to_ical` drops the UTC designator.  The full statements are the `def`s
  `time_rt_full`, `time_grammar_full`, `decode_grammar_time_full`; the `_partial` theorems state
  exactly what holds (hour, minute and second are right, the flag is always `false`), and the
  `_witness` theorems refute the full statements at "120000Z".

  Outside the proof (assumed library laws, DESIGN section 4, exercised by the oracle of
  harness/props/C03.py only): FLOAT and GEO wrap `float()` / `float.__repr__` (law
  `float(repr(x)) == x`; the FLOAT grammar clause is FALSE on the code for |x| >= 1e16, |x| < 1e-4,
  inf, nan — KNOWN_FINDINGS class float-exponent-or-nonfinite, witness 1e16 -> "1e+16"); BINARY wraps
  `binascii.b2a_base64` / `base64.b64decode` (law `b64decode(b2a_base64(b)[:-1]) == b`); URI and
  CAL-ADDRESS are `str` subclasses whose `to_ical`/`from_ical` are the identity on text.
  Value-domain restrictions of the recognisers (year 0001-9999, second 00-59) are stated in the model.
-/
import ICal.Lemmas.Codec
import ICal.Lemmas.Bodies
import ICal.Lemmas.BodiesDec
import ICal.Lemmas.BodiesDDD
import ICal.Lemmas.BodiesMonth
namespace ICal.C03
open ICal.Codec

/-! ## DATE -/

/-- The encoded date is the RFC 5545 DATE text of exactly that date (every valid date 0001-9999). -/
theorem date_grammar (v : PDate) (h : v.valid = true) : rfcDate (vDateTo v) = some v := by
  obtain ⟨y, m, d⟩ := v
  have hv : validDate y m d = true := h
  obtain ⟨hy, hm, hd⟩ := validDate_bounds hv
  rw [vDateTo_eq y m d hy hm hd]
  exact rfcDate_dateChars y m d hv

theorem date_grammar_text (v : PDate) (h : v.valid = true) : dateText (vDateTo v) = true := by
  simp [dateText, date_grammar v h]

/-- Every grammar-valid DATE text decodes to the date the RFC assigns to it. -/
theorem decode_grammar_date (t : Str) (v : PDate) (h : rfcDate t = some v) : vDateFrom t = .ok v :=
  rfcDate_vDateFrom h

/-- `vDate.from_ical(vDate(d).to_ical()) == d` for every `datetime.date`. -/
theorem date_rt (v : PDate) (h : v.valid = true) : vDateFrom (vDateTo v) = .ok v :=
  decode_grammar_date _ _ (date_grammar v h)

/-! ## DATE-TIME (floating and UTC forms; `utc` is the `Z` suffix) -/

theorem datetime_grammar (v : PDateTime) (h : v.valid = true) : rfcDateTime (vDatetimeTo v) = some v :=
  rfcDateTime_vDatetimeTo v h

theorem decode_grammar_datetime (t : Str) (v : PDateTime) (h : rfcDateTime t = some v) :
    vDatetimeFrom t = .ok v :=
  rfcDateTime_vDatetimeFrom h

theorem datetime_rt (v : PDateTime) (h : v.valid = true) : vDatetimeFrom (vDatetimeTo v) = .ok v :=
  decode_grammar_datetime _ _ (datetime_grammar v h)

/-- form 1, floating: `YYYYMMDDTHHMMSS` -/
theorem datetime_rt_floating (d : PDate) (h mi s : Nat) (hd : d.valid = true) (ht : validTime h mi s = true) :
    vDatetimeFrom (vDatetimeTo ⟨d, h, mi, s, false⟩) = .ok ⟨d, h, mi, s, false⟩ :=
  datetime_rt _ (by simp [PDateTime.valid, hd, ht])

/-- form 2, UTC: `YYYYMMDDTHHMMSSZ` comes back as a UTC date-time -/
theorem datetime_rt_utc (d : PDate) (h mi s : Nat) (hd : d.valid = true) (ht : validTime h mi s = true) :
    vDatetimeFrom (vDatetimeTo ⟨d, h, mi, s, true⟩) = .ok ⟨d, h, mi, s, true⟩ :=
  datetime_rt _ (by simp [PDateTime.valid, hd, ht])

/-! ## TIME (finding D08: the UTC designator is lost in both directions) -/

/-- FULL statement (false on the code): a time survives encode-decode. -/
def time_rt_full : Prop := ∀ v : PTime, v.valid = true → vTimeFrom (vTimeTo v) = .ok v
/-- FULL statement (false on the code): the encoded time is the RFC TIME text of that value. -/
def time_grammar_full : Prop := ∀ v : PTime, v.valid = true → rfcTime (vTimeTo v) = some v
/-- FULL statement (false on the code): every TIME text decodes to the RFC value. -/
def decode_grammar_time_full : Prop := ∀ (t : Str) (v : PTime), rfcTime t = some v → vTimeFrom t = .ok v

/-- The encoded time is an RFC TIME text; it is the text of the value with the UTC flag dropped. -/
theorem time_grammar_partial (v : PTime) (h : v.valid = true) :
    rfcTime (vTimeTo v) = some { v with utc := false } := by
  obtain ⟨hh, mi, s, z⟩ := v
  have hv : validTime hh mi s = true := h
  obtain ⟨h1, h2, h3⟩ := validTime_bounds hv
  unfold vTimeTo
  rw [hmsTo_eq hh mi s (by omega) (by omega) (by omega)]
  exact rfcTime_hmsChars hh mi s hv

/-- Every TIME text decodes to the right hour, minute and second — as a naive time, whatever the text says. -/
theorem decode_grammar_time_partial (t : Str) (v : PTime) (h : rfcTime t = some v) :
    vTimeFrom t = .ok { v with utc := false } :=
  rfcTime_vTimeFrom h

/-- Every second of the day, as a naive time, survives encode-decode. -/
theorem time_rt_partial (v : PTime) (h : v.valid = true) (hn : v.utc = false) :
    vTimeFrom (vTimeTo v) = .ok v := by
  have := decode_grammar_time_partial _ _ (time_grammar_partial v h)
  obtain ⟨hh, mi, s, z⟩ := v
  simp only [] at hn; subst hn
  exact this

/-- The witness of D08, by evaluation: "120000Z" is the RFC text of 12:00:00 UTC and decodes to naive 12:00:00. -/
theorem time_utc_witness :
    rfcTime "120000Z".toList = some ⟨12, 0, 0, true⟩ ∧ vTimeFrom "120000Z".toList = .ok ⟨12, 0, 0, false⟩ ∧
    vTimeTo ⟨12, 0, 0, true⟩ = "120000".toList := by decide

theorem decode_grammar_time_witness : ¬ decode_grammar_time_full := by
  intro h
  have := h "120000Z".toList ⟨12, 0, 0, true⟩ (by decide)
  revert this; decide

theorem time_rt_witness : ¬ time_rt_full := by
  intro h
  have := h ⟨12, 0, 0, true⟩ (by decide)
  revert this; decide

theorem time_grammar_witness : ¬ time_grammar_full := by
  intro h
  have := h ⟨12, 0, 0, true⟩ (by decide)
  revert this; decide

/-! ## DURATION (every whole-second `timedelta`, positive, zero or negative) -/

/-- The encoded duration is an RFC 5545 `dur-value` whose value is the duration. -/
theorem duration_grammar (s : Int) : rfcDuration (durTo s) = some s := rfcDuration_durTo s

theorem duration_grammar_text (s : Int) : durText (durTo s) = true := by
  simp [durText, duration_grammar s]

/-- Every RFC `dur-value` is matched by `DURATION_REGEX` and decodes to its RFC value. -/
theorem decode_grammar_duration (t : Str) (v : Int) (h : rfcDuration t = some v) : durFrom t = some v :=
  rfcDuration_durFrom h

/-- `vDuration.from_ical(vDuration(td).to_ical()) == td`; proved directly on the regex matcher. -/
theorem duration_rt (s : Int) : durFrom (durTo s) = some s := by
  unfold durTo
  obtain ⟨x, hx⟩ := durBodyOf_P s.natAbs
  split
  · next hneg =>
    rw [durFrom_minus, parseDurBody_durBodyOf]
    simp; omega
  · next hpos =>
    have h := parseDurBody_durBodyOf s.natAbs
    rw [hx] at h ⊢
    rw [durFrom_P, h]
    simp; omega

/-! ## UTC-OFFSET -/

theorem utcoffset_grammar (s : Int) (h : s.natAbs < 86400) : rfcUtcOffset (offTo s) = some s :=
  rfcUtcOffset_offTo s h

theorem decode_grammar_utcoffset (t : Str) (v : Int) (h : rfcUtcOffset t = some v) : offFrom t = .ok v :=
  rfcUtcOffset_offFrom h

/-- every offset of whole seconds with |offset| < 24 h -/
theorem utcoffset_rt (s : Int) (h : s.natAbs < 86400) : offFrom (offTo s) = .ok s :=
  decode_grammar_utcoffset _ _ (utcoffset_grammar s h)

/-- `-0000` and `-000000` are never written, whatever the magnitude of the offset. -/
theorem utcoffset_never_minus_zero (s : Int) :
    offTo s ≠ "-0000".toList ∧ offTo s ≠ "-000000".toList := by
  constructor
  · intro h; exact offTo_not_minus_zeros s _ h (by decide)
  · intro h; exact offTo_not_minus_zeros s _ h (by decide)

/-! ## INTEGER, BOOLEAN -/

theorem int_grammar (z : Int) : rfcInteger (intTo z) = some z := rfcInteger_intTo z

theorem decode_grammar_int (t : Str) (v : Int) (h : rfcInteger t = some v) : intFrom t = .ok v :=
  rfcInteger_intFrom h

theorem int_rt (z : Int) : intFrom (intTo z) = .ok z := decode_grammar_int _ _ (int_grammar z)

theorem bool_grammar (b : Bool) : rfcBoolean (boolTo b) = some b := by cases b <;> decide

theorem decode_grammar_bool (t : Str) (b : Bool) (h : rfcBoolean t = some b) : boolFrom t = .ok b := by
  unfold rfcBoolean at h
  unfold boolFrom
  simp only []
  split at h
  · next h1 => cases h; simp [h1]
  · next h1 =>
    split at h
    · next h2 => cases h; simp [h2]
    · cases h

theorem bool_rt (b : Bool) : boolFrom (boolTo b) = .ok b := by cases b <;> decide

/-! ## weekday (`weekdaynum`), frequency, month -/

/-- Every RFC `weekdaynum` text decodes to a `vWeekday` equal to the text, with the weekday and the
    signed ordinal the RFC assigns (`i` = index of the day in the table, `r` = ordinal or none). -/
theorem decode_grammar_weekday (t : Str) (i : Nat) (r : Option Int) (h : rfcWeekdayNum t = some (i, r)) :
    ∃ wd, weekDays[i]? = some wd ∧ vWeekdayFrom t = .ok ⟨t, wd, r⟩ := by
  have hu := rfcWeekdayNum_upper h
  obtain ⟨sgn, rel, wd, rfl, hs, hl, hd, hw, hi, rfl⟩ := rfcWeekdayNum_inv h
  refine ⟨wd, hi, ?_⟩
  unfold vWeekdayFrom
  rw [hu]
  exact vWeekdayNew_parts sgn rel wd hs hl hd hw

/-- A weekday value in RFC form is written as itself and read back unchanged. -/
theorem weekday_rt (t : Str) (i : Nat) (r : Option Int) (h : rfcWeekdayNum t = some (i, r)) :
    ∃ wd, weekDays[i]? = some wd ∧ vWeekdayTo ⟨t, wd, r⟩ = t ∧
      vWeekdayFrom (vWeekdayTo ⟨t, wd, r⟩) = .ok ⟨t, wd, r⟩ := by
  obtain ⟨wd, hi, hdec⟩ := decode_grammar_weekday t i r h
  have hu : upper t = t := rfcWeekdayNum_upper h
  refine ⟨wd, hi, hu, ?_⟩
  show vWeekdayFrom (upper t) = _
  rw [hu]; exact hdec

/-- the seven frequencies -/
theorem frequency_rt (s : Str) (h : s ∈ frequencies) : freqFrom (freqTo s) = .ok s := by
  have hu := mem_frequencies_upper h
  unfold freqFrom freqTo
  simp only [hu]
  simp [h]

theorem frequency_grammar (s : Str) (h : s ∈ frequencies) : rfcFreq (freqTo s) = some s :=
  rfcFreq_freqTo s h

theorem decode_grammar_frequency (t v : Str) (h : rfcFreq t = some v) : freqFrom t = .ok v := by
  unfold rfcFreq at h
  split at h
  · next hc =>
    cases h
    have hm : t ∈ frequencies := by simpa using hc
    have hu := mem_frequencies_upper hm
    unfold freqFrom
    simp only [hu]
    simp [hm]
  · cases h

/-- every month number (no range check in the code; RFC 7529 leap suffix) -/
theorem month_rt (n : Nat) (leap : Bool) : vMonthFrom (vMonthTo n leap) = .ok ((n : Int), leap) := by
  unfold vMonthFrom vMonthTo
  rw [intToStr_nat]
  cases leap
  · simp only [Bool.false_eq_true, if_false, List.append_nil]
    rw [vMonthNew_digits _ (isDigitStr_natToStr n), ofDigits_natToStr]
  · simp only [if_true]
    rw [vMonthNew_L _ (isDigitStr_natToStr n), ofDigits_natToStr]

/-- months 1-12, with or without the leap suffix, are written in the `monthnum` grammar -/
theorem month_grammar (n : Nat) (leap : Bool) (h1 : 1 ≤ n) (h2 : n ≤ 12) :
    rfcMonth (vMonthTo n leap) = some ((n : Int), leap) :=
  rfcMonth_vMonthTo n leap h1 h2

theorem decode_grammar_month (t : Str) (v : Int × Bool) (h : rfcMonth t = some v) : vMonthFrom t = .ok v := by
  obtain ⟨s, hs, hv, hform⟩ := rfcMonth_inv h
  obtain ⟨n, lp⟩ := v
  simp only [] at hv hform
  unfold vMonthFrom
  rcases hform with ⟨rfl, rfl⟩ | ⟨rfl, rfl⟩
  · rw [vMonthNew_digits _ hs, hv]
  · rw [vMonthNew_L _ hs, hv]

/-! ## PERIOD (explicit and start + duration) -/

theorem period_grammar_explicit (s e : PDateTime) (hs : s.valid = true) (he : e.valid = true) :
    rfcPeriod (vPeriodTo (.dt s) (.dt e)) = some (.period (.dt s) (.dt e)) :=
  rfcPeriod_vPeriodTo_dt s e hs he

theorem period_grammar_duration (s : PDateTime) (d : Int) (hs : s.valid = true) :
    rfcPeriod (vPeriodTo (.dt s) (.dur d)) = some (.period (.dt s) (.dur d)) :=
  rfcPeriod_vPeriodTo_dur s d hs

/-- Every RFC `period` text decodes to its start and its end or duration. -/
theorem decode_grammar_period (t : Str) (p : DDD) (h : rfcPeriod t = some p) : vPeriodFrom t = .ok p :=
  rfcPeriod_vPeriodFrom h

theorem period_rt_explicit (s e : PDateTime) (hs : s.valid = true) (he : e.valid = true) :
    vPeriodFrom (vPeriodTo (.dt s) (.dt e)) = .ok (.period (.dt s) (.dt e)) :=
  decode_grammar_period _ _ (period_grammar_explicit s e hs he)

theorem period_rt_duration (s : PDateTime) (d : Int) (hs : s.valid = true) :
    vPeriodFrom (vPeriodTo (.dt s) (.dur d)) = .ok (.period (.dt s) (.dur d)) :=
  decode_grammar_period _ _ (period_grammar_duration s d hs)

/-! ## `vDDDTypes.from_ical`: each grammar-valid text reaches the decoder of its own type -/

theorem ddd_dispatch_date (t : Str) (v : PDate) (h : rfcDate t = some v) :
    dddFrom t = (vDateFrom t).map (fun x => .atom (.date x)) ∧ dddFrom t = .ok (.atom (.date v)) := by
  have := dddCore_date vPeriodFrom h
  exact ⟨this, by rw [show dddFrom t = _ from this, rfcDate_vDateFrom h]; rfl⟩

theorem ddd_dispatch_datetime (t : Str) (v : PDateTime) (h : rfcDateTime t = some v) :
    dddFrom t = (vDatetimeFrom t).map (fun x => .atom (.dt x)) ∧ dddFrom t = .ok (.atom (.dt v)) := by
  have := dddCore_datetime vPeriodFrom h
  exact ⟨this, by rw [show dddFrom t = _ from this, rfcDateTime_vDatetimeFrom h]; rfl⟩

/-- TIME texts reach the time decoder (which then loses the UTC flag: D08). -/
theorem ddd_dispatch_time (t : Str) (v : PTime) (h : rfcTime t = some v) :
    dddFrom t = (vTimeFrom t).map (fun x => .atom (.time x)) ∧
      dddFrom t = .ok (.atom (.time { v with utc := false })) := by
  have := dddCore_time vPeriodFrom h
  exact ⟨this, by rw [show dddFrom t = _ from this, rfcTime_vTimeFrom h]; rfl⟩

theorem ddd_dispatch_duration (t : Str) (v : Int) (h : rfcDuration t = some v) :
    dddFrom t = (durFromE t).map (fun s => .atom (.dur s)) ∧ dddFrom t = .ok (.atom (.dur v)) := by
  have := dddCore_duration vPeriodFrom h
  exact ⟨this, by rw [show dddFrom t = _ from this, durFromE_of (rfcDuration_durFrom h)]; rfl⟩

theorem ddd_dispatch_period (t : Str) (p : DDD) (h : rfcPeriod t = some p) :
    dddFrom t = vPeriodFrom t ∧ dddFrom t = .ok p := by
  have := dddFrom_period h
  exact ⟨this, by rw [this, rfcPeriod_vPeriodFrom h]⟩

/-- The five classes are pairwise disjoint: a text is grammar-valid for at most one of DATE,
    DATE-TIME, TIME, DURATION, PERIOD. -/
theorem ddd_classes_disjoint (t : Str) :
    (dateText t = true → dateTimeText t = false ∧ timeText t = false ∧ durText t = false ∧ periodText t = false) ∧
    (dateTimeText t = true → timeText t = false ∧ durText t = false ∧ periodText t = false) ∧
    (timeText t = true → durText t = false ∧ periodText t = false) ∧
    (durText t = true → periodText t = false) := by
  unfold dateText dateTimeText timeText durText periodText
  refine ⟨?_, ?_, ?_, ?_⟩
  · intro h
    obtain ⟨a, ha⟩ := Option.isSome_iff_exists.1 h
    exact ⟨isSome_false_of fun b hb => disj_date_datetime ha hb, isSome_false_of fun b hb => disj_date_time ha hb,
      isSome_false_of fun b hb => disj_date_dur ha hb, isSome_false_of fun b hb => disj_date_period ha hb⟩
  · intro h
    obtain ⟨a, ha⟩ := Option.isSome_iff_exists.1 h
    exact ⟨isSome_false_of fun b hb => disj_datetime_time ha hb, isSome_false_of fun b hb => disj_datetime_dur ha hb,
      isSome_false_of fun b hb => disj_datetime_period ha hb⟩
  · intro h
    obtain ⟨a, ha⟩ := Option.isSome_iff_exists.1 h
    exact ⟨isSome_false_of fun b hb => disj_time_dur ha hb, isSome_false_of fun b hb => disj_time_period ha hb⟩
  · intro h
    obtain ⟨a, ha⟩ := Option.isSome_iff_exists.1 h
    exact isSome_false_of fun b hb => disj_dur_period ha hb

/-! ## Regenerated function bodies = hand model

  `ICal.Gen.Bodies.*` are Lean definitions that tools/py2lean.py writes from the *current source text*
  of the `to_ical` methods on every run (local assignments, `if`/`elif`/`else`, f-strings, `//`, `%`,
  `abs`, Python truthiness, `timedelta` arithmetic; every `self.<attr>` and every external call is a
  parameter).  The `body_*` theorems below prove each regenerated body equal to the hand-written
  encoder of ICal/Model/Codec.lean on the whole domain of the model, so every theorem of this file
  about `durTo`, `offTo`, `vDateTo`, `vDatetimeTo`, `vMonthTo`, `boolTo`, `intTo` is re-checked against
  what the code says now, without sampling: a body whose meaning changed makes this file fail to
  build.  `timedelta` is `PyRT.TD` in CPython's normal form (`TD.wf`: `0 <= seconds < 86400`);
  `TD.toSeconds` / `TD.ofSeconds` connect it to the `Int` seconds of the model.  The translator and
  its runtime (ICal/Model/PyRT.lean) are trusted and differentially tested against the real functions
  and CPython's operators (harness/props/C03.py, "translated bodies").
  `vTime.to_ical` uses `strftime` and is outside the translated subset (hand model, correspondence). -/

open PyRT in
theorem body_vDuration_to_ical (td : TD) (h : td.wf) :
    Gen.Bodies.vDuration_to_ical td = durTo td.toSeconds :=
  Bodies.vDuration_to_ical_eq td h

open PyRT in
theorem body_vUTCOffset_to_ical (td : TD) (h : td.wf) :
    Gen.Bodies.vUTCOffset_to_ical td = offTo td.toSeconds :=
  Bodies.vUTCOffset_to_ical_eq td h

theorem body_vDate_to_ical (d : PDate) : Gen.Bodies.vDate_to_ical (Bodies.dateOf d) = vDateTo d :=
  Bodies.vDate_to_ical_eq d

/-- `tzid` is the answer of `tzid_from_dt(dt)` (external, a parameter); the model's `utc` flag is
    `tzid == 'UTC'`, which is part of the translated body. -/
theorem body_vDatetime_to_ical (t : PDateTime) (tzid : Option Str) (h : t.utc = (tzid == some Bodies.UTC)) :
    Gen.Bodies.vDatetime_to_ical (Bodies.dateTimeOf t) tzid = vDatetimeTo t :=
  Bodies.vDatetime_to_ical_eq t tzid h

theorem body_vMonth_str (n : Int) (leap : Bool) : Gen.Bodies.vMonth_str n leap = vMonthTo n leap :=
  Bodies.vMonth_str_eq n leap

theorem body_vMonth_to_ical (n : Int) (leap : Bool) : Gen.Bodies.vMonth_to_ical n leap = vMonthTo n leap :=
  Bodies.vMonth_to_ical_eq n leap

theorem body_vBoolean_to_ical (n : Int) : Gen.Bodies.vBoolean_to_ical n = boolTo (n != 0) :=
  Bodies.vBoolean_to_ical_eq n

theorem body_vInt_to_ical (n : Int) : Gen.Bodies.vInt_to_ical n = intTo n :=
  Bodies.vInt_to_ical_eq n

/-- every `Int` of seconds is the value of exactly one normal-form `timedelta`, so the two theorems
    above cover the whole domain of `durTo` / `offTo` -/
theorem body_timedelta_domain (s : Int) :
    (PyRT.TD.ofSeconds s).wf ∧ (PyRT.TD.ofSeconds s).toSeconds = s ∧
      Gen.Bodies.vDuration_to_ical (PyRT.TD.ofSeconds s) = durTo s ∧
      Gen.Bodies.vUTCOffset_to_ical (PyRT.TD.ofSeconds s) = offTo s :=
  ⟨Bodies.ofSeconds_wf s, Bodies.toSeconds_ofSeconds s, Bodies.vDuration_of_seconds s, Bodies.vUTCOffset_of_seconds s⟩

/-- composition, as an instance of what the tie buys: the round trip and the grammar clause hold of
    the text that the *translated code* produces -/
theorem body_duration_rt (td : PyRT.TD) (h : td.wf) :
    durFrom (Gen.Bodies.vDuration_to_ical td) = some td.toSeconds ∧
      rfcDuration (Gen.Bodies.vDuration_to_ical td) = some td.toSeconds := by
  rw [body_vDuration_to_ical td h]
  exact ⟨duration_rt _, duration_grammar _⟩

theorem body_utcoffset_rt (td : PyRT.TD) (h : td.wf) (hb : td.toSeconds.natAbs < 86400) :
    offFrom (Gen.Bodies.vUTCOffset_to_ical td) = .ok td.toSeconds ∧
      rfcUtcOffset (Gen.Bodies.vUTCOffset_to_ical td) = some td.toSeconds := by
  rw [body_vUTCOffset_to_ical td h]
  exact ⟨utcoffset_rt _ hb, utcoffset_grammar _ hb⟩

theorem body_date_rt (d : PDate) (h : d.valid = true) :
    vDateFrom (Gen.Bodies.vDate_to_ical (Bodies.dateOf d)) = .ok d ∧
      rfcDate (Gen.Bodies.vDate_to_ical (Bodies.dateOf d)) = some d := by
  rw [body_vDate_to_ical d]
  exact ⟨date_rt d h, date_grammar d h⟩

/-! ## Regenerated DECODER bodies = hand model

  `ICal.Gen.BodiesDec.*` are written by tools/py2lean.py from the current source of the `from_ical`
  methods (slicing, `int()`, `date/time/datetime(...)`, `timedelta(...)`, `try .. except: raise
  ValueError`, early returns).  A function that can raise is `Py T = Except Exc T`; `Bodies.liftRes f`
  carries a result of the hand model over (`ok v` to `ok (f v)`, ValueError to ValueError).  `int(str)`,
  `validDate`, `okTime` are the definitions of the hand model itself (ICal/Model/PyRTDec.lean reuses
  them), so these theorems tie the control flow, the slice bounds, the range checks and the error
  handling of each decoder.  Parameters: `vDatetime.from_ical` is specialised to `timezone=None` and
  takes `tzp.localize_utc` as a function parameter (the model's `utc` flag = "it was applied");
  `vDuration.from_ical` takes the match object of `DURATION_REGEX.match(t)`, for which
  `PyRT.durGroups` is the hand model (same scanner as `durFrom`, returning the group texts; compared
  with the real `re` module every run). -/

theorem body_vDate_from_ical (t : Str) :
    Gen.BodiesDec.vDate_from_ical t = Bodies.liftRes Bodies.dateOf (vDateFrom t) :=
  Bodies.vDate_from_ical_eq t

theorem body_vTime_from_ical (t : Str) :
    Gen.BodiesDec.vTime_from_ical t = Bodies.liftRes Bodies.timeOf (vTimeFrom t) :=
  Bodies.vTime_from_ical_eq t

open PyRT in
theorem body_vDatetime_from_ical (t : Str) (localizeUtc : PyDateTime → PyDateTime) :
    Gen.BodiesDec.vDatetime_from_ical t localizeUtc =
      Bodies.liftRes (fun p => if p.utc then localizeUtc (Bodies.dateTimeOf { p with utc := false })
                               else Bodies.dateTimeOf p) (vDatetimeFrom t) :=
  Bodies.vDatetime_from_ical_eq t localizeUtc

theorem body_vUTCOffset_from_ical (t : Str) :
    Gen.BodiesDec.vUTCOffset_from_ical t = Bodies.liftRes PyRT.TD.ofSeconds (offFrom t) :=
  Bodies.vUTCOffset_from_ical_eq t

theorem body_vDuration_from_ical (t : Str) :
    Gen.BodiesDec.vDuration_from_ical t (PyRT.durGroups t) = Bodies.liftRes PyRT.TD.ofSeconds (durFromE t) :=
  Bodies.vDuration_from_ical_eq t

theorem body_vInt_from_ical (t : Str) : Gen.BodiesDec.vInt_from_ical t = Bodies.liftRes id (intFrom t) :=
  Bodies.vInt_from_ical_eq t

/-- both directions translated: the regenerated decoder inverts the regenerated encoder -/
theorem body_date_decode_encode (d : PDate) (h : d.valid = true) :
    Gen.BodiesDec.vDate_from_ical (Gen.Bodies.vDate_to_ical (Bodies.dateOf d)) = .ok (Bodies.dateOf d) := by
  rw [body_vDate_to_ical, body_vDate_from_ical, date_rt d h]; rfl

theorem body_duration_decode_encode (s : Int) :
    Gen.BodiesDec.vDuration_from_ical (Gen.Bodies.vDuration_to_ical (PyRT.TD.ofSeconds s))
        (PyRT.durGroups (Gen.Bodies.vDuration_to_ical (PyRT.TD.ofSeconds s))) = .ok (PyRT.TD.ofSeconds s) := by
  rw [(body_timedelta_domain s).2.2.1, body_vDuration_from_ical]
  have h := duration_rt s
  simp only [durFromE, h]; rfl

theorem body_utcoffset_decode_encode (s : Int) (hb : s.natAbs < 86400) :
    Gen.BodiesDec.vUTCOffset_from_ical (Gen.Bodies.vUTCOffset_to_ical (PyRT.TD.ofSeconds s)) =
      .ok (PyRT.TD.ofSeconds s) := by
  rw [(body_timedelta_domain s).2.2.2, body_vUTCOffset_from_ical, utcoffset_rt s hb]; rfl

/-! ## Non-vacuity: the hypotheses are satisfiable, on boundary values and on the quirks -/

example : (⟨2024, 2, 29⟩ : PDate).valid = true := by decide
example : (⟨1900, 2, 29⟩ : PDate).valid = false := by decide
example : (⟨1, 1, 1⟩ : PDate).valid = true ∧ (⟨9999, 12, 31⟩ : PDate).valid = true := by decide
example : vDateTo ⟨1, 1, 1⟩ = "00010101".toList := by decide
example : vDateFrom "20240229".toList = .ok ⟨2024, 2, 29⟩ := by decide
example : vDateFrom "20230229".toList = .error .valueError := by decide
example : rfcDateTime "99991231T235959Z".toList = some ⟨⟨9999, 12, 31⟩, 23, 59, 59, true⟩ := by decide
example : (⟨⟨2000, 2, 29⟩, 23, 59, 59, true⟩ : PDateTime).valid = true := by decide
example : (⟨23, 59, 59, false⟩ : PTime).valid = true := by decide
example : durTo (-93784) = "-P1DT2H3M4S".toList := by decide
example : durTo 3604 = "PT1H0M4S".toList := by decide
example : durTo 0 = "P0D".toList := by decide
example : rfcDuration "PT1H30S".toList = none := by decide        -- not RFC grammar ...
example : durFrom "PT1H30S".toList = some 3630 := by decide        -- ... but accepted (not a violation)
example : durFrom "P1D\n".toList = some 86400 := by decide         -- `$` matches before a final LF
example : rfcDuration "+P2W".toList = some 1209600 := by decide
example : offTo (-3600) = "-0100".toList ∧ offTo 0 = "+0000".toList ∧ offTo 19801 = "+053001".toList := by decide
example : offFrom "-0000".toList = .ok 0 ∧ rfcUtcOffset "-0000".toList = none := by decide
example : offFrom "+2400".toList = .error .valueError := by decide
example : (-86399 : Int).natAbs < 86400 := by decide
example : intFrom " +1_000 ".toList = .ok 1000 := by decide        -- `int()` quirks are modelled
example : rfcWeekdayNum "-53SU".toList = some (0, some (-53)) := by decide
example : vWeekdayFrom "-1su".toList = .ok ⟨"-1SU".toList, "SU".toList, some (-1)⟩ := by decide
example : "YEARLY".toList ∈ frequencies := by decide
example : vMonthFrom "5L".toList = .ok (5, true) ∧ vMonthFrom "".toList = .error .indexError := by decide
example : rfcPeriod "19970101T180000Z/PT5H30M".toList =
    some (.period (.dt ⟨⟨1997, 1, 1⟩, 18, 0, 0, true⟩) (.dur 19800)) := by decide
example : dddFrom "19970101T180000Z/19970102T070000Z".toList =
    .ok (.period (.dt ⟨⟨1997, 1, 1⟩, 18, 0, 0, true⟩) (.dt ⟨⟨1997, 1, 2⟩, 7, 0, 0, true⟩)) := by decide
example : dateText "20240229".toList = true ∧ timeText "235959Z".toList = true ∧ durText "-PT0S".toList = true := by decide
example : (⟨-2, 79200⟩ : PyRT.TD).wf ∧ (⟨-2, 79200⟩ : PyRT.TD).toSeconds = -93600 := by decide
example : Gen.Bodies.vDuration_to_ical ⟨-2, 79200⟩ = "-P1DT2H".toList := by decide      -- `td = -td`
example : Gen.Bodies.vDuration_to_ical ⟨0, 3604⟩ = "PT1H0M4S".toList := by decide        -- `minutes or (hours and seconds)`
example : Gen.Bodies.vUTCOffset_to_ical ⟨-1, 82800⟩ = "-0100".toList := by decide
example : Gen.Bodies.vDatetime_to_ical ⟨2024, 2, 29, 23, 59, 59⟩ (some Bodies.UTC) = "20240229T235959Z".toList := by decide
example : PyRT.fmtZ 2 (-5) = "-5".toList ∧ PyRT.fmtZ 3 (-5) = "-05".toList ∧ PyRT.fmtZ 2 123 = "123".toList := by decide
example : PyRT.floorDiv (-7) 2 = -4 ∧ PyRT.pyMod (-7) 2 = 1 ∧ PyRT.pyMod 7 (-2) = -1 := by decide
example : PyRT.TD.neg ⟨0, 1⟩ = ⟨-1, 86399⟩ := by decide
example : Gen.BodiesDec.vDate_from_ical "20240229".toList = .ok ⟨2024, 2, 29⟩ := by decide
example : Gen.BodiesDec.vDate_from_ical "20230229".toList = .error .valueError := by decide
example : Gen.BodiesDec.vUTCOffset_from_ical "+2400".toList = .error .valueError := by decide
example : Gen.BodiesDec.vUTCOffset_from_ical "-0130".toList = .ok ⟨-1, 81000⟩ := by decide
example : (PyRT.durGroups "-P1DT2H".toList).map (fun g => (g.1, g.2.2.1, g.2.2.2.1)) =
    some (some ['-'], some ['1'], some ['2']) := by decide

/-! ### the typed dispatchers as regenerated (wave 6): `vDDDTypes.from_ical` / `to_ical`, `vPeriod.from_ical` / `to_ical`

`Bodies.dddFromP` / `periodFromP` / `atomToP` / `periodToP` are the translated functions with the pieces of
ICal/Model/DDDPieces.lean; `lu` stands for `tzp.localize_utc`, `tz` for `tzid_from_dt`. -/

/-- the order of the tests of `vDDDTypes.from_ical` is the model's `dddFrom` -/
theorem body_vDDDTypes_from_ical (lu : PyRT.PyDateTime → PyRT.PyDateTime) (t : Str) :
    Bodies.dddFromP lu t = Bodies.liftRes (Bodies.dddPy lu) (dddFrom t) := Bodies.ddd_from_eq lu t

theorem body_vPeriod_from_ical (lu : PyRT.PyDateTime → PyRT.PyDateTime) (t : Str) :
    (Bodies.periodFromP lu t >>= fun r => (pure (PyRT.PyDDD.period r.1 r.2) : PyRT.Py PyRT.PyDDD)) =
      Bodies.liftRes (Bodies.dddPy lu) (vPeriodFrom t) := Bodies.period_eq lu t

/-- the two functions call each other in the source; the knot is cut on the parts of a period, where the dispatcher
    ignores its period parameter -/
theorem body_vDDDTypes_inner_indep (lu : PyRT.PyDateTime → PyRT.PyDateTime)
    (per per' : Str → Unit → PyRT.Py (PyRT.PyDDD × PyRT.PyDDD)) (t : Str) (h : (upper t).contains '/' = false) :
    Gen.BodiesDec.vDDDTypes_from_ical (ical := t) (m_of := PyRT.durGroups) (period_from_ical := per) (localize_utc := lu) =
      Gen.BodiesDec.vDDDTypes_from_ical (ical := t) (m_of := PyRT.durGroups) (period_from_ical := per') (localize_utc := lu) :=
  Bodies.ddd_inner_indep lu per per' t h

theorem body_vDDDTypes_to_ical (tz : PyRT.PyDateTime → Option Str) (a : Atom) (h : Bodies.TzAgrees tz a) :
    Bodies.atomToP tz a = .ok (atomTo a) := Bodies.atom_to_eq tz a h

theorem body_vPeriod_to_ical (tz : PyRT.PyDateTime → Option Str) (a b : Atom) (ha : Bodies.TzAgrees tz a) (hb : Bodies.TzAgrees tz b) :
    Bodies.periodToP tz a b = .ok (vPeriodTo a b) := Bodies.period_to_eq tz a b ha hb

/-- the regenerated `vMonth.__new__` on a str (`vMonth.from_ical(t)` is `cls(t)`) is the model's `vMonthNew` -/
theorem body_vMonth_new (t : Str) :
    Gen.BodiesDec.vMonth_new (month := t) (params := ()) (new_int := Bodies.moNew) (set_leap := Bodies.moSetLeap)
      (params_of := fun _ => ()) (set_params := fun m _ => m) = Bodies.liftRes id (vMonthNew t) := Bodies.vMonth_new_eq t

end ICal.C03
