#!/bin/bash
# MANIFEST.setup_cmd: build the framework from files on disk only (offline).
set -e
cd "$(dirname "$0")"
/venv/bin/python tools/extract.py || true     # regenerate lean/ICal/Gen from /repo (a failure is reported by the checks)
cd lean
TARGETS=$(/venv/bin/python -c "import json; print(' '.join('ICal.Props.'+c['property_id'] for c in json.load(open('../MANIFEST.json'))['checks']))")
flock .build.lock lake build $TARGETS icalmodel 2>&1 | tail -5
test -x .lake/build/bin/icalmodel
cd ..
/venv/bin/python -m compileall -q harness tools >/dev/null
echo setup-ok
