#!/bin/bash
# MANIFEST.setup_cmd: build the framework from files on disk only (offline).
set -e
cd "$(dirname "$0")"
/venv/bin/python tools/extract.py || true     # regenerate lean/ICal/Gen from /repo (a failure is reported by the checks)
cd lean
TARGETS=$(ls ICal/Props/*.lean | sed 's#/#.#g; s#\.lean$##')
flock .build.lock lake build $TARGETS icalmodel 2>&1 | tail -5
test -x .lake/build/bin/icalmodel
cd ..
/venv/bin/python -m compileall -q harness tools >/dev/null
echo setup-ok
