#!/venv/bin/python
"""Try one seeded change against the checks, in a scratch rig (never in /repo, never in /verif).

  seedtest.py --rig N --patch P.diff --demo demo.py --props C05,C08 [--tier quick] [--seed 0]

Rig N = /tmp/mutrig/N/{repo,verif}: a git worktree of /repo's HEAD and a copy of /verif (with its
build output).  Steps: clean worktree -> demo must exit 0 -> apply patch -> pinned test suite must
still pass (all baseline-stable tests) -> demo must exit 1 -> run each check with VERIF_REPO
pointing at the rig -> report -> clean up.  Prints one JSON object.
"""
import json
import os
import shutil
import subprocess
import sys
import time

VERIF = os.path.dirname(os.path.dirname(os.path.abspath(__file__)))


def sh(cmd, **kw):
    return subprocess.run(cmd, stdout=subprocess.PIPE, stderr=subprocess.STDOUT, text=True, **kw)


def main():
    a = sys.argv[1:]
    opt = {a[i][2:]: a[i + 1] for i in range(0, len(a), 2)}
    rig = os.path.join('/tmp/mutrig', opt.get('rig', '0'))
    repo = os.path.join(rig, 'repo')
    verif = os.path.join(rig, 'verif')
    os.makedirs(rig, exist_ok=True)
    if not os.path.isdir(repo):
        sh(['git', '-C', '/repo', 'worktree', 'add', '-q', '--detach', repo, 'HEAD'])
    head = sh(['git', '-C', '/repo', 'rev-parse', 'HEAD']).stdout.strip()
    sh(['git', '-C', repo, 'checkout', '-q', '--detach', head])
    sh(['git', '-C', repo, 'checkout', '--', '.'])
    sh(['git', '-C', repo, 'clean', '-fdq'])
    # generated, git-ignored file that one test imports
    if os.path.exists('/repo/src/icalendar/_version.py'):
        shutil.copy('/repo/src/icalendar/_version.py', os.path.join(repo, 'src', 'icalendar', '_version.py'))
    sh(['rsync', '-a', '--delete', '--exclude', '.git', '--exclude', 'replays', '--exclude', '__pycache__',
        VERIF + '/', verif + '/'])
    res = {'patch': opt['patch'], 'props': {}, 'head': head}
    env = dict(os.environ)
    env['PYTHONPATH'] = os.path.join(repo, 'src')
    demo = opt.get('demo')
    if demo:
        p = sh(['/venv/bin/python', demo], env=env, cwd=repo, timeout=600)
        res['demo_clean_exit'] = p.returncode
    p = sh(['git', '-C', repo, 'apply', os.path.abspath(opt['patch'])])
    res['apply'] = p.returncode
    if p.returncode != 0:
        res['apply_out'] = p.stdout[-500:]
        print(json.dumps(res, indent=1))
        return 2
    if opt.get('suite', '1') == '1':
        p = sh(['/venv/bin/python', os.path.join(VERIF, 'tools', 'baseline.py'), '--src', repo], timeout=1800)
        res['suite'] = p.stdout.strip().splitlines()[0] if p.stdout.strip() else ''
        res['suite_ok'] = p.returncode == 0
    if demo:
        p = sh(['/venv/bin/python', demo], env=env, cwd=repo, timeout=600)
        res['demo_patched_exit'] = p.returncode
        res['demo_patched_out'] = p.stdout[-400:]
    env2 = dict(os.environ)
    env2['VERIF_REPO'] = repo
    env2['VERIF_SEED'] = opt.get('seed', '0')
    for prop in opt['props'].split(','):
        t0 = time.time()
        try:
            p = sh([os.path.join(verif, 'check'), prop, '--tier', opt.get('tier', 'quick')], env=env2, cwd=verif, timeout=3000)
            out = p.stdout
            rc = p.returncode
        except subprocess.TimeoutExpired:
            out, rc = 'TIMEOUT', 2
        lines = [ln[:300] for ln in out.splitlines() if ln.startswith(('VIOLATION', 'BROKEN', 'KNOWN-FINDING', prop + ' tier'))]
        lines = ([ln for ln in lines if ln.startswith('VIOLATION')][:4] + [ln for ln in lines if ln.startswith(prop + ' tier')]
                 + [ln for ln in lines if not ln.startswith(('VIOLATION', prop + ' tier'))])
        res['props'][prop] = {'exit': rc, 'wall': round(time.time() - t0, 1), 'lines': lines[:12],
                              'tail': out[-300:] if rc == 2 else ''}
        # keep the first replay for the record
        rp = os.path.join(verif, 'replays')
        if rc == 1 and os.path.isdir(rp):
            res['props'][prop]['replays'] = sorted(os.listdir(rp))[:4]
    sh(['git', '-C', repo, 'checkout', '--', '.'])
    sh(['git', '-C', repo, 'clean', '-fdq'])
    print(json.dumps(res, indent=1))
    return 0


if __name__ == '__main__':
    sys.exit(main())
