#!/venv/bin/python
"""seedadopt.py <prop> <letter> <what> <needs> [also_props]  : copy /tmp/seed/<prop>/<letter>.diff + demo into seeded/, confirm in rig 9"""
import json, os, shutil, subprocess, sys
VERIF = os.path.dirname(os.path.dirname(os.path.abspath(__file__)))
prop, letter, what, needs = sys.argv[1:5]
also = sys.argv[5].split(',') if len(sys.argv) > 5 and sys.argv[5] else []
src = os.environ.get('SEEDDIR', '/tmp/seed')
out_letter = os.environ.get('OUT', letter)
sid = f'{prop}-{out_letter}'
d = os.path.join(VERIF, 'seeded', sid)
os.makedirs(d, exist_ok=True)
shutil.copy(f'{src}/{prop}/{letter}.diff', os.path.join(d, 'patch.diff'))
shutil.copy(f'{src}/{prop}/demo_{letter}.py', os.path.join(d, 'demo.py'))
p = subprocess.run(['/venv/bin/python', os.path.join(VERIF, 'tools', 'seedtest.py'), '--rig', os.environ.get('RIG', '9'), '--patch', os.path.join(d, 'patch.diff'),
                    '--demo', os.path.join(d, 'demo.py'), '--props', prop, '--suite', '1'], stdout=subprocess.PIPE, stderr=subprocess.STDOUT, text=True)
res = json.loads(p.stdout[p.stdout.index('{'):])
confirmed = res.get('apply') == 0 and res.get('suite_ok') and res.get('demo_clean_exit') == 0 and res.get('demo_patched_exit') not in (0, None)
meta = {'property': prop, 'what': what, 'needs': needs, 'also': also,
        'confirmed': bool(confirmed),
        'ran': {'suite_with_change': res.get('suite'), 'demo_clean_exit': res.get('demo_clean_exit'),
                'demo_patched_exit': res.get('demo_patched_exit'),
                'commands': ['tools/seedtest.py --rig 9 --patch patch.diff --demo demo.py --props ' + prop + ' --suite 1',
                             'tools/baseline.py --src <rig> (pinned suite with the change)', 'python demo.py with PYTHONPATH=<rig>/src, with and without the change']},
        'source': 'written by a fresh sub-agent that was given only the property text and a private worktree'}
json.dump(meta, open(os.path.join(d, 'meta.json'), 'w'), indent=1)
json.dump(res, open(os.path.join(d, 'result.json'), 'w'), indent=1)
r = res['props'].get(prop, {})
print(sid, 'confirmed=' + str(confirmed), 'check exit', r.get('exit'), 'wall', r.get('wall'), [l[:90] for l in r.get('lines', []) if l.startswith(('VIOLATION','BROKEN'))][:4])
