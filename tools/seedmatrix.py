#!/venv/bin/python
"""Run every confirmed seeded change (seeded/<id>/patch.diff) against a set of checks, several rigs in
parallel, and write seeded/INDEX.md + seeded/<id>/result.json.

  seedmatrix.py [--jobs 6] [--props target|all|C05,C08] [--only id1,id2]

'target' (default) runs the property the change was written against plus the properties listed in
meta.json 'also'; 'all' runs every claimed check.
"""
import json
import os
import subprocess
import sys
from concurrent.futures import ThreadPoolExecutor

VERIF = os.path.dirname(os.path.dirname(os.path.abspath(__file__)))
SEEDED = os.path.join(VERIF, 'seeded')


def claimed():
    with open(os.path.join(VERIF, 'MANIFEST.json')) as f:
        return [c['property_id'] for c in json.load(f)['checks']]


def run_one(args):
    rig, sid, props = args
    d = os.path.join(SEEDED, sid)
    demo = os.path.join(d, 'demo.py')
    cmd = ['/venv/bin/python', os.path.join(VERIF, 'tools', 'seedtest.py'), '--rig', str(rig), '--patch',
           os.path.join(d, 'patch.diff'), '--props', ','.join(props), '--suite', '0']
    if os.path.exists(demo):
        cmd += ['--demo', demo]
    p = subprocess.run(cmd, stdout=subprocess.PIPE, stderr=subprocess.STDOUT, text=True)
    try:
        res = json.loads(p.stdout[p.stdout.index('{'):])
    except Exception:
        res = {'error': p.stdout[-800:]}
    # keep the results of checks that were not re-run this time (each entry is dated by the harness commit it ran at)
    try:
        old = json.load(open(os.path.join(d, 'result.json')))
        merged = dict(old.get('props', {}))
        merged.update(res.get('props', {}))
        if 'props' in res:
            res['props'] = merged
    except Exception:
        pass
    with open(os.path.join(d, 'result.json'), 'w') as f:
        json.dump(res, f, indent=1)
    return sid, res


def main():
    a = sys.argv[1:]
    opt = {a[i][2:]: a[i + 1] for i in range(0, len(a), 2)}
    jobs = int(opt.get('jobs', '6'))
    ids = sorted(x for x in os.listdir(SEEDED) if os.path.isdir(os.path.join(SEEDED, x)))
    if 'only' in opt:
        ids = [i for i in ids if i in opt['only'].split(',')]
    work = []
    for n, sid in enumerate(ids):
        with open(os.path.join(SEEDED, sid, 'meta.json')) as f:
            meta = json.load(f)
        which = opt.get('props', 'target')
        if which == 'all':
            props = claimed()
        elif which == 'target':
            props = [meta['property']] + [p for p in meta.get('also', []) if p != meta['property']]
        else:
            props = which.split(',')
        props = [p for p in props if p in claimed()]
        work.append((sid, props))
    # static assignment of rigs: worker k uses rig k
    results = {}
    queues = [[] for _ in range(jobs)]
    for i, (sid, props) in enumerate(work):
        queues[i % jobs].append((sid, props))

    def worker(k):
        out = []
        for sid, props in queues[k]:
            out.append(run_one((k, sid, props)))
        return out
    with ThreadPoolExecutor(max_workers=jobs) as ex:
        for lst in ex.map(worker, range(jobs)):
            for sid, res in lst:
                results[sid] = res
    write_index()


def write_index():
    ids = sorted(x for x in os.listdir(SEEDED) if os.path.isdir(os.path.join(SEEDED, x)))
    lines = ['# Seeded changes and the checks that catch them', '',
             'Each row: a change to collective/icalendar written by a fresh sub-agent that saw only the property text; '
             'confirmed here (suite green with the change, demonstration fails with it and passes without). '
             '"caught by" lists the checks that exit 1 with the change applied, and how: `input` = a concrete failing '
             'input was found on the implementation (VIOLATION with replay), `tie` = only a broken proof / translator / '
             'correspondence was reported (no-failing-input-found).', '',
             '| id | property | what the change does | needs | caught by | missed by (of those run) |', '|---|---|---|---|---|---|']
    for sid in ids:
        d = os.path.join(SEEDED, sid)
        try:
            meta = json.load(open(os.path.join(d, 'meta.json')))
        except Exception:
            continue
        res = {}
        if os.path.exists(os.path.join(d, 'result.json')):
            res = json.load(open(os.path.join(d, 'result.json')))
        caught, missed = [], []
        for p, r in sorted(res.get('props', {}).items()):
            if r['exit'] == 1:
                tie = any('no-failing-input-found' in ln for ln in r['lines'])
                how = 'tie' if tie else 'input'
                kinds = sorted({ln.split(']')[0][7:] for ln in r['lines'] if ln.startswith('BROKEN[')})
                caught.append(f"{p} ({how}{'; ' + '+'.join(kinds) if kinds else ''})")
            elif r['exit'] == 0:
                missed.append(p)
            else:
                missed.append(p + ' (exit 2)')
        lines.append(f"| {sid} | {meta['property']} | {meta['what'].replace('|', '/')} | {meta['needs'].replace('|', '/')} | "
                     f"{', '.join(caught) or '-'} | {', '.join(missed) or '-'} |")
    with open(os.path.join(SEEDED, 'INDEX.md'), 'w') as f:
        f.write('\n'.join(lines) + '\n')


if __name__ == '__main__':
    if len(sys.argv) > 1 and sys.argv[1] == '--index':
        write_index()
    else:
        main()
