#!/venv/bin/python
"""Run the pinned test suite of /repo (or of the tree given by --src) and compare
the set of passing tests with BASELINE.json's stable_pass list.

exit 0: every baseline-stable test still passes.   exit 1: some do not (listed).
"""
import json, os, subprocess, sys, tempfile, xml.etree.ElementTree as ET

def main():
    src = '/repo'
    if '--src' in sys.argv:
        src = sys.argv[sys.argv.index('--src') + 1]
    base = json.load(open('/root/.vp/BASELINE.json'))
    stable = set(base['stable_pass'])
    with tempfile.TemporaryDirectory() as td:
        junit = os.path.join(td, 'j.xml')
        env = dict(os.environ)
        env.pop('ICALENDAR_VERIF', None)
        if src != '/repo':
            env['PYTHONPATH'] = os.path.join(src, 'src')
        cmd = ['/venv/bin/python', '-m', 'pytest', '-q', '-p', 'no:cacheprovider', '--timeout=900',
               '--continue-on-collection-errors', '--junitxml=' + junit]
        p = subprocess.run(cmd, cwd=src, env=env, stdout=subprocess.PIPE, stderr=subprocess.STDOUT, text=True)
        tree = ET.parse(junit)
    passed = set()
    for tc in tree.iter('testcase'):
        bad = any(ch.tag in ('failure', 'error', 'skipped') for ch in tc)
        if not bad:
            name = f"{tc.get('classname')}::{tc.get('name')}"
            if src != '/repo':
                name = name.replace(src.rstrip('/'), '/repo')   # some test ids embed the checkout path
            passed.add(name)
    missing = sorted(stable - passed)
    print(f"passed={len(passed)} stable={len(stable)} missing={len(missing)}")
    for m in missing[:40]:
        print("  MISSING", m)
    if missing:
        print(p.stdout[-3000:])
    sys.exit(1 if missing else 0)

main()
