#!/venv/bin/python
"""Translator: Python source of /repo/src/icalendar (parsed with `ast`, never imported or
executed here) -> Lean definitions under lean/ICal/Gen/.

Everything *declarative* in the source is translated: replace chains, regex character classes
and pattern shapes, constants, tables.  The Lean proofs quote these definitions, so a `lake
build` after this step re-proves the theorems against what the code says now.

Function BODIES of arithmetic / string-formatting / decoding code (the functions listed in
tools/py2lean.py TARGETS: to_ical encoders, from_ical decoders, parser.dquote / q_join) are
translated too, by tools/py2lean.py, into Gen/Bodies.lean, Gen/BodiesDec.lean, Gen/BodiesParser.lean,
Gen/BodiesLine.lean, Gen/BodiesFold.lean, Gen/BodiesText.lean (loops included);
theorems prove each regenerated body equal to the hand model (lean/ICal/Lemmas/Bodies*.lean).

All other control flow is not translated (it is hand-modelled and tied by the correspondence
run); for every hand-modelled function an AST fingerprint is written to Gen/fingerprints.json so
that a changed function body escalates the correspondence volume (it is never a violation by
itself).

Usage: extract.py [--src /repo/src/icalendar] [--out /verif/lean/ICal/Gen] [--crosscheck]
Exit 0: all Gen files written (only rewritten when their content changes).
Exit 3: a construct no longer has the shape the translator understands (tie broken); the
        message names it.
"""
import ast
import hashlib
import json
import os
import sys

HERE = os.path.dirname(os.path.abspath(__file__))
if HERE not in sys.path:
    sys.path.insert(0, HERE)       # tools/py2lean.py (gen_bodies)
SRC = os.path.join(os.environ.get('VERIF_REPO', '/repo'), 'src', 'icalendar')
OUT = os.path.join(HERE, '..', 'lean', 'ICal', 'Gen')


class Untranslatable(Exception):
    pass


# ---------------------------------------------------------------- Lean literal helpers

def lchar(c):
    o = ord(c)
    if c == '\\':
        return "'\\\\'"
    if c == "'":
        return "'\\''"
    if c == '\n':
        return "'\\n'"
    if c == '\r':
        return "'\\r'"
    if c == '\t':
        return "'\\t'"
    if 32 <= o < 127:
        return f"'{c}'"
    return f"(Char.ofNat {o})"


def lstr(s):
    if isinstance(s, bytes):
        s = s.decode('latin-1')
    return '[' + ', '.join(lchar(c) for c in s) + ']'


def lstrlist(xs):
    return '[' + ', '.join(lstr(x) for x in xs) + ']'


# ---------------------------------------------------------------- AST helpers

def parse(path):
    with open(path, encoding='utf-8') as f:
        return ast.parse(f.read(), filename=path)


def find_func(tree, name, cls=None):
    body = tree.body
    if cls is not None:
        for node in tree.body:
            if isinstance(node, ast.ClassDef) and node.name == cls:
                body = node.body
                break
        else:
            raise Untranslatable(f'class {cls} not found')
    for node in body:
        if isinstance(node, (ast.FunctionDef,)) and node.name == name:
            return node
    raise Untranslatable(f'function {cls + "." if cls else ""}{name} not found')


def find_class(tree, name):
    for node in tree.body:
        if isinstance(node, ast.ClassDef) and node.name == name:
            return node
    raise Untranslatable(f'class {name} not found')


def find_assign(body, name):
    for node in body:
        if isinstance(node, ast.Assign):
            for t in node.targets:
                if isinstance(t, ast.Name) and t.id == name:
                    return node.value
        if isinstance(node, ast.AnnAssign) and isinstance(node.target, ast.Name) and node.target.id == name \
                and node.value is not None:
            return node.value
    raise Untranslatable(f'assignment to {name} not found')


def const(node):
    """Evaluate a constant expression (str/bytes/int constants, implicit concatenation)."""
    if isinstance(node, ast.Constant):
        return node.value
    if isinstance(node, ast.BinOp) and isinstance(node.op, ast.Add):
        return const(node.left) + const(node.right)
    raise Untranslatable(f'not a constant: {ast.dump(node)[:80]}')


def replace_chain(expr, var):
    """expr = var.replace(a,b).replace(c,d)... -> [(a,b),(c,d),...]"""
    chain = []
    node = expr
    while True:
        if isinstance(node, ast.Name) and node.id == var:
            break
        if not (isinstance(node, ast.Call) and isinstance(node.func, ast.Attribute)
                and node.func.attr == 'replace' and len(node.args) == 2 and not node.keywords):
            raise Untranslatable(f'not a replace chain on {var}: {ast.dump(node)[:100]}')
        a, b = const(node.args[0]), const(node.args[1])
        if isinstance(a, bytes):
            a, b = a.decode('latin-1'), b.decode('latin-1')
        if not a:
            raise Untranslatable('empty replace pattern')
        chain.append((a, b))
        node = node.func.value
    chain.reverse()
    return chain


def fingerprint(node):
    """Normalised dump of a function: no positions, no docstring."""
    node = ast.parse(ast.unparse(node)).body[0]
    if (node.body and isinstance(node.body[0], ast.Expr) and isinstance(node.body[0].value, ast.Constant)
            and isinstance(node.body[0].value.value, str)):
        node.body = node.body[1:] or [ast.Pass()]
    return hashlib.sha256(ast.dump(node, include_attributes=False).encode()).hexdigest()[:16]


def first_return(func):
    for node in ast.walk(func):
        if isinstance(node, ast.Return):
            return node.value
    raise Untranslatable(f'no return in {func.name}')


def regex_source(tree, name):
    """NAME = re.compile(<const>) -> pattern as str (bytes patterns decoded latin-1)."""
    v = find_assign(tree.body, name)
    if not (isinstance(v, ast.Call) and isinstance(v.func, ast.Attribute) and v.func.attr == 'compile'
            and len(v.args) >= 1):
        raise Untranslatable(f'{name} is not re.compile(...)')
    p = const(v.args[0])
    if isinstance(p, bytes):
        p = p.decode('latin-1')
    return p


def char_class(pattern, what):
    r"""A pattern that is exactly one bracket class '[...]' -> sorted list of (lo, hi) code point
    ranges.  Understands literal characters, a-b ranges, and backslash escapes \\ \; \- \] ."""
    if not (pattern.startswith('[') and pattern.endswith(']')) or pattern.startswith('[^'):
        raise Untranslatable(f'{what}: not a single positive character class: {pattern!r}')
    body = pattern[1:-1]
    items = []
    i = 0
    while i < len(body):
        c = body[i]
        if c == '\\':
            i += 1
            if i >= len(body):
                raise Untranslatable(f'{what}: dangling backslash')
            c = body[i]
            if c in 'wWdDsSbB':
                raise Untranslatable(f'{what}: class escape \\{c} not supported here')
        if i + 2 < len(body) and body[i + 1] == '-':
            hi = body[i + 2]
            if hi == '\\':
                raise Untranslatable(f'{what}: escaped range end')
            items.append((ord(c), ord(hi)))
            i += 3
        else:
            items.append((ord(c), ord(c)))
            i += 1
    return sorted(set(items))


def lranges(rs):
    return '[' + ', '.join(f'({a}, {b})' for a, b in rs) + ']'


# ---------------------------------------------------------------- parser.py

def gen_parser(src):
    tree = parse(os.path.join(src, 'parser.py'))
    tools = parse(os.path.join(src, 'parser_tools.py'))
    out = []
    fp = {}
    w = out.append
    w('/- GENERATED by tools/extract.py from src/icalendar/parser.py and parser_tools.py. Do not edit. -/')
    w('import ICal.Model.PyStr')
    w('namespace ICal.Gen')
    w('')

    # escape_char: return text.replace(...)...
    f = find_func(tree, 'escape_char')
    chain = replace_chain(first_return(f), f.args.args[0].arg)
    w('/-- `escape_char`: the ordered `.replace` chain -/')
    w('def escapeCharChain : List (Str × Str) := [' + ', '.join(f'({lstr(a)}, {lstr(b)})' for a, b in chain) + ']')
    w('')

    # unescape_char: either the two replace chains (unrepaired code) or the single-pass regex
    f = find_func(tree, 'unescape_char')
    rets = [n.value for n in ast.walk(f) if isinstance(n, ast.Return)]
    if len(rets) != 2:
        raise Untranslatable('unescape_char: expected a str branch and a bytes branch')
    shapes = []
    for r in rets:
        if isinstance(r, ast.Call) and isinstance(r.func, ast.Attribute) and r.func.attr == 'sub' \
                and isinstance(r.func.value, ast.Name) and len(r.args) == 2 and isinstance(r.args[0], ast.Name):
            rx = regex_source(tree, r.func.value.id)
            cb = find_func(tree, r.args[0].id)
            shapes.append(('regex', rx, cb))
        else:
            shapes.append(('chain', replace_chain(r, f.args.args[0].arg), None))
    if shapes[0][0] != shapes[1][0]:
        raise Untranslatable('unescape_char: str and bytes branches have different shapes')
    if shapes[0][0] == 'regex':
        if shapes[0][1] != shapes[1][1]:
            raise Untranslatable('unescape_char: str and bytes regexes differ')
        rx = shapes[0][1]
        # expected shape: \\(CLASS)|\r\n
        pre, post = '\\\\(', ')|\\r\\n'
        if not (rx.startswith(pre) and rx.endswith(post)):
            raise Untranslatable(f'unescape_char regex has an unknown shape: {rx!r}')
        cls = char_class(rx[len(pre):-len(post)], 'unescape class')
        # callbacks: return '\n' if char is None or char in 'nN' else char
        nls = []
        for _, _, cb in shapes:
            ret = first_return(cb)
            ok = (isinstance(ret, ast.IfExp) and isinstance(ret.test, ast.BoolOp) and isinstance(ret.test.op, ast.Or)
                  and len(ret.test.values) == 2
                  and isinstance(ret.test.values[1], ast.Compare) and isinstance(ret.test.values[1].ops[0], ast.In)
                  and isinstance(ret.orelse, ast.Name))
            if not ok:
                raise Untranslatable(f'{cb.name}: unknown shape')
            nl = const(ret.test.values[1].comparators[0])
            body = const(ret.body)
            if isinstance(nl, bytes):
                nl, body = nl.decode('latin-1'), body.decode('latin-1')
            nls.append((nl, body))
        if nls[0] != nls[1]:
            raise Untranslatable('unescape callbacks for str and bytes differ')
        w('/-- `unescape_char` is the single-pass regex `\\\\(CLASS)|\\r\\n`; CLASS as code point ranges -/')
        w('def unescapeSinglePass : Bool := true')
        w(f'def unescapeClass : List (Nat × Nat) := {lranges(cls)}')
        w(f'def unescapeToNewline : Str := {lstr(nls[0][0])}')
        w(f'def unescapeNewline : Str := {lstr(nls[0][1])}')
        w('def unescapeCharChain : List (Str × Str) := []')
    else:
        if shapes[0][1] != shapes[1][1]:
            raise Untranslatable('unescape_char: str and bytes chains differ')
        w('def unescapeSinglePass : Bool := false')
        w('def unescapeClass : List (Nat × Nat) := []')
        w('def unescapeToNewline : Str := []')
        w('def unescapeNewline : Str := []')
        w('def unescapeCharChain : List (Str × Str) := [' +
          ', '.join(f'({lstr(a)}, {lstr(b)})' for a, b in shapes[0][1]) + ']')
    w('')

    for fn, lean in (('escape_string', 'escapeStringChain'), ('unescape_string', 'unescapeStringChain')):
        f = find_func(tree, fn)
        chain = replace_chain(first_return(f), f.args.args[0].arg)
        w(f'/-- `{fn}` -/')
        w(f'def {lean} : List (Str × Str) := [' + ', '.join(f'({lstr(a)}, {lstr(b)})' for a, b in chain) + ']')
    w('')

    # foldline defaults and the slice width
    f = find_func(tree, 'foldline')
    names = [a.arg for a in f.args.args]
    defaults = dict(zip(names[len(names) - len(f.args.defaults):], f.args.defaults))
    limit = const(defaults['limit'])
    sep = const(defaults['fold_sep'])
    w(f'def foldLimit : Nat := {limit}')
    w(f'def foldSep : Str := {lstr(sep)}')
    # slice width: line[i:i + limit - 1] for i in range(0, len(line), limit - 1)
    widths = []
    for n in ast.walk(f):
        if isinstance(n, ast.Subscript) and isinstance(n.slice, ast.Slice):
            widths.append(ast.unparse(n.slice))
        if isinstance(n, ast.Call) and isinstance(n.func, ast.Name) and n.func.id == 'range' and len(n.args) == 3:
            widths.append(ast.unparse(n.args[2]))
    if sorted(widths) != sorted(['i:i + limit - 1', 'limit - 1']):
        raise Untranslatable(f'foldline ASCII path: slice/step are {widths}, expected limit - 1')
    w('/-- ASCII path slices `limit - 1` characters with step `limit - 1` -/')
    w('def foldSliceMinus : Nat := 1')
    # unicode path: byte_count >= limit
    cmps = [ast.unparse(n) for n in ast.walk(f) if isinstance(n, ast.Compare)]
    if 'byte_count >= limit' not in cmps:
        raise Untranslatable(f'foldline unicode path: comparison is {cmps}')
    w('def foldUniCmpGe : Bool := true')
    w('')

    # regexes
    for name, lean in (('UNSAFE_CHAR', 'unsafeChar'), ('QUNSAFE_CHAR', 'qunsafeChar'), ('QUOTABLE', 'quotable')):
        w(f'/-- `{name}` = {regex_source(tree, name)!r} -/')
        w(f'def {lean} : List (Nat × Nat) := {lranges(char_class(regex_source(tree, name), name))}')
    nm = regex_source(tree, 'NAME')
    if nm != '[\\w.-]+':
        raise Untranslatable(f'NAME regex changed shape: {nm!r}')
    w('/-- `NAME` = `[\\w.-]+` : extra characters besides `\\w` -/')
    w(f'def nameExtra : Str := {lstr(".-")}')
    for name in ('FOLD', 'uFOLD'):
        if regex_source(tree, name) != '(\r?\n)+[ \t]':
            raise Untranslatable(f'{name} regex changed: {regex_source(tree, name)!r}')
    w('/-- `uFOLD`/`FOLD` = `(\\r?\\n)+[ \\t]` (shape recognised; the scanner in Model/Fold implements it) -/')
    w(f'def foldWs : Str := {lstr(" " + chr(9))}')
    if regex_source(tree, 'NEWLINE') != '\\r?\\n':
        raise Untranslatable(f'NEWLINE regex changed: {regex_source(tree, "NEWLINE")!r}')
    w('def newlineIsOptCRLF : Bool := true')
    w('')

    # dquote: val.replace('"', "'")
    f = find_func(tree, 'dquote')
    reps = [n for n in ast.walk(f) if isinstance(n, ast.Call) and isinstance(n.func, ast.Attribute)
            and n.func.attr == 'replace']
    if len(reps) != 1:
        raise Untranslatable('dquote: expected one replace')
    a, b = const(reps[0].args[0]), const(reps[0].args[1])
    if len(a) != 1:
        raise Untranslatable('dquote: replace pattern is not one character')
    w(f'def dquoteFrom : Char := {lchar(a)}')
    w(f'def dquoteTo : Str := {lstr(b)}')
    enc = const(find_assign(tools.body, 'DEFAULT_ENCODING'))
    if enc != 'utf-8':
        raise Untranslatable(f'DEFAULT_ENCODING is {enc!r}')
    w('def defaultEncodingUtf8 : Bool := true')
    w('')
    w('end ICal.Gen')

    for fn, cls in (('escape_char', None), ('unescape_char', None), ('foldline', None), ('param_value', None),
                    ('validate_token', None), ('validate_param_value', None), ('dquote', None), ('q_split', None),
                    ('q_join', None), ('escape_string', None), ('unescape_string', None),
                    ('unescape_list_or_string', None), ('to_ical', 'Parameters'), ('from_ical', 'Parameters'),
                    ('__new__', 'Contentline'), ('from_parts', 'Contentline'), ('parts', 'Contentline'),
                    ('from_ical', 'Contentline'), ('to_ical', 'Contentline'), ('to_ical', 'Contentlines'),
                    ('from_ical', 'Contentlines')):
        try:
            fp[f'parser.{cls + "." if cls else ""}{fn}'] = fingerprint(find_func(tree, fn, cls))
        except Untranslatable:
            fp[f'parser.{cls + "." if cls else ""}{fn}'] = 'missing'
    for opt in ('raw_value',):
        try:
            fp[f'parser.Contentline.{opt}'] = fingerprint(find_func(tree, opt, 'Contentline'))
        except Untranslatable:
            fp[f'parser.Contentline.{opt}'] = 'missing'
    try:
        fp['parser.split_on_unescaped_comma'] = fingerprint(find_func(tree, 'split_on_unescaped_comma'))
    except Untranslatable:
        fp['parser.split_on_unescaped_comma'] = 'missing'
    for fn in ('to_unicode', 'from_unicode'):
        fp[f'parser_tools.{fn}'] = fingerprint(find_func(tools, fn))
    return '\n'.join(out) + '\n', fp



# ---------------------------------------------------------------- cal.py / prop.py tables

def str_seq(node, env=None):
    """tuple/list of string constants (or a reference Class.attr resolved through env)"""
    if isinstance(node, (ast.Tuple, ast.List)):
        return [const(e) for e in node.elts]
    if isinstance(node, ast.Attribute) and isinstance(node.value, ast.Name) and env is not None:
        return env[node.value.id][node.attr]
    raise Untranslatable(f'not a sequence of strings: {ast.dump(node)[:80]}')


def td_seconds(call):
    """timedelta(days=.., hours=.., minutes=.., seconds=..) -> seconds"""
    if not (isinstance(call, ast.Call) and isinstance(call.func, ast.Name) and call.func.id == 'timedelta'
            and not call.args):
        raise Untranslatable(f'not a timedelta(...) call: {ast.dump(call)[:80]}')
    unit = {'days': 86400, 'hours': 3600, 'minutes': 60, 'seconds': 1, 'weeks': 604800}
    total = 0
    for kw in call.keywords:
        if kw.arg not in unit:
            raise Untranslatable(f'timedelta keyword {kw.arg}')
        total += unit[kw.arg] * const(kw.value)
    return total


def td_list(node):
    """[timedelta(days=d) for d in (..)] + [timedelta(..), ...] -> list of seconds"""
    if isinstance(node, ast.BinOp) and isinstance(node.op, ast.Add):
        return td_list(node.left) + td_list(node.right)
    if isinstance(node, ast.List):
        return [td_seconds(e) for e in node.elts]
    if isinstance(node, ast.ListComp) and len(node.generators) == 1:
        g = node.generators[0]
        if not (isinstance(g.target, ast.Name) and isinstance(g.iter, (ast.Tuple, ast.List)) and not g.ifs):
            raise Untranslatable('skip-search comprehension shape')
        var = g.target.id
        out = []
        for e in g.iter.elts:
            val = const(e)
            call = node.elt
            if not (isinstance(call, ast.Call) and isinstance(call.func, ast.Name) and call.func.id == 'timedelta'
                    and len(call.keywords) == 1 and isinstance(call.keywords[0].value, ast.Name)
                    and call.keywords[0].value.id == var):
                raise Untranslatable('skip-search comprehension element')
            unit = {'days': 86400, 'hours': 3600, 'minutes': 60, 'seconds': 1}[call.keywords[0].arg]
            out.append(unit * val)
        return out
    raise Untranslatable(f'not a timedelta list: {ast.dump(node)[:80]}')


def date_const(node):
    if isinstance(node, ast.Call) and isinstance(node.func, ast.Name) and node.func.id == 'date' and len(node.args) == 3:
        return [const(a) for a in node.args]
    raise Untranslatable('not a date(y, m, d) constant')


def dict_of_str(node, value=lambda n: const(n)):
    """CaselessDict({...}) or {...} with string keys"""
    if isinstance(node, ast.Call) and node.args:
        node = node.args[0]
    if not isinstance(node, ast.Dict):
        raise Untranslatable(f'not a dict literal: {ast.dump(node)[:60]}')
    return [(const(k), value(v)) for k, v in zip(node.keys, node.values)]


def name_of(node):
    if isinstance(node, ast.Name):
        return node.id
    raise Untranslatable(f'not a name: {ast.dump(node)[:60]}')


def literal_seqs_in(func):
    """all tuple/list literals of >=2 string constants inside a function, in source order"""
    out = []
    for n in ast.walk(func):
        if isinstance(n, (ast.Tuple, ast.List)) and len(n.elts) >= 2 and all(
                isinstance(e, ast.Constant) and isinstance(e.value, str) for e in n.elts):
            out.append((n.lineno, n.col_offset, [e.value for e in n.elts]))
    return [x[2] for x in sorted(out)]


COMPONENT_ATTRS = ('name', 'canonical_order', 'required', 'singletons', 'exclusive', 'multiple', 'ignore_exceptions')


def gen_cal(src):
    tree = parse(os.path.join(src, 'cal.py'))
    out = []
    w = out.append
    fp = {}
    tables = {}
    w('/- GENERATED by tools/extract.py from src/icalendar/cal.py. Do not edit. -/')
    w('import ICal.Model.PyStr')
    w('namespace ICal.Gen')
    w('')
    # component classes
    env = {}
    classes = []
    for node in tree.body:
        if isinstance(node, ast.ClassDef) and any(isinstance(b, ast.Name) and b.id in ('Component', 'CaselessDict') for b in node.bases):
            if node.name == 'ComponentFactory':
                continue
            attrs = {'name': None, 'canonical_order': [], 'required': [], 'singletons': [], 'exclusive': [],
                     'multiple': [], 'ignore_exceptions': False}
            for st in node.body:
                if isinstance(st, ast.Assign) and len(st.targets) == 1 and isinstance(st.targets[0], ast.Name) \
                        and st.targets[0].id in COMPONENT_ATTRS:
                    key = st.targets[0].id
                    if key == 'name':
                        attrs[key] = const(st.value)
                    elif key == 'ignore_exceptions':
                        attrs[key] = bool(const(st.value))
                    else:
                        attrs[key] = str_seq(st.value, env)
            env[node.name] = attrs
            if node.name != 'Component':
                classes.append((node.name, attrs))
    tables['components'] = {c: a for c, a in classes}
    w('structure CompClass where')
    w('  cls : Str')
    w('  name : Str')
    w('  canonicalOrder : List Str')
    w('  required : List Str')
    w('  singletons : List Str')
    w('  exclusive : List Str')
    w('  multiple : List Str')
    w('  ignoreExceptions : Bool')
    w('')
    w('def compClasses : List CompClass := [')
    rows = []
    for cname, a in classes:
        rows.append(f'  {{ cls := {lstr(cname)}, name := {lstr(a["name"] or "")}, canonicalOrder := {lstrlist(a["canonical_order"])},\n'
                    f'    required := {lstrlist(a["required"])}, singletons := {lstrlist(a["singletons"])},\n'
                    f'    exclusive := {lstrlist(a["exclusive"])}, multiple := {lstrlist(a["multiple"])},\n'
                    f'    ignoreExceptions := {"true" if a["ignore_exceptions"] else "false"} }}')
    w(',\n'.join(rows) + ']')
    w('')
    # component factory
    cf = find_func(tree, '__init__', 'ComponentFactory')
    fac = []
    for st in cf.body:
        if isinstance(st, ast.Assign) and isinstance(st.targets[0], ast.Subscript) and isinstance(st.targets[0].value, ast.Name) \
                and st.targets[0].value.id == 'self':
            fac.append((const(st.targets[0].slice), name_of(st.value)))
    if not fac:
        raise Untranslatable('ComponentFactory.__init__: no registrations found')
    tables['component_factory'] = fac
    w('/-- `ComponentFactory`: component name -> class -/')
    w('def componentFactory : List (Str × Str) := [' + ', '.join(f'({lstr(k)}, {lstr(v)})' for k, v in fac) + ']')
    inline = dict_of_str(find_assign(tree.body, 'INLINE'))
    tables['inline'] = [k for k, _ in inline]
    w(f'def inlineNames : List Str := {lstrlist([k for k, _ in inline])}')
    w('')
    # literals inside Component.add and Component.from_ical
    comp = find_class(tree, 'Component')
    add = [n for n in comp.body if isinstance(n, ast.FunctionDef) and n.name == 'add'][0]
    seqs = literal_seqs_in(add)
    if len(seqs) != 2:
        raise Untranslatable(f'Component.add: expected two name literals, found {seqs}')
    tables['add_utc_names'], tables['add_list_names'] = seqs
    w('/-- `Component.add`: names whose datetime values are forced to UTC; names whose list values are not split -/')
    w(f'def addUtcNames : List Str := {lstrlist(seqs[0])}')
    w(f'def addListNames : List Str := {lstrlist(seqs[1])}')
    fi = [n for n in comp.body if isinstance(n, ast.FunctionDef) and n.name == 'from_ical'][0]
    dn = None
    for n in ast.walk(fi):
        if isinstance(n, ast.Assign) and isinstance(n.targets[0], ast.Name) and n.targets[0].id == 'datetime_names':
            dn = str_seq(n.value)
    if dn is None:
        raise Untranslatable('Component.from_ical: datetime_names not found')
    tables['datetime_names'] = dn
    w(f'def datetimeNames : List Str := {lstrlist(dn)}')
    # does from_ical dispatch on the upper-cased name?  (uname == 'FREEBUSY', uname in datetime_names)
    cmps = [ast.unparse(n) for n in ast.walk(fi) if isinstance(n, ast.Compare)]
    lb = lambda b: 'true' if b else 'false'
    w('def fromIcalFreebusyOnUname : Bool := ' + lb("uname == 'FREEBUSY'" in cmps))
    w('def fromIcalDatetimeOnUname : Bool := ' + lb(any(c.startswith('uname in datetime_names') for c in cmps)))
    w('def fromIcalTextRaw : Bool := ' + lb(any('raw_value' in ast.unparse(n) for n in ast.walk(fi) if isinstance(n, ast.Call))))
    w('')
    tz = find_class(tree, 'Timezone')
    steps = td_list(find_assign(tz.body, '_from_tzinfo_skip_search'))
    tables['skip_search'] = steps
    w('/-- `Timezone._from_tzinfo_skip_search` in seconds -/')
    w('def skipSearch : List Nat := [' + ', '.join(str(x) for x in steps) + ']')
    fd = date_const(find_assign(tz.body, '_DEFAULT_FIRST_DATE'))
    ld = date_const(find_assign(tz.body, '_DEFAULT_LAST_DATE'))
    tables['default_dates'] = [fd, ld]
    w(f'def defaultFirstDate : Nat × Nat × Nat := ({fd[0]}, {fd[1]}, {fd[2]})')
    w(f'def defaultLastDate : Nat × Nat × Nat := ({ld[0]}, {ld[1]}, {ld[2]})')
    w('')
    w('end ICal.Gen')
    for cls, fns in (('Component', ['_encode', 'add', 'property_items', 'from_ical', 'content_line', 'content_lines',
                                    'to_ical', '__eq__', '_walk', 'walk', 'copy']),
                     ('Calendar', ['get_used_tzids', 'get_missing_tzids', 'add_missing_timezones']),
                     ('Timezone', ['_extract_offsets', 'get_transitions', 'from_tzinfo', 'from_tzid', 'to_tz']),
                     ('Event', ['_get_start_end_duration']), ('Todo', ['_get_start_end_duration']),
                     ('Alarm', ['triggers'])):
        for fn in fns:
            try:
                fp[f'cal.{cls}.{fn}'] = fingerprint(find_func(tree, fn, cls))
            except Untranslatable:
                fp[f'cal.{cls}.{fn}'] = 'missing'
    for fn in ('create_utc_property', 'create_single_property', '_get_duration', '_set_duration', '_del_duration'):
        fp[f'cal.{fn}'] = fingerprint(find_func(tree, fn))
    return '\n'.join(out) + '\n', fp, tables


def gen_prop(src):
    tree = parse(os.path.join(src, 'prop.py'))
    out = []
    w = out.append
    fp = {}
    tables = {}
    w('/- GENERATED by tools/extract.py from src/icalendar/prop.py. Do not edit. -/')
    w('import ICal.Model.PyStr')
    w('namespace ICal.Gen')
    w('')
    tf = find_class(tree, 'TypesFactory')
    tmap = dict_of_str(find_assign(tf.body, 'types_map'))
    tables['types_map'] = tmap
    w('/-- `TypesFactory.types_map`: property / parameter name -> type key (last entry wins for a repeated key) -/')
    w('def typesMap : List (Str × Str) := [' + ', '.join(f'({lstr(k)}, {lstr(v)})' for k, v in tmap) + ']')
    init = [n for n in tf.body if isinstance(n, ast.FunctionDef) and n.name == '__init__'][0]
    reg = []
    for st in init.body:
        if isinstance(st, ast.Assign) and isinstance(st.targets[0], ast.Subscript) and isinstance(st.targets[0].value, ast.Name) \
                and st.targets[0].value.id == 'self':
            reg.append((const(st.targets[0].slice), name_of(st.value)))
    if not reg:
        raise Untranslatable('TypesFactory.__init__: no registrations')
    tables['type_registry'] = reg
    w('/-- `TypesFactory()`: type key -> value class -/')
    w('def typeRegistry : List (Str × Str) := [' + ', '.join(f'({lstr(k)}, {lstr(v)})' for k, v in reg) + ']')
    fpn = [n for n in tf.body if isinstance(n, ast.FunctionDef) and n.name == 'for_property'][0]
    if ast.unparse(first_return(fpn)) != "self[self.types_map.get(name, 'text')]":
        raise Untranslatable('TypesFactory.for_property changed shape: ' + ast.unparse(first_return(fpn)))
    w("def typesDefault : Str := " + lstr('text'))
    w('')
    rc = find_class(tree, 'vRecur')
    order = str_seq(find_assign(rc.body, 'canonical_order'))
    tables['recur_order'] = order
    w(f'def recurCanonicalOrder : List Str := {lstrlist(order)}')
    rtypes = dict_of_str(find_assign(rc.body, 'types'), name_of)
    tables['recur_types'] = rtypes
    w('def recurTypes : List (Str × Str) := [' + ', '.join(f'({lstr(k)}, {lstr(v)})' for k, v in rtypes) + ']')
    wd = dict_of_str(find_assign(find_class(tree, 'vWeekday').body, 'week_days'))
    tables['week_days'] = wd
    w('def weekDays : List (Str × Nat) := [' + ', '.join(f'({lstr(k)}, {v})' for k, v in wd) + ']')
    fr = dict_of_str(find_assign(find_class(tree, 'vFrequency').body, 'frequencies'))
    tables['frequencies'] = [k for k, _ in fr]
    w(f'def frequencies : List Str := {lstrlist([k for k, _ in fr])}')
    dr = regex_source(tree, 'DURATION_REGEX')
    if dr != '([-+]?)P(?:(\\d+)W)?(?:(\\d+)D)?(?:T(?:(\\d+)H)?(?:(\\d+)M)?(?:(\\d+)S)?)?$':
        raise Untranslatable(f'DURATION_REGEX changed: {dr!r}')
    wr = regex_source(tree, 'WEEKDAY_RULE')
    if wr != '(?P<signal>[+-]?)(?P<relative>[\\d]{0,2})(?P<weekday>[\\w]{2})$':
        raise Untranslatable(f'WEEKDAY_RULE changed: {wr!r}')
    w('/-- DURATION_REGEX and WEEKDAY_RULE have the shapes the hand-written matchers implement -/')
    w('def durationRegexShape : Bool := true')
    w('def weekdayRuleShape : Bool := true')
    w('')
    w('end ICal.Gen')
    for cls in ('vBinary', 'vBoolean', 'vText', 'vCalAddress', 'vFloat', 'vInt', 'vDDDLists', 'vCategory', 'TimeBase',
                'vDDDTypes', 'vDate', 'vDatetime', 'vDuration', 'vPeriod', 'vWeekday', 'vFrequency', 'vMonth',
                'vRecur', 'vTime', 'vUri', 'vGeo', 'vUTCOffset', 'vInline'):
        try:
            node = find_class(tree, cls)
            for st in node.body:
                if isinstance(st, ast.FunctionDef):
                    fp[f'prop.{cls}.{st.name}'] = fingerprint(st)
        except Untranslatable:
            fp[f'prop.{cls}'] = 'missing'
    return '\n'.join(out) + '\n', fp, tables


def gen_misc(src):
    """fingerprints only: alarms.py, caselessdict.py, timezone/*.py, tools.py"""
    fp = {}
    for rel in ('alarms.py', 'caselessdict.py', 'tools.py', 'timezone/tzp.py', 'timezone/zoneinfo.py',
                'timezone/pytz.py', 'timezone/tzid.py'):
        tree = parse(os.path.join(src, rel))
        mod = rel[:-3].replace('/', '.')
        for node in tree.body:
            if isinstance(node, ast.FunctionDef):
                fp[f'{mod}.{node.name}'] = fingerprint(node)
            elif isinstance(node, ast.ClassDef):
                for st in node.body:
                    if isinstance(st, ast.FunctionDef):
                        fp[f'{mod}.{node.name}.{st.name}'] = fingerprint(st)
    return None, fp, {}


def gen_bodies(src, group='enc'):
    """function bodies: tools/py2lean.py (Python subset -> Lean definitions), one `def` per function.
    Groups: enc = the to_ical encoders (Bodies.lean), dec = the from_ical decoders (BodiesDec.lean),
    parser = parser.dquote / q_join / q_split (BodiesParser.lean), line = escape_string / unescape_string /
    Contentline.raw_value / the scanning loop of Contentline.parts (BodiesLine.lean), fold = foldline
    (BodiesFold.lean), text = split_on_unescaped_comma (BodiesText.lean), alarm = AlarmTime / Alarms of alarms.py and
    tools.is_date / is_datetime (BodiesAlarm.lean), walk = Component._walk / walk (BodiesWalk.lean), ser =
    Component.property_items (BodiesSer.lean), cdict = the delegating methods of CaselessDict (BodiesCDict.lean), se = Event.end / Todo.end and
    tools.is_date on the values of Model/StartEnd (BodiesSE.lean), parse = Component.from_ical (BodiesParse.lean), recur = vRecur.parse_type / from_ical / to_ical (BodiesRecur.lean), add = Component.add / _encode / vDDDLists.__init__ (BodiesAdd.lean), cdmeta = CaselessDict.__ne__ / __eq__ /
    sorted_keys / sorted_items (BodiesCDictMeta.lean);
    one generated file each, so that a failure breaks the tie
    only of the properties whose Lean modules import that file"""
    import py2lean
    try:
        return py2lean.translate(src, group)
    except Exception as e:  # noqa: BLE001
        # py2lean imports this file as the module `extract`; when this file runs as a script its exception
        # class is a different object from ours, so the failure is re-raised as the class main() catches
        if type(e).__name__ == 'Untranslatable':
            raise Untranslatable(str(e)) from None
        raise


def gen_bodies_dec(src):
    return gen_bodies(src, 'dec')


def gen_bodies_parser(src):
    return gen_bodies(src, 'parser')


def gen_bodies_line(src):
    return gen_bodies(src, 'line')


def gen_bodies_fold(src):
    return gen_bodies(src, 'fold')


def gen_bodies_text(src):
    return gen_bodies(src, 'text')


def gen_bodies_alarm(src):
    return gen_bodies(src, 'alarm')


def gen_bodies_walk(src):
    return gen_bodies(src, 'walk')


def gen_bodies_ser(src):
    return gen_bodies(src, 'ser')


def gen_bodies_cdict(src):
    return gen_bodies(src, 'cdict')


def gen_bodies_se(src):
    return gen_bodies(src, 'se')


def gen_bodies_parse(src):
    return gen_bodies(src, 'parse')


def gen_bodies_recur(src):
    return gen_bodies(src, 'recur')


def gen_bodies_add(src):
    return gen_bodies(src, 'add')


def gen_bodies_cdmeta(src):
    return gen_bodies(src, 'cdmeta')


def gen_bodies_tzuse(src):
    return gen_bodies(src, 'tzuse')


def gen_bodies_cdsort(src):
    return gen_bodies(src, 'cdsort')


def gen_bodies_tz(src):
    return gen_bodies(src, 'tz')


def gen_bodies_sedesc(src):
    return gen_bodies(src, 'sedesc')


# ---------------------------------------------------------------- driver

GENERATORS = [('Parser.lean', gen_parser), ('Cal.lean', gen_cal), ('Prop.lean', gen_prop), (None, gen_misc),
              ('Bodies.lean', gen_bodies), ('BodiesDec.lean', gen_bodies_dec), ('BodiesParser.lean', gen_bodies_parser),
              ('BodiesLine.lean', gen_bodies_line), ('BodiesFold.lean', gen_bodies_fold), ('BodiesText.lean', gen_bodies_text),
              ('BodiesAlarm.lean', gen_bodies_alarm), ('BodiesWalk.lean', gen_bodies_walk), ('BodiesSer.lean', gen_bodies_ser),
              ('BodiesCDict.lean', gen_bodies_cdict), ('BodiesSE.lean', gen_bodies_se), ('BodiesParse.lean', gen_bodies_parse), ('BodiesRecur.lean', gen_bodies_recur), ('BodiesAdd.lean', gen_bodies_add), ('BodiesCDictMeta.lean', gen_bodies_cdmeta),
              ('BodiesTzUse.lean', gen_bodies_tzuse), ('BodiesCDictSort.lean', gen_bodies_cdsort),
              ('BodiesTz.lean', gen_bodies_tz), ('BodiesSEDesc.lean', gen_bodies_sedesc)]


def write_if_changed(path, content):
    try:
        with open(path, encoding='utf-8') as f:
            if f.read() == content:
                return False
    except FileNotFoundError:
        pass
    tmp = path + '.tmp'
    with open(tmp, 'w', encoding='utf-8') as f:
        f.write(content)
    os.replace(tmp, path)
    return True


def main(argv):
    src, out = SRC, OUT
    if '--src' in argv:
        src = argv[argv.index('--src') + 1]
    if '--out' in argv:
        out = argv[argv.index('--out') + 1]
    os.makedirs(out, exist_ok=True)
    fps = {}
    changed = []
    failed = []
    tables = {}
    for fname, gen in GENERATORS:
        try:
            res = gen(src)
        except (Untranslatable, SyntaxError, KeyError, IndexError, OSError) as e:
            failed.append(f'{fname}: {type(e).__name__}: {e}')
            continue
        content, fp = res[0], res[1]
        if len(res) > 2:
            tables.update(res[2])
        fps.update(fp)
        if fname and write_if_changed(os.path.join(out, fname), content):
            changed.append(fname)
    write_if_changed(os.path.join(out, 'tables.json'), json.dumps(tables, indent=1, sort_keys=True) + '\n')
    write_if_changed(os.path.join(out, 'fingerprints.json'), json.dumps(fps, indent=1, sort_keys=True) + '\n')
    print(json.dumps({'changed': changed, 'failed': failed}))
    return 3 if failed else 0


if __name__ == '__main__':
    sys.exit(main(sys.argv[1:]))
