#!/venv/bin/python
"""Translator: Python source of /repo/src/icalendar (parsed with `ast`, never imported or
executed here) -> Lean definitions under lean/ICal/Gen/.

Everything *declarative* in the source is translated: replace chains, regex character classes
and pattern shapes, constants, tables.  The Lean proofs quote these definitions, so a `lake
build` after this step re-proves the theorems against what the code says now.

Control flow is not translated (it is hand-modelled and tied by the correspondence run); for
every hand-modelled function an AST fingerprint is written to Gen/fingerprints.json so that a
changed function body escalates the correspondence volume (it is never a violation by itself).

Usage: extract.py [--src /repo/src/icalendar] [--out /verif/lean/ICal/Gen] [--crosscheck]
Exit 0: all Gen files written (only rewritten when their content changes).
Exit 3: a construct no longer has the shape the translator understands (tie broken); the
        message names it.
"""
import ast
import hashlib
import json
import os
import sys

HERE = os.path.dirname(os.path.abspath(__file__))
SRC = '/repo/src/icalendar'
OUT = os.path.join(HERE, '..', 'lean', 'ICal', 'Gen')


class Untranslatable(Exception):
    pass


# ---------------------------------------------------------------- Lean literal helpers

def lchar(c):
    o = ord(c)
    if c == '\\':
        return "'\\\\'"
    if c == "'":
        return "'\\''"
    if c == '\n':
        return "'\\n'"
    if c == '\r':
        return "'\\r'"
    if c == '\t':
        return "'\\t'"
    if 32 <= o < 127:
        return f"'{c}'"
    return f"(Char.ofNat {o})"


def lstr(s):
    if isinstance(s, bytes):
        s = s.decode('latin-1')
    return '[' + ', '.join(lchar(c) for c in s) + ']'


def lstrlist(xs):
    return '[' + ', '.join(lstr(x) for x in xs) + ']'


# ---------------------------------------------------------------- AST helpers

def parse(path):
    with open(path, encoding='utf-8') as f:
        return ast.parse(f.read(), filename=path)


def find_func(tree, name, cls=None):
    body = tree.body
    if cls is not None:
        for node in tree.body:
            if isinstance(node, ast.ClassDef) and node.name == cls:
                body = node.body
                break
        else:
            raise Untranslatable(f'class {cls} not found')
    for node in body:
        if isinstance(node, (ast.FunctionDef,)) and node.name == name:
            return node
    raise Untranslatable(f'function {cls + "." if cls else ""}{name} not found')


def find_class(tree, name):
    for node in tree.body:
        if isinstance(node, ast.ClassDef) and node.name == name:
            return node
    raise Untranslatable(f'class {name} not found')


def find_assign(body, name):
    for node in body:
        if isinstance(node, ast.Assign):
            for t in node.targets:
                if isinstance(t, ast.Name) and t.id == name:
                    return node.value
        if isinstance(node, ast.AnnAssign) and isinstance(node.target, ast.Name) and node.target.id == name \
                and node.value is not None:
            return node.value
    raise Untranslatable(f'assignment to {name} not found')


def const(node):
    """Evaluate a constant expression (str/bytes/int constants, implicit concatenation)."""
    if isinstance(node, ast.Constant):
        return node.value
    if isinstance(node, ast.BinOp) and isinstance(node.op, ast.Add):
        return const(node.left) + const(node.right)
    raise Untranslatable(f'not a constant: {ast.dump(node)[:80]}')


def replace_chain(expr, var):
    """expr = var.replace(a,b).replace(c,d)... -> [(a,b),(c,d),...]"""
    chain = []
    node = expr
    while True:
        if isinstance(node, ast.Name) and node.id == var:
            break
        if not (isinstance(node, ast.Call) and isinstance(node.func, ast.Attribute)
                and node.func.attr == 'replace' and len(node.args) == 2 and not node.keywords):
            raise Untranslatable(f'not a replace chain on {var}: {ast.dump(node)[:100]}')
        a, b = const(node.args[0]), const(node.args[1])
        if isinstance(a, bytes):
            a, b = a.decode('latin-1'), b.decode('latin-1')
        if not a:
            raise Untranslatable('empty replace pattern')
        chain.append((a, b))
        node = node.func.value
    chain.reverse()
    return chain


def fingerprint(node):
    """Normalised dump of a function: no positions, no docstring."""
    node = ast.parse(ast.unparse(node)).body[0]
    if (node.body and isinstance(node.body[0], ast.Expr) and isinstance(node.body[0].value, ast.Constant)
            and isinstance(node.body[0].value.value, str)):
        node.body = node.body[1:] or [ast.Pass()]
    return hashlib.sha256(ast.dump(node, include_attributes=False).encode()).hexdigest()[:16]


def first_return(func):
    for node in ast.walk(func):
        if isinstance(node, ast.Return):
            return node.value
    raise Untranslatable(f'no return in {func.name}')


def regex_source(tree, name):
    """NAME = re.compile(<const>) -> pattern as str (bytes patterns decoded latin-1)."""
    v = find_assign(tree.body, name)
    if not (isinstance(v, ast.Call) and isinstance(v.func, ast.Attribute) and v.func.attr == 'compile'
            and len(v.args) >= 1):
        raise Untranslatable(f'{name} is not re.compile(...)')
    p = const(v.args[0])
    if isinstance(p, bytes):
        p = p.decode('latin-1')
    return p


def char_class(pattern, what):
    r"""A pattern that is exactly one bracket class '[...]' -> sorted list of (lo, hi) code point
    ranges.  Understands literal characters, a-b ranges, and backslash escapes \\ \; \- \] ."""
    if not (pattern.startswith('[') and pattern.endswith(']')) or pattern.startswith('[^'):
        raise Untranslatable(f'{what}: not a single positive character class: {pattern!r}')
    body = pattern[1:-1]
    items = []
    i = 0
    while i < len(body):
        c = body[i]
        if c == '\\':
            i += 1
            if i >= len(body):
                raise Untranslatable(f'{what}: dangling backslash')
            c = body[i]
            if c in 'wWdDsSbB':
                raise Untranslatable(f'{what}: class escape \\{c} not supported here')
        if i + 2 < len(body) and body[i + 1] == '-':
            hi = body[i + 2]
            if hi == '\\':
                raise Untranslatable(f'{what}: escaped range end')
            items.append((ord(c), ord(hi)))
            i += 3
        else:
            items.append((ord(c), ord(c)))
            i += 1
    return sorted(set(items))


def lranges(rs):
    return '[' + ', '.join(f'({a}, {b})' for a, b in rs) + ']'


# ---------------------------------------------------------------- parser.py

def gen_parser(src):
    tree = parse(os.path.join(src, 'parser.py'))
    tools = parse(os.path.join(src, 'parser_tools.py'))
    out = []
    fp = {}
    w = out.append
    w('/- GENERATED by tools/extract.py from src/icalendar/parser.py and parser_tools.py. Do not edit. -/')
    w('import ICal.Model.PyStr')
    w('namespace ICal.Gen')
    w('')

    # escape_char: return text.replace(...)...
    f = find_func(tree, 'escape_char')
    chain = replace_chain(first_return(f), f.args.args[0].arg)
    w('/-- `escape_char`: the ordered `.replace` chain -/')
    w('def escapeCharChain : List (Str × Str) := [' + ', '.join(f'({lstr(a)}, {lstr(b)})' for a, b in chain) + ']')
    w('')

    # unescape_char: either the two replace chains (unrepaired code) or the single-pass regex
    f = find_func(tree, 'unescape_char')
    rets = [n.value for n in ast.walk(f) if isinstance(n, ast.Return)]
    if len(rets) != 2:
        raise Untranslatable('unescape_char: expected a str branch and a bytes branch')
    shapes = []
    for r in rets:
        if isinstance(r, ast.Call) and isinstance(r.func, ast.Attribute) and r.func.attr == 'sub' \
                and isinstance(r.func.value, ast.Name) and len(r.args) == 2 and isinstance(r.args[0], ast.Name):
            rx = regex_source(tree, r.func.value.id)
            cb = find_func(tree, r.args[0].id)
            shapes.append(('regex', rx, cb))
        else:
            shapes.append(('chain', replace_chain(r, f.args.args[0].arg), None))
    if shapes[0][0] != shapes[1][0]:
        raise Untranslatable('unescape_char: str and bytes branches have different shapes')
    if shapes[0][0] == 'regex':
        if shapes[0][1] != shapes[1][1]:
            raise Untranslatable('unescape_char: str and bytes regexes differ')
        rx = shapes[0][1]
        # expected shape: \\(CLASS)|\r\n
        pre, post = '\\\\(', ')|\\r\\n'
        if not (rx.startswith(pre) and rx.endswith(post)):
            raise Untranslatable(f'unescape_char regex has an unknown shape: {rx!r}')
        cls = char_class(rx[len(pre):-len(post)], 'unescape class')
        # callbacks: return '\n' if char is None or char in 'nN' else char
        nls = []
        for _, _, cb in shapes:
            ret = first_return(cb)
            ok = (isinstance(ret, ast.IfExp) and isinstance(ret.test, ast.BoolOp) and isinstance(ret.test.op, ast.Or)
                  and len(ret.test.values) == 2
                  and isinstance(ret.test.values[1], ast.Compare) and isinstance(ret.test.values[1].ops[0], ast.In)
                  and isinstance(ret.orelse, ast.Name))
            if not ok:
                raise Untranslatable(f'{cb.name}: unknown shape')
            nl = const(ret.test.values[1].comparators[0])
            body = const(ret.body)
            if isinstance(nl, bytes):
                nl, body = nl.decode('latin-1'), body.decode('latin-1')
            nls.append((nl, body))
        if nls[0] != nls[1]:
            raise Untranslatable('unescape callbacks for str and bytes differ')
        w('/-- `unescape_char` is the single-pass regex `\\\\(CLASS)|\\r\\n`; CLASS as code point ranges -/')
        w('def unescapeSinglePass : Bool := true')
        w(f'def unescapeClass : List (Nat × Nat) := {lranges(cls)}')
        w(f'def unescapeToNewline : Str := {lstr(nls[0][0])}')
        w(f'def unescapeNewline : Str := {lstr(nls[0][1])}')
        w('def unescapeCharChain : List (Str × Str) := []')
    else:
        if shapes[0][1] != shapes[1][1]:
            raise Untranslatable('unescape_char: str and bytes chains differ')
        w('def unescapeSinglePass : Bool := false')
        w('def unescapeClass : List (Nat × Nat) := []')
        w('def unescapeToNewline : Str := []')
        w('def unescapeNewline : Str := []')
        w('def unescapeCharChain : List (Str × Str) := [' +
          ', '.join(f'({lstr(a)}, {lstr(b)})' for a, b in shapes[0][1]) + ']')
    w('')

    for fn, lean in (('escape_string', 'escapeStringChain'), ('unescape_string', 'unescapeStringChain')):
        f = find_func(tree, fn)
        chain = replace_chain(first_return(f), f.args.args[0].arg)
        w(f'/-- `{fn}` -/')
        w(f'def {lean} : List (Str × Str) := [' + ', '.join(f'({lstr(a)}, {lstr(b)})' for a, b in chain) + ']')
    w('')

    # foldline defaults and the slice width
    f = find_func(tree, 'foldline')
    names = [a.arg for a in f.args.args]
    defaults = dict(zip(names[len(names) - len(f.args.defaults):], f.args.defaults))
    limit = const(defaults['limit'])
    sep = const(defaults['fold_sep'])
    w(f'def foldLimit : Nat := {limit}')
    w(f'def foldSep : Str := {lstr(sep)}')
    # slice width: line[i:i + limit - 1] for i in range(0, len(line), limit - 1)
    widths = []
    for n in ast.walk(f):
        if isinstance(n, ast.Subscript) and isinstance(n.slice, ast.Slice):
            widths.append(ast.unparse(n.slice))
        if isinstance(n, ast.Call) and isinstance(n.func, ast.Name) and n.func.id == 'range' and len(n.args) == 3:
            widths.append(ast.unparse(n.args[2]))
    if sorted(widths) != sorted(['i:i + limit - 1', 'limit - 1']):
        raise Untranslatable(f'foldline ASCII path: slice/step are {widths}, expected limit - 1')
    w('/-- ASCII path slices `limit - 1` characters with step `limit - 1` -/')
    w('def foldSliceMinus : Nat := 1')
    # unicode path: byte_count >= limit
    cmps = [ast.unparse(n) for n in ast.walk(f) if isinstance(n, ast.Compare)]
    if 'byte_count >= limit' not in cmps:
        raise Untranslatable(f'foldline unicode path: comparison is {cmps}')
    w('def foldUniCmpGe : Bool := true')
    w('')

    # regexes
    for name, lean in (('UNSAFE_CHAR', 'unsafeChar'), ('QUNSAFE_CHAR', 'qunsafeChar'), ('QUOTABLE', 'quotable')):
        w(f'/-- `{name}` = {regex_source(tree, name)!r} -/')
        w(f'def {lean} : List (Nat × Nat) := {lranges(char_class(regex_source(tree, name), name))}')
    nm = regex_source(tree, 'NAME')
    if nm != '[\\w.-]+':
        raise Untranslatable(f'NAME regex changed shape: {nm!r}')
    w('/-- `NAME` = `[\\w.-]+` : extra characters besides `\\w` -/')
    w(f'def nameExtra : Str := {lstr(".-")}')
    for name in ('FOLD', 'uFOLD'):
        if regex_source(tree, name) != '(\r?\n)+[ \t]':
            raise Untranslatable(f'{name} regex changed: {regex_source(tree, name)!r}')
    w('/-- `uFOLD`/`FOLD` = `(\\r?\\n)+[ \\t]` (shape recognised; the scanner in Model/Fold implements it) -/')
    w(f'def foldWs : Str := {lstr(" " + chr(9))}')
    if regex_source(tree, 'NEWLINE') != '\\r?\\n':
        raise Untranslatable(f'NEWLINE regex changed: {regex_source(tree, "NEWLINE")!r}')
    w('def newlineIsOptCRLF : Bool := true')
    w('')

    # dquote: val.replace('"', "'")
    f = find_func(tree, 'dquote')
    reps = [n for n in ast.walk(f) if isinstance(n, ast.Call) and isinstance(n.func, ast.Attribute)
            and n.func.attr == 'replace']
    if len(reps) != 1:
        raise Untranslatable('dquote: expected one replace')
    a, b = const(reps[0].args[0]), const(reps[0].args[1])
    if len(a) != 1:
        raise Untranslatable('dquote: replace pattern is not one character')
    w(f'def dquoteFrom : Char := {lchar(a)}')
    w(f'def dquoteTo : Str := {lstr(b)}')
    enc = const(find_assign(tools.body, 'DEFAULT_ENCODING'))
    if enc != 'utf-8':
        raise Untranslatable(f'DEFAULT_ENCODING is {enc!r}')
    w('def defaultEncodingUtf8 : Bool := true')
    w('')
    w('end ICal.Gen')

    for fn, cls in (('escape_char', None), ('unescape_char', None), ('foldline', None), ('param_value', None),
                    ('validate_token', None), ('validate_param_value', None), ('dquote', None), ('q_split', None),
                    ('q_join', None), ('escape_string', None), ('unescape_string', None),
                    ('unescape_list_or_string', None), ('to_ical', 'Parameters'), ('from_ical', 'Parameters'),
                    ('__new__', 'Contentline'), ('from_parts', 'Contentline'), ('parts', 'Contentline'),
                    ('from_ical', 'Contentline'), ('to_ical', 'Contentline'), ('to_ical', 'Contentlines'),
                    ('from_ical', 'Contentlines')):
        try:
            fp[f'parser.{cls + "." if cls else ""}{fn}'] = fingerprint(find_func(tree, fn, cls))
        except Untranslatable:
            fp[f'parser.{cls + "." if cls else ""}{fn}'] = 'missing'
    for opt in ('raw_value',):
        try:
            fp[f'parser.Contentline.{opt}'] = fingerprint(find_func(tree, opt, 'Contentline'))
        except Untranslatable:
            fp[f'parser.Contentline.{opt}'] = 'missing'
    try:
        fp['parser.split_on_unescaped_comma'] = fingerprint(find_func(tree, 'split_on_unescaped_comma'))
    except Untranslatable:
        fp['parser.split_on_unescaped_comma'] = 'missing'
    for fn in ('to_unicode', 'from_unicode'):
        fp[f'parser_tools.{fn}'] = fingerprint(find_func(tools, fn))
    return '\n'.join(out) + '\n', fp


# ---------------------------------------------------------------- driver

GENERATORS = [('Parser.lean', gen_parser)]


def write_if_changed(path, content):
    try:
        with open(path, encoding='utf-8') as f:
            if f.read() == content:
                return False
    except FileNotFoundError:
        pass
    tmp = path + '.tmp'
    with open(tmp, 'w', encoding='utf-8') as f:
        f.write(content)
    os.replace(tmp, path)
    return True


def main(argv):
    src, out = SRC, OUT
    if '--src' in argv:
        src = argv[argv.index('--src') + 1]
    if '--out' in argv:
        out = argv[argv.index('--out') + 1]
    os.makedirs(out, exist_ok=True)
    fps = {}
    changed = []
    failed = []
    for fname, gen in GENERATORS:
        try:
            content, fp = gen(src)
        except (Untranslatable, SyntaxError, KeyError, OSError) as e:
            failed.append(f'{fname}: {type(e).__name__}: {e}')
            continue
        fps.update(fp)
        if write_if_changed(os.path.join(out, fname), content):
            changed.append(fname)
    write_if_changed(os.path.join(out, 'fingerprints.json'), json.dumps(fps, indent=1, sort_keys=True) + '\n')
    print(json.dumps({'changed': changed, 'failed': failed}))
    return 3 if failed else 0


if __name__ == '__main__':
    sys.exit(main(sys.argv[1:]))
