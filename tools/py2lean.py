#!/venv/bin/python
"""py2lean: a small Python-subset -> Lean 4 translator for FUNCTION BODIES (arithmetic and string
formatting code).  The source text is parsed with `ast`, never imported or executed.

    translate(src_dir) -> (lean_text, fingerprints)      used by tools/extract.py (gen_bodies)
    python tools/py2lean.py --src /repo/src/icalendar --out /tmp/Bodies.lean

The output (lean/ICal/Gen/Bodies.lean) uses only lean/ICal/Model/PyRT.lean.  The theorems in
lean/ICal/Lemmas/Bodies.lean prove every generated body equal to the hand-written model, so a
changed body that no longer means the same makes `lake build` fail.

Subset (anything else raises Untranslatable naming the function, the line and the construct):
  statements   x = e; a, b = e1, e2; x += e; if/elif/else; return e; pass; the docstring.
               Re-assignment is `let` shadowing.  An `if` without `return` inside becomes
               `let (vars) := if c then .. else ..` over the variables it assigns that are read
               later (a variable read later but bound on one path only is refused); an `if` with a
               `return` inside becomes an if-then-else whose branches both continue with the rest
               of the function (what follows a `return` on a path never runs and is dropped).
               Every path must end in `return e`; all returns have one type.
  expressions  int / str / ASCII bytes / bool literals; names; `+ - *`, unary minus; `//` and `%`
               with a non-zero int literal divisor; `abs`; comparisons (one operator); `not/and/or`
               with Python truthiness (`or`/`and` return an operand outside a test); `x if c else y`;
               `str(x)`, `int(x)` on ints; f-strings with `{x}` and `{x:0N}`; `fmt % x` where every
               literal that can reach `fmt` has exactly one `%s` and no other `%`;
               `s.encode('utf-8')`; bytes are represented by the str they encode;
               timedelta: `.days .seconds`, `-td`, `td - td`, `td < td`, `timedelta(0)`;
               date/datetime: attribute reads; `self.<attr>` and calls listed in TARGETS are
               PARAMETERS of the generated definition (external code is never guessed).
               `str int abs` must not be rebound at module level; `timedelta` must come from
               `from datetime import timedelta`; `str(self)` follows a `__str__` of the class
               (which must itself be a translated target), other uses of `self` as an int require
               the class to derive from exactly `int` without overriding the special method.
Types are inferred (Int Str Bytes Bool TD OptStr PyDate PyDateTime ...); a type clash is refused.

Wave 2 (decoders and helpers; groups `dec` -> Gen/BodiesDec.lean, `parser` -> Gen/BodiesParser.lean):
  functions    staticmethod / classmethod / module-level functions with arguments (types declared in
               TARGETS; an argument declared `None` is SPECIALISED to its default `None`: tests that
               are decided by that - `isinstance(x, str)`, `x is not None`, `if x` - are evaluated
               at translation time, the branch not taken is not translated and is named in the
               comment of the definition).
  exceptions   a function that can raise becomes `Py T = Except Exc T` (a `do` block).  Exceptions
               come only from the partial runtime functions and from `raise ValueError(...)`.
               `try: BODY except <classes>: raise ValueError(...) [from e]` (one handler, no
               else/finally) is `remap <classes> BODY` / `remapAll BODY`; BODY either returns/raises
               on every path or on none.  Any other handler is refused.
  partial      `int(<str>)`, `int(<str or str-or-None> or <int literal>)`, `date(y, m, d)`,
               `time(h, m, s)`, `datetime(y, m, d, h, mi, s)` (also through `f(*t)` where `t` was
               assigned a tuple display), `m.groups()`; `cls(x)` for an int subclass whose `__new__`
               is `self = super().__new__(cls, *args, **kwargs)` plus attribute assignments.
               They are hoisted in evaluation order; inside `a or b`, `a and b`, `x if c else y`
               (lazily evaluated positions) they are refused.
  also         `timedelta(weeks=, days=, hours=, minutes=, seconds=)` on ints, `td >= td`, `td <= td`;
               `s[a:b]`, `s[a:]`, `s[:b]` with literal bounds >= 0; `len(s)`; `s in ('a', 'b')`;
               `s.replace('a', 'b')`; `sep.join(f(x) for x in lst)`; `cls.<NAME>` where NAME is a
               class-level literal; calls of functions translated earlier in the same group;
               `REGEX.match(s)` (the match object - None or the tuple of groups, arity read from the
               compiled pattern - is a PARAMETER) and `REGEX.search(s)` (a predicate parameter).
"""
import ast
import os
import sys
import re
from collections import namedtuple

sys.path.insert(0, os.path.dirname(os.path.abspath(__file__)))
import extract as X  # noqa: E402  (helpers only: parse, find_class, find_func, fingerprint, lstr)


class Untranslatable(X.Untranslatable):
    pass


LEAN_TYPE = {'Int': 'Int', 'Str': 'Str', 'Bytes': 'Str', 'Bool': 'Bool', 'TD': 'TD', 'OptStr': 'Option Str',
             'PyDate': 'PyDate', 'PyDateTime': 'PyDateTime', 'PyTime': 'PyTime', 'None': 'Unit', 'StrList': 'List Str',
             'Truth': 'Bool'}


def lean_type(t):
    """translator type -> Lean type; `MatchN` = result of REGEX.match: None or N groups (each str or None)"""
    if t.startswith('Match'):
        return 'Option (' + ' × '.join(['Option Str'] * int(t[5:])) + ')'
    if t.startswith('Groups'):
        return ' × '.join(['Option Str'] * int(t[6:]))
    return LEAN_TYPE.get(t, t)


RECORDS = {  # attribute reads: type -> attr -> (lean projection, type)
    'TD': {'days': ('days', 'Int'), 'seconds': ('secondsI', 'Int')},
    'PyDate': {k: (k, 'Int') for k in ('year', 'month', 'day')},
    'PyDateTime': {k: (k, 'Int') for k in ('year', 'month', 'day', 'hour', 'minute', 'second')},
    'PyTime': {},
}
LEAN_KEYWORDS = {'at', 'do', 'end', 'from', 'fun', 'have', 'in', 'let', 'open', 'show', 'then', 'else', 'if',
                 'match', 'with', 'where', 'by', 'def', 'theorem', 'namespace', 'section', 'import', 'instance',
                 'structure', 'class', 'Type', 'Prop', 'Sort', 'mutual', 'private', 'protected', 'variable',
                 'universe', 'example', 'abbrev', 'inductive', 'deriving', 'extends', 'using', 'calc', 'suffices',
                 'obtain', 'return', 'for', 'unless', 'try', 'catch', 'finally', 'macro', 'syntax', 'notation'}

# What is translated.  group: which generated file; cls None: module-level function; self_type: the builtin the
# class derives from when `self` itself is used as a value; self_attrs: `self.<attr>` -> (parameter, type);
# args: argument -> type ('None' = specialised to the default None); optional: a failure is recorded in the header
# instead of breaking the tie.  externals: callee (as written) -> how external code enters as a PARAMETER:
#   (args, param, type)          the RESULT of that call with exactly these arguments is the parameter
#   ('fun', param, argtypes, rtype)   the callee is a function parameter, applied to the translated arguments
#   ('pred', param)              REGEX.search(s): truthiness of the match, a predicate parameter Str -> Bool
#   ('match', param, REGEX)      REGEX.match(s): the match object (None or its groups) is the parameter
#   ('ctor_int',)                cls(x) of an int subclass whose __new__ only wraps int.__new__ (shape checked)
Target = namedtuple('Target', 'file cls fn lean self_type self_attrs externals optional group args',
                    defaults=('enc', None))
TARGETS = [
    Target('prop.py', 'vDuration', 'to_ical', 'vDuration_to_ical', None, {'td': ('td', 'TD')}, {}, False),
    Target('prop.py', 'vUTCOffset', 'to_ical', 'vUTCOffset_to_ical', None, {'td': ('td', 'TD')}, {}, False),
    Target('prop.py', 'vDate', 'to_ical', 'vDate_to_ical', None, {'dt': ('dt', 'PyDate')}, {}, False),
    Target('prop.py', 'vDatetime', 'to_ical', 'vDatetime_to_ical', None, {'dt': ('dt', 'PyDateTime')},
           {'tzid_from_dt': (['dt'], 'tzid', 'OptStr')}, False),
    Target('prop.py', 'vTime', 'to_ical', 'vTime_to_ical', None, {'dt': ('dt', 'PyTime')}, {}, True),
    Target('prop.py', 'vMonth', '__str__', 'vMonth_str', 'Int', {'leap': ('leap', 'Bool')}, {}, False),
    Target('prop.py', 'vMonth', 'to_ical', 'vMonth_to_ical', 'Int', {'leap': ('leap', 'Bool')}, {}, False),
    Target('prop.py', 'vBoolean', 'to_ical', 'vBoolean_to_ical', 'Int', {}, {}, False),
    Target('prop.py', 'vInt', 'to_ical', 'vInt_to_ical', 'Int', {}, {}, False),
    # ---- decoders
    Target('prop.py', 'vDate', 'from_ical', 'vDate_from_ical', None, {}, {}, False, 'dec', {'ical': 'Str'}),
    Target('prop.py', 'vTime', 'from_ical', 'vTime_from_ical', None, {}, {}, False, 'dec', {'ical': 'Str'}),
    Target('prop.py', 'vDatetime', 'from_ical', 'vDatetime_from_ical', None, {},
           {'tzp.localize_utc': ('fun', 'localize_utc', ['PyDateTime'], 'PyDateTime')}, False, 'dec',
           {'ical': 'Str', 'timezone': 'None'}),
    Target('prop.py', 'vUTCOffset', 'from_ical', 'vUTCOffset_from_ical', None, {}, {}, False, 'dec', {'ical': 'Str'}),
    Target('prop.py', 'vDuration', 'from_ical', 'vDuration_from_ical', None, {},
           {'DURATION_REGEX.match': ('match', 'm', 'DURATION_REGEX')}, False, 'dec', {'ical': 'Str'}),
    Target('prop.py', 'vInt', 'from_ical', 'vInt_from_ical', None, {}, {'cls': ('ctor_int',)}, False, 'dec',
           {'ical': 'Str'}),
    # ---- parser helpers
    Target('parser.py', None, 'dquote', 'dquote', None, {}, {'QUOTABLE.search': ('pred', 'quotable_search')}, False,
           'parser', {'val': 'Str'}),
    Target('parser.py', None, 'q_join', 'q_join', None, {}, {}, False, 'parser', {'lst': 'StrList', 'sep': 'Str'}),
]

# a translated expression; lits: possible str literals or None; elts: the components of a tuple display
V = namedtuple('V', 'lean type lits elts', defaults=(None,))
Tail = namedtuple('Tail', 'names make')        # what a block continues with when its statements run out
Done = namedtuple('Done', 'lean params rtype monadic nargs', defaults=(False, 0))  # a translated function
EXC = {'ValueError': ['valueError'], 'OverflowError': ['overflowError'], 'KeyError': ['keyError'],
       'IndexError': ['indexError'], 'AttributeError': ['attributeError'], 'TypeError': ['typeError'],
       'LookupError': ['keyError', 'indexError'], 'ArithmeticError': ['overflowError']}


class NeedMonad(Exception):
    """the function can raise: translate it again into `Py T`"""


def lname(name):
    return name + '_' if name in LEAN_KEYWORDS or name.endswith("'") else name


def reads(nodes):
    """names read by the statements (`x += e` reads x)"""
    out = set()
    for s in nodes:
        for n in ast.walk(s):
            if isinstance(n, ast.Name) and isinstance(n.ctx, ast.Load):
                out.add(n.id)
            if isinstance(n, ast.AugAssign) and isinstance(n.target, ast.Name):
                out.add(n.target.id)
    return out


def assigned(nodes):
    out = []
    for s in nodes:
        for n in ast.walk(s):
            if isinstance(n, ast.Name) and isinstance(n.ctx, ast.Store) and n.id not in out:
                out.append(n.id)
    return out


def module_bindings(tree):
    """module-level names -> what binds them (only plain top-level statements are looked at)"""
    out = {}
    for n in tree.body:
        if isinstance(n, (ast.FunctionDef, ast.ClassDef)):
            out[n.name] = 'def'
        elif isinstance(n, (ast.Assign, ast.AnnAssign, ast.AugAssign)):
            for x in ast.walk(n):
                if isinstance(x, ast.Name) and isinstance(x.ctx, ast.Store):
                    out[x.id] = 'assign'
        elif isinstance(n, ast.ImportFrom):
            for a in n.names:
                out[a.asname or a.name] = f'{n.module}.{a.name}'
        elif isinstance(n, ast.Import):
            for a in n.names:
                out[a.asname or a.name.split('.')[0]] = a.name
    return out


def has_return(nodes):
    """does a `return` or `raise` occur inside (the statement can end the function)"""
    return any(isinstance(n, (ast.Return, ast.Raise)) for s in nodes for n in ast.walk(s))


class Fn:
    """translation of one function"""

    def __init__(self, target, cls_node, func, registry, modnames=None):
        self.t, self.cls, self.func, self.registry = target, cls_node, func, registry
        self.modnames = modnames or {}
        self.qual = f'{target.file[:-3]}.' + (f'{target.cls}.' if target.cls else '') + target.fn
        self.used = []            # parameters actually referenced, in order of first use
        self.rtype = None
        self.fresh = 0
        self.monadic = False      # the function can raise: Py T, `do` block
        self.pre = []             # hoisted partial calls of the statement being translated
        self.lazy = 0             # > 0 inside an operand that Python may not evaluate
        self.notes = []           # tests decided at translation time (specialised arguments)
        self.tree = None          # module AST (regex sources)

    def fail(self, node, what):
        raise Untranslatable(f'{self.qual}: line {getattr(node, "lineno", "?")}: {what}')

    def param(self, name, typ):
        if (name, typ) not in self.used:
            self.used.append((name, typ))
        return V(name, typ, None)

    def hoist(self, node, lean, typ):
        """a call that can raise: bound by `←` before the statement, in evaluation order"""
        if self.lazy:
            self.fail(node, f'`{ast.unparse(node)[:40]}` can raise and stands where Python may not evaluate it')
        if not self.monadic:
            raise NeedMonad()
        self.fresh += 1
        self.pre.append(f"let t{self.fresh}' : {lean_type(typ)} ← {lean}")
        return V(f"t{self.fresh}'", typ, None)

    def take_pre(self):
        p, self.pre = self.pre, []
        return p

    def lazily(self, f, *a):
        self.lazy += 1
        try:
            return f(*a)
        finally:
            self.lazy -= 1

    def static(self, node, env):
        """a test that the declared argument types decide: True / False, else None"""
        if isinstance(node, ast.UnaryOp) and isinstance(node.op, ast.Not):
            st = self.static(node.operand, env)
            return None if st is None else not st
        if isinstance(node, ast.Name) and node.id in env and env[node.id].type == 'None':
            return False
        if isinstance(node, ast.Compare) and len(node.ops) == 1 and isinstance(node.ops[0], (ast.Is, ast.IsNot)) \
                and isinstance(node.comparators[0], ast.Constant) and node.comparators[0].value is None \
                and isinstance(node.left, ast.Name) and node.left.id in env \
                and env[node.left.id].type in ('None', 'Str', 'Int', 'TD', 'StrList'):
            return (env[node.left.id].type == 'None') == isinstance(node.ops[0], ast.Is)
        if isinstance(node, ast.Call) and isinstance(node.func, ast.Name) and node.func.id == 'isinstance' \
                and 'isinstance' not in self.modnames and len(node.args) == 2 and not node.keywords \
                and isinstance(node.args[0], ast.Name) and node.args[0].id in env and isinstance(node.args[1], ast.Name):
            typ, what = env[node.args[0].id].type, node.args[1].id
            if what == 'str' and 'str' not in self.modnames and typ in ('None', 'Str'):
                return typ == 'Str'
            if what == 'cls' and self.cls is not None and not self.cls.bases and typ in ('None', 'Str', 'Int'):
                return False        # a str / int / None is not an instance of a class that derives from object only
        return None

    def builtin_method_ok(self, node, *dunder):
        """`self` is used as the builtin it derives from: the class must derive from exactly that builtin and
        must not override the special methods involved"""
        want = {'Int': 'int'}[self.t.self_type]
        if [ast.unparse(b) for b in self.cls.bases] != [want]:
            self.fail(node, f'class {self.t.cls} does not derive from exactly `{want}`')
        for st in self.cls.body:
            if isinstance(st, ast.FunctionDef) and st.name in dunder:
                self.fail(node, f'class {self.t.cls} overrides {st.name}')

    # ------------------------------------------------------------ expressions

    def truth(self, v, node):
        if v.type == 'Bool':
            return v.lean
        if v.type == 'Truth':
            return v.lean
        if v.type in ('Int', 'Str', 'Bytes', 'TD', 'OptStr', 'None'):
            return f'(truthy {v.lean})'
        if v.type.startswith('Match'):
            return f'{v.lean}.isSome'
        self.fail(node, f'truthiness of a value of type {v.type}')

    def test(self, node, env):
        """an expression in a boolean context -> Lean Bool term"""
        if isinstance(node, ast.BoolOp):
            op = ' && ' if isinstance(node.op, ast.And) else ' || '
            parts = [self.test(node.values[0], env)] + [self.lazily(self.test, x, env) for x in node.values[1:]]
            return '(' + op.join(parts) + ')'
        if isinstance(node, ast.UnaryOp) and isinstance(node.op, ast.Not):
            return f'(!{self.test(node.operand, env)})'
        v = self.expr(node, env)
        if isinstance(node, ast.Name) and node.id == 'self':
            self.builtin_method_ok(node, '__bool__', '__len__')
        return self.truth(v, node)

    def expr(self, node, env):
        f = getattr(self, 'e_' + type(node).__name__, None)
        if f is None:
            self.fail(node, f'expression {type(node).__name__}: `{ast.unparse(node)[:50]}`')
        return f(node, env)

    def e_Constant(self, node, env):
        c = node.value
        if isinstance(c, bool):
            return V('true' if c else 'false', 'Bool', None)
        if isinstance(c, int):
            return V(f'({c} : Int)', 'Int', None)
        if isinstance(c, str):
            return V(f'({X.lstr(c)} : Str)', 'Str', frozenset([c]))
        if isinstance(c, bytes):
            if any(b >= 128 for b in c):
                self.fail(node, 'non-ASCII bytes literal')
            return V(f'({X.lstr(c)} : Str)', 'Bytes', None)
        if c is None:
            return V('()', 'None', None)
        self.fail(node, f'constant {c!r}')

    def e_Tuple(self, node, env):
        """a tuple display: only to be unpacked (`a, b = ...`) or spread (`f(*t)`)"""
        return V('', 'Tuple', None, [self.expr(e, env) for e in node.elts])

    def e_Subscript(self, node, env):
        v, sl = self.expr(node.value, env), node.slice
        bound = lambda b: b is None or (isinstance(b, ast.Constant) and type(b.value) is int and b.value >= 0)  # noqa: E731
        if v.type != 'Str' or not isinstance(sl, ast.Slice) or sl.step is not None or not bound(sl.lower) \
                or not bound(sl.upper) or (sl.lower is None and sl.upper is None):
            self.fail(node, f'subscript `{ast.unparse(node)[:40]}` (only str slices with literal bounds >= 0)')
        if sl.upper is None:
            return V(f'(pySliceFrom {v.lean} {sl.lower.value})', 'Str', None)
        if sl.lower is None:
            return V(f'(pySliceTo {v.lean} {sl.upper.value})', 'Str', None)
        return V(f'(pySlice {v.lean} {sl.lower.value} {sl.upper.value})', 'Str', None)

    def e_Name(self, node, env):
        if node.id == 'self':
            if self.t.self_type is None:
                self.fail(node, '`self` used as a value')
            return self.param('self', self.t.self_type)
        if node.id not in env:
            self.fail(node, f'name `{node.id}` is not a local variable (globals and builtins are outside the subset)')
        return env[node.id]

    def e_Attribute(self, node, env):
        if isinstance(node.value, ast.Name) and node.value.id == 'cls' and self.cls is not None and 'cls' not in env:
            for st in self.cls.body:     # a class-level literal, read from the source
                if isinstance(st, ast.Assign) and len(st.targets) == 1 and isinstance(st.targets[0], ast.Name) \
                        and st.targets[0].id == node.attr and isinstance(st.value, ast.Constant):
                    return self.e_Constant(st.value, env)
            self.fail(node, f'cls.{node.attr} is not a class-level literal')
        if isinstance(node.value, ast.Name) and node.value.id == 'self':
            if node.attr not in self.t.self_attrs:
                self.fail(node, f'attribute self.{node.attr} is not a declared parameter')
            return self.param(*self.t.self_attrs[node.attr])
        base = self.expr(node.value, env)
        if node.attr not in RECORDS.get(base.type, {}):
            self.fail(node, f'attribute .{node.attr} of a value of type {base.type}')
        proj, typ = RECORDS[base.type][node.attr]
        return V(f'{base.lean}.{proj}', typ, None)

    def e_UnaryOp(self, node, env):
        if isinstance(node.op, ast.Not):
            return V(self.test(node, env), 'Bool', None)
        v = self.expr(node.operand, env)
        if isinstance(node.op, ast.USub) and v.type == 'Int':
            return V(f'(-{v.lean})', 'Int', None)
        if isinstance(node.op, ast.USub) and v.type == 'TD':
            return V(f'(TD.neg {v.lean})', 'TD', None)
        self.fail(node, f'unary {type(node.op).__name__} on {v.type}')

    def e_BinOp(self, node, env):
        return self.binop(node, node.op, self.expr(node.left, env), self.expr(node.right, env), node.right)

    def binop(self, node, op, a, b, right_node=None):
        k, ts = type(op).__name__, (a.type, b.type)
        if ts == ('Int', 'Int') and k in ('Add', 'Sub', 'Mult'):
            return V(f'({a.lean} {dict(Add="+", Sub="-", Mult="*")[k]} {b.lean})', 'Int', None)
        if ts == ('Int', 'Int') and k in ('FloorDiv', 'Mod'):
            if not (isinstance(right_node, ast.Constant) and type(right_node.value) is int and right_node.value != 0):
                self.fail(node, f'{k} whose divisor is not a non-zero int literal')
            return V(f'({"floorDiv" if k == "FloorDiv" else "pyMod"} {a.lean} {b.lean})', 'Int', None)
        if k == 'Add' and ts in (('Str', 'Str'), ('Bytes', 'Bytes')):
            return V(f'({a.lean} ++ {b.lean})', a.type, None)
        if k == 'Sub' and ts == ('TD', 'TD'):
            return V(f'(TD.sub {a.lean} {b.lean})', 'TD', None)
        if k == 'Mod' and a.type == 'Str' and b.type in ('Str', 'Int'):
            if a.lits is None or any(s.count('%') != 1 or s.count('%s') != 1 for s in a.lits):
                self.fail(node, '`%` formatting whose format is not known to be literals with exactly one %s')
            arg = b.lean if b.type == 'Str' else f'(strInt {b.lean})'
            return V(f'(fmt1 {a.lean} {arg})', 'Str', None)
        self.fail(node, f'operator {k} on {a.type}, {b.type}')

    def e_Compare(self, node, env):
        if len(node.ops) != 1:
            self.fail(node, 'chained comparison')
        k = type(node.ops[0]).__name__
        a, b = self.expr(node.left, env), self.expr(node.comparators[0], env)
        ts = (a.type, b.type)
        if ts == ('Int', 'Int') and k in ('Lt', 'LtE', 'Gt', 'GtE'):
            return V(f'(decide ({a.lean} {dict(Lt="<", LtE="≤", Gt=">", GtE="≥")[k]} {b.lean}))', 'Bool', None)
        if ts in (('Int', 'Int'), ('Str', 'Str'), ('Bytes', 'Bytes'), ('Bool', 'Bool')) and k in ('Eq', 'NotEq'):
            return V(f'({a.lean} {"==" if k == "Eq" else "!="} {b.lean})', 'Bool', None)
        if ts == ('OptStr', 'Str') and k in ('Eq', 'NotEq'):
            return V(f'({a.lean} {"==" if k == "Eq" else "!="} some {b.lean})', 'Bool', None)
        if ts == ('TD', 'TD') and k in ('Lt', 'Gt', 'LtE', 'GtE'):
            x, y = (a, b) if k in ('Lt', 'LtE') else (b, a)
            return V(f'(TD.{"lt" if k in ("Lt", "Gt") else "le"} {x.lean} {y.lean})', 'Bool', None)
        if a.type == 'Str' and b.type == 'Tuple' and k in ('In', 'NotIn') and all(e.lits is not None for e in b.elts):
            lst = '([' + ', '.join(e.lean for e in b.elts) + '] : List Str)'
            return V(f'({"" if k == "In" else "!"}{lst}.contains {a.lean})', 'Bool', None)
        self.fail(node, f'comparison {k} on {a.type}, {b.type}')

    def e_BoolOp(self, node, env):
        """value context: `a or b` / `a and b` return an operand"""
        vals = [self.expr(node.values[0], env)] + [self.lazily(self.expr, x, env) for x in node.values[1:]]
        if len({v.type for v in vals}) != 1:
            self.fail(node, 'and/or over operands of different types, used as a value')
        self.truth(vals[0], node)
        f = 'pyOr' if isinstance(node.op, ast.Or) else 'pyAnd'
        acc = vals[0]
        for v in vals[1:]:      # `a or b or c` = `(a or b) or c`
            lits = acc.lits | v.lits if acc.lits is not None and v.lits is not None else None
            acc = V(f'({f} {acc.lean} {v.lean})', acc.type, lits)
        return acc

    def e_IfExp(self, node, env):
        c = self.test(node.test, env)
        a, b = self.lazily(self.expr, node.body, env), self.lazily(self.expr, node.orelse, env)
        if a.type != b.type:
            self.fail(node, f'conditional expression of types {a.type} and {b.type}')
        lits = a.lits | b.lits if a.lits is not None and b.lits is not None else None
        return V(f'(if {c} then {a.lean} else {b.lean})', a.type, lits)

    def e_JoinedStr(self, node, env):
        parts = []
        for p in node.values:
            if isinstance(p, ast.Constant) and isinstance(p.value, str):
                parts.append(f'({X.lstr(p.value)} : Str)')
                continue
            if not isinstance(p, ast.FormattedValue) or p.conversion != -1:
                self.fail(node, f'f-string part `{ast.unparse(p)[:40]}` (conversions like !r are outside the subset)')
            if isinstance(p.value, ast.Name) and p.value.id == 'self':
                self.fail(node, 'f-string field `{self}` (goes through __format__/__str__)')
            v = self.expr(p.value, env)
            if p.format_spec is None:
                if v.type == 'Int':
                    parts.append(f'(strInt {v.lean})')
                elif v.type == 'Str':
                    parts.append(v.lean)
                else:
                    self.fail(node, f'f-string field of type {v.type}')
                continue
            spec = p.format_spec.values
            ok = (len(spec) == 1 and isinstance(spec[0], ast.Constant) and isinstance(spec[0].value, str)
                  and len(spec[0].value) >= 2 and spec[0].value[0] == '0' and spec[0].value[1:].isdigit()
                  and spec[0].value[1] != '0' and spec[0].value.isascii())
            if not ok or v.type != 'Int':
                self.fail(node, f'format spec `{ast.unparse(p)}` (only {{x:0N}} on an int)')
            parts.append(f'(fmtZ {int(spec[0].value[1:])} {v.lean})')
        return V('(' + ' ++ '.join(parts) + ')' if parts else '([] : Str)', 'Str', None)

    def call_args(self, node, env):
        """positional arguments; `*t` spreads a tuple display"""
        out = []
        for a in node.args:
            if isinstance(a, ast.Starred):
                v = self.expr(a.value, env)
                if v.type != 'Tuple':
                    self.fail(node, f'`*{ast.unparse(a.value)}` is not a tuple display')
                out += v.elts
            else:
                out.append(self.expr(a, env))
        return out

    def int_of(self, node, arg, env):
        """`int(x)` for a str: CPython's int(); `int(x or k)`: x if it is true, else the int literal k"""
        if isinstance(arg, ast.BoolOp) and isinstance(arg.op, ast.Or) and len(arg.values) == 2 \
                and isinstance(arg.values[1], ast.Constant) and type(arg.values[1].value) is int:
            v = self.expr(arg.values[0], env)
            if v.type in ('Str', 'OptStr'):
                f = 'intOfStrOr' if v.type == 'Str' else 'intOfOptStrOr'
                return self.hoist(node, f'{f} {v.lean} ({arg.values[1].value} : Int)', 'Int')
        v = self.expr(arg, env)
        return self.hoist(node, f'intOfStr {v.lean}', 'Int') if v.type == 'Str' else None

    def ctor_int_ok(self, node):
        """`cls(x)`: the class derives from exactly `int` and its __new__ only wraps int.__new__"""
        new = [st for st in self.cls.body if isinstance(st, ast.FunctionDef) and st.name == '__new__']
        ok = [ast.unparse(b) for b in self.cls.bases] == ['int'] and len(new) == 1 and new[0].args.vararg is not None \
            and ast.unparse(new[0].body[0]) == 'self = super().__new__(cls, *args, **kwargs)' \
            and ast.unparse(new[0].body[-1]) == 'return self' \
            and all(isinstance(st, ast.Assign) and isinstance(st.targets[0], ast.Attribute)
                    and ast.unparse(st.targets[0].value) == 'self' for st in new[0].body[1:-1]) \
            and not any(isinstance(st, ast.FunctionDef) and st.name == '__init__' for st in self.cls.body)
        if not ok:
            self.fail(node, f'{self.t.cls}.__new__ is not `self = super().__new__(cls, *args, **kwargs)` + attributes')

    def e_Call(self, node, env):
        fn, callee = node.func, ast.unparse(node.func)
        ext = self.t.externals.get(callee)
        if ext is not None and isinstance(ext[0], str) and (not isinstance(fn, ast.Name) or fn.id not in env):
            if node.keywords:
                self.fail(node, f'call with keyword arguments `{ast.unparse(node)[:50]}`')
            args = self.call_args(node, env)
            if ext[0] == 'fun':
                if [a.type for a in args] != ext[2]:
                    self.fail(node, f'external call {callee}: argument types {[a.type for a in args]}, declared {ext[2]}')
                f = self.param(ext[1], ' → '.join(lean_type(t) for t in ext[2] + [ext[3]]))
                return V('(' + ' '.join([f.lean] + [a.lean for a in args]) + ')', ext[3], None)
            if ext[0] == 'pred' and [a.type for a in args] == ['Str']:
                return V(f'({self.param(ext[1], "Str → Bool").lean} {args[0].lean})', 'Truth', None)
            if ext[0] == 'match' and [a.type for a in args] == ['Str'] and isinstance(fn, ast.Attribute) \
                    and fn.attr == 'match' and ast.unparse(fn.value) == ext[2]:
                n = re.compile(X.regex_source(self.tree, ext[2])).groups
                return self.param(ext[1], f'Match{n}')
            if ext[0] == 'ctor_int' and [a.type for a in args] == ['Str']:
                self.ctor_int_ok(node)
                return self.hoist(node, f'intOfStr {args[0].lean}', 'Int')
            self.fail(node, f'external call `{ast.unparse(node)[:50]}` does not have the declared shape')
        if isinstance(fn, ast.Attribute):
            if node.keywords:
                self.fail(node, f'call with keyword arguments `{ast.unparse(node)[:50]}`')
            if fn.attr == 'encode' and len(node.args) == 1 and isinstance(node.args[0], ast.Constant) \
                    and node.args[0].value == 'utf-8':
                v = self.expr(fn.value, env)
                if v.type != 'Str':
                    self.fail(node, f'.encode on a value of type {v.type}')
                return V(v.lean, 'Bytes', None)
            if fn.attr == 'groups' and not node.args:
                v = self.expr(fn.value, env)
                if v.type.startswith('Match'):
                    g, n = self.hoist(node, f'groupsOf {v.lean}', 'Groups' + v.type[5:]), int(v.type[5:])
                    projs = [g.lean + '.2' * i + ('.1' if i < n - 1 else '') for i in range(n)]
                    return V('', 'Tuple', None, [V(p if n > 1 else g.lean, 'OptStr', None) for p in projs])
            if fn.attr == 'replace' and len(node.args) == 2 and all(
                    isinstance(a, ast.Constant) and isinstance(a.value, str) for a in node.args) and node.args[0].value:
                v = self.expr(fn.value, env)
                if v.type == 'Str':
                    return V(f'(replaceAll {X.lstr(node.args[0].value)} {X.lstr(node.args[1].value)} {v.lean})', 'Str', None)
            if fn.attr == 'join' and len(node.args) == 1 and isinstance(node.args[0], ast.GeneratorExp):
                g, sep = node.args[0], self.expr(fn.value, env)
                c = g.generators[0]
                if sep.type == 'Str' and len(g.generators) == 1 and not c.ifs and not c.is_async and isinstance(c.target, ast.Name):
                    it = self.expr(c.iter, env)
                    if it.type == 'StrList':
                        x = lname(c.target.id)
                        elt = self.lazily(self.expr, g.elt, dict(env, **{c.target.id: V(x, 'Str', None)}))
                        if elt.type == 'Str':
                            return V(f'(joinWith {sep.lean} ({it.lean}.map (fun {x} => {elt.lean})))', 'Str', None)
            self.fail(node, f'method call `.{fn.attr}(...)`')
        if not isinstance(fn, ast.Name):
            self.fail(node, f'call `{ast.unparse(node)[:50]}`')
        if fn.id in env:
            self.fail(node, f'call of the local variable `{fn.id}`')
        if fn.id in self.t.externals:
            if node.keywords:
                self.fail(node, f'call with keyword arguments `{ast.unparse(node)[:50]}`')
            args, res, typ = self.t.externals[fn.id]
            got = [self.expr(a, env).lean for a in node.args]
            if got != args:
                self.fail(node, f'external call {fn.id}({", ".join(got)}): expected arguments {args}')
            return self.param(res, typ)
        d = self.registry.get((None, fn.id))
        if d is not None and self.t.cls is None and self.modnames.get(fn.id) == 'def' and not node.keywords:
            args = self.call_args(node, env)
            if [a.type for a in args] != [p[1] for p in d.params[:d.nargs]]:
                self.fail(node, f'call {fn.id}(...): argument types {[a.type for a in args]}')
            rest = [self.param(*p).lean for p in d.params[d.nargs:]]     # its parameters become ours
            lean = ' '.join([d.lean] + [a.lean for a in args] + rest)
            return self.hoist(node, lean, d.rtype) if d.monadic else V(f'({lean})', d.rtype, None)
        builtins = ('str', 'int', 'abs', 'len', 'date', 'time', 'datetime')
        if fn.id in builtins and self.modnames.get(fn.id, f'datetime.{fn.id}') != f'datetime.{fn.id}':
            self.fail(node, f'`{fn.id}` is rebound at module level ({self.modnames[fn.id]})')
        if fn.id in ('date', 'time', 'datetime', 'timedelta') and self.modnames.get(fn.id) != f'datetime.{fn.id}':
            self.fail(node, f'`{fn.id}` is not `from datetime import {fn.id}`')
        if fn.id == 'timedelta' and not node.keywords and len(node.args) == 1 and isinstance(node.args[0], ast.Constant) \
                and type(node.args[0].value) is int and node.args[0].value == 0:
            return V('TD.zero', 'TD', None)
        if fn.id == 'timedelta' and not node.args and node.keywords:
            units = ['weeks', 'days', 'hours', 'minutes', 'seconds']
            kw = {k.arg: self.expr(k.value, env) for k in node.keywords}
            if len(kw) == len(node.keywords) and set(kw) <= set(units) and all(v.type == 'Int' for v in kw.values()):
                return V('(TD.ofUnits ' + ' '.join(kw[u].lean if u in kw else '(0 : Int)' for u in units) + ')', 'TD', None)
        if node.keywords:
            self.fail(node, f'call with keyword arguments `{ast.unparse(node)[:50]}`')
        if fn.id in ('date', 'time', 'datetime'):
            args = self.call_args(node, env)
            n, f, typ = {'date': (3, 'mkPyDate', 'PyDate'), 'time': (3, 'mkPyTime', 'PyTime'),
                         'datetime': (6, 'mkPyDateTime', 'PyDateTime')}[fn.id]
            if len(args) == n and all(a.type == 'Int' for a in args):
                return self.hoist(node, ' '.join([f] + [a.lean for a in args]), typ)
            self.fail(node, f'{fn.id}(...) is not called with {n} ints')
        if fn.id == 'int' and len(node.args) == 1 and not isinstance(node.args[0], ast.Starred):
            v = self.int_of(node, node.args[0], env)
            if v is not None:
                return v
        if fn.id == 'len' and len(node.args) == 1 and not isinstance(node.args[0], ast.Starred):
            v = self.expr(node.args[0], env)
            if v.type == 'Str':
                return V(f'(strLen {v.lean})', 'Int', None)
            self.fail(node, f'len() of a value of type {v.type}')
        if fn.id in ('str', 'int', 'abs') and len(node.args) == 1 and not isinstance(node.args[0], ast.Starred):
            arg = node.args[0]
            v = self.expr(arg, env)
            if isinstance(arg, ast.Name) and arg.id == 'self':
                if fn.id == 'str' and any(isinstance(s, ast.FunctionDef) and s.name == '__str__' for s in self.cls.body):
                    d = self.registry.get((self.t.cls, '__str__'))
                    if d is None:
                        self.fail(node, f'str(self): {self.t.cls}.__str__ is not translated')
                    for p in d.params:
                        self.param(*p)
                    return V('(' + ' '.join([d.lean] + [p[0] for p in d.params]) + ')', d.rtype, None)
                self.builtin_method_ok(node, *{'str': ('__str__', '__repr__'), 'abs': ('__abs__',),
                                               'int': ('__int__', '__index__', '__trunc__')}[fn.id])
            if fn.id == 'str' and v.type == 'Str':
                return V(v.lean, 'Str', v.lits)
            if v.type == 'Int':
                return {'str': V(f'(strInt {v.lean})', 'Str', None), 'int': v,
                        'abs': V(f'(pyAbs {v.lean})', 'Int', None)}[fn.id]
            self.fail(node, f'{fn.id}() of a value of type {v.type}')
        self.fail(node, f'call `{ast.unparse(node)[:50]}`')

    # ------------------------------------------------------------ statements

    def bind(self, env, name, v):
        env = dict(env)
        if v.type == 'Tuple':       # a tuple display bound to a name: kept symbolically (for `f(*name)`)
            env[name] = v
            return env, None
        env[name] = V(lname(name), v.type, v.lits)
        return env, f'let {lname(name)} : {lean_type(v.type)} := {v.lean}'

    def ret(self, lean):
        return f'pure {lean}' if self.monadic else lean

    def temps(self, vals):
        """bind every value to a fresh name (the components of a tuple are evaluated before it is unpacked)"""
        lines = []
        for i, v in enumerate(vals):
            if v.type == 'Tuple':
                self.fail(self.func, 'nested tuple')
            if v.lean.startswith('t') and v.lean.endswith("'") and v.lean[1:-1].isdigit():
                continue
            self.fresh += 1
            lines.append(f"let t{self.fresh}' : {lean_type(v.type)} := {v.lean}")
            vals[i] = V(f"t{self.fresh}'", v.type, v.lits)
        return lines

    def block(self, stmts, env, tail):
        """lines of a Lean term: run `stmts`, then continue with `tail`; `return e` ends the function"""
        if not stmts:
            return tail.make(env)
        s, rest = stmts[0], stmts[1:]
        if isinstance(s, ast.Pass) or (isinstance(s, ast.Expr) and isinstance(s.value, ast.Constant)
                                       and isinstance(s.value.value, str)):
            return self.block(rest, env, tail)
        if isinstance(s, ast.Return):
            if s.value is None:
                self.fail(s, 'bare return')
            # statements after a `return` never run (they are there when the rest of the function was appended to
            # a branch that already returned): dropped
            v = self.expr(s.value, env)
            if v.type not in ('Str', 'Bytes', 'Int', 'Bool', 'TD', 'PyDate', 'PyTime', 'PyDateTime'):
                self.fail(s, f'return of a value of type {v.type}')
            if self.rtype not in (None, v.type):
                self.fail(s, f'returns both {self.rtype} and {v.type}')
            self.rtype = v.type
            return self.take_pre() + [self.ret(v.lean)]
        if isinstance(s, ast.Raise):
            e = s.exc.func if isinstance(s.exc, ast.Call) else s.exc
            if not (isinstance(e, ast.Name) and e.id == 'ValueError' and 'ValueError' not in self.modnames):
                self.fail(s, f'`{ast.unparse(s)[:50]}` (only `raise ValueError(...)`)')
            if not self.monadic:
                raise NeedMonad()
            return ['throw Exc.valueError']      # the message is not part of the model
        if isinstance(s, ast.Try):
            return self.try_(s, rest, env, tail)
        if isinstance(s, ast.Assign) and len(s.targets) == 1 and isinstance(s.targets[0], ast.Name):
            v = self.expr(s.value, env)
            lines = self.take_pre()
            if v.type == 'Tuple':
                lines += self.temps(v.elts)
            env, line = self.bind(env, s.targets[0].id, v)
            return lines + ([line] if line else []) + self.block(rest, env, tail)
        if isinstance(s, ast.Assign) and len(s.targets) == 1 and isinstance(s.targets[0], ast.Tuple) \
                and all(isinstance(t, ast.Name) for t in s.targets[0].elts):
            v = self.expr(s.value, env)      # the right side is evaluated first
            if v.type != 'Tuple' or len(v.elts) != len(s.targets[0].elts):
                self.fail(s, f'unpacking of `{ast.unparse(s.value)[:40]}`')
            vals = list(v.elts)
            lines = self.take_pre() + self.temps(vals)
            for t, x in zip(s.targets[0].elts, vals):
                env, line = self.bind(env, t.id, x)
                lines.append(line)
            return lines + self.block(rest, env, tail)
        if isinstance(s, ast.AugAssign) and isinstance(s.target, ast.Name):
            if s.target.id not in env:
                self.fail(s, f'augmented assignment to unbound `{s.target.id}`')
            v = self.binop(s, s.op, env[s.target.id], self.expr(s.value, env), s.value)
            env, line = self.bind(env, s.target.id, v)
            return self.take_pre() + [line] + self.block(rest, env, tail)
        if isinstance(s, ast.If):
            return self.if_(s, rest, env, tail)
        self.fail(s, f'statement {type(s).__name__}: `{ast.unparse(s).splitlines()[0][:50]}`')

    def try_(self, s, rest, env, tail):
        """`try: BODY except <classes>: raise ValueError(...)`"""
        h = s.handlers[0] if len(s.handlers) == 1 else None
        if h is None or s.orelse or s.finalbody or len(h.body) != 1 or not isinstance(h.body[0], ast.Raise):
            self.fail(s, 'try statement that is not `try: .. except <classes>: raise ValueError(..)`')
        e = h.body[0].exc.func if isinstance(h.body[0].exc, ast.Call) else h.body[0].exc
        if not (isinstance(e, ast.Name) and e.id == 'ValueError' and 'ValueError' not in self.modnames):
            self.fail(s, f'handler `{ast.unparse(h.body[0])[:50]}` does not raise ValueError')
        names = [] if h.type is None else [ast.unparse(x) for x in (h.type.elts if isinstance(h.type, ast.Tuple) else [h.type])]
        if h.type is None or 'Exception' in names or 'BaseException' in names:
            wrap = 'remapAll'
        elif all(n in EXC and n not in self.modnames for n in names):
            wrap = 'remap [' + ', '.join('.' + c for n in names for c in EXC[n]) + ']'
        else:
            self.fail(s, f'handler for `{", ".join(names)}`')
        if not self.monadic:
            raise NeedMonad()
        ind = lambda ls: ['  ' + x for x in ls]   # noqa: E731
        if has_return(s.body):      # every path of BODY must return or raise: the `try` ends the function

            def through(e):
                self.fail(s, 'a path of the try body both falls through and another returns')
            body = self.block(s.body, env, Tail([], through))
            body[-1] += ')'
            return [f'{wrap} (do'] + ind(body)
        later = reads(rest) | set(tail.names)
        merged = [n for n in assigned(s.body) if n in later]
        ends = []

        def make(e):
            for n in merged:
                if n not in e:
                    self.fail(s, f'`{n}` is read later but not bound on every path of the try body')
            ends.append([e[n] for n in merged])
            return ['pure (' + ', '.join(e[n].lean for n in merged) + ')']
        self.fresh += 1
        m = f"m{self.fresh}'"
        body = self.block(s.body, env, Tail(merged, make))
        body[-1] += ')'
        typ = ' × '.join(lean_type(x.type) for x in ends[0]) if merged else 'Unit'
        lines = [f'let {m} : {typ} ← {wrap} (do'] + ind(body)
        for i, (n, x) in enumerate(zip(merged, ends[0])):
            proj = m if len(merged) == 1 else m + ''.join(['.2'] * i) + ('.1' if i < len(merged) - 1 else '')
            env, line = self.bind(env, n, V(proj, x.type, x.lits))
            lines.append(line)
        return lines + self.block(rest, env, tail)

    def if_(self, s, rest, env, tail):
        st = self.static(s.test, env)
        if st is not None:      # decided by a specialised argument: only the branch taken is translated
            skipped = s.orelse if st else s.body
            if skipped:
                self.notes.append(f'line {s.lineno}: `{ast.unparse(s.test)}` is {st} here; lines '
                                  f'{skipped[0].lineno}-{skipped[-1].end_lineno} are not translated')
            return self.block((s.body if st else s.orelse) + rest, env, tail)
        c = self.test(s.test, env)
        pre = self.take_pre()
        ind = lambda ls: ['  ' + x for x in ls]   # noqa: E731
        if has_return([s]):
            a = self.block(s.body + rest, env, tail)
            b = self.block(s.orelse + rest, env, tail)
            return pre + [f'if {c} then'] + ind(a) + ['else'] + ind(b)
        later = reads(rest) | set(tail.names)
        merged = [n for n in assigned(s.body + s.orelse) if n in later]
        ends = []

        def make(e):
            for n in merged:
                if n not in e:
                    self.fail(s, f'`{n}` is read later but bound on one path only')
            ends.append([e[n] for n in merged])
            return ['(' + ', '.join(e[n].lean for n in merged) + ')'] if merged else ['()']
        self.fresh += 1
        m = f"m{self.fresh}'"
        a = self.block(s.body, env, Tail(merged, make))
        b = self.block(s.orelse, env, Tail(merged, make))
        if not merged:          # no effect on what follows (the branches were still checked against the subset)
            return self.block(rest, env, tail)
        for n, x, y in zip(merged, ends[0], ends[1]):
            if x.type != y.type:
                self.fail(s, f'`{n}` is {x.type} on one path and {y.type} on the other')
        typ = ' × '.join(lean_type(x.type) for x in ends[0])
        if any('←' in ln or 'throw ' in ln for ln in a + b):       # a branch can raise: the merge is a bind
            a[-1], b[-1] = 'pure ' + a[-1], 'pure ' + b[-1]
            lines = pre + [f'let {m} : {typ} ← (', f'  if {c} then do'] + ind(ind(a)) + ['  else do'] + ind(ind(b))
        else:
            lines = pre + [f'let {m} : {typ} := (', f'  if {c} then'] + ind(ind(a)) + ['  else'] + ind(ind(b))
        lines[-1] += ')'
        for i, (n, x, y) in enumerate(zip(merged, ends[0], ends[1])):
            proj = m if len(merged) == 1 else m + ''.join(['.2'] * i) + ('.1' if i < len(merged) - 1 else '')
            lits = x.lits | y.lits if x.lits is not None and y.lits is not None else None
            env, line = self.bind(env, n, V(proj, x.type, lits))
            lines.append(line)
        return lines + self.block(rest, env, tail)

    def translate(self):
        a, t = self.func.args, self.t
        decos = [ast.unparse(d) for d in self.func.decorator_list]
        first = {(): ['self'], ('classmethod',): ['cls'], ('staticmethod',): []}.get(tuple(decos)) if t.cls else []
        names = [x.arg for x in a.args]
        if first is None or a.vararg or a.kwarg or a.kwonlyargs or a.posonlyargs or names != first + list(t.args or {}):
            self.fail(self.func, f'signature ({", ".join(names)}) / decorators {decos} differ from the declared ones')
        defaults = dict(zip(names[len(names) - len(a.defaults):], a.defaults))
        env = {}
        for n, typ in (t.args or {}).items():
            if typ == 'None':       # specialised to the default, which must be None
                if not (n in defaults and isinstance(defaults[n], ast.Constant) and defaults[n].value is None):
                    self.fail(self.func, f'argument `{n}` is specialised to None but its default is not None')
                env[n] = V('()', 'None', None)
            else:
                env[n] = self.param(lname(n), typ)
        self.nargs = len(self.used)

        def off_end(env):
            self.fail(self.func, 'a path reaches the end of the function without `return`')
        saved = list(self.used)
        try:
            return self.block(self.func.body, env, Tail([], off_end))
        except NeedMonad:
            self.monadic, self.used, self.rtype, self.fresh, self.pre, self.notes = True, saved, None, 0, [], []
            return self.block(self.func.body, env, Tail([], off_end))


# ---------------------------------------------------------------- driver

PARAM_DOC = {'TD': 'timedelta, whole seconds', 'PyDate': 'date: year month day', 'OptStr': 'str or None',
             'PyDateTime': 'datetime: year month day hour minute second', 'Int': 'int', 'Bool': 'bool', 'Str': 'str',
             'StrList': 'list of str'}
RETURN_DOC = {'Bytes': 'bytes (as the str they encode)', 'TD': 'a timedelta', 'PyDate': 'a date', 'PyTime': 'a time',
              'PyDateTime': 'a datetime'}
HEADERS = {
    'enc': ['/- GENERATED by tools/py2lean.py (called from tools/extract.py) from the function bodies in',
            '   src/icalendar. Do not edit: regenerated on every run; lean/ICal/Lemmas/Bodies.lean proves each',
            '   definition equal to the hand-written model.',
            '   Conventions: str = code points (Str); a bytes value is represented by the str it encodes, so',
            "   `.encode('utf-8')` is the identity and bytes literals are ASCII; int = Int; `//`, `%`, truthiness,",
            '   `{x:0N}`, `%s` and timedelta are the definitions of ICal/Model/PyRT.lean.  Every `self.<attr>` and',
            '   every call of external code is a PARAMETER of the definition, named in its comment. -/',
            'import ICal.Model.PyRT', 'namespace ICal.Gen.Bodies', 'open ICal ICal.PyRT', ''],
    'dec': ['/- GENERATED by tools/py2lean.py (called from tools/extract.py) from the DECODER bodies in',
            '   src/icalendar/prop.py. Do not edit: regenerated on every run; lean/ICal/Lemmas/BodiesDec.lean proves',
            '   each definition equal to the hand-written model.',
            '   Conventions as in Gen/Bodies.lean.  A function that can raise is `Py T = Except Exc T`; exceptions',
            '   come only from the partial runtime functions of ICal/Model/PyRTDec.lean (`int(str)` is the `pyInt`',
            '   of the hand model, `date/time/datetime(...)` use its `validDate`/`okTime`) and from',
            '   `raise ValueError(...)`; `try .. except <classes>: raise ValueError` is `remap`/`remapAll`.',
            '   Arguments, external calls and regex match objects are PARAMETERS, named in each comment. -/',
            'import ICal.Model.PyRTDec', 'set_option linter.unusedVariables false', 'namespace ICal.Gen.BodiesDec',
            'open ICal ICal.PyRT', ''],
    'parser': ['/- GENERATED by tools/py2lean.py (called from tools/extract.py) from function bodies in',
               '   src/icalendar/parser.py. Do not edit: regenerated on every run; lean/ICal/Lemmas/BodiesParser.lean',
               '   proves each definition equal to the hand-written model.  Conventions as in Gen/Bodies.lean;',
               '   `REGEX.search(s)` is a predicate PARAMETER (Str -> Bool), named in each comment. -/',
               'import ICal.Model.PyRT', 'namespace ICal.Gen.BodiesParser', 'open ICal ICal.PyRT', ''],
}
NAMESPACE = {'enc': 'ICal.Gen.Bodies', 'dec': 'ICal.Gen.BodiesDec', 'parser': 'ICal.Gen.BodiesParser'}


def comment_safe(s):
    return s.replace('-/', '- /').replace('/-', '/ -')


def translate(src_dir, group='enc'):
    out = list(HEADERS[group])
    fps, registry, trees = {}, {}, {}
    for t in TARGETS:
        if t.group != group:
            continue
        if t.file not in trees:
            trees[t.file] = X.parse(os.path.join(src_dir, t.file))
        qual = f'{t.file[:-3]}.' + (f'{t.cls}.' if t.cls else '') + t.fn
        try:
            cls = X.find_class(trees[t.file], t.cls) if t.cls else None
            func = X.find_func(trees[t.file], t.fn, t.cls)
        except X.Untranslatable as e:
            raise Untranslatable(f'{qual}: {e}')
        fp = X.fingerprint(func)
        fps[qual] = fp
        fn = Fn(t, cls, func, registry, module_bindings(trees[t.file]))
        fn.tree = trees[t.file]
        try:
            body = fn.translate()
        except Untranslatable as e:
            if not t.optional:
                raise
            out += [f'/- NOT TRANSLATED `{qual}` (AST fingerprint {fp}): outside the subset:',
                    f'   {comment_safe(str(e))} -/', '']
            continue
        registry[(t.cls, t.fn)] = Done(t.lean, list(fn.used), fn.rtype, fn.monadic, fn.nargs)
        src_of = {p: f'self.{a}' for a, (p, _) in t.self_attrs.items()}
        src_of.update({lname(a): f'argument {a}' for a in (t.args or {})})
        for f, e in t.externals.items():
            if not isinstance(e[0], str):
                src_of[e[1]] = f'{f}({", ".join(e[0])})'
            elif e[0] == 'fun':
                src_of[e[1]] = f'the function {f}'
            elif e[0] == 'pred':
                src_of[e[1]] = f'bool({f}(s))'
            elif e[0] == 'match':
                src_of[e[1]] = f'{f}(..): None or the groups'
        src_of['self'] = f'self (a {t.cls} is an int)'
        pdoc = '; '.join(f'`{p}` = `{src_of.get(p, "parameter of a callee")}` ({PARAM_DOC.get(ty, ty)})'
                         for p, ty in fn.used) or 'none'
        out.append(f'/-- `{qual}` (AST fingerprint {fp}).  Parameters: {comment_safe(pdoc)}.')
        for n, typ in (t.args or {}).items():
            if typ == 'None':
                out.append(f'    SPECIALISED to `{n}` = None (its default).')
        for note in fn.notes:
            out.append('    ' + comment_safe(note) + '.')
        rdoc = RETURN_DOC.get(fn.rtype, fn.rtype.lower())
        out.append(f'    Returns {rdoc}{"; can raise (Py)" if fn.monadic else ""}. -/')
        sig = ''.join(f' ({p} : {lean_type(ty)})' for p, ty in fn.used)
        rt = lean_type(fn.rtype)
        out.append(f'def {t.lean}{sig} : {"Py " + rt if fn.monadic else rt} :=' + (' do' if fn.monadic else ''))
        out += ['  ' + ln for ln in body]
        out.append('')
    out.append(f'end {NAMESPACE[group]}')
    return '\n'.join(out) + '\n', fps


def main(argv):
    src = argv[argv.index('--src') + 1] if '--src' in argv else X.SRC
    group = argv[argv.index('--group') + 1] if '--group' in argv else 'enc'
    try:
        text, fps = translate(src, group)
    except (X.Untranslatable, SyntaxError, OSError) as e:
        print(f'{type(e).__name__}: {e}', file=sys.stderr)
        return 3
    if '--out' in argv:
        X.write_if_changed(argv[argv.index('--out') + 1], text)
    else:
        sys.stdout.write(text)
    return 0


if __name__ == '__main__':
    sys.exit(main(sys.argv[1:]))
